#!/usr/bin/env python3
# tools/py2coq_denseonline.py [REPO_ROOT] OUT.v [--print-digests]
# FAIL-CLOSED translator: the dense-time ONLINE operation classes
#     rtamt/semantics/{stl,arithmetic,iastl}/dense_time/online/*_operation.py      ->  coq/theories/DenseOnlineGen.v
# For every translated class X(AbstractDenseTimeOnlineOperation) (or X(Base) with Base a class translated before: the IA predicate):
#   Record X_state         one field per `self.f = ..` of __init__ (`base` = the attributes of the base class)
#   X_init                 the state __init__ builds, a function of the parameters of __init__ (INIT_PARAM_TYPES)
#   gen_X_update           update(self [, batch [, batch]]) : X_state -> psig .. -> option (X_state * psig)   (None = the code raises)
#   gen_X_sat              (predicate) sat(self, l, r)      : X_state -> psig -> psig -> option (X_state * list (T * bool))
#   gen_X_reset            reset(self)                      : X_state -> option X_state
# built only from the primitives of PySem.v / PyDense.v, by the scheme of tools/py2coq_offline.py (continuation style, option monad,
# A-normal form, for = py_for over a state tuple, if = Coq if returning the tuple of assigned names), extended with
#   * attributes: `self.f` is a variable self_f, read from the record at the start and written back at `return`; an attribute that
#     __init__ does not create is local to one update (it has to be assigned before it is read);
#   * types: int (Z), val (V), stamp (T), bool, sample (T*V: `[t, v]`; x[0] = fst, x[1] = snd), osample (option: [] or a sample,
#     truthiness = is Some, o[k] = IndexError on []), sig (list of samples), bsample / bsig (T*bool: the samples of sat()),
#     piece (T*T*V: `(lo, hi, v)`) / pieces, xstamp (residual_start: -inf | a stamp | +inf), cmp / sem (members of the two enumerations,
#     compared by .value / ==; the enumeration classes are pinned by digest), names (in_vars / out_vars: only their truth is used),
#     obj:X (an object of a translated class: self.f.update(..) = gen_X_update on the record; Base.m(self, ..) = gen_Base_m on self.base);
#     the type of an attribute comes from FIELD_TYPES / CLASS_FIELD_TYPES and every use is checked;
#   * stamps: `t + n` = tadd t n, the literal 0 = tzero, float("inf") as a stamp = tinf: extra parameters of gen_X_update (only those it uses);
#   * `and`/`or` short-circuit also when an operand may raise; a chained comparison a <= b < c is the conjunction (pure operands only);
#     `while` = py_while with the fuel  sum of len(x) for the len(x) of its condition, or len(x) for the single `del x[i]` of its body;
#   * `float("nan")`: a variable that may hold it cannot be read, except (type nval = option V, None = nan) one that is compared with != or
#     that is nan on one path of an if and a value on the others; reading such a variable as a value is nv_get (None when it is nan);
#   * in-place mutation (append, pop(0), del l[i]) only of a list object this update created and has not aliased, or received by
#     `x = self.f ; self.f = []` from an attribute whose list nobody else refers to (OWNED, checked by check_owned);
#   * `*args, **kargs` of update may only be passed on to the update of a sub-object; they are empty in the model.
# `intersect.intersection(a, b, intersect.M)` becomes a call of the HAND model DenseOnlineMerge.oisect_g (intersection() and _append() stay
# hand-modelled: they are pinned by digest) with gen_m_M, the translation of `def M(a, b): return E` at the end of intersection.py;
# `intersect.intersects(x1, x2, y1, y2)` becomes PyDense.py_intersects (hand model, pinned).
# NOT modelled (as in the hand models): exceptions of float arithmetic inside those functions (ZeroDivisionError, ValueError of log/power).
# Whatever is not supported: exit code 2 with file:line.  Every *_operation.py in the three directories has to be either translated
# or pinned by the digest of its syntax tree (variable_operation.py); update_final / sat_final of a translated class are pinned too.
import ast, glob, hashlib, os, sys

D_STL, D_AR, D_IA = ('rtamt/semantics/stl/dense_time/online', 'rtamt/semantics/arithmetic/dense_time/online',
                     'rtamt/semantics/iastl/dense_time/online')
ISECT = D_STL + '/intersection.py'
BASE = 'AbstractDenseTimeOnlineOperation'
# (file, class) in the order of the generated text
TRANSLATED = [(D_STL + '/and_operation.py', 'AndOperation'), (D_STL + '/or_operation.py', 'OrOperation'),
              (D_STL + '/implies_operation.py', 'ImpliesOperation'), (D_STL + '/iff_operation.py', 'IffOperation'),
              (D_STL + '/xor_operation.py', 'XorOperation'), (D_AR + '/addition_operation.py', 'AdditionOperation'),
              (D_AR + '/subtraction_operation.py', 'SubtractionOperation'), (D_AR + '/multiplication_operation.py', 'MultiplicationOperation'),
              (D_AR + '/division_operation.py', 'DivisionOperation'), (D_AR + '/pow_operation.py', 'PowOperation'),
              (D_AR + '/log_operation.py', 'LogOperation'),
              (D_STL + '/not_operation.py', 'NotOperation'), (D_AR + '/abs_operation.py', 'AbsOperation'),
              (D_AR + '/negate_operation.py', 'NegateOperation'), (D_AR + '/sqrt_operation.py', 'SqrtOperation'),
              (D_AR + '/exp_operation.py', 'ExpOperation'), (D_AR + '/ln_operation.py', 'LnOperation'),
              (D_STL + '/once_operation.py', 'OnceOperation'), (D_STL + '/historically_operation.py', 'HistoricallyOperation'),
              (D_STL + '/always_operation.py', 'AlwaysOperation'), (D_STL + '/since_operation.py', 'SinceOperation'),
              (D_STL + '/once_timed_operation.py', 'OnceTimedOperation'), (D_STL + '/historically_timed_operation.py', 'HistoricallyTimedOperation'),
              (D_STL + '/since_timed_operation.py', 'SinceTimedOperation'), (D_STL + '/constant_operation.py', 'ConstantOperation'),
              (D_STL + '/predicate_operation.py', 'PredicateOperation'), (D_IA + '/predicate_operation.py', 'PredicateOperation')]
XNAME = {D_IA + '/predicate_operation.py': 'IAPredicate'}       # the name of the generated definitions when it is not the class name without `Operation`
# the enumerations the predicate classes compare by .value / by identity: the members have to stay distinct (digest of the class)
ENUMS = {'rtamt/semantics/enumerations/comp_oper.py': ('StlComparisonOperator', '5c8af1a2edb7',
             {'LESS': 'CLt', 'LEQ': 'CLeq', 'EQ': 'CEq', 'NEQ': 'CNeq', 'GREATER': 'CGt', 'GEQ': 'CGeq'}),
         'rtamt/semantics/enumerations/options.py': ('Semantics', 'a8c6965af4ee',
             {'STANDARD': 'Standard', 'OUTPUT_ROBUSTNESS': 'OutputRobustness', 'INPUT_VACUITY': 'InputVacuity', 'INPUT_ROBUSTNESS': 'InputRobustness',
              'OUTPUT_VACUITY': 'OutputVacuity'})}
ENUM_OF = {'StlComparisonOperator': ('cmp', ENUMS['rtamt/semantics/enumerations/comp_oper.py'][2]), 'Semantics': ('sem', ENUMS['rtamt/semantics/enumerations/options.py'][2])}
# classes that are not translated (variable_operation.py: update() returns an attribute nothing in rtamt ever sets; the monitor never calls it): digest of the whole file
PINNED = {D_STL + '/variable_operation.py': '8782415663a3',
          }
# functions of intersection.py: hand-modelled or used by pinned classes only (digest) / translated (`def M(a, b): return E`)
ISECT_PINNED = {'interval_union': 'b6bbbc8df29d', 'union': '162262a61e97', 'intersects': '5f2df0eb1150', '_append': 'fd5220a5e155', 'intersection': 'dabeaa50aea0', 'ln': '50b1574b42b1', 'split': 'f5ba653bed95'}
ISECT_METHODS = ['disjunction', 'conjunction', 'implication', 'xor', 'iff', 'addition', 'subtraction', 'multiplication', 'power', 'log',
                 'division']
ISECT_IMPORTS = {('from', 'rtamt.semantics.arithmetic', 'saturating'), ('import', 'math', None), ('from', 'rtamt', 'RTAMTException')}
# update_final / sat_final are not translated: the known texts (binary: update(..) + [self.last] or + [self.last_output]; unary: update(..);
# the bounded operations, since_timed, constant, the two predicates)
FINAL_DIGESTS = {'595895ad9749', 'bb0355283bd8', '811810d9fc4e', '4050113703ad', 'cc71ca1473d9', 'a355b7d0333b', '1e2e4b6754b6', '9956a18d21d5', 'e63850ca9943', 'a2313d3e966b'}
OK_IMPORTS = {('from', 'rtamt.semantics.enumerations.comp_oper', 'StlComparisonOperator'), ('from', 'rtamt.exception.exception', 'RTAMTException'),
              ('from', 'rtamt.semantics.enumerations.options', 'Semantics'),
              ('from', 'rtamt.semantics.abstract_dense_time_online_operation', BASE),
              ('import', 'rtamt.semantics.stl.dense_time.online.intersection', 'intersect'), ('import', 'math', None),
              ('from', 'rtamt.semantics.arithmetic', 'saturating')}
FIELD_TYPES = {'sample_left_buf': 'sig', 'sample_right_buf': 'sig', 'sample_last_buf': 'sig', 'input': 'sig',
               'last_output': 'osample', 'last': 'osample', 'prev': 'val'}
# the bounded operations: pieces (lo, hi, v); residual_start / max are -inf / +inf before the first sample (xstamp); begin, end are ints
WIN_FIELDS = {'prev': 'pieces', 'residual_start': 'xstamp', 'max': 'xstamp', 'begin': 'int', 'end': 'int', 'started': 'bool'}
# 'obj:X' = an object of the translated class X (its state record): self.f.update(..) is gen_X_update on that record
CLASS_FIELD_TYPES = {'OnceTimed': WIN_FIELDS, 'HistoricallyTimed': WIN_FIELDS,
                     'SinceTimed': {'sample_left_buf': 'sig', 'sample_right_buf': 'sig', 'begin': 'int', 'end': 'int', 'since': 'obj:Since',
                                    'hist': 'obj:HistoricallyTimed', 'once': 'obj:OnceTimed', 'andop': 'obj:And'},
                     'Constant': {'val': 'val', 'is_first_sample': 'bool'},
                     'Predicate': {'sub': 'obj:Subtraction', 'comparison_op': 'cmp', 'subtraction_output': 'sig'},
                     'IAPredicate': {'base': 'obj:Predicate', 'semantics': 'sem', 'in_vars': 'names', 'out_vars': 'names'}}
# further methods of a class: translated like update (with the type of what they return) / pinned by the digest of their text
MORE_METHODS = {'Predicate': {'sat': 'bsig'}}
MORE_PINNED = {'Predicate': {'sat_final': 'e63850ca9943'}}
# local variables whose type cannot be seen at their first assignment `x = []`
LOCAL_TYPES = {('Predicate', 'sat'): {'sample_result': 'bsig'}}
# parameters of __init__
INIT_PARAM_TYPES = {'begin': 'int', 'end': 'int', 'val': 'val', 'comparison_op': 'cmp', 'semantics': 'sem', 'in_vars': 'names', 'out_vars': 'names'}
REG = {}        # translated so far: class name -> (X, module, arity of update, extra parameters of gen_X_update, number of __init__ parameters)
EXTRA = {'tadd': ' (tadd : T -> Z -> T)', 'tzero': ' (tzero : T)', 'tinf': ' (tinf : T)'}
EXTRA_ORDER = ('tadd', 'tzero', 'tinf')
def coqty(ty): return ty[4:] + '_state T' if ty.startswith('obj:') else COQTY[ty]
# attributes that hold a list object nobody else refers to (checked by check_owned): `x = self.f` directly followed by `self.f = []`
# hands the object over to x, which may then be mutated in place
OWNED = {'OnceTimed': {'prev'}, 'HistoricallyTimed': {'prev'}}
COQTY = {'cmp': 'cmp', 'sem': 'semantics', 'names': 'list nat', 'bsig': 'list (T * bool)', 'sig': 'psig T', 'osample': 'option (psample T)', 'val': 'V', 'pieces': 'list (ppiece T)', 'xstamp': 'xstamp T', 'int': 'Z', 'bool': 'bool'}
RESERVED = set('''end match with fun let in if then else return as at cofix fix forall exists for using where Type Prop Set Some None
  top bot neg map combine rev fst snd app length repeat seq nth a1 a2 AR VS V Z T nat list option true false tt st
  Abs Sqrt Exp Ln Neg Add Sub Mul Div Pow Log vmin vmax orb andb negb bool prod pair S O nil cons tl hd firstn skipn concat
  tltb teqb ltb leb veq psig psample azero Arith Val left right inl inr eq_refl conj exist existT I Lt Gt Eq xH xI xO Z0 Zpos Zneg TInf
  Pop1 Pop2 Emit1 Emit2 Bad CLt CLeq CEq CNeq CGt CGeq cmp semantics Standard OutputRobustness InputVacuity InputRobustness OutputVacuity tadd tzero tinf XNeg XFin XPos ppiece xstamp'''.split())

PATH = '?'
def fail(node, msg):
    sys.stderr.write('%s:%s: py2coq_denseonline: %s\n' % (PATH, getattr(node, 'lineno', '?'), msg))
    sys.exit(2)

def digest(node):
    return hashlib.sha256(ast.unparse(node).encode()).hexdigest()[:12]

def is_name(e, s): return isinstance(e, ast.Name) and e.id == s
def is_selfattr(e): return isinstance(e, ast.Attribute) and is_name(e.value, 'self')
def is_float(e, s):    # float("inf") / float("nan")
    return (isinstance(e, ast.Call) and is_name(e.func, 'float') and len(e.args) == 1 and not e.keywords
            and isinstance(e.args[0], ast.Constant) and e.args[0].value == s)
def key(e):            # the environment key of a variable expression: 'x' or 'self.f'
    if isinstance(e, ast.Name): return e.id
    if is_selfattr(e): return 'self.' + e.attr
    return None

def assigned(stmts):
    """environment keys a statement list (re)binds or mutates"""
    out = set()
    for s in stmts:
        if isinstance(s, ast.Assign):
            for t in s.targets:
                for n in (t.elts if isinstance(t, ast.Tuple) else [t]):
                    if key(n): out.add(key(n))
        elif isinstance(s, ast.AugAssign) and key(s.target): out.add(key(s.target))
        elif isinstance(s, ast.Expr) and isinstance(s.value, ast.Call) and isinstance(s.value.func, ast.Attribute) \
                and key(s.value.func.value): out.add(key(s.value.func.value))
        elif isinstance(s, ast.Delete):
            for t in s.targets:
                if isinstance(t, ast.Subscript) and key(t.value): out.add(key(t.value))
        elif isinstance(s, (ast.For, ast.While)): out |= assigned(s.body)
        elif isinstance(s, ast.If): out |= assigned(s.body) | assigned(s.orelse)
    return out

class Var:
    def __init__(self, ty, fresh=False, const=None): self.ty, self.fresh, self.const = ty, fresh, const

class Tr:
    """translation of expressions / statements of one function"""
    def __init__(self, fd):
        self.fd, self.ntmp = fd, 0
        self.uses, self.ftypes, self.owned, self.classes, self.star = set(), FIELD_TYPES, set(), {}, []
        self.enums, self.ltypes, self.base, self.rettype = set(), {}, None, 'sig'
        # names that are an operand of some comparison: `x = float("nan")` makes such an x an option (None = nan), see 'nval'
        # local names that are somewhere assigned a sample display [t, v]: `x = []` makes such an x an []-or-sample
        self.osnames = {t.id for n in ast.walk(fd) if isinstance(n, ast.Assign) and isinstance(n.value, ast.List) and len(n.value.elts) == 2 and not all(isinstance(x, ast.List) for x in n.value.elts)
                        for t in n.targets if isinstance(t, ast.Name)}
        self.cmpnames = {o.id for n in ast.walk(fd) if isinstance(n, ast.Compare) for o in [n.left] + n.comparators if isinstance(o, ast.Name)}
        self.pynames = {n.id for n in ast.walk(fd) if isinstance(n, ast.Name)} | {a.arg for a in ast.walk(fd) if isinstance(a, ast.arg)} \
                       | {'self_' + n.attr for n in ast.walk(fd) if is_selfattr(n)}

    def nm(self, k):
        s = 'self_' + k[5:] if k.startswith('self.') else k
        r = s + '_' if (s in RESERVED or s.startswith(('py_', 'os_', 'ts_', 'xs_', 'nv_', 'gen_', 'oisect', 'mk_'))) else s
        if not k.startswith('self.') and s.startswith('self_'): fail(self.fd, 'local name %s clashes with the attributes' % s)
        if r != s and r in self.pynames: fail(self.fd, 'cannot rename %s: %s is also used' % (s, r))
        return r
    def tmp(self):
        while True:
            self.ntmp += 1
            t = 't%d' % self.ntmp
            if t not in self.pynames: return t

    def look(self, e, env):
        k = key(e)
        if k not in env: fail(e, '%s is not certainly bound here' % k)
        if env[k].ty == 'nanval': fail(e, '%s may be float("nan") here' % k)
        return env[k]

    # ---------- expressions: (binds, term, type, fresh)
    def expr(self, e, env):
        if key(e) is not None and not (isinstance(e, ast.Name) and e.id == 'self'):
            v = self.look(e, env)
            return [], self.nm(key(e)), v.ty, False
        if isinstance(e, ast.Constant) and type(e.value) is int and e.value >= 0: return [], str(e.value), 'int', False
        if isinstance(e, ast.Constant) and type(e.value) is bool: return [], 'true' if e.value else 'false', 'bool', False
        if is_float(e, 'inf'): return [], 'top', 'val', False
        if is_float(e, 'nan'): return [], '?nan', 'nanval', False
        if isinstance(e, ast.Attribute) and isinstance(e.value, ast.Name) and e.value.id in ENUM_OF and e.value.id in self.enums and e.value.id not in env:
            ty, members = ENUM_OF[e.value.id]                    # StlComparisonOperator.EQ / Semantics.STANDARD
            if e.attr not in members: fail(e, 'unknown member %s.%s' % (e.value.id, e.attr))
            return [], members[e.attr], ty, False
        if isinstance(e, ast.Attribute) and e.attr == 'value':    # <comparison operator>.value: the members have different values (pinned)
            b, t, ty, _ = self.expr(e.value, env)
            if ty != 'cmp': fail(e, '.value of %s' % ty)
            return b, t, 'cmpv', False
        if isinstance(e, ast.IfExp):
            bc, tc = self.cond(e.test, env)
            b1, t1, y1, _ = self.expr(e.body, env); b2, t2, y2, _ = self.expr(e.orelse, env)
            if b1 or b2 or y1 != y2 or y1 not in ('bool', 'val'): fail(e, 'conditional expression on %s / %s (or one whose branches may raise)' % (y1, y2))
            return bc, '(if %s then %s else %s)' % (tc, t1, t2), y1, False
        if isinstance(e, ast.UnaryOp) and isinstance(e.op, ast.USub):
            if is_float(e.operand, 'inf'): return [], 'bot', 'val', False
            b, t, ty, _ = self.expr(e.operand, env)
            if ty == 'int': return b, '(- %s)' % t, 'int', False
            if ty == 'val': return b, '(neg %s)' % t, 'val', False
            fail(e, 'unary minus on %s' % ty)
        if isinstance(e, ast.UnaryOp) and isinstance(e.op, ast.Not):
            b, t = self.cond(e.operand, env)
            return b, '(negb %s)' % t, 'bool', False
        if isinstance(e, ast.BinOp):
            b1, t1, y1, _ = self.expr(e.left, env); b2, t2, y2, _ = self.expr(e.right, env)
            k, b = type(e.op).__name__, b1 + b2
            if (y1, y2) == ('int', 'int') and k in ('Add', 'Sub'): return b, '(%s %s %s)' % (t1, '+' if k == 'Add' else '-', t2), 'int', False
            if (y1, y2) == ('val', 'val') and k in ('Add', 'Sub', 'Mult', 'Div'):
                return b, '(a2 AR %s %s %s)' % ({'Mult': 'Mul'}.get(k, k), t1, t2), 'val', False
            if (y1, y2) == ('sig', 'sig') and k == 'Add': return b, '(%s ++ %s)' % (t1, t2), 'sig', True
            if (y1, y2) == ('stamp', 'int') and k == 'Add':
                self.uses.add('tadd'); return b, '(tadd %s %s)' % (t1, t2), 'stamp', False
            fail(e, 'operator %s on %s, %s' % (k, y1, y2))
        if isinstance(e, ast.BoolOp):
            parts = [self.cond(v, env) for v in e.values]
            isand = isinstance(e.op, ast.And)
            if not any(p[0] for p in parts): return [], '(%s)' % (' && ' if isand else ' || ').join(p[1] for p in parts), 'bool', False
            def chain(ps):          # short circuit: a later operand is evaluated (and may raise) only when the earlier ones do not decide
                pre = ''.join('%s <- %s ;; ' % bt for bt in ps[0][0])
                if len(ps) == 1: return pre + 'Some %s' % ps[0][1]
                rest = chain(ps[1:])
                return pre + ('if %s then (%s) else Some false' % (ps[0][1], rest) if isand else 'if %s then Some true else (%s)' % (ps[0][1], rest))
            x = self.tmp()
            return [(x, '(%s)' % chain(parts))], x, 'bool', False
        if isinstance(e, ast.Compare):
            if len(e.ops) != 1:
                # a <= b < c: the operands are evaluated once, from left to right; here only operands that cannot raise
                ops_ = [self.expr(x, env) for x in [e.left] + e.comparators]
                if any(o[0] for o in ops_): fail(e, 'chained comparison whose operands may raise')
                parts = [self.compare(e, type(op).__name__, ops_[i][1], ops_[i][2], ops_[i + 1][1], ops_[i + 1][2]) for i, op in enumerate(e.ops)]
                return [], '(%s)' % ' && '.join(parts), 'bool', False
            b1, t1, y1, _ = self.expr(e.left, env); b2, t2, y2, _ = self.expr(e.comparators[0], env)
            return b1 + b2, self.compare(e, type(e.ops[0]).__name__, t1, y1, t2, y2), 'bool', False
        if isinstance(e, ast.List):
            if not e.elts: return [], '?empty', 'empty', True
            if len(e.elts) >= 1 and all(isinstance(x, ast.List) and len(x.elts) == 2 for x in e.elts):      # [[t, v], [t', v'], ..]
                xs = [self.expr(x, env) for x in e.elts]
                if any(x[2] != 'sample' for x in xs): fail(e, 'list of things that are not samples')
                return sum((x[0] for x in xs), []), '[%s]' % '; '.join(x[1] for x in xs), 'sig', True
            if len(e.elts) != 2: fail(e, 'list display that is neither [] nor a sample [t, v]')
            b1, t1, y1, _ = self.expr(e.elts[0], env); b2, t2, y2, _ = self.expr(e.elts[1], env)
            if y1 != 'stamp': b1, t1 = self.as_stamp(e, b1, t1, y1); y1 = 'stamp'
            if y2 == 'bool': return b1 + b2, '(%s, %s)' % (t1, t2), 'bsample', True
            if y2 == 'nval':          # a value that may be float("nan"): not a value of the model, None (the correctness proof shows the branch is dead)
                x = self.tmp(); b2 = b2 + [(x, 'nv_get %s' % t2)]; t2, y2 = x, 'val'
            if y2 == 'int' and isinstance(e.elts[1], ast.Name) and env[e.elts[1].id].const == 0: t2, y2 = '(azero AR)', 'val'     # x = 0 ... [t, x]
            if (y1, y2) != ('stamp', 'val'): fail(e, 'sample display [%s, %s]' % (y1, y2))
            return b1 + b2, '(%s, %s)' % (t1, t2), 'sample', True
        if isinstance(e, ast.Tuple):          # a piece (lo, hi, v)
            if len(e.elts) != 3: fail(e, 'tuple display that is not a piece (lo, hi, v)')
            xs = [self.expr(x, env) for x in e.elts]
            b1, t1 = self.as_stamp(e, xs[0][0], xs[0][1], xs[0][2]); b2, t2 = self.as_stamp(e, xs[1][0], xs[1][1], xs[1][2])
            if xs[2][2] != 'val': fail(e, 'piece display with a %s as value' % xs[2][2])
            return b1 + b2 + xs[2][0], '(%s, %s, %s)' % (t1, t2, xs[2][1]), 'piece', True
        if isinstance(e, ast.Subscript):
            b, t, ty, _ = self.expr(e.value, env)
            if isinstance(e.slice, ast.Slice):
                if ty != 'sig' or e.slice.step is not None: fail(e, 'slice of %s / with a step' % ty)
                bs, ts = list(b), []
                for part in (e.slice.lower, e.slice.upper):
                    if part is None: ts.append('None')
                    else:
                        bp, tp, yp, _ = self.expr(part, env)
                        if yp != 'int': fail(e, 'slice bound of type %s' % yp)
                        bs += bp; ts.append('(Some %s)' % tp)
                return bs, '(py_slice %s %s %s)' % (t, ts[0], ts[1]), 'sig', True
            if ty in ('sig', 'pieces', 'bsig'):
                bi, ti, yi, _ = self.expr(e.slice, env)
                if yi != 'int': fail(e, 'subscript %s[%s]' % (ty, yi))
                x = self.tmp()
                return b + bi + [(x, 'py_get %s %s' % (t, ti))], x, {'sig': 'sample', 'pieces': 'piece', 'bsig': 'bsample'}[ty], False
            if ty == 'bsample':
                if not (isinstance(e.slice, ast.Constant) and e.slice.value in (0, 1) and type(e.slice.value) is int): fail(e, 'a sample is indexed by the literals 0 and 1 only')
                return b, '(%s %s)' % ('fst' if e.slice.value == 0 else 'snd', t), 'stamp' if e.slice.value == 0 else 'bool', False
            if ty == 'piece':
                if not (isinstance(e.slice, ast.Constant) and e.slice.value in (0, 1, 2) and type(e.slice.value) is int):
                    fail(e, 'a piece is indexed by the literals 0, 1 and 2 only')
                return b, '(%s %s)' % (['pp_lo', 'pp_hi', 'pp_v'][e.slice.value], t), 'val' if e.slice.value == 2 else 'stamp', False
            if ty in ('sample', 'osample'):
                if not (isinstance(e.slice, ast.Constant) and e.slice.value in (0, 1) and type(e.slice.value) is int):
                    fail(e, 'a sample is indexed by the literals 0 and 1 only')
                if ty == 'osample':
                    x = self.tmp(); b = b + [(x, 'os_get %s' % t)]; t = x
                return b, '(%s %s)' % ('fst' if e.slice.value == 0 else 'snd', t), 'stamp' if e.slice.value == 0 else 'val', False
            fail(e, 'subscript of %s' % ty)
        if isinstance(e, ast.Call): return self.call(e, env)
        fail(e, 'unsupported expression %s' % type(e).__name__)

    def compare(self, e, k, t1, y1, t2, y2):
        if (y1, y2) == ('val', 'int') and t2 == '0': t2, y2 = '(azero AR)', 'val'
        if (y1, y2) == ('int', 'val') and t1 == '0': t1, y1 = '(azero AR)', 'val'
        if (y1, y2) == ('stamp', 'int') and t2 == '0': self.uses.add('tzero'); t2, y2 = 'tzero', 'stamp'
        if (y1, y2) == ('int', 'stamp') and t1 == '0': self.uses.add('tzero'); t1, y1 = 'tzero', 'stamp'
        if (y1, y2) in (('cmpv', 'cmpv'), ('sem', 'sem')) and k == 'Eq': return '(%s %s %s)' % ('cmp_eqb' if y1 == 'cmpv' else 'sem_eqb', t1, t2)
        if (y1, y2) == ('bool', 'bool') and k == 'Eq' and t2 == 'true': return '(Bool.eqb %s true)' % t1
        if (y1, y2) == ('val', 'nval') and k == 'NotEq': return '(nv_neq %s %s)' % (t1, t2)       # x != prev, prev = nan or a value
        if (y1, y2) == ('stamp', 'xstamp'): t1, y1 = '(XFin %s)' % t1, 'xstamp'
        if (y1, y2) == ('xstamp', 'stamp'): t2, y2 = '(XFin %s)' % t2, 'xstamp'
        if y1 != y2 or y1 not in ('int', 'val', 'stamp', 'xstamp'): fail(e, 'comparison of %s and %s' % (y1, y2))
        if y1 == 'int':
            ops = {'LtE': '<=?', 'Lt': '<?', 'GtE': '>=?', 'Gt': '>?', 'Eq': '=?'}
            if k not in ops: fail(e, 'comparison %s on ints' % k)
            return '(%s %s %s)' % (t1, ops[k], t2)
        lt, eq = {'val': ('ltb %s %s', 'veq %s %s'), 'stamp': ('tltb %s %s', 'teqb %s %s'),
                  'xstamp': ('xs_ltb tltb %s %s', 'xs_eqb teqb %s %s')}[y1]
        L = lambda a, c: lt % (a, c)
        Q = lambda a, c: eq % (a, c)
        form = {'Lt': '(' + L(t1, t2) + ')', 'Gt': '(' + L(t2, t1) + ')', 'Eq': '(' + Q(t1, t2) + ')',
                'NotEq': '(negb (' + Q(t1, t2) + '))',
                'LtE': '(negb (ltb %s %s))' % (t2, t1) if y1 == 'val' else '(%s || %s)' % (L(t1, t2), Q(t1, t2)),
                'GtE': '(negb (ltb %s %s))' % (t1, t2) if y1 == 'val' else '(%s || %s)' % (L(t2, t1), Q(t1, t2))}
        if k not in form: fail(e, 'comparison %s' % k)
        return form[k]

    def as_stamp(self, e, b, t, ty):
        """t : ty where a stamp is expected (the first component of a sample or a piece)"""
        if ty == 'stamp': return b, t
        if ty == 'int' and t == '0': self.uses.add('tzero'); return b, 'tzero'
        if ty == 'val' and t == 'top': self.uses.add('tinf'); return b, 'tinf'          # float("inf") as the stamp of a sample
        if ty == 'xstamp':          # -inf / +inf cannot be the stamp of a sample of the model: None (the correctness proof shows it does not happen)
            x = self.tmp(); return b + [(x, 'xs_get %s' % t)], x
        fail(e, '%s where a time stamp is expected' % ty)

    def call(self, e, env):
        f = e.func
        if e.keywords: fail(e, 'keyword arguments')
        if isinstance(f, ast.Attribute) and isinstance(f.value, ast.Name) and f.value.id not in env:
            k = (f.value.id, f.attr)
            args = [self.expr(a, env) for a in e.args]
            b, tys = sum((a[0] for a in args), []), [a[2] for a in args]
            if k == ('saturating', 'exp') and tys == ['val']: return b, '(a1 AR Exp %s)' % args[0][1], 'val', False
            if k == ('saturating', 'power') and tys == ['val', 'val']: return b, '(a2 AR Pow %s %s)' % (args[0][1], args[1][1]), 'val', False
            if k == ('math', 'log') and tys == ['val', 'val']: return b, '(a2 AR Log %s %s)' % (args[0][1], args[1][1]), 'val', False
            if k in (('math', 'log'), ('math', 'sqrt')) and tys == ['val']:
                x = self.tmp()
                return b + [(x, '%s AR %s' % ('py_ln' if f.attr == 'log' else 'py_sqrt', args[0][1]))], x, 'val', False
            if k == ('intersect', 'intersects') and tys == ['stamp'] * 4 and self.uses_isect:     # hand-modelled (pinned): x1 <= y2 and y1 <= x2
                return b, '(py_intersects tltb teqb %s)' % ' '.join(a[1] for a in args), 'bool', False
            fail(e, 'unknown function %s.%s(%s)' % (k[0], k[1], ', '.join(tys)))
        if not isinstance(f, ast.Name) or f.id in env: fail(e, 'unsupported call')
        args = [self.expr(a, env) for a in e.args]
        b, tys = sum((a[0] for a in args), []), [a[2] for a in args]
        if f.id == 'list' and not args: return [], '?empty', 'empty', True
        if f.id in self.classes:           # ClassName(args): a fresh object of a translated class
            X2, _, _, _, nip, _ = self.classes[f.id]
            if b or len(args) != len(nip) or any(ty != w for ty, w in zip(tys, nip)): fail(e, 'constructor %s(%s)' % (f.id, ', '.join(tys)))
            return [], '(%s_init T%s)' % (X2, ''.join(' ' + a[1] for a in args)), 'obj:' + X2, True
        if f.id == 'len' and tys in (['sig'], ['pieces'], ['bsig']): return b, '(py_len %s)' % args[0][1], 'int', False
        if f.id == 'abs' and tys == ['val']: return b, '(a1 AR Abs %s)' % args[0][1], 'val', False
        if f.id == 'float' and tys == ['val']: return b, args[0][1], 'val', False
        if f.id in ('min', 'max') and tys == ['val', 'val']: return b, '(py_%s2 %s %s)' % (f.id, args[0][1], args[1][1]), 'val', False
        if f.id in ('min', 'max') and tys == ['stamp', 'stamp']: return b, '(ts_%s tltb %s %s)' % (f.id, args[0][1], args[1][1]), 'stamp', False
        fail(e, 'unsupported call %s(%s)' % (f.id, ', '.join(tys)))

    def cond(self, e, env):
        """truth value of e: (binds, Boolean term)"""
        b, t, ty, _ = self.expr(e, env)
        if ty == 'bool': return b, t
        if ty in ('sig', 'pieces', 'bsig', 'names'): return b, '(py_truthy %s)' % t
        if ty == 'osample': return b, '(os_truthy %s)' % t
        fail(e, 'truth value of %s' % ty)

    def coerce(self, e, t, ty, want):
        """the term t of type ty, stored in a variable of type `want`"""
        if ty == want: return t
        if ty == 'empty' and want in ('sig', 'pieces', 'bsig'): return '[]'
        if ty == 'val' and want == 'xstamp' and t in ('top', 'bot'): return 'XPos' if t == 'top' else 'XNeg'      # float("inf") / -float("inf")
        if ty == 'stamp' and want == 'xstamp': return '(XFin %s)' % t
        if ty == 'val' and want == 'nval': return '(Some %s)' % t
        if ty == 'nanval' and want == 'nval': return 'None'
        if ty == 'empty' and want == 'osample': return 'None'
        if ty == 'sample' and want == 'osample': return '(Some %s)' % t
        fail(e, 'a value of type %s is stored where %s is expected' % (ty, want))

    # ---------- statements
    def tup(self, names):
        if not names: return 'tt'
        return '(%s)' % ', '.join(self.nm(n) for n in names) if len(names) > 1 else self.nm(names[0])
    def pat(self, names):
        return "'" + self.tup(names) if len(names) != 1 else self.nm(names[0])
    def binds(self, b, ind): return [ind + '%s <- %s ;;' % bt for bt in b]

    def store(self, s, target, t, ty, fresh, env, ind):
        """lines of `target = <t : ty>`"""
        k = key(target)
        if k is None or k == 'self': fail(s, 'unsupported assignment target')
        if k in self.params and not (ty == 'sig' and env[k].ty == 'sig'): fail(s, 'assignment to a parameter (other than rebinding it to another list of samples)')
        if ty == 'bool' and k.startswith('self.') and not (self.ftypes.get(k[5:]) == 'bool' and t in ('true', 'false')):
            fail(s, 'attribute of type bool that receives something else than True / False')
        if k.startswith('self.'):
            f = k[5:]
            if f not in self.ftypes: fail(s, 'attribute %s: no type known to the translator' % f)
            want = self.ftypes[f]
        elif k in env and env[k].ty != 'nanval': want = env[k].ty
        elif k in self.ltypes: want = self.ltypes[k]
        else: want = {'empty': 'osample' if k in self.osnames else 'sig', 'sample': 'osample' if k in self.osnames else 'sample'}.get(ty, ty)
        if ty == 'nanval' and not (k in self.cmpnames and (k not in env or env[k].ty in ('nanval', 'nval'))):
            if k.startswith('self.'): fail(s, 'float("nan") stored in an attribute')
            env[k] = Var('nanval')
            return []
        if ty == 'nanval': want = 'nval'
        t = self.coerce(s, t, ty, want)
        env[k] = Var(want, fresh, 0 if (ty == 'int' and t == '0') else None)
        tr_ = set(env.get('?truthy', ()))       # an []-or-sample variable that has just received a sample is not []
        if ty == 'sample' and want == 'osample': tr_.add(k)
        else: tr_.discard(k)
        env['?truthy'] = tr_
        return [ind + 'let %s := %s in' % (self.nm(k), t)]

    def block(self, stmts, env, final, ind, top=False):
        if not stmts: return final(env, ind)
        s, rest = stmts[0], stmts[1:]
        env = dict(env)
        def cont(): return self.block(rest, env, final, ind, top)
        if isinstance(s, ast.Pass): return cont()
        if isinstance(s, ast.Return):
            # statements after the return of the method are dead; only further `return`s are tolerated there (xor_operation.py)
            if not top or s.value is None or not all(isinstance(r, ast.Return) for r in rest): fail(s, 'return must be the last statement of the method')
            b, t, ty, _ = self.expr(s.value, env)
            if ty == 'empty' and self.rettype in ('sig', 'bsig'): t, ty = '[]', self.rettype
            if ty != self.rettype: fail(s, 'returns %s' % ty)
            return self.binds(b, ind) + final(env, ind, t)
        if isinstance(s, ast.Raise):
            if rest: fail(s, 'statements after raise')
            return [ind + 'None']
        if isinstance(s, ast.Assign):
            tg = s.targets
            if len(tg) == 1 and isinstance(tg[0], ast.Tuple):       # result, last, left, right = intersect.intersection(a, b, intersect.M)
                c = s.value
                if not (isinstance(c, ast.Call) and isinstance(c.func, ast.Attribute) and is_name(c.func.value, 'intersect')
                        and c.func.attr == 'intersection' and 'intersect' not in env and len(c.args) == 3 and not c.keywords
                        and isinstance(c.args[2], ast.Attribute) and is_name(c.args[2].value, 'intersect')):
                    fail(s, 'tuple assignment other than from intersect.intersection(a, b, intersect.M)')
                if not self.uses_isect: fail(s, 'the module does not import intersection as intersect')
                if c.args[2].attr not in ISECT_METHODS: fail(s, 'unknown method intersect.%s' % c.args[2].attr)
                names = [key(x) for x in tg[0].elts]
                if len(names) != 4 or None in names or len(set(names)) != 4 or any(isinstance(x, ast.Attribute) for x in tg[0].elts):
                    fail(s, 'intersection() returns 4 values, to be bound to 4 different local names')
                b1, t1, y1, _ = self.expr(c.args[0], env); b2, t2, y2, _ = self.expr(c.args[1], env)
                if (y1, y2) != ('sig', 'sig'): fail(s, 'intersection(%s, %s, _)' % (y1, y2))
                for n, ty in zip(names, ['sig', 'osample', 'sig', 'sig']):
                    if n in self.params or (n in env and env[n].ty != ty): fail(s, '%s changes type / is a parameter' % n)
                    env[n] = Var(ty, True)
                return self.binds(b1 + b2, ind) + [ind + "'(%s, %s, %s, %s) <- oisect_g T tltb teqb (gen_m_%s AR) %s %s ;;"
                                                   % tuple([self.nm(n) for n in names] + [c.args[2].attr, t1, t2])] + cont()
            c = s.value
            if self.base and isinstance(c, ast.Call) and isinstance(c.func, ast.Attribute) and is_name(c.func.value, self.base[0]) and self.base[0] not in env:
                # x = Base.m(self, a, ..): the method of the base class, on the attributes of the base class (the record self.base)
                info = self.classes[self.base[0]][5]
                if c.func.attr not in info or c.keywords or not c.args or not is_name(c.args[0], 'self'): fail(s, 'unsupported call of a method of the base class')
                ar2, ex2, rt2 = info[c.func.attr]
                args = [self.expr(a, env) for a in c.args[1:]]
                if len(args) != ar2 or any(a[2] != 'sig' for a in args): fail(s, '%s.%s with %s' % (self.base[0], c.func.attr, [a[2] for a in args]))
                if len(tg) != 1 or not isinstance(tg[0], ast.Name) or tg[0].id in self.params or tg[0].id in env: fail(s, 'the result has to be bound to one new local name')
                self.uses |= set(ex2)
                env[tg[0].id] = Var(rt2, False)
                return self.binds(sum((a[0] for a in args), []), ind) + \
                    [ind + "'(self_base, %s) <- gen_%s_%s AR T tltb teqb%s self_base%s ;;" % (self.nm(tg[0].id), self.base[1], c.func.attr, ''.join(' ' + q for q in ex2),
                                                                                             ''.join(' ' + a[1] for a in args))] + cont()
            if isinstance(c, ast.Call) and isinstance(c.func, ast.Attribute) and is_selfattr(c.func.value) and c.func.attr == 'update':
                # x = self.f.update(a, ..): the update of the sub-object self.f (an object of a translated class); it changes the state of self.f
                ko = key(c.func.value)
                vo = self.look(c.func.value, env)
                if not vo.ty.startswith('obj:'): fail(s, 'update() of an attribute that is not an operation object')
                X2 = vo.ty[4:]
                _, _, ar2, ex2, _, _ = [v for v in REG.values() if v[0] == X2][0]
                pos = [a for a in c.args if not isinstance(a, ast.Starred)]
                st_ = [a.value.id for a in c.args if isinstance(a, ast.Starred) and isinstance(a.value, ast.Name)] + \
                      [k_.value.id for k_ in c.keywords if k_.arg is None and isinstance(k_.value, ast.Name)]
                # *args, **kargs of the method itself may be passed on: they are empty in the model (the visitor never supplies any)
                if len(st_) != len(c.args) - len(pos) + len(c.keywords) or st_ != self.star[:len(st_)] or (st_ and len(st_) != len(self.star)):
                    fail(s, 'unsupported arguments in the call of update()')
                args = [self.expr(a, env) for a in pos]
                if len(args) != ar2 or any(a[2] != 'sig' for a in args): fail(s, 'update of %s with %s' % (X2, [a[2] for a in args]))
                if len(tg) != 1 or not isinstance(tg[0], ast.Name) or tg[0].id in self.params or (tg[0].id in env and env[tg[0].id].ty != 'sig'):
                    fail(s, 'the result of update() has to be bound to one local name')
                self.uses |= set(ex2)
                env[tg[0].id] = Var('sig', False)
                return self.binds(sum((a[0] for a in args), []), ind) + \
                    [ind + "'(%s, %s) <- gen_%s_update AR T tltb teqb%s %s%s ;;" % (self.nm(ko), self.nm(tg[0].id), X2, ''.join(' ' + q for q in ex2),
                                                                                   self.nm(ko), ''.join(' ' + a[1] for a in args))] + cont()
            if key(s.value) is not None and self.look(s.value, env).ty in ('sig', 'pieces'):     # x = y: two names for one list object
                env[key(s.value)] = Var(env[key(s.value)].ty, False)
            b, t, ty, fresh = self.expr(s.value, env)
            if key(s.value) is not None: fresh = False
            # out = self.f ; self.f = []   with f an attribute whose list nobody else refers to: the object now belongs to `out`
            if is_selfattr(s.value) and s.value.attr in self.owned and len(tg) == 1 and isinstance(tg[0], ast.Name) and rest \
                    and isinstance(rest[0], ast.Assign) and len(rest[0].targets) == 1 and key(rest[0].targets[0]) == key(s.value) \
                    and isinstance(rest[0].value, ast.List) and not rest[0].value.elts:
                fresh = True
            if len(tg) > 1 and (b or ty not in ('int', 'val', 'stamp')): fail(s, 'chained assignment of something else than a pure number')
            lines = self.binds(b, ind)
            for target in tg: lines += self.store(s, target, t, ty, fresh, env, ind)
            return lines + cont()
        if isinstance(s, ast.Expr) or isinstance(s, ast.Delete):
            if isinstance(s, ast.Delete):
                if len(s.targets) != 1 or not isinstance(s.targets[0], ast.Subscript) or isinstance(s.targets[0].slice, ast.Slice):
                    fail(s, 'del of something else than l[i]')
                obj, m, argn = s.targets[0].value, 'del', [s.targets[0].slice]
            else:
                c = s.value
                if not (isinstance(c, ast.Call) and isinstance(c.func, ast.Attribute) and not c.keywords): fail(s, 'unsupported expression statement')
                obj, m, argn = c.func.value, c.func.attr, c.args
            if key(obj) is None: fail(s, 'in-place %s on an expression' % m)
            v, x = self.look(obj, env), self.nm(key(obj))
            if not v.fresh or v.ty not in ('sig', 'pieces', 'bsig'): fail(s, 'in-place %s on %s that may be shared' % (m, v.ty))
            args = [self.expr(a, env) for a in argn]
            b, tys = sum((a[0] for a in args), []), [a[2] for a in args]
            if m == 'append' and tys == ['bsample'] and v.ty == 'bsig':
                return self.binds(b, ind) + [ind + 'let %s := %s ++ [%s] in' % (x, x, args[0][1])] + cont()
            if m == 'append' and tys == ['piece'] and v.ty == 'pieces':
                return self.binds(b, ind) + [ind + 'let %s := %s ++ [%s] in' % (x, x, args[0][1])] + cont()
            if m == 'append' and tys in (['sample'], ['osample']) and v.ty == 'sig':
                t = args[0][1]
                if tys == ['osample']:      # appending [] would leave a list that is not a list of samples: only where `if x:` holds
                    if key(argn[0]) not in env.get('?truthy', ()): fail(s, 'append of a value that may be []')
                    y = self.tmp(); b = b + [(y, 'os_get %s' % t)]; t = y
                return self.binds(b, ind) + [ind + 'let %s := %s ++ [%s] in' % (x, x, t)] + cont()
            if m == 'pop' and tys == ['int'] and args[0][1] == '0': return self.binds(b, ind) + [ind + '%s <- py_pop0 %s ;;' % (x, x)] + cont()
            if m == 'del' and tys == ['int']: return self.binds(b, ind) + [ind + '%s <- py_del %s %s ;;' % (x, x, args[0][1])] + cont()
            fail(s, 'unsupported in-place operation %s(%s)' % (m, ', '.join(tys)))
        if isinstance(s, (ast.For, ast.While)):
            if s.orelse: fail(s, 'loop with else')
            mut = assigned(s.body)
            for n in ast.walk(s):
                if isinstance(n, (ast.Break, ast.Continue, ast.Return)): fail(n, 'break / continue / return inside a loop')
            carried = sorted(n for n in mut if n in env and env[n].ty != 'nanval')
            env0 = dict(env); env0.pop('?truthy', None)
            for n in carried: env0[n] = Var(env0[n].ty, env0[n].fresh)
            shadow = []
            if isinstance(s, ast.For) and isinstance(s.target, ast.Tuple):      # for i, b in enumerate(l)
                it = s.iter
                if not (len(s.target.elts) == 2 and all(isinstance(x, ast.Name) for x in s.target.elts) and isinstance(it, ast.Call)
                        and is_name(it.func, 'enumerate') and 'enumerate' not in env and len(it.args) == 1 and not it.keywords and key(it.args[0])):
                    fail(s, 'for with a tuple target other than `for i, x in enumerate(l)`')
                ni, nx = [x.id for x in s.target.elts]
                lk = key(it.args[0])
                if lk in mut or ni in mut or nx in mut or ni == nx: fail(s, 'the body assigns the list or a target of the loop')
                ety = {'sig': 'sample', 'pieces': 'piece'}.get(self.look(it.args[0], env).ty)
                if ety is None: fail(s, 'iteration over %s' % env[lk].ty)
                # a target may re-use a local name of the same type: after the loop that name is unusable (it keeps its old value when l is empty)
                for n, ty in ((ni, 'int'), (nx, ety)):
                    if n in env:
                        if n in self.params or n.startswith('self') or env[n].ty != ty: fail(s, 'loop target %s re-uses a name of another type' % n)
                        shadow.append(n)
                carried = [n for n in carried if n not in shadow]
                env2 = dict(env0); env2[ni] = Var('int'); env2[nx] = Var(ety)
                head = ind + "%s <- py_for (py_enumerate %s) (fun '(%s, %s) %s =>" % (self.pat(carried), self.nm(lk), self.nm(ni), self.nm(nx), self.pat(carried))
            elif isinstance(s, ast.For) and isinstance(s.iter, ast.Call) and is_name(s.iter.func, 'range') and 'range' not in env:      # for i in range(len(l))
                if not isinstance(s.target, ast.Name) or s.target.id in env or s.target.id in mut: fail(s, 'loop target must be a new name the body does not assign')
                if len(s.iter.args) != 1 or s.iter.keywords: fail(s, 'range with more than one argument')
                bn, tn, yn, _ = self.expr(s.iter.args[0], env)
                if bn or yn != 'int' or any(isinstance(n, ast.Name) and n.id in mut for n in ast.walk(s.iter)): fail(s, 'range over something that may raise / that the body changes')
                env2 = dict(env0); env2[s.target.id] = Var('int')
                head = ind + '%s <- py_for (py_range 0 %s) (fun %s %s =>' % (self.pat(carried), tn, self.nm(s.target.id), self.pat(carried))
            elif isinstance(s, ast.For):
                if not isinstance(s.target, ast.Name) or s.target.id in env or s.target.id in mut: fail(s, 'loop target must be a new name the body does not assign')
                if key(s.iter) is None or key(s.iter) in mut: fail(s, 'iteration over something else than a list variable the body leaves alone')
                if self.look(s.iter, env).ty != 'sig': fail(s, 'iteration over %s' % env[key(s.iter)].ty)
                env2 = dict(env0); env2[s.target.id] = Var('sample')
                head = ind + '%s <- py_for %s (fun %s %s =>' % (self.pat(carried), self.nm(key(s.iter)), self.nm(s.target.id), self.pat(carried))
            else:
                env2 = dict(env0)
                bc, tc = self.cond(s.test, env2)
                if bc: fail(s, 'the condition of a while loop must not raise')
                lens = [n.args[0] for n in ast.walk(s.test) if isinstance(n, ast.Call) and is_name(n.func, 'len') and len(n.args) == 1 and key(n.args[0])]
                if not lens:
                    # no len(x) in the condition: a loop whose body, on its only path, deletes one element of x per iteration and never extends x
                    dels = [st_.targets[0].value for st_ in s.body if isinstance(st_, ast.Delete) and len(st_.targets) == 1
                            and isinstance(st_.targets[0], ast.Subscript) and key(st_.targets[0].value)]
                    grows = [n for n in ast.walk(s) if isinstance(n, ast.Attribute) and n.attr in ('append', 'extend', 'insert')] + \
                            [n for st_ in ast.walk(s) if isinstance(st_, (ast.Assign, ast.AugAssign)) for n in ([st_.target] if isinstance(st_, ast.AugAssign) else st_.targets)
                             if dels and key(n) == key(dels[0])]
                    if len(dels) != 1 or grows: fail(s, 'while loop without a len(x) in its condition and without a single del x[i] per iteration: no fuel')
                    lens = dels
                fuel = '(%s)%%nat' % ' + '.join('length %s' % self.nm(key(x)) for x in lens)
                head = ind + "%s <- py_while %s (fun %s => %s) (fun %s =>" % (self.pat(carried), fuel, self.pat(carried), tc, self.pat(carried))
            def fin(e2, i2, ret=None):
                for n in carried:
                    if e2[n].ty != env[n].ty: fail(s, '%s changes type in the loop' % n)
                return [i2 + 'Some %s' % self.tup(carried)]
            body = self.block(s.body, env2, fin, ind + '    ')
            for n in carried: env[n] = Var(env[n].ty, env[n].fresh)
            for n in shadow: env.pop(n)
            env.pop('?truthy', None)
            body[-1] += ') %s ;;' % self.tup(carried)
            return [head] + body + cont()
        if isinstance(s, ast.If):
            b, t = self.cond(s.test, env)
            # inside the body the variables whose truth the test establishes are known to be non-empty
            known = set(env.get('?truthy', ()))
            tests = s.test.values if isinstance(s.test, ast.BoolOp) and isinstance(s.test.op, ast.And) else [s.test]
            envt = dict(env); envt['?truthy'] = known | {key(x) for x in tests if key(x) and env[key(x)].ty == 'osample'}
            def raises(blk): return bool(blk) and isinstance(blk[-1], ast.Raise)
            live = [bl for bl in (s.body, s.orelse) if not raises(bl)]
            names = sorted(set().union(*[assigned(bl) for bl in live])) if live else []
            # a name that is float("nan") (or unbound) before and not assigned on every path stays unusable
            poison = [n for n in names if (n not in env or env[n].ty == 'nanval') and not all(n in assigned(bl) for bl in live)]
            names = [n for n in names if n not in poison]
            newenv = {}
            # first pass: the type of every name at the end of each live branch; a name that is a value on one path and float("nan") on another
            # becomes an option (None = nan): 'nval'
            seen = {n: set() for n in names}
            missing = set()
            def fin0(e2, i2, ret=None):
                for n in names:
                    if n not in e2: missing.add(n)       # assigned inside a loop of the branch only: local to that loop in the model
                    else: seen[n].add(e2[n].ty)
                return [i2 + 'Some tt']
            save = self.ntmp, set(self.uses)
            self.block(s.body, envt, fin0, ind + '    '); self.block(s.orelse, env, fin0, ind + '    ')
            self.ntmp, self.uses = save
            for n in sorted(missing):
                if n in env: fail(s, '%s is not bound on every path' % n)
                names.remove(n); poison.append(n)
            unified = {n: 'nval' for n in names if len(seen[n]) > 1 and seen[n] <= {'val', 'nval', 'nanval'}}
            def fin(e2, i2, ret=None):
                terms = []
                for n in names:
                    ty2 = e2[n].ty
                    if n in unified:
                        terms.append({'val': '(Some %s)' % self.nm(n), 'nval': self.nm(n), 'nanval': 'None'}[ty2]); ty2 = 'nval'
                    else: terms.append(self.nm(n))
                    if ty2 == 'nanval': fail(s, '%s may be float("nan") after the if' % n)
                    if n in newenv and newenv[n].ty != ty2: fail(s, '%s has two types' % n)
                    newenv[n] = Var(ty2, e2[n].fresh and newenv.get(n, e2[n]).fresh)
                if not terms: return [i2 + 'Some tt']
                return [i2 + 'Some %s' % ('(%s)' % ', '.join(terms) if len(terms) > 1 else terms[0])]
            th = self.block(s.body, envt, fin, ind + '    ')
            el = self.block(s.orelse, env, fin, ind + '    ')
            for n in names:
                if n in env and env[n].ty not in (newenv[n].ty, 'nanval'): fail(s, '%s changes type' % n)
            env.update(newenv)
            for n in poison: env[n] = Var('nanval')
            env['?truthy'] = {k for k in known if k not in names}
            out = self.binds(b, ind) + [ind + '%s <- (if %s then' % (self.pat(names), t)] + th + [ind + '  else'] + el
            out[-1] += ') ;;'
            return out + cont()
        fail(s, 'unsupported statement %s' % type(s).__name__)


def imports_of(mod, classes_ok=True):
    imports, rest = set(), []
    for s in mod.body:
        if isinstance(s, ast.Import):
            for al in s.names: imports.add(('import', al.name, al.asname))
        elif isinstance(s, ast.ImportFrom):
            for al in s.names:
                if s.level: fail(s, 'relative import')
                imports.add(('from', s.module, al.name + (' as ' + al.asname if al.asname else '')))
        else: rest.append(s)
    return imports, rest


def method_functions(root, printing):
    """gen_m_M for every `def M(a, b): return E` of intersection.py; the other functions are pinned"""
    global PATH
    PATH = root + '/' + ISECT
    mod = ast.parse(open(PATH).read(), PATH)
    imports, rest = imports_of(mod)
    if imports != ISECT_IMPORTS: fail(mod.body[0], 'the import list changed: %s' % sorted(imports ^ ISECT_IMPORTS, key=str))
    seen, out = [], {}
    for s in rest:
        if not isinstance(s, ast.FunctionDef) or s.decorator_list: fail(s, 'unexpected module-level statement')
        if s.name in seen: fail(s, 'function %s defined twice' % s.name)
        seen.append(s.name)
        if s.name in ISECT_PINNED:
            if printing: print('ISECT', s.name, digest(s))
            elif digest(s) != ISECT_PINNED[s.name]: fail(s, 'the hand-modelled / untranslated function %s changed (digest %s)' % (s.name, digest(s)))
        elif s.name in ISECT_METHODS:
            a = s.args
            if len(a.args) != 2 or a.vararg or a.kwarg or a.defaults or a.kwonlyargs or a.posonlyargs or len(s.body) != 1 \
                    or not isinstance(s.body[0], ast.Return) or s.body[0].value is None:
                fail(s, 'expected def %s(a, b): return E' % s.name)
            tr = Tr(s); tr.params = [x.arg for x in a.args]; tr.uses_isect = False
            env = {x.arg: Var('val') for x in a.args}
            b, t, ty, _ = tr.expr(s.body[0].value, env)
            if b or ty != 'val': fail(s, '%s: the expression may raise in the model / is not a number (%s)' % (s.name, ty))
            out[s.name] = ('(* intersection.py:%d *)\nDefinition gen_m_%s {VS : Val} (AR : Arith VS) : V -> V -> V :=\n  fun %s %s => %s.\n'
                           % (s.lineno, s.name, tr.nm(a.args[0].arg), tr.nm(a.args[1].arg), t))
        else: fail(s, 'new function %s: not known to the translator' % s.name)
    missing = [m for m in list(ISECT_PINNED) + ISECT_METHODS if m not in seen]
    if missing: fail(mod, 'functions removed: %s' % missing)
    return [out[m] for m in ISECT_METHODS]


def translate_class(root, rel, cname, printing):
    global PATH
    PATH = root + '/' + rel
    mod = ast.parse(open(PATH).read(), PATH)
    imports, rest = imports_of(mod)
    # classes translated before this one: from <module> import <Class> [as <Alias>]
    classes = {}
    for i in sorted(imports, key=str):
        if i[0] == 'from' and i[1] in REG and REG[i[1]][1] == i[2].split(' as ')[0]:
            classes[i[2].split(' as ')[-1]] = (REG[i[1]][0],) + REG[i[1]][1:]
            imports = imports - {i}
    if not imports <= OK_IMPORTS: fail(mod.body[0], 'unknown import: %s' % sorted(imports - OK_IMPORTS, key=str))
    enums = {i[2] for i in imports if i[2] in ENUM_OF}
    if len(rest) != 1 or not isinstance(rest[0], ast.ClassDef): fail(rest[0] if rest else mod, 'expected exactly one class and nothing else')
    cl = rest[0]
    bases = [getattr(b, 'id', None) for b in cl.bases]
    base = None          # (local name of the base class, its X) when the class extends a translated class
    if len(bases) == 1 and bases[0] in classes: base = (bases[0], classes[bases[0]][0])
    elif bases != [BASE] or ('from', 'rtamt.semantics.abstract_dense_time_online_operation', BASE) not in imports: fail(cl, 'expected class %s(%s)' % (cname, BASE))
    if cl.name != cname or cl.keywords or cl.decorator_list: fail(cl, 'expected class %s' % cname)
    X = XNAME.get(rel, cname[:-len('Operation')])
    more, morep = MORE_METHODS.get(X, {}), MORE_PINNED.get(X, {})
    meths = {}
    for s in cl.body:
        if not isinstance(s, ast.FunctionDef) or s.decorator_list or s.returns: fail(s, 'unexpected class-level statement %s' % type(s).__name__)
        if s.name in meths: fail(s, 'method %s defined twice' % s.name)
        if s.name not in ('__init__', 'reset', 'update', 'update_final') and s.name not in more and s.name not in morep: fail(s, 'new method %s: not known to the translator' % s.name)
        meths[s.name] = s
    for m in ['__init__', 'update', 'update_final'] + list(more) + list(morep):
        if m not in meths: fail(cl, 'method %s removed' % m)
    for m in ['update_final'] + list(morep):
        if printing: print('FINAL', cname, m, digest(meths[m]))
        elif digest(meths[m]) not in FINAL_DIGESTS: fail(meths[m], '%s changed (digest %s)' % (m, digest(meths[m])))
    # ---- __init__: the state record
    ini = meths['__init__']
    a = ini.args
    iparams = [x.arg for x in a.args][1:]
    if [x.arg for x in a.args][:1] != ['self'] or a.vararg or a.kwarg or a.defaults or a.kwonlyargs or a.posonlyargs or len(set(iparams)) != len(iparams) \
            or any(q not in INIT_PARAM_TYPES for q in iparams): fail(ini, 'signature of __init__ changed')
    ftypes = CLASS_FIELD_TYPES.get(X, FIELD_TYPES)
    owned = OWNED.get(X, set())
    for f in sorted(owned): check_owned(cl, f)
    def newtr(fd, mname=None):
        t = Tr(fd); t.ftypes, t.owned, t.classes, t.enums, t.base = ftypes, owned, classes, enums, base
        t.ltypes = LOCAL_TYPES.get((X, mname), {})
        t.uses_isect = ('import', 'rtamt.semantics.stl.dense_time.online.intersection', 'intersect') in imports
        return t
    tr = newtr(ini); tr.params = iparams; tr.uses_isect = False
    ienv = {q: Var(INIT_PARAM_TYPES[q]) for q in iparams}
    fields = []
    for s in ini.body:
        if isinstance(s, ast.Pass): continue
        if base and isinstance(s, ast.Expr) and isinstance(s.value, ast.Call) and isinstance(s.value.func, ast.Attribute) and is_name(s.value.func.value, base[0]) \
                and s.value.func.attr == '__init__' and not s.value.keywords and s.value.args and is_name(s.value.args[0], 'self') and not fields:
            # Base.__init__(self, args): the attributes of the base class are the record `base`
            args = [tr.expr(x, ienv) for x in s.value.args[1:]]
            nip = classes[base[0]][4]
            if any(x[0] for x in args) or [x[2] for x in args] != nip: fail(s, 'arguments of %s.__init__' % base[0])
            fields.append(('base', 'obj:' + base[1], '(%s_init T%s)' % (base[1], ''.join(' ' + x[1] for x in args))))
            continue
        if not (isinstance(s, ast.Assign) and len(s.targets) == 1 and is_selfattr(s.targets[0])): fail(s, '__init__ may only contain self.f = E')
        f = s.targets[0].attr
        if f in [x[0] for x in fields]: fail(s, 'attribute %s is set twice' % f)
        if f not in ftypes or f == 'base': fail(s, 'attribute %s: no type known to the translator' % f)
        b, t, ty, _ = tr.expr(s.value, ienv)
        if b: fail(s, 'initial value may raise')
        fields.append((f, ftypes[f], tr.coerce(s, t, ty, ftypes[f])))
        ienv['self.' + f] = Var(ftypes[f])
    if base and [f for f, _, _ in fields][:1] != ['base']: fail(ini, '__init__ does not start with %s.__init__(self, ..)' % base[0])
    reads_attr = any(is_selfattr(n) and isinstance(n.ctx, ast.Load) for n in ast.walk(ini))
    out = ['(* ---------------- %s : class %s ---------------- *)' % (rel, cname)]
    if fields:
        out.append('Record %s_state {VS : Val} (T : Type) : Type := mk_%s_state { %s }.'
                   % (X, X, '; '.join('%s_%s : %s' % (X, f, coqty(ty)) for f, ty, _ in fields)))
        out.append('Arguments mk_%s_state {VS T}.' % X)
        out += ['Arguments %s_%s {VS T} _.' % (X, f) for f, _, _ in fields]
        ihead = 'Definition %s_init {VS : Val} (T : Type)%s : %s_state T :=' % (X, ''.join(' (%s : %s)' % (tr.nm(q), COQTY[INIT_PARAM_TYPES[q]]) for q in iparams), X)
        if reads_attr:       # a later `self.g = E` of __init__ reads an attribute set before
            out.append(ihead + '\n' + ''.join('  let %s := %s in\n' % (tr.nm('self.' + f), v) for f, _, v in fields)
                       + '  @mk_%s_state VS T %s.' % (X, ' '.join(tr.nm('self.' + f) for f, _, _ in fields)))
        else: out.append(ihead + ' @mk_%s_state VS T %s.' % (X, ' '.join(v for _, _, v in fields)))
    else:
        out.append('Definition %s_state {VS : Val} (T : Type) : Type := unit.' % X)
        out.append('Definition %s_init {VS : Val} (T : Type) : %s_state T := tt.' % (X, X))
    mk = lambda tr: ('(@mk_%s_state VS T %s)' % (X, ' '.join(tr.nm('self.' + f) for f, _, _ in fields))) if fields else 'tt'
    PRE = 'Definition gen_%s_%s {VS : Val} (AR : Arith VS) (T : Type) (tltb teqb : T -> T -> bool)%s (st : %s_state T)'
    def prologue(tr):
        env = {'self.' + f: Var(ty, False) for f, ty, _ in fields}
        return env, ['  let %s := %s_%s st in' % (tr.nm('self.' + f), X, f) for f, _, _ in fields]
    # ---- reset
    if 'reset' in meths:
        rs = meths['reset']; a = rs.args
        if [x.arg for x in a.args] != ['self'] or a.vararg or a.kwarg or a.defaults or a.kwonlyargs or a.posonlyargs: fail(rs, 'signature of reset changed')
        tr = newtr(rs); tr.params = []; tr.uses_isect = False
        env, pre = prologue(tr)
        def fin_reset(e2, i2, ret=None):
            for f, ty, _ in fields:
                if e2['self.' + f].ty != ty: fail(rs, 'attribute %s changes type' % f)
            return [i2 + 'Some %s' % mk(tr)]
        lines = pre + tr.block(list(rs.body), env, fin_reset, '  ')
        out.append('(* %s:%d *)' % (rel.split('/')[-1], rs.lineno))
        if tr.uses: fail(rs, 'reset uses stamp arithmetic')
        out.append((PRE % (X, 'reset', '', X)) + ' : option (%s_state T) :=\n' % X + '\n'.join(lines) + '.')
    elif base:       # inherited: the reset of the base class on the attributes of the base class
        trb = newtr(ini)
        out.append((PRE % (X, 'reset', '', X)) + ' : option (%s_state T) :=\n' % X + '\n'.join(prologue(trb)[1])
                   + '\n  self_base <- gen_%s_reset AR T tltb teqb self_base ;;\n  Some %s.   (* inherited *)' % (base[1], mk(trb)))
    else:
        out.append((PRE % (X, 'reset', '', X)) + ' : option (%s_state T) :=\n  None.   (* no reset(): the inherited one raises NotImplementedError *)' % X)
    # ---- update and the further translated methods
    info = {}
    for mname in ['update'] + list(more):
        up = meths[mname]; a = up.args
        rettype = more.get(mname, 'sig')
        ps = [x.arg for x in a.args]
        if ps[:1] != ['self'] or len(ps) not in (1, 2, 3) or a.defaults or a.kwonlyargs or a.posonlyargs or len(set(ps)) != len(ps): fail(up, 'signature of %s changed' % mname)
        extra = [x.arg for x in (a.vararg, a.kwarg) if x is not None]
        tr = newtr(up, mname); tr.params = ps[1:]; tr.star = extra; tr.rettype = rettype
        passed = {id(n.value) for n in ast.walk(up) if isinstance(n, ast.Starred)} | {id(n.value) for n in ast.walk(up) if isinstance(n, ast.keyword) and n.arg is None}
        for n in ast.walk(ast.Module(body=up.body, type_ignores=[])):
            if isinstance(n, ast.Name) and n.id in extra and id(n) not in passed: fail(n, 'use of %s in the body' % n.id)
        env, pre = prologue(tr)
        for p in ps[1:]: env[p] = Var('sig', False)
        def fin_update(e2, i2, ret=None):
            if ret is None: fail(up, '%s can end without return' % mname)
            for f, ty, _ in fields:
                if e2['self.' + f].ty != ty: fail(up, 'attribute %s changes type' % f)
            return [i2 + 'Some (%s, %s)' % (mk(tr), ret)]
        lines = pre + tr.block(list(up.body), env, fin_update, '  ', top=True)
        out.append('(* %s:%d *)' % (rel.split('/')[-1], up.lineno))
        extra_ps = [q for q in EXTRA_ORDER if q in tr.uses]
        out.append((PRE % (X, mname, ''.join(EXTRA[q] for q in extra_ps), X)) + ' %s : option (%s_state T * %s) :=\n'
                   % (' '.join('(%s : psig T)' % tr.nm(p) for p in ps[1:]), X, COQTY[rettype]) + '\n'.join(lines) + '.')
        info[mname] = (len(ps) - 1, extra_ps, rettype)
    REG[rel[:-3].replace('/', '.')] = (X, cname, info['update'][0], info['update'][1], [INIT_PARAM_TYPES[q] for q in iparams], info)
    return X, info['update'][0], [f for f, _, _ in fields], '\n'.join(out) + '\n'


def check_owned(cl, f):
    """the list object held by self.f is referred to by nobody else: in every method, self.f is only (re)bound to [], appended to, or
    given a local name x = self.f that is in turn only indexed, measured, iterated, tested, appended to or deleted from"""
    for m in cl.body:
        if not isinstance(m, ast.FunctionDef): continue
        parent = {}
        for n in ast.walk(m):
            for c in ast.iter_child_nodes(n): parent[c] = n
        aliases = set()
        for n in ast.walk(m):
            if is_selfattr(n) and n.attr == f:
                pa = parent[n]
                if isinstance(pa, ast.Assign) and pa.targets == [n] and isinstance(pa.value, ast.List) and not pa.value.elts: continue
                if isinstance(pa, ast.Assign) and pa.value is n and len(pa.targets) == 1 and isinstance(pa.targets[0], ast.Name):
                    aliases.add(pa.targets[0].id); continue
                if isinstance(pa, ast.Attribute) and pa.attr == 'append' and isinstance(parent[pa], ast.Call) and parent[pa].func is pa: continue
                fail(n, 'self.%s is used in a way that may share its list' % f)
        for n in ast.walk(m):
            if isinstance(n, ast.Name) and n.id in aliases:
                pa = parent[n]
                if isinstance(pa, ast.Assign) and n in pa.targets and is_selfattr(pa.value) and pa.value.attr == f: continue
                if isinstance(n.ctx, ast.Store): fail(n, '%s (another name of self.%s) is assigned again' % (n.id, f))
                if isinstance(pa, ast.Subscript) and pa.value is n: continue
                if isinstance(pa, ast.Call) and (is_name(pa.func, 'len') or is_name(pa.func, 'enumerate')) and pa.args == [n]: continue
                if isinstance(pa, ast.Attribute) and pa.attr == 'append' and isinstance(parent[pa], ast.Call) and parent[pa].func is pa: continue
                if isinstance(pa, ast.UnaryOp) and isinstance(pa.op, ast.Not): continue
                if isinstance(pa, (ast.If, ast.While)) and pa.test is n: continue
                fail(n, '%s (another name of self.%s) escapes' % (n.id, f))


def main():
    global PATH
    printing = '--print-digests' in sys.argv
    argv = [a for a in sys.argv[1:] if not a.startswith('--')]
    if len(argv) == 1: root, outp = '/repo', argv[0]
    elif len(argv) == 2: root, outp = argv
    else: sys.exit('usage: py2coq_denseonline.py [REPO_ROOT] OUT.v')
    root = root.rstrip('/')
    # every operation file is either translated or pinned
    found = sorted(os.path.relpath(p, root) for d in (D_STL, D_AR, D_IA) for p in glob.glob('%s/%s/*_operation.py' % (root, d)))
    known = [r for r, _ in TRANSLATED] + list(PINNED)
    PATH = root
    for r in found:
        if r not in known:
            PATH = root + '/' + r; fail(None, 'new operation file: not known to the translator')
    for r in known:
        if r not in found:
            PATH = root + '/' + r; fail(None, 'operation file removed')
    for r, d in PINNED.items():
        PATH = root + '/' + r
        mod = ast.parse(open(PATH).read(), PATH)
        if printing: print('PINNED', r, digest(mod))
        elif digest(mod) != d: fail(mod.body[0], 'the untranslated class file changed (digest %s)' % digest(mod))
    for r, (ename, d, members) in ENUMS.items():          # the enumerations: the class text (members and their values) is pinned
        PATH = root + '/' + r
        if not os.path.exists(PATH): fail(None, 'enumeration file removed')
        mod = ast.parse(open(PATH).read(), PATH)
        cls = [x for x in mod.body if isinstance(x, ast.ClassDef) and x.name == ename]
        if len(cls) != 1: fail(mod.body[0], 'enumeration %s not found' % ename)
        if printing: print('ENUM', ename, digest(cls[0]))
        elif digest(cls[0]) != d: fail(cls[0], 'the enumeration %s changed (digest %s)' % (ename, digest(cls[0])))
    meths = method_functions(root, printing)
    classes = [translate_class(root, r, c, printing) for r, c in TRANSLATED]
    text = ('(* GENERATED by tools/py2coq_denseonline.py from rtamt/semantics/{stl,arithmetic}/dense_time/online/*_operation.py and the\n'
            '   functions at the end of .../stl/dense_time/online/intersection.py — do not edit.\n'
            '   Per class: the state record of __init__, reset and update, built from the primitives of PySem.v / PyDense.v and the hand model\n'
            '   oisect_g of intersection(); None = the Python code raises. *)\n'
            'From Coq Require Import List Bool Arith ZArith.\nFrom RV Require Import Val Syntax Rho Online IA Dense PySem PyDense DenseOnlineMerge.\n'
            'Import ListNotations.\nLocal Open Scope Z_scope.\n\n')
    text += '\n'.join(meths) + '\n' + '\n'.join(c[3] for c in classes)
    text += '\nDefinition gen_online_class_count : nat := %d%%nat.\n' % len(classes)
    if not printing: open(outp, 'w').write(text)

if __name__ == '__main__':
    main()
