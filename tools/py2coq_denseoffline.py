#!/usr/bin/env python3
# tools/py2coq_denseoffline.py [REPO_ROOT] OUT.v [--print-digests]
# FAIL-CLOSED translator: the dense-time OFFLINE visitor
#     rtamt/semantics/stl/dense_time/offline/ast_visitor.py      ->  coq/theories/DenseOfflineGen.v
# Translated: the module-level functions (subtraction_operation, and_operation, since_operation, until_operation, the four
# *_timed_operation window loops, since_timed_operation, until_timed_operation), every visitX method of StlDenseTimeOfflineAstVisitor
# except visitVariable / visitConstant, the `def M(a, b): return E` functions at the end of offline/intersection.py, and the dispatcher
# gen_deval (one case per node class, in the order of StlAstVisitor.visit / LtlAstVisitor.visit, whose texts are pinned by digest).
#   gen_F  : the arguments of F -> option result        (None = the code raises, or the run leaves the model, see below)
#   gen_visitX : [op : cmp] -> the lists self.visit returned for the children -> [begin end : Z] -> option dsig
# Scheme of tools/py2coq_denseonline.py (continuation style, option monad, A-normal form, for = py_for over a state tuple, while = py_while
# on fuel, if = Coq if returning the tuple of assigned names; in-place mutation only of lists the function created), with
#   * types: int (Z: time stamps and bounds are ticks), estamp (tz: a stamp or float('inf')), val (V), oval (option V: a value or float('nan')),
#     sample `[t, v]` (Z * V), vpair (V * V, what intersect.split returns), psample (Z * (V * V)), piece `(t0, t1, v)` (Z * tz * V), lists of
#     these; types are joined at `if` and loop heads (empty list <= list, val <= oval, int <= estamp, float('inf') <= val / estamp);
#   * float('nan') is a real value of type oval: x == nan is false, x != nan is true;
#   * representation conventions of the hand models (DenseEval.v / DenseWin.v), which the translator enforces by its types:
#     a signal is the list of its samples with FINITE stamps (the sample at +inf that intersection() appends is implicit); a stamp +inf
#     that the code would store as the first component of a piece or sample (py_fin) and a NaN stored as a sample value (py_notnan)
#     are None: such a run is outside the model;
#   * an assignment to a name the function never reads is evaluated (it may raise) and dropped;
#   * `x, _, _, _ = intersect.intersection(a, b, intersect.M)` is a call of the HAND model isect (gen_m_M) / split_isect (M = split);
#     intersection(), _append() and intersects() are pinned by digest (DenseMerge.v, DenseMergeG.v, DenseWin.intersects);
#   * self.f inside a visit method is a local variable (it has to be assigned before it is read in the same method);
#   * while: fuel = 1 + the lengths of the lists whose len() the condition reads or that the body shrinks + (v + 1) for a counter `v >= 0`.
# visitVariable (dictionary lookup, field access) and visitConstant (the list [[0, c], [inf, c]] = [(0, c)] with the implicit extension)
# stay hand-modelled and are pinned by digest.  Whatever is not supported: exit code 2 with file:line.
import ast, hashlib, sys

VIS = 'rtamt/semantics/stl/dense_time/offline/ast_visitor.py'
ISECT = 'rtamt/semantics/stl/dense_time/offline/intersection.py'
STLV = 'rtamt/syntax/ast/visitor/stl/ast_visitor.py'
LTLV = 'rtamt/syntax/ast/visitor/ltl/ast_visitor.py'
ENUM = 'rtamt/semantics/enumerations/comp_oper.py'
CLASS = 'StlDenseTimeOfflineAstVisitor'
FUNCS = ['subtraction_operation', 'and_operation', 'since_operation', 'once_timed_operation', 'historically_timed_operation',
         'since_timed_operation', 'always_timed_operation', 'eventually_timed_operation', 'until_operation', 'until_timed_operation']
FUNC_SIG = {'subtraction_operation': ['sig', 'sig'], 'and_operation': ['sig', 'sig'], 'since_operation': ['sig', 'sig'], 'until_operation': ['sig', 'sig'],
            'once_timed_operation': ['sig', 'int', 'int'], 'historically_timed_operation': ['sig', 'int', 'int'],
            'always_timed_operation': ['sig', 'int', 'int'], 'eventually_timed_operation': ['sig', 'int', 'int'],
            'since_timed_operation': ['sig', 'sig', 'int', 'int'], 'until_timed_operation': ['sig', 'sig', 'int', 'int']}
# module-level functions that stay hand-modelled: none any more.  The four window loops once/historically/always/eventually_timed_operation
# are translated (gen_<name>) and DenseOfflineGenWinCorrect.v proves them equal to DenseWin.once_timed_op / hist_timed_op / alw_timed_op / ev_timed_op.
# (A function listed here as name: (hand function, digest) is pinned by digest and called as the hand function unless --all is given.)
HAND_FUNCS = {}
ALL = False
# hand-modelled methods: digest of the method, the case of gen_deval
PINNED_METHODS = {'visit': 'bddabc11df70', 'visitVariable': '9f973d2c5be9', 'visitConstant': '476423e19d90'}
PINNED_DISPATCH = {STLV: 'f5141346f987', LTLV: '3b49f6412989'}
ISECT_PINNED = {'interval_union': 'b6bbbc8df29d', 'union': '162262a61e97', 'intersects': '5f2df0eb1150', '_append': 'fd5220a5e155', 'intersection': '48bcab2552b1', 'eq': '16635e2b9033', 'neq': '8fbdb37f4037', 'geq': 'd661182d42ea', 'greater': 'a0e4955cfa03', 'leq': 'ce7f7b030d34', 'less': '17b735698f5d', 'split': 'f5ba653bed95'}
ISECT_METHODS = ['disjunction', 'conjunction', 'implication', 'xor', 'iff', 'addition', 'subtraction', 'multiplication', 'division', 'power', 'log']
ISECT_IMPORTS = {('from', 'rtamt.semantics.arithmetic', 'saturating'), ('import', 'math', None), ('from', 'rtamt', 'RTAMTException')}
VIS_IMPORTS = {('from', 'rtamt.semantics.arithmetic', 'saturating'), ('import', 'math', None), ('import', 'operator', None),
               ('from', 'collections', 'deque'), ('import', 'rtamt.semantics.stl.dense_time.offline.intersection', 'intersect'),
               ('from', 'rtamt.syntax.ast.visitor.stl.ast_visitor', 'StlAstVisitor'),
               ('from', 'rtamt.semantics.enumerations.comp_oper', 'StlComparisonOperator'), ('from', 'rtamt.exception.exception', 'RTAMTException')}
CMPS = {'EQ': 'CEq', 'NEQ': 'CNeq', 'LEQ': 'CLeq', 'LESS': 'CLt', 'GEQ': 'CGeq', 'GREATER': 'CGt'}
# the dispatcher: formula constructor -> (pattern, children, extra arguments, method)
DISPATCH = [('Var x', None, 'Some (nth x W [])', 'visitVariable'), ('Const c', None, 'Some [(0, c)]', 'visitConstant'),
            ('A1 Abs f', ['f'], '', 'visitAbs'), ('A1 Sqrt f', ['f'], '', 'visitSqrt'), ('A1 Exp f', ['f'], '', 'visitExp'),
            ('A1 Ln f', ['f'], '', 'visitLn'), ('A1 Neg f', ['f'], '', 'visitNegate'),
            ('A2 Add f g', ['f', 'g'], '', 'visitAddition'), ('A2 Sub f g', ['f', 'g'], '', 'visitSubtraction'),
            ('A2 Mul f g', ['f', 'g'], '', 'visitMultiplication'), ('A2 Div f g', ['f', 'g'], '', 'visitDivision'),
            ('A2 Pow f g', ['f', 'g'], '', 'visitPow'), ('A2 Log f g', ['f', 'g'], '', 'visitLog'),
            ('Pred c f g', ['f', 'g'], 'op', 'visitPredicate'), ('Not f', ['f'], '', 'visitNot'),
            ('And f g', ['f', 'g'], '', 'visitAnd'), ('Or f g', ['f', 'g'], '', 'visitOr'), ('Implies f g', ['f', 'g'], '', 'visitImplies'),
            ('Iff f g', ['f', 'g'], '', 'visitIff'), ('Xor f g', ['f', 'g'], '', 'visitXor'),
            ('Rise f', ['f'], '', 'visitRise'), ('Fall f', ['f'], '', 'visitFall'), ('Prev f', ['f'], '', 'visitPrevious'),
            ('SPrev f', ['f'], '', 'visitStrongPrevious'), ('Next f', ['f'], '', 'visitNext'), ('SNext f', ['f'], '', 'visitStrongNext'),
            ('Once f', ['f'], '', 'visitOnce'), ('Hist f', ['f'], '', 'visitHistorically'), ('Since f g', ['f', 'g'], '', 'visitSince'),
            ('Ev f', ['f'], '', 'visitEventually'), ('Alw f', ['f'], '', 'visitAlways'), ('Until f g', ['f', 'g'], '', 'visitUntil'),
            ('OnceT b e f', ['f'], 'be', 'visitTimedOnce'), ('HistT b e f', ['f'], 'be', 'visitTimedHistorically'),
            ('SinceT b e f g', ['f', 'g'], 'be', 'visitTimedSince'), ('EvT b e f', ['f'], 'be', 'visitTimedEventually'),
            ('AlwT b e f', ['f'], 'be', 'visitTimedAlways'), ('UntilT b e f g', ['f', 'g'], 'be', 'visitTimedUntil'),
            ('Precedes b e f g', ['f', 'g'], 'be', 'visitTimedPrecedes')]
RESERVED = set('''end match with fun let in if then else return as at cofix fix forall exists for using where Type Prop Set Some None
  top bot neg map combine rev fst snd app length repeat seq nth a1 a2 AR VS V Z T nat list option true false tt st
  Abs Sqrt Exp Ln Neg Add Sub Mul Div Pow Log vmin vmax orb andb negb bool prod pair S O nil cons tl hd firstn skipn concat
  tlt teq ltb leb veq azero Arith Val left right inl inr eq_refl conj exist existT I Lt Gt Eq xH xI xO Z0 Zpos Zneg TInf
  ps pe pv piece pairs isect split_isect intersects dsig zb op formula cmp obind dedup start times den'''.split())
LISTS = {'sig': 'sample', 'psig': 'psample', 'pieces': 'piece'}
COQELEM = {'sig': '(Z * V)%type', 'psig': '(Z * (V * V))%type', 'pieces': 'piece'}

PATH = '?'
def fail(node, msg):
    sys.stderr.write('%s:%s: py2coq_denseoffline: %s\n' % (PATH, getattr(node, 'lineno', '?'), msg))
    sys.exit(2)
def digest(node): return hashlib.sha256(ast.unparse(node).encode()).hexdigest()[:12]
def is_name(e, s): return isinstance(e, ast.Name) and e.id == s
def is_selfattr(e): return isinstance(e, ast.Attribute) and is_name(e.value, 'self')
def is_float(e, s):
    return (isinstance(e, ast.Call) and is_name(e.func, 'float') and len(e.args) == 1 and not e.keywords
            and isinstance(e.args[0], ast.Constant) and e.args[0].value == s)
def key(e):
    if isinstance(e, ast.Name): return e.id
    if is_selfattr(e): return 'self.' + e.attr
    return None

def assigned(stmts):
    out = set()
    for s in stmts:
        if isinstance(s, ast.Assign):
            for t in s.targets:
                for n in (t.elts if isinstance(t, ast.Tuple) else [t]):
                    if key(n): out.add(key(n))
        elif isinstance(s, ast.AugAssign) and key(s.target): out.add(key(s.target))
        elif isinstance(s, ast.Expr) and isinstance(s.value, ast.Call) and isinstance(s.value.func, ast.Attribute) \
                and key(s.value.func.value): out.add(key(s.value.func.value))
        elif isinstance(s, ast.Delete):
            for t in s.targets:
                if isinstance(t, ast.Subscript) and key(t.value): out.add(key(t.value))
        elif isinstance(s, ast.For):
            out |= assigned(s.body)
            for n in (s.target.elts if isinstance(s.target, ast.Tuple) else [s.target]):
                if key(n): out.add(key(n))
        elif isinstance(s, ast.While): out |= assigned(s.body)
        elif isinstance(s, ast.If): out |= assigned(s.body) | assigned(s.orelse)
    return out

def shrunk(stmts):
    """lists a statement list shrinks in place (pop / del)"""
    out = []
    for n in ast.walk(ast.Module(body=list(stmts), type_ignores=[])):
        if isinstance(n, ast.Delete):
            for t in n.targets:
                if isinstance(t, ast.Subscript) and key(t.value) and key(t.value) not in out: out.append(key(t.value))
        if isinstance(n, ast.Call) and isinstance(n.func, ast.Attribute) and n.func.attr == 'pop' and key(n.func.value) and key(n.func.value) not in out:
            out.append(key(n.func.value))
    return out

class Var:
    def __init__(self, ty, fresh=False): self.ty, self.fresh = ty, fresh

def join(node, a, b, what=''):
    if a == b: return a
    s = {a, b}
    if 'empty' in s and (s - {'empty'}).pop() in LISTS: return (s - {'empty'}).pop()
    if s <= {'val', 'nan', 'oval', 'infty'} and ('nan' in s or 'oval' in s): return 'oval'
    if s == {'infty', 'val'}: return 'val'
    if s <= {'infty', 'estamp', 'int'}: return 'estamp'
    fail(node, '%s has two types: %s and %s' % (what, a, b))

class Tr:
    def __init__(self, fd, funcs):
        self.fd, self.ntmp, self.funcs = fd, 0, funcs
        self.pynames = {n.id for n in ast.walk(fd) if isinstance(n, ast.Name)} | {a.arg for a in ast.walk(fd) if isinstance(a, ast.arg)} \
                       | {'self_' + n.attr for n in ast.walk(fd) if is_selfattr(n)}
        self.loaded = {key(n) for n in ast.walk(fd) if key(n) and isinstance(n.ctx, ast.Load)}
        # in-place methods read the object: out.append(..) is a Load of out in the ast, so `loaded` already contains it
        self.params, self.opname = [], None

    def nm(self, k):
        s = 'self_' + k[5:] if k.startswith('self.') else k
        r = s + '_' if (s in RESERVED or s.startswith(('py_', 'ov_', 'gen_', 'mk_'))) else s
        if not k.startswith('self.') and s.startswith('self_'): fail(self.fd, 'local name %s clashes with the attributes' % s)
        if r != s and r in self.pynames: fail(self.fd, 'cannot rename %s: %s is also used' % (s, r))
        return r
    def tmp(self):
        while True:
            self.ntmp += 1
            t = 't%d' % self.ntmp
            if t not in self.pynames: return t

    def look(self, e, env):
        k = key(e)
        if k not in env: fail(e, '%s is not certainly bound here' % k)
        if env[k].ty == 'dead': fail(e, '%s holds a value the model does not track here' % k)
        return env[k]

    def coerce(self, e, t, ty, want):
        """(binds, term) of the term t : ty as a value of type `want`"""
        if ty == want: return [], t
        if ty == 'empty' and want in LISTS: return [], '(@nil %s)' % COQELEM[want]
        if (ty, want) == ('val', 'oval'): return [], '(Some %s)' % t
        if (ty, want) == ('nan', 'oval'): return [], '(@None V)'
        if (ty, want) == ('infty', 'val'): return [], 'top'
        if (ty, want) == ('infty', 'oval'): return [], '(Some top)'
        if (ty, want) == ('infty', 'estamp'): return [], 'TInf'
        if (ty, want) == ('int', 'estamp'): return [], '(T %s)' % t
        if (ty, want) == ('estamp', 'int'):
            x = self.tmp(); return [(x, 'py_fin %s' % t)], x
        if (ty, want) == ('oval', 'val'):
            x = self.tmp(); return [(x, 'py_notnan %s' % t)], x
        fail(e, 'a value of type %s is used where %s is expected' % (ty, want))

    # ---------- expressions: (binds, term, type, fresh)
    def cmpconst(self, e):
        """node.operator.value -> the parameter op ; StlComparisonOperator.X.value -> the constructor"""
        if isinstance(e, ast.Attribute) and e.attr == 'value' and isinstance(e.value, ast.Attribute):
            v = e.value
            if is_name(v.value, 'node') and v.attr == 'operator' and self.opname: return self.opname
            if is_name(v.value, 'StlComparisonOperator') and v.attr in CMPS: return CMPS[v.attr]
        return None

    def expr(self, e, env):
        if self.cmpconst(e): return [], self.cmpconst(e), 'cmp', False
        if key(e) is not None and not (isinstance(e, ast.Name) and e.id in ('self', 'node')):
            v = self.look(e, env)
            if v.ty == 'empty': return [], '?empty', 'empty', v.fresh
            if v.ty == 'nan': return [], '?nan', 'nan', False
            if v.ty == 'infty': return [], '?inf', 'infty', False
            return [], self.nm(key(e)), v.ty, False
        if isinstance(e, ast.Constant) and type(e.value) is int and e.value >= 0: return [], str(e.value), 'int', False
        if is_float(e, 'inf'): return [], '?inf', 'infty', False
        if is_float(e, 'nan'): return [], '?nan', 'nan', False
        if isinstance(e, ast.UnaryOp) and isinstance(e.op, ast.USub):
            if is_float(e.operand, 'inf'): return [], 'bot', 'val', False
            b, t, ty, _ = self.expr(e.operand, env)
            if ty == 'int': return b, '(- %s)' % t, 'int', False
            if ty == 'val': return b, '(neg %s)' % t, 'val', False
            fail(e, 'unary minus on %s' % ty)
        if isinstance(e, ast.UnaryOp) and isinstance(e.op, ast.Not):
            b, t = self.cond(e.operand, env)
            return b, '(negb %s)' % t, 'bool', False
        if isinstance(e, ast.BinOp):
            b1, t1, y1, _ = self.expr(e.left, env); b2, t2, y2, _ = self.expr(e.right, env)
            k, b = type(e.op).__name__, b1 + b2
            if (y1, y2) == ('int', 'int') and k in ('Add', 'Sub'): return b, '(%s %s %s)' % (t1, '+' if k == 'Add' else '-', t2), 'int', False
            if (y1, y2) == ('val', 'val') and k in ('Add', 'Sub', 'Mult', 'Div'):
                return b, '(a2 AR %s %s %s)' % ({'Mult': 'Mul'}.get(k, k), t1, t2), 'val', False
            fail(e, 'operator %s on %s, %s' % (k, y1, y2))
        if isinstance(e, ast.BoolOp):
            parts = [self.cond(v, env) for v in e.values]
            isand = isinstance(e.op, ast.And)
            if not any(p[0] for p in parts): return [], '(%s)' % (' && ' if isand else ' || ').join(p[1] for p in parts), 'bool', False
            def chain(ps):
                pre = ''.join('%s <- %s ;; ' % bt for bt in ps[0][0])
                if len(ps) == 1: return pre + 'Some %s' % ps[0][1]
                rest = chain(ps[1:])
                return pre + ('if %s then (%s) else Some false' % (ps[0][1], rest) if isand else 'if %s then Some true else (%s)' % (ps[0][1], rest))
            x = self.tmp()
            return [(x, '(%s)' % chain(parts))], x, 'bool', False
        if isinstance(e, ast.Compare):
            if len(e.ops) != 1: fail(e, 'chained comparison')
            b1, t1, y1, _ = self.expr(e.left, env); b2, t2, y2, _ = self.expr(e.comparators[0], env)
            k, b = type(e.ops[0]).__name__, b1 + b2
            if (y1, y2) == ('cmp', 'cmp'):
                if k != 'Eq': fail(e, 'comparison %s of operators' % k)
                return b, '(cmp_eqb %s %s)' % (t1, t2), 'bool', False
            if (y1, y2) == ('val', 'int') and t2 == '0': t2, y2 = '(azero AR)', 'val'
            if (y1, y2) == ('int', 'val') and t1 == '0': t1, y1 = '(azero AR)', 'val'
            if {y1, y2} <= {'val', 'oval', 'nan', 'infty'} and ({y1, y2} & {'oval', 'nan'}):
                if k not in ('Eq', 'NotEq'): fail(e, 'ordering comparison with a possible NaN')
                (c1, u1), (c2, u2) = self.coerce(e, t1, y1, 'oval'), self.coerce(e, t2, y2, 'oval')
                if c1 or c2: fail(e, 'internal: coercion to oval binds')
                if y1 == 'val': t = '(ov_eq %s %s)' % (u2, t1)
                elif y2 == 'val': t = '(ov_eq %s %s)' % (u1, t2)
                else: t = '(ov_eq2 %s %s)' % (u1, u2)
                return b, t if k == 'Eq' else '(negb %s)' % t, 'bool', False
            ty = join(e, y1, y2, 'comparison')
            if ty not in ('int', 'val', 'estamp'): fail(e, 'comparison of %s and %s' % (y1, y2))
            (c1, t1), (c2, t2) = self.coerce(e, t1, y1, ty), self.coerce(e, t2, y2, ty)
            if c1 or c2: fail(e, 'internal: comparison coercion binds')
            if ty == 'int':
                form = {'LtE': '(%s <=? %s)' % (t1, t2), 'Lt': '(%s <? %s)' % (t1, t2), 'GtE': '(%s <=? %s)' % (t2, t1), 'Gt': '(%s <? %s)' % (t2, t1),
                        'Eq': '(%s =? %s)' % (t1, t2)}
            elif ty == 'val':
                form = {'Lt': '(ltb %s %s)' % (t1, t2), 'Gt': '(ltb %s %s)' % (t2, t1), 'Eq': '(veq %s %s)' % (t1, t2), 'NotEq': '(negb (veq %s %s))' % (t1, t2),
                        'LtE': '(negb (ltb %s %s))' % (t2, t1), 'GtE': '(negb (ltb %s %s))' % (t1, t2)}
            else:
                form = {'Lt': '(tlt %s %s)' % (t1, t2), 'Gt': '(tlt %s %s)' % (t2, t1), 'Eq': '(teq %s %s)' % (t1, t2),
                        'LtE': '(negb (tlt %s %s))' % (t2, t1), 'GtE': '(negb (tlt %s %s))' % (t1, t2)}
            if k not in form: fail(e, 'comparison %s on %s' % (k, ty))
            return b, form[k], 'bool', False
        if isinstance(e, ast.List):
            if not e.elts: return [], '?empty', 'empty', True
            if len(e.elts) != 2: fail(e, 'list display that is neither [] nor a sample [t, v]')
            b1, t1, y1, _ = self.expr(e.elts[0], env); b2, t2, y2, _ = self.expr(e.elts[1], env)
            c1, t1 = self.coerce(e, t1, y1, 'int'); c2, t2 = self.coerce(e, t2, y2, 'val')
            return b1 + b2 + c1 + c2, '(%s, %s)' % (t1, t2), 'sample', True
        if isinstance(e, ast.Tuple):
            if len(e.elts) != 3: fail(e, 'tuple display that is not a piece (t0, t1, v)')
            parts = [self.expr(x, env) for x in e.elts]
            b, ts = sum((p[0] for p in parts), []), []
            for p, want in zip(parts, ['int', 'estamp', 'val']):
                c, t = self.coerce(e, p[1], p[2], want); b = b + c; ts.append(t)
            return b, '(%s, %s, %s)' % tuple(ts), 'piece', True
        if isinstance(e, ast.Subscript):
            b, t, ty, _ = self.expr(e.value, env)
            if isinstance(e.slice, ast.Slice): fail(e, 'slice')
            if ty in LISTS:
                bi, ti, yi, _ = self.expr(e.slice, env)
                if yi != 'int': fail(e, 'subscript %s[%s]' % (ty, yi))
                x = self.tmp()
                return b + bi + [(x, 'py_get %s %s' % (t, ti))], x, LISTS[ty], False
            if ty == 'empty': fail(e, 'subscript of a list that is certainly empty')
            lit = e.slice.value if isinstance(e.slice, ast.Constant) and type(e.slice.value) is int else None
            proj = {'sample': {0: ('fst', 'int'), 1: ('snd', 'val')}, 'psample': {0: ('fst', 'int'), 1: ('snd', 'vpair')},
                    'vpair': {0: ('fst', 'val'), 1: ('snd', 'val')}, 'piece': {0: ('ps', 'int'), 1: ('pe', 'estamp'), 2: ('pv', 'val')}}
            if ty in proj and lit in proj[ty]: return b, '(%s %s)' % (proj[ty][lit][0], t), proj[ty][lit][1], False
            fail(e, 'subscript of %s' % ty)
        if isinstance(e, ast.Call): return self.call(e, env)
        fail(e, 'unsupported expression %s' % type(e).__name__)

    def call(self, e, env):
        f = e.func
        if e.keywords: fail(e, 'keyword arguments')
        if isinstance(f, ast.Attribute) and isinstance(f.value, ast.Name) and f.value.id not in env:
            k = (f.value.id, f.attr)
            args = [self.expr(a, env) for a in e.args]
            b, tys = sum((a[0] for a in args), []), [a[2] for a in args]
            if k == ('saturating', 'exp') and tys == ['val']: return b, '(a1 AR Exp %s)' % args[0][1], 'val', False
            if k == ('saturating', 'power') and tys == ['val', 'val']: return b, '(a2 AR Pow %s %s)' % (args[0][1], args[1][1]), 'val', False
            if k == ('math', 'log') and tys == ['val', 'val']: return b, '(a2 AR Log %s %s)' % (args[0][1], args[1][1]), 'val', False
            if k in (('math', 'log'), ('math', 'sqrt')) and tys == ['val']:
                x = self.tmp()
                return b + [(x, '%s AR %s' % ('py_ln' if f.attr == 'log' else 'py_sqrt', args[0][1]))], x, 'val', False
            if k == ('intersect', 'intersects') and len(args) == 4:
                ts = []
                for a, want in zip(args, ['int', 'estamp', 'int', 'estamp']):
                    c, t = self.coerce(e, a[1], a[2], want)
                    if c: fail(e, 'intersects(): a bound that may be +inf where a finite stamp is expected')
                    ts.append(t)
                return b, '(intersects %s %s %s %s)' % tuple(ts), 'bool', False
            fail(e, 'unknown function %s.%s(%s)' % (k[0], k[1], ', '.join(tys)))
        if not isinstance(f, ast.Name) or f.id in env: fail(e, 'unsupported call')
        args = [self.expr(a, env) for a in e.args]
        b, tys = sum((a[0] for a in args), []), [a[2] for a in args]
        if f.id == 'len' and len(tys) == 1 and tys[0] in LISTS: return b, '(py_len %s)' % args[0][1], 'int', False
        if f.id == 'len' and tys == ['empty']: return b, '0', 'int', False
        if f.id == 'abs' and tys == ['val']: return b, '(a1 AR Abs %s)' % args[0][1], 'val', False
        if f.id == 'float' and tys == ['val']: return b, args[0][1], 'val', False
        if f.id in ('min', 'max') and len(args) == 2 and set(tys) <= {'val', 'infty'}:
            args = [(a[0], self.coerce(e, a[1], a[2], 'val')[1], 'val', a[3]) for a in args]; tys = ['val', 'val']
        if f.id in ('min', 'max') and tys == ['val', 'val']: return b, '(py_%s2 %s %s)' % (f.id, args[0][1], args[1][1]), 'val', False
        if f.id in self.funcs:
            want = FUNC_SIG[f.id]
            if len(args) != len(want): fail(e, '%s() takes %d arguments' % (f.id, len(want)))
            ts = []
            for a, w in zip(args, want):
                c, t = self.coerce(e, a[1], a[2], w); b = b + c; ts.append(t)
            x = self.tmp()
            head = HAND_FUNCS[f.id][0] if (f.id in HAND_FUNCS and not ALL) else 'gen_%s AR' % f.id
            return b + [(x, '%s %s' % (head, ' '.join(ts)))], x, 'sig', True
        fail(e, 'unsupported call %s(%s)' % (f.id, ', '.join(tys)))

    def cond(self, e, env):
        b, t, ty, _ = self.expr(e, env)
        if ty == 'bool': return b, t
        if ty in LISTS: return b, '(py_truthy %s)' % t
        if ty == 'empty': return b, 'false'
        fail(e, 'truth value of %s' % ty)

    # ---------- statements
    def tup(self, names):
        if not names: return 'tt'
        return '(%s)' % ', '.join(self.nm(n) for n in names) if len(names) > 1 else self.nm(names[0])
    def pat(self, names):
        return "'" + self.tup(names) if len(names) != 1 else self.nm(names[0])
    def binds(self, b, ind): return [ind + '%s <- %s ;;' % bt for bt in b]

    def store(self, s, target, t, ty, fresh, env, ind):
        k = key(target)
        if k is None or k in ('self', 'node'): fail(s, 'unsupported assignment target')
        if k in self.params: fail(s, 'assignment to a parameter')
        if ty in ('bool', 'cmp'): fail(s, 'variable of type %s' % ty)
        if k not in self.loaded: return []            # never read: evaluated, dropped
        if ty in ('empty', 'nan', 'infty'):
            env[k] = Var(ty, fresh); return []        # a constant: substituted (and coerced) where it is used
        env[k] = Var(ty, fresh)
        return [ind + 'let %s := %s in' % (self.nm(k), t)]

    def ends(self, names, want, e2, i2, node):
        """the lines `Some (names)` with every name coerced to its type in `want`"""
        b, ts = [], []
        for n in names:
            if n not in e2: fail(node, '%s is not bound on every path' % n)
            if e2[n].ty == 'dead': fail(node, '%s holds an untracked value on some path' % n)
            src = {'empty': '?empty', 'nan': '?nan', 'infty': '?inf'}.get(e2[n].ty, self.nm(n))
            c, t = self.coerce(node, src, e2[n].ty, want[n]); b += c; ts.append(t)
        return self.binds(b, i2) + [i2 + 'Some %s' % ('tt' if not ts else ts[0] if len(ts) == 1 else '(%s)' % ', '.join(ts))]

    def block(self, stmts, env, final, ind, top=False):
        if not stmts: return final(env, ind)
        s, rest = stmts[0], stmts[1:]
        env = dict(env)
        def cont(): return self.block(rest, env, final, ind, top)
        if isinstance(s, ast.Pass): return cont()
        if isinstance(s, ast.Return):
            if not top or s.value is None or rest: fail(s, 'return must be the last statement of the function')
            b, t, ty, _ = self.expr(s.value, env)
            c, t = self.coerce(s, t, ty, 'sig')
            return self.binds(b + c, ind) + final(env, ind, t)
        if isinstance(s, ast.Raise):
            if rest: fail(s, 'statements after raise')
            return [ind + 'None']
        if isinstance(s, ast.Assign):
            tg = s.targets
            if len(tg) != 1: fail(s, 'chained assignment')
            if isinstance(tg[0], ast.Tuple):       # result, last, left, right = intersect.intersection(a, b, intersect.M)
                c = s.value
                if not (isinstance(c, ast.Call) and isinstance(c.func, ast.Attribute) and is_name(c.func.value, 'intersect')
                        and c.func.attr == 'intersection' and 'intersect' not in env and len(c.args) == 3 and not c.keywords
                        and isinstance(c.args[2], ast.Attribute) and is_name(c.args[2].value, 'intersect')):
                    fail(s, 'tuple assignment other than from intersect.intersection(a, b, intersect.M)')
                m = c.args[2].attr
                if m not in ISECT_METHODS + ['split']: fail(s, 'unknown method intersect.%s' % m)
                names = [key(x) for x in tg[0].elts]
                if len(names) != 4 or None in names or len(set(names)) != 4 or any(isinstance(x, ast.Attribute) for x in tg[0].elts):
                    fail(s, 'intersection() returns 4 values, to be bound to 4 different local names')
                b1, t1, y1, _ = self.expr(c.args[0], env); b2, t2, y2, _ = self.expr(c.args[1], env)
                c1, t1 = self.coerce(s, t1, y1, 'sig'); c2, t2 = self.coerce(s, t2, y2, 'sig')
                for n in names:
                    if n in self.params: fail(s, '%s is a parameter' % n)
                env[names[0]] = Var('psig' if m == 'split' else 'sig', True)
                for n in names[1:]: env[n] = Var('dead')      # last / the two remainders: not modelled, must not be read
                call = 'split_isect %s %s' % (t1, t2) if m == 'split' else 'isect (gen_m_%s AR) %s %s' % (m, t1, t2)
                return self.binds(b1 + b2 + c1 + c2, ind) + [ind + '%s <- %s ;;' % (self.nm(names[0]), call)] + cont()
            if key(s.value) is not None and self.look(s.value, env).ty in LISTS:     # x = y: two names for one list object
                env[key(s.value)] = Var(env[key(s.value)].ty, False)
            b, t, ty, fresh = self.expr(s.value, env)
            if key(s.value) is not None: fresh = False
            return self.binds(b, ind) + self.store(s, tg[0], t, ty, fresh, env, ind) + cont()
        if isinstance(s, ast.Expr) or isinstance(s, ast.Delete):
            if isinstance(s, ast.Delete):
                if len(s.targets) != 1 or not isinstance(s.targets[0], ast.Subscript) or isinstance(s.targets[0].slice, ast.Slice):
                    fail(s, 'del of something else than l[i]')
                obj, m, argn = s.targets[0].value, 'del', [s.targets[0].slice]
            else:
                c = s.value
                if not (isinstance(c, ast.Call) and isinstance(c.func, ast.Attribute) and not c.keywords): fail(s, 'unsupported expression statement')
                obj, m, argn = c.func.value, c.func.attr, c.args
            if key(obj) is None: fail(s, 'in-place %s on an expression' % m)
            v, x = self.look(obj, env), self.nm(key(obj))
            if not v.fresh or v.ty not in list(LISTS) + ['empty']: fail(s, 'in-place %s on %s that may be shared' % (m, v.ty))
            args = [self.expr(a, env) for a in argn]
            b, tys = sum((a[0] for a in args), []), [a[2] for a in args]
            cur = '[]' if v.ty == 'empty' else x
            if m in ('append', 'insert'):
                if m == 'insert' and not (len(args) == 2 and args[0][1] == '0' and tys[0] == 'int'): fail(s, 'insert at another position than 0')
                el = args[-1]
                if len(args) != (1 if m == 'append' else 2): fail(s, '%s with %d arguments' % (m, len(args)))
                lt = {v2: k2 for k2, v2 in LISTS.items()}.get(el[2])
                if lt is None or (v.ty != 'empty' and v.ty != lt): fail(s, '%s of %s to %s' % (m, el[2], v.ty))
                env[key(obj)] = Var(lt, True)
                return self.binds(b, ind) + [ind + 'let %s := %s in' % (x, '%s ++ [%s]' % (cur, el[1]) if m == 'append' else '%s :: %s' % (el[1], cur))] + cont()
            if v.ty == 'empty':         # pop / del on a list that is certainly empty here: IndexError
                if m not in ('pop', 'del'): fail(s, 'unsupported in-place operation %s' % m)
                return self.binds(b, ind) + [ind + '_ <- (@None unit) ;;'] + cont()
            if m == 'pop' and tys == ['int'] and args[0][1] == '0': return self.binds(b, ind) + [ind + '%s <- py_pop0 %s ;;' % (x, x)] + cont()
            if m == 'del' and tys == ['int']: return self.binds(b, ind) + [ind + '%s <- py_del %s %s ;;' % (x, x, args[0][1])] + cont()
            fail(s, 'unsupported in-place operation %s(%s)' % (m, ', '.join(tys)))
        if isinstance(s, (ast.For, ast.While)):
            if s.orelse: fail(s, 'loop with else')
            for n in ast.walk(s):
                if isinstance(n, (ast.Break, ast.Continue, ast.Return)): fail(n, 'break / continue / return inside a loop')
            mut = assigned(s.body)
            targets, it, enum, rev = [], None, False, False
            if isinstance(s, ast.For):
                it = s.iter
                if isinstance(it, ast.Call) and is_name(it.func, 'reversed') and 'reversed' not in env and len(it.args) == 1 and not it.keywords:
                    inner = it.args[0]
                    if not (isinstance(inner, ast.Call) and is_name(inner.func, 'list') and 'list' not in env and len(inner.args) == 1 and not inner.keywords):
                        fail(s, 'reversed() of something else than list(enumerate(x))')
                    rev, it = True, inner.args[0]
                    if not (isinstance(it, ast.Call) and is_name(it.func, 'enumerate')): fail(s, 'reversed() of something else than list(enumerate(x))')
                if isinstance(it, ast.Call) and is_name(it.func, 'enumerate') and 'enumerate' not in env and len(it.args) == 1 and not it.keywords:
                    enum, it = True, it.args[0]
                if key(it) is None or key(it) in mut: fail(s, 'iteration over something else than a list variable the body leaves alone')
                ity = self.look(it, env).ty
                if ity not in LISTS and ity != 'empty': fail(s, 'iteration over %s' % ity)
                tg = s.target.elts if isinstance(s.target, ast.Tuple) else [s.target]
                if len(tg) != (2 if enum else 1) or not all(isinstance(x, ast.Name) for x in tg) or len({x.id for x in tg}) != len(tg):
                    fail(s, 'loop target')
                targets = [x.id for x in tg]
                if any(x in assigned(s.body) or x in self.params for x in targets): fail(s, 'the body assigns the loop target')
            carried = sorted(n for n in mut if n in env and n not in targets and env[n].ty != 'dead' and n in self.loaded)
            types = {n: env[n].ty for n in carried}
            elemty = LISTS.get(ity, 'sample') if isinstance(s, ast.For) else None
            def body_env(types):
                e0 = dict(env)
                for n in carried: e0[n] = Var(types[n], env[n].fresh)
                if isinstance(s, ast.For):
                    if enum: e0[targets[0]] = Var('int'); e0[targets[1]] = Var(elemty)
                    else: e0[targets[0]] = Var(elemty)
                return e0
            for _ in range(4):                # the types of the carried variables: least fixed point of the joins
                seen = {}
                def fin0(e2, i2, ret=None):
                    for n in carried:
                        if n not in e2 or e2[n].ty == 'dead': fail(s, '%s is lost in the loop' % n)
                        seen[n] = join(s, seen.get(n, e2[n].ty), e2[n].ty, n)
                    return ['']
                save = self.ntmp
                self.block(s.body, body_env(types), fin0, ind + '    ')
                self.ntmp = save
                new = {n: join(s, types[n], seen[n], n) for n in carried}
                if new == types: break
                types = new
            else: fail(s, 'the types of the loop variables do not settle')
            pre = []
            for n in carried:           # entry coercions
                if env[n].ty != types[n]:
                    src = {'empty': '?empty', 'nan': '?nan', 'infty': '?inf'}.get(env[n].ty, self.nm(n))
                    c, t = self.coerce(s, src, env[n].ty, types[n])
                    pre += self.binds(c, ind) + [ind + 'let %s := %s in' % (self.nm(n), t)]
            env2 = body_env(types)
            if isinstance(s, ast.For):
                src = '[]' if ity == 'empty' else self.nm(key(it))
                lst = ('(py_enumerate %s)' % src) if enum else src
                if rev: lst = '(rev %s)' % lst
                tp = "'(%s, %s)" % (self.nm(targets[0]), self.nm(targets[1])) if enum else self.nm(targets[0])
                head = ind + '%s <- py_for %s (fun %s %s =>' % (self.pat(carried), lst, tp, self.pat(carried))
            else:
                bc, tc = self.cond(s.test, env2)
                if bc: fail(s, 'the condition of a while loop must not raise')
                lens = [key(n.args[0]) for n in ast.walk(s.test) if isinstance(n, ast.Call) and is_name(n.func, 'len') and len(n.args) == 1 and key(n.args[0])]
                lens += [k for k in shrunk(s.body) if k not in lens]
                fuel = ['length %s' % self.nm(k) for k in lens if k in env2 and env2[k].ty in LISTS]
                cnt = s.test
                if isinstance(cnt, ast.Compare) and len(cnt.ops) == 1 and isinstance(cnt.ops[0], ast.GtE) and key(cnt.left) in env2 \
                        and env2[key(cnt.left)].ty == 'int' and isinstance(cnt.comparators[0], ast.Constant) and cnt.comparators[0].value == 0:
                    fuel.append('Z.to_nat (%s + 1)' % self.nm(key(cnt.left)))
                if not fuel: fail(s, 'while loop without a measure the translator knows: no fuel')
                head = ind + "%s <- py_while (S (%s))%%nat (fun %s => %s) (fun %s =>" % (self.pat(carried), ' + '.join(fuel), self.pat(carried), tc, self.pat(carried))
            def fin(e2, i2, ret=None): return self.ends(carried, types, e2, i2, s)
            body = self.block(s.body, env2, fin, ind + '    ')
            for n in carried: env[n] = Var(types[n], env[n].fresh)
            for n in mut:
                if n not in carried and n in env: env[n] = Var('dead')
            for n in targets: env[n] = Var('dead')
            body[-1] += ') %s ;;' % self.tup(carried)
            return pre + [head] + body + cont()
        if isinstance(s, ast.If):
            # `if x:` / `if not x:` on a list that is certainly empty here: only one branch can run
            tst, neg_ = (s.test.operand, True) if isinstance(s.test, ast.UnaryOp) and isinstance(s.test.op, ast.Not) else (s.test, False)
            if key(tst) is not None and key(tst) in env and env[key(tst)].ty == 'empty':
                return self.block((s.body if neg_ else s.orelse) + rest, env, final, ind, top)
            b, t = self.cond(s.test, env)
            def raises(blk): return bool(blk) and isinstance(blk[-1], ast.Raise)
            live = [bl for bl in (s.body, s.orelse) if not raises(bl)]
            names = sorted(n for n in (set().union(*[assigned(bl) for bl in live]) if live else set()) if n in self.loaded)
            poison = [n for n in names if (n not in env or env[n].ty == 'dead') and not all(n in assigned(bl) for bl in live)]
            names = [n for n in names if n not in poison]
            seen = {}
            def fin0(e2, i2, ret=None):
                for n in names:
                    if n not in e2: fail(s, '%s is not bound on every path' % n)
                    if e2[n].ty == 'dead': fail(s, '%s holds an untracked value on some path' % n)
                    seen[n] = (join(s, seen[n][0], e2[n].ty, n), seen[n][1] and e2[n].fresh) if n in seen else (e2[n].ty, e2[n].fresh)
                return ['']
            save = self.ntmp
            self.block(s.body, env, fin0, ind + '    '); self.block(s.orelse, env, fin0, ind + '    ')
            self.ntmp = save
            want = {n: seen[n][0] for n in names if n in seen}
            real = [n for n in names if want[n] not in ('empty', 'nan', 'infty')]     # a constant is substituted where it is used, not bound
            def fin(e2, i2, ret=None): return self.ends(real, want, e2, i2, s)
            th = self.block(s.body, env, fin, ind + '    ')
            el = self.block(s.orelse, env, fin, ind + '    ')
            for n in names: env[n] = Var(want[n], seen[n][1])
            for n in poison: env[n] = Var('dead')
            out = self.binds(b, ind) + [ind + '%s <- (if %s then' % (self.pat(real), t)] + th + [ind + '  else'] + el
            out[-1] += ') ;;'
            return out + cont()
        fail(s, 'unsupported statement %s' % type(s).__name__)


def imports_of(mod):
    imports, rest = set(), []
    for s in mod.body:
        if isinstance(s, ast.Import):
            for al in s.names: imports.add(('import', al.name, al.asname))
        elif isinstance(s, ast.ImportFrom):
            for al in s.names:
                if al.asname or s.level: fail(s, 'from ... import ... as / relative import')
                imports.add(('from', s.module, al.name))
        else: rest.append(s)
    return imports, rest

def plain_args(fd, names=None):
    a = fd.args
    if a.vararg or a.kwarg or a.defaults or a.kwonlyargs or a.posonlyargs or fd.decorator_list or fd.returns: fail(fd, 'signature of %s' % fd.name)
    ps = [x.arg for x in a.args]
    if len(set(ps)) != len(ps) or (names is not None and ps != names): fail(fd, 'signature of %s changed' % fd.name)
    return ps

def pin(table, name, node, printing, what):
    if printing: print('PIN', what, name, digest(node))
    elif digest(node) != table[name]: fail(node, 'the hand-modelled %s %s changed (digest %s)' % (what, name, digest(node)))

def method_functions(root, printing):
    global PATH
    PATH = root + '/' + ISECT
    mod = ast.parse(open(PATH).read(), PATH)
    imports, rest = imports_of(mod)
    if imports != ISECT_IMPORTS: fail(mod.body[0], 'the import list changed: %s' % sorted(imports ^ ISECT_IMPORTS, key=str))
    seen, out = [], {}
    for s in rest:
        if not isinstance(s, ast.FunctionDef) or s.decorator_list: fail(s, 'unexpected module-level statement')
        if s.name in seen: fail(s, 'function %s defined twice' % s.name)
        seen.append(s.name)
        if s.name in ISECT_PINNED: pin(ISECT_PINNED, s.name, s, printing, 'function of intersection.py')
        elif s.name in ISECT_METHODS:
            ps = plain_args(s)
            if len(ps) != 2 or len(s.body) != 1 or not isinstance(s.body[0], ast.Return) or s.body[0].value is None: fail(s, 'expected def %s(a, b): return E' % s.name)
            tr = Tr(s, []); tr.params = ps
            b, t, ty, _ = tr.expr(s.body[0].value, {x: Var('val') for x in ps})
            if b or ty != 'val': fail(s, '%s: the expression may raise in the model / is not a number (%s)' % (s.name, ty))
            out[s.name] = ('(* intersection.py:%d *)\nDefinition gen_m_%s {VS : Val} (AR : Arith VS) : V -> V -> V :=\n  fun %s %s => %s.\n'
                           % (s.lineno, s.name, tr.nm(ps[0]), tr.nm(ps[1]), t))
        else: fail(s, 'new function %s: not known to the translator' % s.name)
    missing = [m for m in list(ISECT_PINNED) + ISECT_METHODS if m not in seen]
    if missing: fail(mod, 'functions removed: %s' % missing)
    return [out[m] for m in ISECT_METHODS]

COQARG = {'sig': 'dsig', 'int': 'Z', 'cmp': 'cmp'}

def translate_function(fd, funcs, params, ptypes, body, opname=None):
    tr = Tr(fd, funcs); tr.params = params; tr.opname = opname
    env = {p: Var(t, False) for p, t in zip(params, ptypes) if t != 'cmp'}
    def fin(e2, i2, ret=None):
        if ret is None: fail(fd, '%s can end without return' % fd.name)
        return [i2 + 'Some %s' % ret]
    lines = tr.block(list(body), env, fin, '  ', top=True)
    if len(lines) == 1 and lines[0].strip() == 'None': lines = ['  None']
    args = ' '.join('(%s : %s)' % (tr.nm(p) if t != 'cmp' else p, COQARG[t]) for p, t in zip(params, ptypes))
    return ('Definition gen_%s {VS : Val} (AR : Arith VS) %s : option dsig :=\n' % (fd.name, args)).replace('  :', ' :') + '\n'.join(lines) + '.'

def visit_method(fd, funcs):
    """strip `x = self.visit(node.children[k], *args, **kwargs)` and `begin, end = self.time_unit_transformer(node)`: they become parameters"""
    a = fd.args
    if [x.arg for x in a.args] != ['self', 'node'] or a.vararg is None or a.kwarg is None or a.vararg.arg != 'args' or a.kwarg.arg != 'kwargs' \
            or a.defaults or a.kwonlyargs or a.posonlyargs or fd.decorator_list or fd.returns: fail(fd, 'signature of %s changed' % fd.name)
    body, params, ptypes, k, timed = list(fd.body), [], [], 0, False
    while body:
        s = body[0]
        if not (isinstance(s, ast.Assign) and len(s.targets) == 1 and isinstance(s.value, ast.Call)): break
        c = s.value
        if isinstance(s.targets[0], ast.Name) and ast.unparse(c) == 'self.visit(node.children[%d], *args, **kwargs)' % k and not timed:
            params.append(s.targets[0].id); ptypes.append('sig'); k += 1; body.pop(0)
        elif isinstance(s.targets[0], ast.Tuple) and ast.unparse(c) == 'self.time_unit_transformer(node)' and not timed \
                and len(s.targets[0].elts) == 2 and all(isinstance(x, ast.Name) for x in s.targets[0].elts):
            params += [x.id for x in s.targets[0].elts]; ptypes += ['int', 'int']; timed = True; body.pop(0)
        else: break
    if len(set(params)) != len(params): fail(fd, 'the same name for two children')
    uses_op = False
    for n in ast.walk(ast.Module(body=body, type_ignores=[])):
        if isinstance(n, ast.Name) and n.id in ('args', 'kwargs'): fail(n, 'use of %s in the body' % n.id)
        if isinstance(n, ast.Name) and n.id == 'node': uses_op = True
        if is_selfattr(n) and n.attr in ('visit', 'time_unit_transformer', 'ast'): fail(n, 'self.%s outside the prologue of the method' % n.attr)
    for n in ast.walk(ast.Module(body=body, type_ignores=[])):       # node only as node.operator.value
        if isinstance(n, ast.Attribute) and is_name(n.value, 'node') and n.attr != 'operator': fail(n, 'node.%s: not modelled' % n.attr)
    opname = None
    if uses_op:
        opname = 'op'
        if 'op' in params: fail(fd, 'a child result is called op')
        params, ptypes = ['op'] + params, ['cmp'] + ptypes
    text = translate_function(fd, funcs, params, ptypes, body, opname)
    return text, k, timed, uses_op

def main():
    global PATH, ALL
    printing = '--print-digests' in sys.argv
    ALL = '--all' in sys.argv
    argv = [a for a in sys.argv[1:] if not a.startswith('--')]
    if len(argv) == 1: root, outp = '/repo', argv[0]
    elif len(argv) == 2: root, outp = argv
    else: sys.exit('usage: py2coq_denseoffline.py [REPO_ROOT] OUT.v')
    root = root.rstrip('/')
    # the dispatchers of the base classes and the comparison enumeration
    for rel in (STLV, LTLV):
        PATH = root + '/' + rel
        mod = ast.parse(open(PATH).read(), PATH)
        cls = [s for s in mod.body if isinstance(s, ast.ClassDef)]
        if len(cls) != 1: fail(mod, 'expected one class')
        vs = [s for s in cls[0].body if isinstance(s, ast.FunctionDef) and s.name == 'visit']
        if len(vs) != 1: fail(cls[0], 'expected one visit()')
        pin(PINNED_DISPATCH, rel, vs[0], printing, 'dispatcher')
    PATH = root + '/' + ENUM
    mod = ast.parse(open(PATH).read(), PATH)
    have = {t.id for c in mod.body if isinstance(c, ast.ClassDef) and c.name == 'StlComparisonOperator' for s in c.body if isinstance(s, ast.Assign)
            for t in s.targets if isinstance(t, ast.Name)}
    if have != set(CMPS): fail(mod, 'the members of StlComparisonOperator changed: %s' % sorted(have ^ set(CMPS)))
    meths = method_functions(root, printing)
    PATH = root + '/' + VIS
    mod = ast.parse(open(PATH).read(), PATH)
    imports, rest = imports_of(mod)
    if imports != VIS_IMPORTS: fail(mod.body[0], 'the import list changed: %s' % sorted(imports ^ VIS_IMPORTS, key=str))
    funcs, cls = {}, None
    for s in rest:
        if isinstance(s, ast.FunctionDef):
            if s.name in funcs or s.name not in FUNCS: fail(s, 'function %s: new or defined twice' % s.name)
            if cls is not None: fail(s, 'a function after the class')
            funcs[s.name] = s
        elif isinstance(s, ast.ClassDef) and cls is None: cls = s
        else: fail(s, 'unexpected module-level statement')
    if list(funcs) != FUNCS: fail(mod, 'the module-level functions changed: %s' % sorted(set(funcs) ^ set(FUNCS)))
    if cls is None or cls.name != CLASS or [getattr(b, 'id', None) for b in cls.bases] != ['StlAstVisitor'] or cls.keywords or cls.decorator_list:
        fail(cls or mod, 'expected class %s(StlAstVisitor)' % CLASS)
    out = []
    # a function may call the functions defined before it... Python resolves names at call time; the generated text needs them in dependency order
    order, done = [], set()
    def calls(fd): return [n.func.id for n in ast.walk(fd) if isinstance(n, ast.Call) and isinstance(n.func, ast.Name) and n.func.id in funcs]
    def place(name, stack=()):
        if name in done: return
        if name in stack: fail(funcs[name], 'recursive function')
        for c in calls(funcs[name]): place(c, stack + (name,))
        done.add(name); order.append(name)
    for name in FUNCS: place(name)
    for name in order:
        fd = funcs[name]
        ps = plain_args(fd)
        if len(ps) != len(FUNC_SIG[name]): fail(fd, 'signature of %s changed' % name)
        if name in HAND_FUNCS:
            if printing: print('PIN', 'hand-function', name, digest(fd))
            elif digest(fd) != HAND_FUNCS[name][1]: fail(fd, 'the hand-modelled function %s changed (digest %s)' % (name, digest(fd)))
            if not ALL:
                out.append('(* ast_visitor.py:%d  %s: hand model DenseWin.%s (pinned by digest) *)' % (fd.lineno, name, HAND_FUNCS[name][0]))
                continue
        out.append('(* ast_visitor.py:%d *)' % fd.lineno)
        out.append(translate_function(fd, [n for n in order if n in done and n != name and order.index(n) < order.index(name)], ps, FUNC_SIG[name], fd.body))
    mseen = {}
    for s in cls.body:
        if not isinstance(s, ast.FunctionDef): fail(s, 'unexpected class-level statement %s' % type(s).__name__)
        if s.name in mseen: fail(s, 'method %s defined twice' % s.name)
        if s.name in PINNED_METHODS:
            pin(PINNED_METHODS, s.name, s, printing, 'method'); mseen[s.name] = None; continue
        if s.name not in [d[3] for d in DISPATCH]: fail(s, 'new method %s: not known to the translator' % s.name)
        text, k, timed, uses_op = visit_method(s, FUNCS)
        mseen[s.name] = (k, timed, uses_op)
        out.append('(* ast_visitor.py:%d *)' % s.lineno)
        out.append(text)
    for name in list(PINNED_METHODS) + [d[3] for d in DISPATCH]:
        if name not in mseen: fail(cls, 'method %s removed' % name)
    # the dispatcher
    cases = []
    for patt, kids, extra, m in DISPATCH:
        if kids is None: cases.append('  | %s => %s' % (patt, extra)); continue
        k, timed, uses_op = mseen[m]
        if k > len(kids) or (timed and extra != 'be') or (uses_op and extra != 'op'): fail(cls, 'method %s: children / bounds / operator do not fit the node' % m)
        names = ['r%d' % (i + 1) for i in range(k)]
        pre = ''.join('%s <- gen_deval AR %s W ;; ' % (n, kids[i]) for i, n in enumerate(names))
        call = 'gen_%s AR%s%s%s' % (m, ' c' if uses_op else '', ''.join(' ' + n for n in names), ' (zb b) (zb e)' if timed else '')
        cases.append('  | %s => %s%s' % (patt, pre, call))
    out.append('(* the dispatcher: StlAstVisitor.visit / LtlAstVisitor.visit (pinned), one case per node class; visit() stores the result in\n'
               '   self.ast.results[node] and returns it *)')
    out.append('Fixpoint gen_deval {VS : Val} (AR : Arith VS) (p : formula) (W : list dsig) {struct p} : option dsig :=\n  match p with\n'
               + '\n'.join(cases) + '\n  end.')
    text = ('(* GENERATED by tools/py2coq_denseoffline.py from rtamt/semantics/stl/dense_time/offline/ast_visitor.py and the functions at the\n'
            '   end of .../offline/intersection.py — do not edit.  Built from the primitives of PySem.v / PyDense.v / PyDenseOff.v and the hand models\n'
            '   isect / split_isect of intersection() and DenseWin.intersects; None = the Python code raises (or leaves the model: py_fin, py_notnan). *)\n'
            'From Coq Require Import List Bool Arith ZArith.\nFrom RV Require Import Val Syntax Rho Online Dense DenseMerge DenseMergeG DenseEval DenseWin PySem PyDense PyDenseOff.\n'
            'Import ListNotations.\nLocal Open Scope Z_scope.\n\n')
    text += '\n'.join(meths) + '\n' + '\n'.join(out) + '\n'
    if not printing: open(outp, 'w').write(text)

if __name__ == '__main__':
    main()
