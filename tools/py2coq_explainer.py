#!/usr/bin/env python3
# tools/py2coq_explainer.py [REPO_ROOT] OUT.v
# FAIL-CLOSED translator:  rtamt/explanation/{ltl,stl}/discrete_time/{explainer,explanations}.py  ->  coq/theories/ExplainGen.v
#
#   gen_LTLExplainer, gen_STLExplainer : node -> list ivl -> bool -> edict -> option edict
# one Fixpoint per explainer class over NodeName.node; the arguments are element, args[0] (the intervals), args[1] (the polarity flag)
# and the state self.explanations (PyExplain.edict); the result is the state after the call, None = the code raises.
#   * dispatch: the tables class -> visitX are READ from the isinstance chains of rtamt/syntax/ast/visitor/{ltl,stl}/ast_visitor.py (the code
#     of py2coq_pastifier.py is reused: every node class derives from UnaryNode / BinaryNode / LeafNode only);
#   * visitX is looked up like Python does (STLExplainer, LTLExplainer, then the visitor bases); a method that is inherited from a visitor
#     base must be exactly `return self.visitChildren(node, *args, **kwargs)` and becomes the visit of every child with the same arguments
#     (AbstractAstVisitor.visitChildren is pinned by digest);
#   * a helper called in a method is the function of that name of the explanations module the defining class's module star-imports;
#     every function of the two explanations modules is either TRANSLATED (body = one `return`: a parameter, a pair of parameters, or a call
#     of another function of the module on parameters) or PINNED by the digest of its syntax tree to the hand model py_<name> of PyExplain.v
#     (the functions with loops).  Nothing else may be in those modules;
#   * statements: x = E; a, b = f(..); if FLAG: assignments else: assignments; self.explanations[element.name] = E;
#     self.explanations[element] = E (Constant); self.visit(element.children[K], [E1, E2]); raise RTAMTException(..).
#     expressions: names, args[0], args[1], self.spec.results[element.children[K]], not E, helper calls, self.bounds(element),
#     self.explanations.get(element.name, []) + E.
# Not translated, pinned by digest: __init__, visit, explain (hand-written epilogue), bounds + DiscreteTimeInterpreter.time_unit_transformer
# (PyExplain.py_bounds), visitDefault, UnaryNode / BinaryNode constructors.  Anything else: exit code 2 with file:line.
import ast, hashlib, os, sys
sys.path.insert(0, os.path.dirname(os.path.abspath(__file__)))
import py2coq_pastifier as PP
from py2coq_pastifier import CLASSES, ORDER, ARITY, PATTERN

E_LTL, E_STL = 'rtamt/explanation/ltl/discrete_time/explainer.py', 'rtamt/explanation/stl/discrete_time/explainer.py'
X_LTL, X_STL = 'rtamt/explanation/ltl/discrete_time/explanations.py', 'rtamt/explanation/stl/discrete_time/explanations.py'
MODNAME = {X_LTL: 'rtamt.explanation.ltl.discrete_time.explanations', X_STL: 'rtamt.explanation.stl.discrete_time.explanations'}
IMPORTS = {
    E_LTL: {('rtamt.syntax.ast.visitor.ltl.ast_visitor', 'LtlAstVisitor'), ('rtamt.exception.exception', 'RTAMTException'),
            (MODNAME[X_LTL], '*')},
    E_STL: {('rtamt.syntax.ast.visitor.stl.ast_visitor', 'StlAstVisitor'), ('rtamt.explanation.ltl.discrete_time.explainer', 'LTLExplainer'),
            (MODNAME[X_STL], '*'), ('rtamt.exception.exception', 'RTAMTException')},
}
VISITORS = [
    dict(name='LTLExplainer', file=E_LTL, bases=['LtlAstVisitor'], lookup=['LTLExplainer'], table='ltl', helpers=X_LTL),
    dict(name='STLExplainer', file=E_STL, bases=['LTLExplainer', 'StlAstVisitor'], lookup=['STLExplainer', 'LTLExplainer'], table='stl', helpers=X_STL),
]
HELPERS_OF = {'LTLExplainer': X_LTL, 'STLExplainer': X_STL}
# untranslated methods / functions: digest of the definition
OPAQUE = {
    ('LTLExplainer', '__init__'): 'a95d9a76618b', ('LTLExplainer', 'explain'): '4da1bbd1e0cb', ('LTLExplainer', 'visitDefault'): '9213d9956f70',
    ('STLExplainer', '__init__'): 'b22725cde7f5', ('STLExplainer', 'visit'): 'ea71ba9ae8a4', ('STLExplainer', 'explain'): '4da1bbd1e0cb',
    ('STLExplainer', 'bounds'): '6f0a73f74f3d', ('STLExplainer', 'visitDefault'): 'bf945d187aff',
}
OTHER = {   # (file, class, method) -> digest
    ('rtamt/syntax/ast/visitor/abstract_ast_visitor.py', 'AbstractAstVisitor', 'visitChildren'): '3fb456096ffb',
    ('rtamt/semantics/discrete_time_interpreter.py', 'DiscreteTimeInterpreter', 'time_unit_transformer'): '3790f0ed3167',
    ('rtamt/syntax/node/unary_node.py', 'UnaryNode', '__init__'): '525dd80f309d',
    ('rtamt/syntax/node/binary_node.py', 'BinaryNode', '__init__'): 'cc18ea8776e5',
    ('rtamt/syntax/node/abstract_node.py', 'AbstractNode', 'add_child'): '6100ab83194a',
}
# helper functions with loops: name -> (digest per module, return type); the hand model is py_<name> of PyExplain.v
PINNED = {
    'explain_next': 'ivs', 'explain_prev': 'ivs', 'explain_sat_or': 'ivs2', 'explain_unsat_and': 'ivs2', 'explain_sat_implies': 'ivs2',
    'explain_sat_always': 'ivs', 'explain_sat_historically': 'ivs', 'explain_sat_eventually': 'ivs', 'explain_sat_once': 'ivs',
    'explain_unsat_once': 'ivs', 'explain_unsat_always': 'ivs', 'explain_unsat_historically': 'ivs', 'explain_unsat_eventually': 'ivs',
    'interval_union': 'ivs',
    'explain_sat_timed_always': 'ivs', 'explain_sat_timed_historically': 'ivs', 'explain_sat_timed_eventually': 'ivs',
    'explain_sat_timed_once': 'ivs', 'explain_unsat_timed_once': 'ivs', 'explain_unsat_timed_always': 'ivs',
    'explain_unsat_timed_historically': 'ivs', 'explain_unsat_timed_eventually': 'ivs',
}
# the hand models that do not look at the values of the signal (no Arith argument)
NO_AR = {'interval_union', 'explain_next', 'explain_prev', 'explain_sat_always', 'explain_unsat_eventually', 'explain_sat_historically',
         'explain_unsat_once', 'explain_sat_timed_always', 'explain_unsat_timed_eventually', 'explain_sat_timed_historically',
         'explain_unsat_timed_once'}
PIN_DIGEST = {}   # (module file, name) -> digest; filled below (kept apart so that --print-digests can rewrite it)
PIN_DIGEST_TEXT = '''
rtamt/explanation/ltl/discrete_time/explanations.py explain_next 8b47bd5a3c88
rtamt/explanation/ltl/discrete_time/explanations.py explain_prev fa2cf1c3c377
rtamt/explanation/ltl/discrete_time/explanations.py explain_sat_or 6ca79e0a8257
rtamt/explanation/ltl/discrete_time/explanations.py explain_unsat_and b817c285468c
rtamt/explanation/ltl/discrete_time/explanations.py explain_sat_implies 8a63ba5fc732
rtamt/explanation/ltl/discrete_time/explanations.py explain_sat_always be701706f923
rtamt/explanation/ltl/discrete_time/explanations.py explain_sat_historically 7b6f23199e52
rtamt/explanation/ltl/discrete_time/explanations.py explain_sat_eventually c7da0dd26595
rtamt/explanation/ltl/discrete_time/explanations.py explain_sat_once 0bd259e818a8
rtamt/explanation/ltl/discrete_time/explanations.py explain_unsat_once e7f2d0e801cd
rtamt/explanation/ltl/discrete_time/explanations.py explain_unsat_always 5a64f4bddd63
rtamt/explanation/ltl/discrete_time/explanations.py explain_unsat_historically e6cdf2ac4302
rtamt/explanation/ltl/discrete_time/explanations.py explain_unsat_eventually 7630bfffe828
rtamt/explanation/ltl/discrete_time/explanations.py interval_union b0aa86926dda
rtamt/explanation/stl/discrete_time/explanations.py explain_sat_timed_always 9baacf30d534
rtamt/explanation/stl/discrete_time/explanations.py explain_sat_timed_historically 04614995fde1
rtamt/explanation/stl/discrete_time/explanations.py explain_sat_timed_eventually aa9d73bcfdcf
rtamt/explanation/stl/discrete_time/explanations.py explain_sat_timed_once 9ca6548ab2b4
rtamt/explanation/stl/discrete_time/explanations.py explain_unsat_timed_once 7dc542fcf4dd
rtamt/explanation/stl/discrete_time/explanations.py explain_unsat_timed_always 6580a7105cf1
rtamt/explanation/stl/discrete_time/explanations.py explain_unsat_timed_historically 79a9fef86dcf
rtamt/explanation/stl/discrete_time/explanations.py explain_unsat_timed_eventually 5752a9fa6968
rtamt/explanation/stl/discrete_time/explanations.py interval_union b0aa86926dda
'''
PARAM_TY = {'op_signal': 'sig', 'op1_signal': 'sig', 'op2_signal': 'sig', 'intervals': 'ivs', 'a': 'nat', 'b': 'nat'}
COQ_TY = {'sig': '(list V)', 'ivs': '(list ivl)', 'ivs2': '(list ivl * list ivl)', 'nat': 'nat', 'bool': 'bool'}
RESERVED = set('''end match with fun let in if then else return as at cofix fix forall exists for using where Type Prop Set Some None
  element args0 args1 st results du per pu nvar nfield nval nop nbegin nend ch1 ch2 true false tt Z Q nat list option bool prod pair S O nil cons
  NVar NConst NUn NTUn NFn2 NBin NTBin negb app nname KName KObj V ivl edict AR VS'''.split())

PATH = '?'
def fail(node, msg, path=None):
    sys.stderr.write('%s:%s: py2coq_explainer: %s\n' % (path or PATH, getattr(node, 'lineno', '?'), msg))
    sys.exit(2)

def digest(node): return hashlib.sha256(ast.unparse(node).encode()).hexdigest()[:12]
def is_name(e, s): return isinstance(e, ast.Name) and e.id == s
def is_attr(e, base, attr): return isinstance(e, ast.Attribute) and is_name(e.value, base) and e.attr == attr
def is_self_attr(e, attr): return is_attr(e, 'self', attr)
def is_doc(s): return isinstance(s, ast.Expr) and isinstance(s.value, ast.Constant) and isinstance(s.value.value, str)
PRINT = '--print-digests' in sys.argv
FOUND = {}
def pin(key, fd, path):
    table = OPAQUE if key in OPAQUE else OTHER if key in OTHER else PIN_DIGEST
    FOUND[key] = digest(fd)
    if PRINT: return
    if key not in table: fail(fd, 'no digest recorded for %s' % (key,), path)
    if digest(fd) != table[key]: fail(fd, 'the untranslated definition %s changed (digest %s)' % ('.'.join(key[-2:]), digest(fd)), path)

def parse(root, rel):
    global PATH
    PATH = root.rstrip('/') + '/' + rel
    if not os.path.exists(PATH): fail(None, 'file missing')
    return ast.parse(open(PATH).read(), PATH)

def nm(s, used):
    r = s + '_' if (s in RESERVED or s.startswith('gen_') or s.startswith('py_')) else s
    if r != s and r in used: fail(None, 'cannot rename %s: %s is also used' % (s, r))
    return r

# ---------------------------------------------------------------- the helper modules
class Helpers:
    def __init__(self, root, rel, taken):
        self.rel = rel
        mod = parse(root, rel); self.path = PATH
        self.fds = {}
        for s in mod.body:
            if is_doc(s): continue
            if not isinstance(s, ast.FunctionDef): fail(s, 'unexpected module-level statement %s in a helper module' % type(s).__name__)
            if s.name in self.fds or s.decorator_list: fail(s, 'function %s defined twice / decorated' % s.name)
            self.fds[s.name] = s
        self.sig, self.coq, self.text, self.done = {}, {}, [], set()
        for name in self.fds: self.coq[name] = 'gen_' + ('stl_' if ('gen_' + name) in taken else '') + name
        self.ntrans = 0
        for name in self.fds: self.define(name, [])

    def params(self, fd):
        a = fd.args
        if a.vararg or a.kwarg or a.kwonlyargs or a.posonlyargs or a.defaults or fd.returns: fail(fd, 'signature of %s' % fd.name, self.path)
        out = []
        for x in a.args:
            if x.arg not in PARAM_TY: fail(fd, 'parameter %s of %s: unknown to the translator' % (x.arg, fd.name), self.path)
            out.append((x.arg, PARAM_TY[x.arg]))
        if len(set(n for n, _ in out)) != len(out): fail(fd, 'parameter twice', self.path)
        return out

    def define(self, name, stack):
        if name in self.done: return
        if name in stack: fail(self.fds[name], 'recursive helper %s' % name, self.path)
        fd = self.fds[name]
        ps = self.params(fd)
        used = {n for n, _ in ps}
        plist = ' '.join('(%s : %s)' % (nm(n, used), COQ_TY[t]) for n, t in ps)
        body = [s for s in fd.body if not is_doc(s)]
        if name in PINNED:
            pin((self.rel, name), fd, self.path)
            ret = PINNED[name]
            want = {'ivs': [['sig', 'ivs'], ['ivs'], ['sig', 'ivs', 'nat', 'nat']], 'ivs2': [['sig', 'sig', 'ivs']]}[ret]
            if [t for _, t in ps] not in want: fail(fd, 'parameters of the pinned helper %s changed' % name, self.path)
            ar = '' if name in NO_AR else 'AR '
            self.text.append('(* %s:%d %s — hand model (loops), pinned by digest %s *)\nDefinition %s %s : option %s :=\n  py_%s %s%s.\n'
                             % (os.path.basename(self.rel), fd.lineno, name, FOUND[(self.rel, name)], self.coq[name], plist, COQ_TY[ret], name, ar,
                                ' '.join(nm(n, used) for n, _ in ps)))
        else:
            if len(body) != 1 or not isinstance(body[0], ast.Return) or body[0].value is None:
                fail(fd, 'helper %s is neither pinned nor a single `return`' % name, self.path)
            e = body[0].value
            env = dict(ps)
            if isinstance(e, ast.Name):
                if e.id not in env or env[e.id] != 'ivs': fail(e, 'returns %s' % e.id, self.path)
                ret, term = 'ivs', 'Some %s' % nm(e.id, used)
            elif isinstance(e, ast.Tuple) and len(e.elts) == 2 and all(isinstance(x, ast.Name) and env.get(x.id) == 'ivs' for x in e.elts):
                ret, term = 'ivs2', 'Some (%s, %s)' % tuple(nm(x.id, used) for x in e.elts)
            elif isinstance(e, ast.Call) and isinstance(e.func, ast.Name) and not e.keywords:
                f = e.func.id
                if f in env or f not in self.fds: fail(e, 'call of %s, which is not a function of this module' % f, self.path)
                self.define(f, stack + [name])
                fps, fret = self.sig[f]
                if len(e.args) != len(fps): fail(e, '%s called with %d arguments' % (f, len(e.args)), self.path)
                args = []
                for a, (_, t) in zip(e.args, fps):
                    if not isinstance(a, ast.Name) or env.get(a.id) != t: fail(a, 'argument of %s: expected a parameter of type %s' % (f, t), self.path)
                    args.append(nm(a.id, used))
                ret, term = fret, '%s %s' % (self.coq[f], ' '.join(args))
            else: fail(e, 'unsupported return expression %s' % ast.unparse(e), self.path)
            self.ntrans += 1
            self.text.append('(* %s:%d %s *)\nDefinition %s %s : option %s :=\n  %s.\n'
                             % (os.path.basename(self.rel), fd.lineno, name, self.coq[name], plist, COQ_TY[ret], term))
        self.sig[name] = (ps, ret)
        self.done.add(name)

# ---------------------------------------------------------------- one method in the context of one visitor class
class Method:
    def __init__(self, fd, cls, V, path, helpers, gen):
        self.fd, self.cls, self.V, self.path, self.H, self.gen, self.ntmp = fd, cls, V, path, helpers, gen, 0
        self.ctor, self.tag = CLASSES[cls]
        self.pynames = {n.id for n in ast.walk(fd) if isinstance(n, ast.Name)} | {a.arg for a in ast.walk(fd) if isinstance(a, ast.arg)}
    def fail(self, n, msg): fail(n, '%s.%s (as %s): %s' % (self.V['name'], self.fd.name, self.cls, msg), self.path)
    def nm(self, s):
        r = s + '_' if (s in RESERVED or s.startswith('gen_') or s.startswith('py_')) else s
        if r != s and r in self.pynames: self.fail(self.fd, 'cannot rename %s: %s is also used' % (s, r))
        return r
    def tmp(self):
        while True:
            self.ntmp += 1
            t = 't%d' % self.ntmp
            if t not in self.pynames: return t
    def child(self, e):
        if not (isinstance(e, ast.Subscript) and is_attr(e.value, 'element', 'children') and isinstance(e.slice, ast.Constant)
                and type(e.slice.value) is int): self.fail(e, 'expected element.children[K]')
        k = e.slice.value
        if not 0 <= k < ARITY[self.ctor]: self.fail(e, 'children[%d] of a node with %d children' % (k, ARITY[self.ctor]))
        return 'ch%d' % (k + 1)
    def key(self, e):
        if is_attr(e, 'element', 'name'): return '(KName (nname element))'
        if is_name(e, 'element') and self.cls == 'Constant': return '(KObj element)'
        self.fail(e, 'unsupported key %s of self.explanations' % ast.unparse(e))

    # expressions: (binds, term, type)
    def expr(self, e, env):
        if isinstance(e, ast.Name):
            if e.id in ('self', 'element', 'args'): self.fail(e, 'bare use of %s' % e.id)
            if e.id not in env: self.fail(e, 'name %s is not certainly bound here' % e.id)
            return [], self.nm(e.id), env[e.id]
        if isinstance(e, ast.UnaryOp) and isinstance(e.op, ast.Not):
            b, t, ty = self.expr(e.operand, env)
            if ty != 'bool': self.fail(e, 'not of %s' % ty)
            return b, '(negb %s)' % t, 'bool'
        if isinstance(e, ast.Subscript):
            if is_name(e.value, 'args') and isinstance(e.slice, ast.Constant) and type(e.slice.value) is int and e.slice.value in (0, 1):
                return [], 'args%d' % e.slice.value, ('ivs', 'bool')[e.slice.value]
            v = e.value
            if isinstance(v, ast.Attribute) and v.attr == 'results' and is_self_attr(v.value, 'spec'):
                return [], '(results %s)' % self.child(e.slice), 'sig'
            self.fail(e, 'unsupported subscript %s' % ast.unparse(e))
        if isinstance(e, ast.BinOp) and isinstance(e.op, ast.Add):
            b1, t1, y1 = self.expr(e.left, env); b2, t2, y2 = self.expr(e.right, env)
            if (y1, y2) != ('ivs', 'ivs'): self.fail(e, '+ on %s, %s' % (y1, y2))
            return b1 + b2, '(%s ++ %s)' % (t1, t2), 'ivs'
        if isinstance(e, ast.Call): return self.call(e, env)
        self.fail(e, 'unsupported expression %s' % ast.unparse(e))

    def call(self, e, env):
        f = e.func
        if e.keywords or any(isinstance(a, ast.Starred) for a in e.args): self.fail(e, 'keyword / starred arguments')
        if is_self_attr(f, 'bounds'):
            if len(e.args) != 1 or not is_name(e.args[0], 'element') or self.ctor not in ('NTUn', 'NTBin'):
                self.fail(e, 'self.bounds(element) on a node without an interval')
            if self.V['name'] != 'STLExplainer': self.fail(e, 'bounds() in a class without it')
            x = self.tmp()
            return [(x, 'py_bounds du per pu nbegin nend')], x, 'nat2'
        if isinstance(f, ast.Attribute) and f.attr == 'get' and is_self_attr(f.value, 'explanations'):
            if len(e.args) != 2 or not (isinstance(e.args[1], ast.List) and not e.args[1].elts): self.fail(e, 'only self.explanations.get(KEY, [])')
            return [], '(py_dget %s [] st)' % self.key(e.args[0]), 'ivs'
        if not isinstance(f, ast.Name) or f.id in env: self.fail(e, 'unsupported call %s' % ast.unparse(f))
        if f.id not in self.H.fds: self.fail(e, '%s is not a function of %s' % (f.id, self.H.rel))
        fps, fret = self.H.sig[f.id]
        if len(e.args) != len(fps): self.fail(e, '%s called with %d arguments' % (f.id, len(e.args)))
        binds, terms = [], []
        for a, (_, t) in zip(e.args, fps):
            b, tt, ty = self.expr(a, env)
            if ty != t: self.fail(a, 'argument of %s: %s where %s is expected' % (f.id, ty, t))
            binds += b; terms.append(tt)
        x = self.tmp()
        return binds + [(x, '%s %s' % (self.H.coq[f.id], ' '.join(terms)))], x, fret

    def binds(self, b, ind): return [ind + '%s <- %s ;;' % bt for bt in b]
    def tup(self, names): return '(%s)' % ', '.join(self.nm(n) for n in names) if len(names) > 1 else self.nm(names[0])
    def pat(self, names): return "'" + self.tup(names) if len(names) != 1 else self.nm(names[0])

    def assign(self, s, env, ind):
        """x = E / a, b = E  -> lines; updates env"""
        if len(s.targets) != 1: self.fail(s, 'chained assignment')
        t = s.targets[0]
        b, tt, ty = self.expr(s.value, env)
        if isinstance(t, ast.Name):
            if t.id in ('self', 'element', 'args') or ty not in ('ivs', 'bool', 'sig'): self.fail(s, 'assignment of %s to %s' % (ty, t.id))
            if t.id in env and env[t.id] != ty: self.fail(s, '%s changes type' % t.id)
            env[t.id] = ty
            return self.binds(b, ind) + [ind + 'let %s := %s in' % (self.nm(t.id), tt)]
        if isinstance(t, ast.Tuple) and len(t.elts) == 2 and all(isinstance(x, ast.Name) for x in t.elts) and ty in ('ivs2', 'nat2'):
            a1, a2 = t.elts[0].id, t.elts[1].id
            if a1 == a2 or {a1, a2} & {'self', 'element', 'args'}: self.fail(s, 'targets %s, %s' % (a1, a2))
            ety = 'ivs' if ty == 'ivs2' else 'nat'
            for a in (a1, a2):
                if a in env and env[a] != ety: self.fail(s, '%s changes type' % a)
                env[a] = ety
            return self.binds(b, ind) + [ind + "let '(%s, %s) := %s in" % (self.nm(a1), self.nm(a2), tt)]
        self.fail(s, 'unsupported assignment %s' % ast.unparse(s))

    def block(self, stmts, env, ind):
        if not stmts: return [ind + 'Some st']
        s, rest = stmts[0], stmts[1:]
        if isinstance(s, ast.Raise):
            if rest: self.fail(s, 'statements after raise')
            if not (isinstance(s.exc, ast.Call) and is_name(s.exc.func, 'RTAMTException')): self.fail(s, 'raises something else than RTAMTException')
            return [ind + 'None']
        if isinstance(s, ast.Assign):
            t = s.targets[0]
            if len(s.targets) == 1 and isinstance(t, ast.Subscript) and is_self_attr(t.value, 'explanations'):
                k = self.key(t.slice)
                b, tt, ty = self.expr(s.value, env)
                if ty != 'ivs': self.fail(s, 'stores %s in self.explanations' % ty)
                return self.binds(b, ind) + [ind + 'let st := py_dset %s %s st in' % (k, tt)] + self.block(rest, env, ind)
            return self.assign(s, env, ind) + self.block(rest, env, ind)
        if isinstance(s, ast.Expr) and isinstance(s.value, ast.Call) and is_self_attr(s.value.func, 'visit'):
            c = s.value
            if len(c.args) != 2 or c.keywords or not (isinstance(c.args[1], ast.List) and len(c.args[1].elts) == 2):
                self.fail(s, 'expected self.visit(element.children[K], [INTERVALS, FLAG])')
            ch = self.child(c.args[0])
            b1, t1, y1 = self.expr(c.args[1].elts[0], env); b2, t2, y2 = self.expr(c.args[1].elts[1], env)
            if (y1, y2) != ('ivs', 'bool'): self.fail(s, 'visit with arguments of types %s, %s' % (y1, y2))
            return self.binds(b1 + b2, ind) + [ind + 'st <- %s %s %s %s st ;;' % (self.gen, ch, t1, t2)] + self.block(rest, env, ind)
        if isinstance(s, ast.If):
            b, t, ty = self.expr(s.test, env)
            if ty != 'bool' or b: self.fail(s, 'the condition must be a flag')
            outs = []
            for blk in (s.body, s.orelse):
                e2 = dict(env); lines = []
                if not blk: self.fail(s, 'if without else')
                for x in blk:
                    if not isinstance(x, ast.Assign) or not all(isinstance(tg, (ast.Name, ast.Tuple)) for tg in x.targets):
                        self.fail(x, 'only assignments to local names inside if / else')
                    lines += self.assign(x, e2, ind + '    ')
                new = sorted(n for n in e2 if n not in env or e2[n] != env[n])
                assigned = sorted({tg.id for x in blk for tg0 in x.targets for tg in ([tg0] if isinstance(tg0, ast.Name) else tg0.elts)})
                outs.append((lines, e2, assigned))
            if outs[0][2] != outs[1][2]: self.fail(s, 'the branches assign different names: %s / %s' % (outs[0][2], outs[1][2]))
            names = outs[0][2]
            for n in names:
                if outs[0][1][n] != outs[1][1][n]: self.fail(s, '%s has two types' % n)
                env[n] = outs[0][1][n]
            out = [ind + '%s <- (if %s then' % (self.pat(names), t)] + outs[0][0] + [ind + '    Some %s' % self.tup(names), ind + '  else']
            out += outs[1][0] + [ind + '    Some %s) ;;' % self.tup(names)]
            return out + self.block(rest, env, ind)
        self.fail(s, 'unsupported statement %s' % ast.unparse(s).split('\n')[0])

    def translate(self):
        fd, a = self.fd, self.fd.args
        if ([x.arg for x in a.args] != ['self', 'element', 'args'] or a.vararg or a.kwarg or a.posonlyargs or a.kwonlyargs or a.defaults
                or fd.decorator_list or fd.returns): self.fail(fd, 'signature changed')
        body = [s for s in fd.body if not is_doc(s)]
        for n in ast.walk(ast.Module(body=body, type_ignores=[])):
            if isinstance(n, (ast.Lambda, ast.FunctionDef, ast.ClassDef, ast.Global, ast.Nonlocal, ast.Try, ast.While, ast.With, ast.For,
                              ast.Return, ast.ListComp, ast.Yield)):
                self.fail(n, 'unsupported construct %s' % type(n).__name__)
        for n in ('args0', 'args1', 'st', 'results', 'du', 'per', 'pu'):
            if n in self.pynames: self.fail(fd, 'the name %s is used by the translator' % n)
        return self.block(body, {}, '      ')

# ---------------------------------------------------------------- classes
def class_of(root, rel, cname):
    mod = parse(root, rel); PP.PATH = PATH
    cds = [s for s in mod.body if isinstance(s, ast.ClassDef) and s.name == cname]
    if len(cds) != 1: fail(None, 'class %s not found once' % cname)
    return cds[0], PATH

def check_other(root):
    for (rel, cname, m) in OTHER:
        cd, path = class_of(root, rel, cname)
        ms = {s.name: s for s in cd.body if isinstance(s, ast.FunctionDef)}
        if len([s for s in cd.body if isinstance(s, ast.FunctionDef) and s.name == m]) > 1: fail(cd, '%s.%s is defined twice' % (cname, m), path)
        if m not in ms: fail(cd, '%s.%s is gone' % (cname, m), path)
        pin((rel, cname, m), ms[m], path)

def base_methods(root):
    """visitX of the visitor bases: name -> (fd, path); each must be `return self.visitChildren(node, *args, **kwargs)` to be usable"""
    out = {}
    for rel, cname in ((PP.V_STL, 'StlAstVisitor'), (PP.V_LTL, 'LtlAstVisitor')):
        cd, path = class_of(root, rel, cname)
        for m, fd in PP.methods_of(cd).items():
            if m not in out: out[m] = (fd, path)
    return out

def explainer_module(root, V):
    mod = parse(root, V['file']); path = PATH
    imps, classes = set(), {}
    for s in mod.body:
        if is_doc(s): continue
        if isinstance(s, ast.ImportFrom):
            if s.level: fail(s, 'relative import')
            for al in s.names:
                if al.asname: fail(s, 'import ... as')
                imps.add((s.module, al.name))
        elif isinstance(s, ast.ClassDef):
            if s.keywords or s.decorator_list or s.name in classes: fail(s, 'class %s: keywords / decorators / twice' % s.name)
            classes[s.name] = s
        else: fail(s, 'unexpected module-level statement %s' % type(s).__name__)
    if imps != IMPORTS[V['file']]: fail(mod.body[0], 'the imports changed: %s' % sorted(imps ^ IMPORTS[V['file']]))
    if list(classes) != [V['name']]: fail(mod.body[0], 'expected exactly the class %s' % V['name'])
    cd = classes[V['name']]
    if [ast.unparse(b) for b in cd.bases] != V['bases']: fail(cd, 'bases of %s changed' % V['name'])
    return cd, path

def visitor_text(V, cds, tables, helpers, bases):
    table = tables[V['table']]
    own, own_path = cds[V['name']]
    for m, fd in PP.methods_of(own).items():
        if m in table.values(): continue
        pin((V['name'], m), fd, own_path)
    for (c, m) in OPAQUE:
        if c == V['name'] and m not in PP.methods_of(own): fail(own, 'the pinned method %s.%s was removed' % (c, m), own_path)
    gen = 'gen_%s' % V['name']
    def resolve(m):
        for cname in V['lookup']:
            ms = PP.methods_of(cds[cname][0])
            if m in ms: return ms[m], cname, cds[cname][1]
        return None
    L = ['(* class %s(%s) — %s *)' % (V['name'], ', '.join(V['bases']), V['file']),
         'Fixpoint %s (element : NodeName.node) (args0 : list ivl) (args1 : bool) (st : edict) {struct element} : option edict :=' % gen,
         '  match element with']
    count = [0, 0]
    def clause(cls):
        if cls not in table: return ['      None (* %s: not dispatched by this visitor, raise_exception *)' % cls]
        r = resolve(table[cls])
        if r is None:
            if table[cls] not in bases: fail(own, 'no method %s anywhere' % table[cls], own_path)
            fd, path = bases[table[cls]]
            body = [s for s in fd.body if not is_doc(s)]
            if len(body) != 1 or ast.unparse(body[0]) != 'return self.visitChildren(node, *args, **kwargs)':
                fail(fd, 'the inherited %s is not `return self.visitChildren(node, *args, **kwargs)`' % table[cls], path)
            ctor = CLASSES[cls][0]
            if ARITY[ctor] == 0: fail(fd, 'visitChildren on a leaf', path)
            count[1] += 1
            out = ['      (* inherited %s %s:%d: visitChildren *)' % (fd.name, os.path.basename(path), fd.lineno)]
            for k in range(ARITY[ctor]): out.append('      st <- %s ch%d args0 args1 st ;;' % (gen, k + 1))
            return out + ['      Some st']
        fd, cname, path = r
        count[0] += 1
        return ['      (* %s.%s %s:%d *)' % (cname, fd.name, os.path.basename(path), fd.lineno)] + \
            Method(fd, cls, V, path, helpers[HELPERS_OF[cname]], gen).translate()
    by = {}
    for cls, (ctor, tag) in CLASSES.items(): by.setdefault(ctor, {})[tag] = cls
    for ctor in ['NVar', 'NConst', 'NUn', 'NTUn', 'NFn2', 'NBin', 'NTBin']:
        L.append('  | %s =>' % PATTERN[ctor])
        if ctor in ('NVar', 'NConst'): L += clause(by[ctor][None]); continue
        L.append('    match nop with')
        for tag in ORDER[ctor]:
            L.append('    | %s =>' % (tag if tag != 'b_pred' else 'b_pred nop'))
            L += clause(by[ctor][tag])
        L.append('    end')
    L.append('  end.')
    return '\n'.join(L) + '\n', count

EPILOGUE = '''(* ---- explain() (hand-written, pinned by the digests of LTLExplainer.explain / STLExplainer.explain):
     self.explanations = dict()
     for spec in self.spec.specs[-1:]:
         top_signal = self.spec.results[spec]
         if top_signal[0] < 0: self.visit(spec, [[[0, 0]], False])                                            ---- *)
Definition gen_ltl_explain (specs : list NodeName.node) : option edict :=
  py_for (py_last_slice specs) (fun spec st =>
    let top_signal := results spec in
    violated <- py_head_negative AR top_signal ;;
    if violated then gen_LTLExplainer spec [(0, 0)] false st else Some st) [].
Definition gen_stl_explain (specs : list NodeName.node) : option edict :=
  py_for (py_last_slice specs) (fun spec st =>
    let top_signal := results spec in
    violated <- py_head_negative AR top_signal ;;
    if violated then gen_STLExplainer spec [(0, 0)] false st else Some st) [].
'''

def load_pins():
    for line in PIN_DIGEST_TEXT.strip().split('\n'):
        if line.strip():
            rel, name, d = line.split()
            PIN_DIGEST[(rel, name)] = d

def main():
    argv = [a for a in sys.argv[1:] if not a.startswith('--')]
    if len(argv) == 1: root, out = '/repo', argv[0]
    elif len(argv) == 2: root, out = argv
    else: sys.exit('usage: py2coq_explainer.py [REPO_ROOT] OUT.v')
    load_pins()
    tables = PP.dispatch_tables(root)
    check_other(root)
    bases = base_methods(root)
    h_ltl = Helpers(root, X_LTL, set())
    h_stl = Helpers(root, X_STL, set(h_ltl.coq.values()))
    helpers = {X_LTL: h_ltl, X_STL: h_stl}
    cds = {}
    for V in VISITORS: cds[V['name']] = explainer_module(root, V)
    texts, total, inherited = [], 0, 0
    for V in VISITORS:
        t, c = visitor_text(V, cds, tables, helpers, bases)
        texts.append(t); total += c[0]; inherited += c[1]
    if PRINT:
        for k, v in FOUND.items(): print(k, v)
        return
    text = ('(* GENERATED by tools/py2coq_explainer.py from rtamt/explanation/{ltl,stl}/discrete_time/{explainer,explanations}.py — do not edit.\n'
            '   One Definition per helper function (translated when it only forwards, else the pinned hand model of PyExplain.v), one Fixpoint per\n'
            '   explainer class with one clause per node class (the method visit() dispatches to); None = the Python code raises. *)\n'
            'From Coq Require Import List Bool ZArith String.\nFrom RV Require Import Val Syntax PySem Units NodeName Explain PyExplain.\n'
            'Import ListNotations.\n\nSection Gen.\nContext {VS : Val} (AR : Arith VS).\n'
            '(* self.spec.results; the default unit of the specification, the sampling period and its unit (for bounds()) *)\n'
            'Variable results : NodeName.node -> list V.\nVariable du : tunit.\nVariable per : Z.\nVariable pu : tunit.\n\n')
    text += '(* ---- %s ---- *)\n' % X_LTL + '\n'.join(h_ltl.text) + '\n(* ---- %s ---- *)\n' % X_STL + '\n'.join(h_stl.text) + '\n'
    text += '\n'.join(texts) + '\n' + EPILOGUE + 'End Gen.\n'
    text += '\nDefinition gen_explainer_clause_count : nat := %d%%nat.\nDefinition gen_explainer_inherited_count : nat := %d%%nat.\n' % (total, inherited)
    text += 'Definition gen_explainer_helper_count : nat := %d%%nat.\n' % (h_ltl.ntrans + h_stl.ntrans)
    open(out, 'w').write(text)

if __name__ == '__main__':
    main()
