#!/usr/bin/env python3
# tools/py2coq_denseoffline_ia.py [REPO_ROOT] OUT.v [--print-digests]
# FAIL-CLOSED translator: the IA-STL dense-time OFFLINE visitors
#     rtamt/semantics/iastl/dense_time/offline/ast_visitor.py      ->  coq/theories/DenseOfflineIAGen.v
# An extension of tools/py2coq_denseoffline.py (same scheme, same primitives, its class Tr is subclassed; nothing of it is edited).
#   gen_ia_visitPredicate AR op l r : option (dsig * list (Z * bool))
#       IAStlDenseTimeOfflineAstVisitor.visitPredicate: the pair (out_samples, sat_samples); l, r = what self.visit returned for the children
#   gen_ia_<K>_visitPredicate AR op no_vars l r : option dsig        K = OutputRobustness | InputRobustness | InputVacuity | OutputVacuity
#       IAStl<K>DenseTimeOfflineAstVisitor.visitPredicate; no_vars = `not node.out_vars` (Output*) / `not node.in_vars` (Input*):
#       the only thing the method reads of that list is its truth value
# Beyond the base translator:
#   * Booleans: True / False, `A if C else B` (both branches without a raise), b == True, variables of type bool;
#   * `[t, b]` with b a Boolean is a bsample (Z * bool), a list of them a bsig;  0.0 is azero AR;
#   * a name bound on some paths of an `if` only is an option (ubool): reading it when unbound is py_bound None (UnboundLocalError; a value
#     left over by an earlier loop iteration is outside the model, also None);
#   * `return a, b` (base class) and `a, b = IAStlDenseTimeOfflineAstVisitor.visitPredicate(self, node, *args, **kwargs)` (subclasses);
#   * subtraction_operation is the imported function of the STL visitor: gen_subtraction_operation of DenseOfflineGen.v.
# The class list, the bases, the method names, the imports and the attribute of node each subclass reads are fixed below; anything else exits 2.
import ast, os, sys
sys.path.insert(0, os.path.dirname(os.path.abspath(__file__)))
import py2coq_denseoffline as base
from py2coq_denseoffline import Var, key, is_name, is_float

VIS = 'rtamt/semantics/iastl/dense_time/offline/ast_visitor.py'
ENUM = base.ENUM
BASECLASS = 'IAStlDenseTimeOfflineAstVisitor'
# class -> (suffix of the generated name, the attribute of node whose truth value is the parameter no_vars)
SUBCLASSES = [('IAStlOutputRobustnessDenseTimeOfflineAstVisitor', 'OutputRobustness', 'out_vars'),
              ('IAStlInputRobustnessDenseTimeOfflineAstVisitor', 'InputRobustness', 'in_vars'),
              ('IAStlInputVacuityDenseTimeOfflineAstVisitor', 'InputVacuity', 'in_vars'),
              ('IAStlOutputVacuityDenseTimeOfflineAstVisitor', 'OutputVacuity', 'out_vars')]
IMPORTS = {('from', 'rtamt.semantics.enumerations.comp_oper', 'StlComparisonOperator'),
           ('from', 'rtamt.semantics.stl.dense_time.offline.ast_visitor', 'StlDenseTimeOfflineAstVisitor'),
           ('from', 'rtamt.semantics.stl.dense_time.offline.ast_visitor', 'subtraction_operation')}
BASECALL = BASECLASS + '.visitPredicate(self, node, *args, **kwargs)'

# the new types
base.LISTS['bsig'] = 'bsample'
base.COQELEM['bsig'] = '(Z * bool)%type'
base.RESERVED |= {'Bool', 'eqb', 'no_vars', 'bsample', 'bsig'}
_join = base.join
def ia_join(node, a, b, what=''):
    if a == b: return a
    if {a, b} <= {'bool', 'unbound', 'ubool'}: return 'ubool'
    return _join(node, a, b, what)
base.join = ia_join
fail = base.fail

def definitely(stmts):
    """names bound on every path through the statements (assignments and if only)"""
    out = set()
    for s in stmts:
        if isinstance(s, ast.Assign): out |= base.assigned([s])
        elif isinstance(s, ast.If): out |= definitely(s.body) & definitely(s.orelse)
    return out

def shallow(stmts):
    """names assigned by the statements outside loops (a name a loop body binds is local to the loop for the base translator)"""
    out = set()
    for s in stmts:
        if isinstance(s, ast.Assign): out |= base.assigned([s])
        elif isinstance(s, ast.If): out |= shallow(s.body) | shallow(s.orelse)
    return out

class IATr(base.Tr):
    varsattr = None          # the attribute of node that is the parameter no_vars (subclasses)

    def coerce(self, e, t, ty, want):
        if ty == want: return [], t
        if (ty, want) == ('bool', 'ubool'): return [], '(Some %s)' % t
        if (ty, want) == ('unbound', 'ubool'): return [], '(@None bool)'
        if (ty, want) == ('ubool', 'bool'):
            x = self.tmp(); return [(x, 'py_bound %s' % t)], x
        if (ty, want) == ('unbound', 'bool'):
            x = self.tmp(); return [(x, 'py_bound (@None bool)')], x
        return super().coerce(e, t, ty, want)

    def isvars(self, e):
        return isinstance(e, ast.Attribute) and is_name(e.value, 'node') and self.varsattr is not None and e.attr == self.varsattr

    def cond(self, e, env):
        if self.isvars(e): return [], '(negb no_vars)'                  # truth value of the list node.out_vars / node.in_vars
        return super().cond(e, env)

    def expr(self, e, env):
        if isinstance(e, ast.UnaryOp) and isinstance(e.op, ast.Not) and self.isvars(e.operand): return [], 'no_vars', 'bool', False
        if self.isvars(e): fail(e, 'node.%s is used for something else than its truth value' % e.attr)
        if isinstance(e, ast.Constant) and e.value is True: return [], 'true', 'bool', False
        if isinstance(e, ast.Constant) and e.value is False: return [], 'false', 'bool', False
        if isinstance(e, ast.Constant) and type(e.value) is float and e.value == 0.0 and str(e.value) == '0.0': return [], '(azero AR)', 'val', False
        if isinstance(e, ast.IfExp):
            bc, tc = self.cond(e.test, env)
            b1, t1, y1, _ = self.expr(e.body, env); b2, t2, y2, _ = self.expr(e.orelse, env)
            if b1 or b2: fail(e, 'a branch of a conditional expression may raise')
            ty = base.join(e, y1, y2, 'conditional expression')
            if ty == 'infty': ty = 'val'
            if ty not in ('bool', 'val', 'int'): fail(e, 'conditional expression of type %s' % ty)
            (c1, t1), (c2, t2) = self.coerce(e, t1, y1, ty), self.coerce(e, t2, y2, ty)
            if c1 or c2: fail(e, 'a branch of a conditional expression may raise')
            return bc, '(if %s then %s else %s)' % (tc, t1, t2), ty, False
        if isinstance(e, ast.Compare) and len(e.ops) == 1:
            save = self.ntmp
            b1, t1, y1, _ = self.expr(e.left, env); b2, t2, y2, _ = self.expr(e.comparators[0], env)
            if 'bool' in (y1, y2) or 'ubool' in (y1, y2) or 'unbound' in (y1, y2):
                if not isinstance(e.ops[0], ast.Eq): fail(e, 'comparison %s of Booleans' % type(e.ops[0]).__name__)
                (c1, t1), (c2, t2) = self.coerce(e, t1, y1, 'bool'), self.coerce(e, t2, y2, 'bool')
                return b1 + c1 + b2 + c2, '(Bool.eqb %s %s)' % (t1, t2), 'bool', False
            self.ntmp = save
        if isinstance(e, ast.List) and len(e.elts) == 2:
            save = self.ntmp
            b2, t2, y2, _ = self.expr(e.elts[1], env)
            if y2 in ('bool', 'ubool', 'unbound'):
                self.ntmp = save
                b1, t1, y1, _ = self.expr(e.elts[0], env); b2, t2, y2, _ = self.expr(e.elts[1], env)
                c1, t1 = self.coerce(e, t1, y1, 'int'); c2, t2 = self.coerce(e, t2, y2, 'bool')
                return b1 + b2 + c1 + c2, '(%s, %s)' % (t1, t2), 'bsample', True
            self.ntmp = save
        if isinstance(e, ast.Subscript) and not isinstance(e.slice, ast.Slice):
            save = self.ntmp
            b, t, ty, _ = self.expr(e.value, env)
            if ty == 'bsample':
                lit = e.slice.value if isinstance(e.slice, ast.Constant) and type(e.slice.value) is int else None
                if lit == 0: return b, '(fst %s)' % t, 'int', False
                if lit == 1: return b, '(snd %s)' % t, 'bool', False
                fail(e, 'subscript of bsample')
            self.ntmp = save
        return super().expr(e, env)

    def store(self, s, target, t, ty, fresh, env, ind):
        if ty in ('ubool', 'unbound'): fail(s, 'copy of a possibly unbound variable')
        if ty == 'bool':
            k = key(target)
            if k is None or k in ('self', 'node'): fail(s, 'unsupported assignment target')
            if k in self.params: fail(s, 'assignment to a parameter')
            if k not in self.loaded: return []
            env[k] = Var('bool', False)
            return [ind + 'let %s := %s in' % (self.nm(k), t)]
        return super().store(s, target, t, ty, fresh, env, ind)

    def block(self, stmts, env, final, ind, top=False):
        if stmts and isinstance(stmts[0], ast.If):
            # a name some path through the if leaves unbound: an option from here on
            s = stmts[0]
            env = dict(env)
            for n in sorted(shallow([s]) - definitely([s])):
                if n not in env and n in self.loaded: env[n] = Var('unbound')
        if stmts and isinstance(stmts[0], ast.Return) and isinstance(stmts[0].value, ast.Tuple):
            s = stmts[0]
            if not top or len(stmts) > 1: fail(s, 'return must be the last statement of the function')
            if not self.pair_return: fail(s, 'return of a tuple')
            if len(s.value.elts) != 2: fail(s, 'return of a tuple that is not a pair')
            parts = [self.expr(x, env) for x in s.value.elts]
            b, ts = sum((p[0] for p in parts), []), []
            for p, want in zip(parts, ['sig', 'bsig']):
                c, t = self.coerce(s, p[1], p[2], want); b = b + c; ts.append(t)
            return self.binds(b, ind) + final(env, ind, '(%s, %s)' % tuple(ts))
        if stmts and isinstance(stmts[0], ast.Return) and self.pair_return: fail(stmts[0], 'the base method must return the pair out_samples, sat_samples')
        return super().block(stmts, env, final, ind, top)
    pair_return = False

def method_of(cls, bases):
    if [getattr(b, 'id', None) for b in cls.bases] != bases or cls.keywords or cls.decorator_list: fail(cls, 'expected class %s(%s)' % (cls.name, ', '.join(bases)))
    if len(cls.body) != 1 or not isinstance(cls.body[0], ast.FunctionDef) or cls.body[0].name != 'visitPredicate':
        fail(cls, 'class %s: expected exactly the method visitPredicate' % cls.name)
    fd = cls.body[0]
    a = fd.args
    if [x.arg for x in a.args] != ['self', 'node'] or a.vararg is None or a.kwarg is None or a.vararg.arg != 'args' or a.kwarg.arg != 'kwargs' \
            or a.defaults or a.kwonlyargs or a.posonlyargs or fd.decorator_list or fd.returns: fail(fd, 'signature of %s.visitPredicate changed' % cls.name)
    return fd

def check_body(fd, body, attrs):
    for n in ast.walk(ast.Module(body=body, type_ignores=[])):
        if isinstance(n, ast.Name) and n.id in ('args', 'kwargs', 'self'): fail(n, 'use of %s in the body' % n.id)
        if isinstance(n, ast.Attribute) and is_name(n.value, 'node') and n.attr not in attrs: fail(n, 'node.%s: not modelled' % n.attr)
        if isinstance(n, ast.Name) and n.id == BASECLASS: fail(n, 'the base class outside the prologue of the method')
        if isinstance(n, (ast.Lambda, ast.FunctionDef, ast.ClassDef, ast.Global, ast.Nonlocal, ast.Try, ast.With)): fail(n, 'unsupported construct %s' % type(n).__name__)

def emit(tr, fd, header, prologue, body, env):
    def fin(e2, i2, ret=None):
        if ret is None: fail(fd, '%s can end without return' % fd.name)
        return [i2 + 'Some %s' % ret]
    lines = tr.block(list(body), env, fin, '  ', top=True)
    return header + '\n' + '\n'.join(prologue + lines) + '.'

def base_method(cls):
    fd = method_of(cls, ['StlDenseTimeOfflineAstVisitor'])
    body, params = list(fd.body), []
    while body:
        s = body[0]
        if isinstance(s, ast.Assign) and len(s.targets) == 1 and isinstance(s.targets[0], ast.Name) \
                and ast.unparse(s.value) == 'self.visit(node.children[%d], *args, **kwargs)' % len(params):
            params.append(s.targets[0].id); body.pop(0)
        else: break
    if len(params) != 2 or len(set(params)) != 2: fail(fd, 'expected the visits of the two children, in order, at the start of the method')
    check_body(fd, body, {'operator'})
    tr = IATr(fd, ['subtraction_operation']); tr.params = ['op'] + params; tr.opname = 'op'; tr.pair_return = True
    if 'op' in tr.pynames: fail(fd, 'a local name is called op')
    env = {p: Var('sig', False) for p in params}
    header = ('Definition gen_ia_visitPredicate {VS : Val} (AR : Arith VS) (op : cmp) (%s : dsig) (%s : dsig) : option (dsig * list (Z * bool)) :='
              % (tr.nm(params[0]), tr.nm(params[1])))
    return emit(tr, fd, header, [], body, env)

def sub_method(cls, suffix, attr):
    fd = method_of(cls, [BASECLASS])
    body = list(fd.body)
    s = body.pop(0) if body else None
    if not (isinstance(s, ast.Assign) and len(s.targets) == 1 and isinstance(s.targets[0], ast.Tuple) and len(s.targets[0].elts) == 2
            and all(isinstance(x, ast.Name) for x in s.targets[0].elts) and ast.unparse(s.value) == BASECALL):
        fail(s or fd, 'expected `a, b = %s` as the first statement' % BASECALL)
    names = [x.id for x in s.targets[0].elts]
    if len(set(names)) != 2: fail(s, 'the two results of the base method bound to one name')
    check_body(fd, body, {attr})
    tr = IATr(fd, []); tr.varsattr = attr
    kids = ['child_left', 'child_right']
    for n in ['op', 'no_vars'] + kids:
        if n in tr.pynames: fail(fd, 'a local name is called %s' % n)
    tr.params = ['op', 'no_vars'] + kids
    env = {names[0]: Var('sig', False), names[1]: Var('bsig', False)}
    header = ('Definition gen_ia_%s_visitPredicate {VS : Val} (AR : Arith VS) (op : cmp) (no_vars : bool) (child_left : dsig) (child_right : dsig) : option dsig :='
              % suffix)
    pro = ["  '(%s, %s) <- gen_ia_visitPredicate AR op child_left child_right ;;" % (tr.nm(names[0]), tr.nm(names[1]))]
    return emit(tr, fd, header, pro, body, env)

def main():
    printing = '--print-digests' in sys.argv
    argv = [a for a in sys.argv[1:] if not a.startswith('--')]
    if len(argv) == 1: root, outp = '/repo', argv[0]
    elif len(argv) == 2: root, outp = argv
    else: sys.exit('usage: py2coq_denseoffline_ia.py [REPO_ROOT] OUT.v')
    root = root.rstrip('/')
    base.PATH = root + '/' + ENUM
    mod = ast.parse(open(base.PATH).read(), base.PATH)
    have = {t.id for c in mod.body if isinstance(c, ast.ClassDef) and c.name == 'StlComparisonOperator' for s in c.body if isinstance(s, ast.Assign)
            for t in s.targets if isinstance(t, ast.Name)}
    if have != set(base.CMPS): fail(mod, 'the members of StlComparisonOperator changed: %s' % sorted(have ^ set(base.CMPS)))
    # subtraction_operation is the function of the STL visitor that DenseOfflineGen.v translates
    base.PATH = root + '/' + base.VIS
    mod = ast.parse(open(base.PATH).read(), base.PATH)
    subs = [s for s in mod.body if isinstance(s, ast.FunctionDef) and s.name == 'subtraction_operation']
    if len(subs) != 1 or base.plain_args(subs[0]) is None or len(subs[0].args.args) != 2: fail(mod, 'expected one subtraction_operation(a, b) in the STL visitor')
    if sum(1 for s in mod.body if isinstance(s, (ast.Assign, ast.AugAssign)) ) != 0: fail(mod, 'module-level assignment in the STL visitor')
    base.PATH = root + '/' + VIS
    mod = ast.parse(open(base.PATH).read(), base.PATH)
    imports, rest = base.imports_of(mod)
    if imports != IMPORTS: fail(mod.body[0], 'the import list changed: %s' % sorted(imports ^ IMPORTS, key=str))
    want = [BASECLASS] + [c[0] for c in SUBCLASSES]
    for s in rest:
        if not isinstance(s, ast.ClassDef): fail(s, 'unexpected module-level statement')
    if [s.name for s in rest] != want: fail(mod, 'the class list changed: %s' % [s.name for s in rest])
    out = ['(* iastl ast_visitor.py:%d  %s.visitPredicate *)' % (rest[0].lineno, BASECLASS), base_method(rest[0])]
    for cls, (name, suffix, attr) in zip(rest[1:], SUBCLASSES):
        out.append('(* iastl ast_visitor.py:%d  %s.visitPredicate ; no_vars = not node.%s *)' % (cls.lineno, name, attr))
        out.append(sub_method(cls, suffix, attr))
    text = ('(* GENERATED by tools/py2coq_denseoffline_ia.py from rtamt/semantics/iastl/dense_time/offline/ast_visitor.py — do not edit.\n'
            '   Built from the primitives of PySem.v / PyDense.v / PyDenseOff.v / PyDenseOffIA.v and gen_subtraction_operation of DenseOfflineGen.v;\n'
            '   None = the Python code raises (or leaves the model: py_fin, py_notnan, py_bound). *)\n'
            'From Coq Require Import List Bool Arith ZArith.\n'
            'From RV Require Import Val Syntax Rho Online Dense DenseMerge DenseMergeG DenseEval DenseWin PySem PyDense PyDenseOff PyDenseOffIA DenseOfflineGen.\n'
            'Import ListNotations.\nLocal Open Scope Z_scope.\n\n')
    text += '\n'.join(out) + '\n'
    if not printing: open(outp, 'w').write(text)

if __name__ == '__main__':
    main()
