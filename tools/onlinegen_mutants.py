#!/usr/bin/env python3
"""Task G step (4): mutate a scratch COPY of rtamt's operation files, re-translate, re-check OnlineGenCorrect.v.
usage: python3 tools/mutate_gen.py      (never touches /repo; scratch copies live under build/mut_scratch/<name>/)"""
import os, re, shutil, subprocess, sys
HERE = os.path.dirname(os.path.abspath(__file__))
VERIF = os.path.dirname(HERE)
STL = 'rtamt/semantics/stl/discrete_time/online/'
IAD = 'rtamt/semantics/iastl/discrete_time/online/'
OFF = 'rtamt/semantics/stl/discrete_time/offline/ast_visitor.py'

def sub(rel, old, new, count=1):
    def f(root):
        p = os.path.join(root, rel)
        s = open(p).read()
        assert s.count(old) >= 1, (rel, old)
        open(p, 'w').write(s.replace(old, new, count))
    return f
def both(*fs):
    return lambda root: [f(root) for f in fs]
def newfile(rel, text):
    return lambda root: open(os.path.join(root, rel), 'w').write(text)

MUTATIONS = [
 # ---- six semantic mutations ----
 ('M1 once: max -> min', sub(STL + 'once_operation.py', 'max(sample, self.prev_out)', 'min(sample, self.prev_out)')),
 ('M2 once_timed: range(end-begin+1) -> range(end-begin)', sub(STL + 'once_timed_operation.py', 'range(self.end-self.begin+1)', 'range(self.end-self.begin)')),
 ('M3 since: operands swapped', both(sub(STL + 'since_operation.py', 'min(sample_left, self.prev_out)', 'min(sample_right, self.prev_out)'),
                                     sub(STL + 'since_operation.py', 'max(sample_return, sample_right)', 'max(sample_return, sample_left)'))),
 ('M4 historically: initial value -inf', sub(STL + 'historically_operation.py', 'self.prev_out = float("inf")', 'self.prev_out = -float("inf")')),
 ('M5 since_timed: range(i+1, ..) -> range(i, ..)', sub(STL + 'since_timed_operation.py', 'range(i+1,self.end+1)', 'range(i,self.end+1)')),
 ('M6 rise: prev not stored', sub(STL + 'rise_operation.py', '        self.prev = sample\n', '')),
 # ---- further semantic mutations ----
 ('M7 precedes: inner range(0, i) -> range(0, i+1)', sub(STL + 'precedes_timed_operation.py', 'range(0, i)', 'range(0, i+1)')),
 ('M8 hist_timed: deque maxlen end+1 -> end+2', sub(STL + 'historically_timed_operation.py', 'maxlen=(self.end + 1)', 'maxlen=(self.end + 2)')),
 ('M9 predicate: LEQ gives left-right', sub(STL + 'predicate_operation.py', 'sample_return = sample_right - sample_left', 'sample_return = sample_left - sample_right')),
 ('M10 IA predicate: and -> or in the robustness test', sub(IAD + 'predicate_operation.py', 'Semantics.OUTPUT_ROBUSTNESS and not self.out_vars', 'Semantics.OUTPUT_ROBUSTNESS or not self.out_vars')),
 ('M11 once_timed: reads buffer[i+1]', sub(STL + 'once_timed_operation.py', 'self.buffer[i]', 'self.buffer[i+1]')),
 # ---- changes outside the supported subset: the translator must refuse ----
 ('F1 while loop in once', sub(STL + 'once_operation.py', '        return sample_return', '        while False:\n            pass\n        return sample_return')),
 ('F2 new operation file', newfile(STL + 'release_operation.py', 'class ReleaseOperation:\n    pass\n')),
 ('F3 update signature changed (extra parameter)', sub(STL + 'not_operation.py', 'def update(self, sample):', 'def update(self, sample, flag):')),
 ('F4 unknown call (math.fabs)', sub(STL + 'xor_operation.py', 'abs(sample_left - sample_right)', 'math.fabs(sample_left - sample_right)')),
 ('F5 early return inside if', sub(STL + 'previous_operation.py', '        sample_return = self.prev\n', '        if sample > self.prev:\n            return sample\n        sample_return = self.prev\n')),
 ('F6 operation file deleted', lambda root: os.remove(os.path.join(root, STL + 'fall_operation.py'))),
 ('F7 enum member renumbered to a duplicate value', sub('rtamt/semantics/enumerations/comp_oper.py', 'GEQ = 5', 'GEQ = 4')),
 # ---- three harmless rewrites ----
 ('H1 once: local sample_return renamed to out', sub(STL + 'once_operation.py', 'sample_return', 'out', 99)),
 ('H2 since_timed.reset: two independent assignments reordered', sub(STL + 'since_timed_operation.py',
     '            s_sample_left = float("inf")\n            s_sample_right = - float("inf")\n',
     '            s_sample_right = - float("inf")\n            s_sample_left = float("inf")\n')),
 ('H3 IA predicate: elif statement -> conditional expression', sub(IAD + 'predicate_operation.py',
     '        elif (self.semantics == Semantics.INPUT_VACUITY and not self.in_vars) or (\n                self.semantics == Semantics.OUTPUT_VACUITY and not self.out_vars):\n            out_sample = 0\n',
     '        else:\n            out_sample = 0 if ((self.semantics == Semantics.INPUT_VACUITY and not self.in_vars) or (\n                self.semantics == Semantics.OUTPUT_VACUITY and not self.out_vars)) else out_sample\n')),
 ('H4 since: the two steps fused into one expression', both(sub(STL + 'since_operation.py', '        sample_return = min(sample_left, self.prev_out)\n', ''),
     sub(STL + 'since_operation.py', 'max(sample_return, sample_right)', 'max(min(sample_left, self.prev_out), sample_right)'))),
 ('H5 once: max operands commuted', sub(STL + 'once_operation.py', 'max(sample, self.prev_out)', 'max(self.prev_out, sample)')),
 # ================= offline visitor (py2coq_offline.py / OfflineGenCorrect.v) =================
 ('O1 visitOnce: max -> min', sub(OFF, 'out_sample = max(i, prev_out)\n            prev_out = out_sample\n            sample_return.append(out_sample)\n        return', 'out_sample = min(i, prev_out)\n            prev_out = out_sample\n            sample_return.append(out_sample)\n        return')),
 ('O2 visitTimedOnce: slice end j-begin+1 -> j-begin', sub(OFF, 'max(sample[j - end:j - begin+ 1])', 'max(sample[j - end:j - begin])')),
 ('O3 visitSince: left/right swapped in min', sub(OFF, 'out_sample = min(sample_left[i], prev_out)', 'out_sample = min(sample_right[i], prev_out)')),
 ('O4 visitHistorically/Always: first initial value inf -> -inf', sub(OFF, 'prev_out = float("inf")', 'prev_out = -float("inf")')),
 ('O5 visitTimedSince: range(j+1, end+1) -> range(j, end+1)', sub(OFF, 'range(j+1, end+1)', 'range(j, end+1)')),
 ('O6 visitPrevious: prev not stored', sub(OFF, '            out_sample = prev\n            prev = i\n', '            out_sample = prev\n')),
 ('O7 visitRise: sample[:-1] -> sample[:-2]', sub(OFF, 'prev = sample[:-1]\n        prev.insert(0,-float("inf"))', 'prev = sample[:-2]\n        prev.insert(0,-float("inf"))')),
 ('O8 visitTimedAlways: padding one shorter', sub(OFF, "[float('inf')] * (end - sample_len + 1)", "[float('inf')] * (end - sample_len)")),
 ('O9 visitUntil: forward instead of backward loop', sub(OFF, 'range(len(sample_left)-1, -1, -1):\n            out_sample = min(sample_left[i], next_out)', 'range(len(sample_left)):\n            out_sample = min(sample_left[i], next_out)')),
 ('O10 visitNext: no reverse fix -- appends -inf', sub(OFF, 'sample_return = sample[1:]\n        sample_return.append(float("inf"))', 'sample_return = sample[1:]\n        sample_return.append(-float("inf"))')),
 ('OF1 while loop', sub(OFF, '        sample_return = [ -i for i in sample]\n', '        while False:\n            pass\n        sample_return = [ -i for i in sample]\n')),
 ('OF2 new method visitRelease', sub(OFF, '    def visitOnce(self', '    def visitRelease(self, node, *args, **kwargs):\n        return []\n\n    def visitOnce(self')),
 ('OF3 unknown call sorted()', sub(OFF, 'sample_return = [ -i for i in sample]', 'sample_return = sorted([ -i for i in sample])')),
 ('OF4 in-place mutation of a child result', sub(OFF, '        sample_return = sample[1:]\n        sample_return.append(float("inf"))', '        sample_return = sample\n        sample_return.append(float("inf"))')),
 ('OH1 local prev_out renamed to po', sub(OFF, 'prev_out', 'po', 999)),
 ('OH2 visitAnd: list(map(min, zip)) -> comprehension', sub(OFF, 'sample_return = list(map(min, zip(sample_left, sample_right)))', 'sample_return = [min(l, r) for l, r in zip(sample_left, sample_right)]')),
 ('OH3 visitNot: comprehension -> explicit loop', sub(OFF, '        sample_return = [ -i for i in sample]\n', '        sample_return = []\n        for i in sample:\n            sample_return.append(-i)\n')),
 ('OH4 visitAddition: index loop -> zip comprehension', sub(OFF, '        sample_return = []\n        for i in range(len(sample_left)):\n            out_sample = sample_left[i] + sample_right[i]\n            sample_return.append(out_sample)\n', '        sample_return = [l + r for l, r in zip(sample_left, sample_right)]\n')),
]

def enclosing(vfile, line):
    name = '?'
    for k, l in enumerate(open(vfile).read().splitlines(), 1):
        m = re.match(r'\s*(Lemma|Theorem|Definition|Example)\s+(\w+)', l)
        if m and k <= line:
            name = m.group(2)
    return name

def run(name, mutate):
    tag = name.split()[0]
    root = os.path.join(VERIF, 'build', 'mut_scratch', tag)
    shutil.rmtree(root, ignore_errors=True)
    os.makedirs(root)
    shutil.copytree('/repo/rtamt/semantics', os.path.join(root, 'rtamt/semantics'), ignore=shutil.ignore_patterns('__pycache__'))
    mutate(root)
    off = tag.startswith('O')
    G, GC, tool = ('OfflineGen', 'OfflineGenCorrect', 'py2coq_offline.py') if off else ('OnlineGen', 'OnlineGenCorrect', 'py2coq_online.py')
    gen = os.path.join(root, G + '.v')
    r = subprocess.run(['python3', os.path.join(VERIF, 'tools', tool), root, gen], capture_output=True, text=True)
    if r.returncode != 0:
        return 'translator FAILS CLOSED (exit %d): %s' % (r.returncode, r.stderr.strip().replace(root + '/', ''))
    same = open(gen).read() == open(os.path.join(VERIF, 'coq/theories', G + '.v')).read()
    if same:
        return 'translator ok, generated file IDENTICAL to the unmutated one'
    # compile the mutated OnlineGen under another logical name, then the unchanged OnlineGenCorrect.v against it
    th = os.path.join(VERIF, 'coq/theories')
    src = open(os.path.join(th, GC + '.v')).read()
    src = src.replace('IA Online OnlineGen.', 'IA Online.\nFrom RVM Require Import OnlineGen.')
    src = src.replace(' OnlineGenCorrect OfflineGen.', ' OnlineGenCorrect.\nFrom RVM Require Import OfflineGen.')
    assert 'RVM' in src
    open(os.path.join(root, GC + '.v'), 'w').write(src)
    for f in (G + '.v', GC + '.v'):
        c = subprocess.run(['timeout', '600', 'coqc', '-Q', th, 'RV', '-Q', root, 'RVM', os.path.join(root, f)], capture_output=True, text=True)
        if c.returncode != 0:
            m = re.search(r'line (\d+), characters', c.stderr)
            where = enclosing(os.path.join(root, f), int(m.group(1))) if m else '?'
            err = ' '.join(c.stderr.split('Error:')[-1].split())[:160]
            return 'translator ok, generated file differs; %s does NOT check: %s (line %s): %s' % (f, where, m.group(1) if m else '?', err)
    return 'translator ok, generated file differs; %s.v still checks (all lemmas, top theorem closed)' % GC

if __name__ == '__main__':
    only = sys.argv[1] if len(sys.argv) > 1 else ''
    for name, mut in MUTATIONS:
        # (the mutations whose tag starts with 'O' belong to another translator of the offline visitor than the one integrated here:
        # tools/offlinegen_mutants.py is the tool for OfflineGen.v)
        if not name.startswith(only) or name.split()[0].startswith('O'):
            continue
        print('%-62s -> %s' % (name, run(name, mut)))
        sys.stdout.flush()
