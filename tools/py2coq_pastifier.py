#!/usr/bin/env python3
# tools/py2coq_pastifier.py [REPO_ROOT] OUT.v
# FAIL-CLOSED translator:  rtamt/pastifier/{ltl,stl}/{horizon,pastifier}.py  ->  coq/theories/PastifyGen.v
#
# One Fixpoint per visitor class over NodeName.node (the syntax nodes as the Python objects hold them):
#   gen_LtlHorizon : node -> option Z                 gen_StlHorizon : Q -> node -> option Q               (None = the code raises)
#   gen_LtlPastifier : node -> Z -> option node       gen_StlPastifier, gen_StlDenseTimePastifier : Q -> node -> Q -> option node
# (the Q parameter is self.sample; the last one is args[0], the remaining horizon).
#   * the dispatch of visit() on the class of the node is the `match`: the table class -> visitX is READ from the `visit` methods of
#     rtamt/syntax/ast/visitor/{ltl,stl}/ast_visitor.py (a chain of isinstance tests) and every node class is checked to derive from
#     UnaryNode / BinaryNode / LeafNode (/ Interval) only, so that the order of the tests is irrelevant;
#   * visitX is looked up like Python does: the class itself, then its pastifier/horizon bases (a later def of the same name in a class body
#     replaces an earlier one); a method that would be inherited from the visitor base (visitChildren) is refused;
#   * self.visit(node.children[K], ..) is the structural recursive call on the K-th child; self.subformula_horizons[node] is the horizon
#     visitor applied to the same node (justified by the check that every horizon method stores exactly what it returns:
#     self.horizons[node] = E ... return E);
#   * a statement list is a term of type option R in continuation style (`let x := e in K`, `x <- e ;; K` when e may raise or leave the
#     node type), `if` returns the tuple of the names its branches assign, `for i in range(n)` is py_for over py_range (PySem.v);
#   * numbers: ints and Fractions are Q in the STL classes and Z in the LTL classes (PyNode.v: q_max, q_gt, q_bound ...);
#   * constructor calls build the node: Conjunction(a, b) = NBin b_and a b, TimedOnce(c, Interval(x, y)) = NTUn t_once (bound of x) (bound of y) c.
# Not translated, pinned by the digest of their syntax tree (hand models in PyNode.v / the epilogue below): __init__, visit (the wrapper
# that also maintains ast.phi_name_to_node_dict), pastify, to_default_unit, visitDefault; inside visitVariable the two statements that
# maintain phi_name_to_node_dict are skipped (exact text).  Anything else outside the supported set: exit code 2 with file:line.
import ast, hashlib, os, sys

P_LTL_H, P_STL_H = 'rtamt/pastifier/ltl/horizon.py', 'rtamt/pastifier/stl/horizon.py'
P_LTL_P, P_STL_P = 'rtamt/pastifier/ltl/pastifier.py', 'rtamt/pastifier/stl/pastifier.py'
V_LTL, V_STL = 'rtamt/syntax/ast/visitor/ltl/ast_visitor.py', 'rtamt/syntax/ast/visitor/stl/ast_visitor.py'

# node class -> (constructor of NodeName.node, tag)
CLASSES = {
    'Variable': ('NVar', None), 'Constant': ('NConst', None),
    'Neg': ('NUn', 'u_not'), 'Once': ('NUn', 'u_once'), 'Historically': ('NUn', 'u_hist'), 'Eventually': ('NUn', 'u_ev'),
    'Always': ('NUn', 'u_alw'), 'Previous': ('NUn', 'u_prev'), 'StrongPrevious': ('NUn', 'u_sprev'), 'Next': ('NUn', 'u_next'),
    'StrongNext': ('NUn', 'u_snext'), 'Rise': ('NUn', 'u_rise'), 'Fall': ('NUn', 'u_fall'), 'Abs': ('NUn', 'u_abs'),
    'Sqrt': ('NUn', 'u_sqrt'), 'Exp': ('NUn', 'u_exp'), 'Ln': ('NUn', 'u_ln'), 'Negate': ('NUn', 'u_negate'),
    'TimedOnce': ('NTUn', 't_once'), 'TimedHistorically': ('NTUn', 't_hist'), 'TimedEventually': ('NTUn', 't_ev'),
    'TimedAlways': ('NTUn', 't_alw'),
    'Pow': ('NFn2', 'f_pow'), 'Log': ('NFn2', 'f_log'),
    'Conjunction': ('NBin', 'b_and'), 'Disjunction': ('NBin', 'b_or'), 'Implies': ('NBin', 'b_implies'), 'Iff': ('NBin', 'b_iff'),
    'Xor': ('NBin', 'b_xor'), 'Since': ('NBin', 'b_since'), 'Until': ('NBin', 'b_until'), 'Addition': ('NBin', 'b_add'),
    'Subtraction': ('NBin', 'b_sub'), 'Multiplication': ('NBin', 'b_mul'), 'Division': ('NBin', 'b_div'),
    'Predicate': ('NBin', 'b_pred'),
    'TimedSince': ('NTBin', 'tb_since'), 'TimedUntil': ('NTBin', 'tb_until'), 'TimedPrecedes': ('NTBin', 'tb_precedes'),
}
ORDER = {'NUn': ['u_not', 'u_once', 'u_hist', 'u_ev', 'u_alw', 'u_prev', 'u_sprev', 'u_next', 'u_snext', 'u_rise', 'u_fall', 'u_abs',
                 'u_sqrt', 'u_exp', 'u_ln', 'u_negate'],
         'NTUn': ['t_once', 't_hist', 't_ev', 't_alw'], 'NFn2': ['f_pow', 'f_log'],
         'NBin': ['b_and', 'b_or', 'b_implies', 'b_iff', 'b_xor', 'b_since', 'b_until', 'b_add', 'b_sub', 'b_mul', 'b_div', 'b_pred'],
         'NTBin': ['tb_since', 'tb_until', 'tb_precedes']}
ARITY = {'NVar': 0, 'NConst': 0, 'NUn': 1, 'NTUn': 1, 'NFn2': 2, 'NBin': 2, 'NTBin': 2}
BASES = {'NVar': ['LeafNode'], 'NConst': ['LeafNode'], 'NUn': ['UnaryNode'], 'NTUn': ['UnaryNode', 'Interval'], 'NFn2': ['BinaryNode'],
         'NBin': ['BinaryNode'], 'NTBin': ['BinaryNode', 'Interval']}
# positional parameters of the constructors (after self); a default value is allowed from the marked position on
CTOR = {'NVar': (['var', 'field', 'iotype'], 1), 'NConst': (['val'], 1), 'NUn': (['child'], 1), 'NTUn': (['child', 'interval', 'is_pure_python'], 2),
        'NFn2': (['child1', 'child2'], 2), 'NBin': (['child1', 'child2'], 2), 'NTBin': (['child1', 'child2', 'interval', 'is_pure_python'], 3)}
PATTERN = {'NVar': 'NVar nvar nfield', 'NConst': 'NConst nval', 'NUn': 'NUn nop ch1', 'NTUn': 'NTUn nop nbegin nend ch1',
           'NFn2': 'NFn2 nop ch1 ch2', 'NBin': 'NBin nop ch1 ch2', 'NTBin': 'NTBin nop nbegin nend ch1 ch2'}

# the visitor classes: where, declared bases, lookup order of the visit methods, dispatch table, number type, what they compute
VISITORS = [
    dict(name='LtlHorizon', file=P_LTL_H, bases=['LtlAstVisitor'], lookup=['LtlHorizon'], table='ltl', num='Z', kind='horizon', sample=False),
    dict(name='StlHorizon', file=P_STL_H, bases=['LtlHorizon', 'StlAstVisitor'], lookup=['StlHorizon', 'LtlHorizon'], table='stl', num='Q',
         kind='horizon', sample=True),
    dict(name='LtlPastifier', file=P_LTL_P, bases=['LtlAstVisitor'], lookup=['LtlPastifier'], table='ltl', num='Z', kind='pastifier',
         sample=False, horizon='LtlHorizon'),
    dict(name='StlPastifier', file=P_STL_P, bases=['LtlPastifier', 'StlAstVisitor'], lookup=['StlPastifier', 'LtlPastifier'], table='stl',
         num='Q', kind='pastifier', sample=True, horizon='StlHorizon'),
    dict(name='StlDenseTimePastifier', file=P_STL_P, bases=['StlPastifier'], lookup=['StlDenseTimePastifier', 'StlPastifier', 'LtlPastifier'],
         table='stl', num='Q', kind='pastifier', sample=True, horizon='StlHorizon'),
]
# untranslated methods, pinned: (class, method) -> digest of the (last) definition
OPAQUE = {
    ('LtlHorizon', '__init__'): '3ba71b1dc89c', ('LtlHorizon', 'visitDefault'): '05d515a5af68',
    ('StlHorizon', '__init__'): '5a7d123be355', ('StlHorizon', 'visit'): 'c83024ca01ea', ('StlHorizon', 'visitDefault'): '51a254e2063d',
    ('LtlPastifier', '__init__'): 'b85d278f81fa', ('LtlPastifier', 'pastify'): 'f990d162c2a5', ('LtlPastifier', 'visit'): '2034bf2cb2c7',
    ('LtlPastifier', 'visitDefault'): '05d515a5af68',
    ('StlPastifier', '__init__'): '24b57d09b8da', ('StlPastifier', 'pastify'): '326160d48f60', ('StlPastifier', 'to_default_unit'): '0340b3056765',
    ('StlPastifier', 'visit'): '7504278c6de9', ('StlPastifier', 'visitDefault'): '05d515a5af68',
}
# statements of visitVariable that only maintain ast.phi_name_to_node_dict (no effect on the tree that is returned)
SKIP_STMTS = {'d = self.ast.phi_name_to_node_dict', 'd.update({k: var for k, v in d.items() if v == node})'}
# the same for the visitor bases: the parts of the dispatch that are not the isinstance chain
RESERVED = set('''end match with fun let in if then else return as at cofix fix forall exists for using where Type Prop Set Some None
  node args0 sample nvar nfield nval nop nbegin nend ch1 ch2 true false tt Z Q nat list option bool prod pair S O nil cons
  NVar NConst NUn NTUn NFn2 NBin NTBin q_gt z_gt q_max z_max q_min z_min q_bound q_of_bound nn_bound Qplus Qminus inject_Z bound'''.split())

PATH = '?'
def fail(node, msg, path=None):
    sys.stderr.write('%s:%s: py2coq_pastifier: %s\n' % (path or PATH, getattr(node, 'lineno', '?'), msg))
    sys.exit(2)

def digest(node): return hashlib.sha256(ast.unparse(node).encode()).hexdigest()[:12]
def is_name(e, s): return isinstance(e, ast.Name) and e.id == s
def is_attr(e, base, attr): return isinstance(e, ast.Attribute) and is_name(e.value, base) and e.attr == attr
def is_self_attr(e, attr): return is_attr(e, 'self', attr)
def star_args(call):   # f(X, *args, **kwargs)
    return (len(call.args) == 2 and isinstance(call.args[1], ast.Starred) and is_name(call.args[1].value, 'args')
            and len(call.keywords) == 1 and call.keywords[0].arg is None and is_name(call.keywords[0].value, 'kwargs'))

def parse(root, rel):
    global PATH
    PATH = root.rstrip('/') + '/' + rel
    if not os.path.exists(PATH): fail(None, 'file missing')
    return ast.parse(open(PATH).read(), PATH)

def module_parts(mod):
    imports, classes = {}, {}
    for s in mod.body:
        if isinstance(s, ast.ImportFrom):
            for al in s.names:
                if al.asname or s.level: fail(s, 'from ... import ... as / relative import')
                imports[al.name] = s.module
        elif isinstance(s, ast.ClassDef):
            if s.name in classes or s.keywords or s.decorator_list: fail(s, 'class %s: defined twice / keywords / decorators' % s.name)
            classes[s.name] = s
        elif isinstance(s, ast.Expr) and isinstance(s.value, ast.Constant) and isinstance(s.value.value, str): pass
        elif isinstance(s, ast.Import): fail(s, 'plain import in a pastifier / visitor module')
        else: fail(s, 'unexpected module-level statement %s' % type(s).__name__)
    return imports, classes

def methods_of(cd):
    out = {}
    for s in cd.body:
        if isinstance(s, ast.Expr) and isinstance(s.value, ast.Constant) and isinstance(s.value.value, str): continue
        if not isinstance(s, ast.FunctionDef): fail(s, 'unexpected class-level statement %s' % type(s).__name__)
        if s.decorator_list: fail(s, 'decorated method %s' % s.name)
        out[s.name] = s            # a later definition replaces an earlier one, as in Python
    return out

# ---------------------------------------------------------------- the dispatch tables
def isinstance_chain(fd, fallthrough):
    """visit(): if isinstance(node, C): result = self.visitM(node, *args, **kwargs) elif ... else: <fallthrough> ; return result"""
    a = fd.args
    if [x.arg for x in a.args] != ['self', 'node'] or not a.vararg or not a.kwarg or a.defaults or len(fd.body) != 2:
        fail(fd, 'shape of the dispatching visit() changed')
    s, ret = fd.body
    if not (isinstance(ret, ast.Return) and is_name(ret.value, 'result')): fail(ret, 'visit() must end with `return result`')
    table = []
    while True:
        if not isinstance(s, ast.If): fail(s, 'dispatch: expected if/elif')
        t = s.test
        if not (isinstance(t, ast.Call) and is_name(t.func, 'isinstance') and len(t.args) == 2 and is_name(t.args[0], 'node')
                and isinstance(t.args[1], ast.Name) and not t.keywords): fail(s, 'dispatch test is not isinstance(node, Class)')
        if len(s.body) != 1: fail(s, 'dispatch branch with more than one statement')
        b = s.body[0]
        if not (isinstance(b, ast.Assign) and len(b.targets) == 1 and is_name(b.targets[0], 'result') and isinstance(b.value, ast.Call)
                and isinstance(b.value.func, ast.Attribute) and is_name(b.value.func.value, 'self') and is_name(b.value.args[0], 'node')
                and star_args(b.value)): fail(b, 'dispatch branch is not result = self.visitX(node, *args, **kwargs)')
        table.append((t.args[1].id, b.value.func.attr))
        if len(s.orelse) == 1 and isinstance(s.orelse[0], ast.If): s = s.orelse[0]; continue
        if len(s.orelse) != 1 or ast.unparse(s.orelse[0]) != fallthrough: fail(s, 'dispatch: the final else changed')
        return table

def check_node_class(root, cls, module, via):
    ctor = CLASSES[cls][0]
    rel = module.replace('.', '/') + '.py'
    mod = ast.parse(open(root.rstrip('/') + '/' + rel).read())
    cds = [s for s in mod.body if isinstance(s, ast.ClassDef) and s.name == cls]
    if len(cds) != 1: fail(None, 'class %s not found once' % cls, root.rstrip('/') + '/' + rel)
    cd = cds[0]
    if [getattr(b, 'id', None) for b in cd.bases] != BASES[ctor]:
        fail(cd, 'node class %s derives from %s, expected %s' % (cls, [ast.unparse(b) for b in cd.bases], BASES[ctor]), root.rstrip('/') + '/' + rel)
    init = [s for s in cd.body if isinstance(s, ast.FunctionDef) and s.name == '__init__']
    if len(init) != 1: fail(cd, 'constructor of %s' % cls, root.rstrip('/') + '/' + rel)
    a = init[0].args
    names, nreq = CTOR[ctor]
    if cls == 'Predicate': names, nreq = ['child1', 'child2', 'operator'], 3
    got = [x.arg for x in a.args][1:]
    if got != names or len(got) - len(a.defaults) > nreq or a.vararg or a.kwarg or a.kwonlyargs:
        fail(init[0], 'constructor signature of %s changed: %s' % (cls, got), root.rstrip('/') + '/' + rel)

def dispatch_tables(root):
    mod = parse(root, V_LTL); imp_l, cl = module_parts(mod)
    if list(cl) != ['LtlAstVisitor'] or [ast.unparse(b) for b in cl['LtlAstVisitor'].bases] != ['AbstractAstVisitor']:
        fail(mod.body[0], 'expected exactly class LtlAstVisitor(AbstractAstVisitor)')
    ltl = isinstance_chain(methods_of(cl['LtlAstVisitor'])['visit'], "self.raise_exception('{} is not a TL operator'.format(node.__class__.__name__))")
    rex = methods_of(cl['LtlAstVisitor']).get('raise_exception')
    if rex is None or ast.unparse(rex.body[0]) != 'raise RTAMTException(text)' or len(rex.body) != 1: fail(rex, 'raise_exception does not raise')
    ltl_methods = set(methods_of(cl['LtlAstVisitor']))
    mod = parse(root, V_STL); imp_s, cs = module_parts(mod)
    if list(cs) != ['StlAstVisitor'] or [ast.unparse(b) for b in cs['StlAstVisitor'].bases] != ['LtlAstVisitor']:
        fail(mod.body[0], 'expected exactly class StlAstVisitor(LtlAstVisitor)')
    stl_own = isinstance_chain(methods_of(cs['StlAstVisitor'])['visit'], 'result = super(StlAstVisitor, self).visit(node, *args, **kwargs)')
    for tab, imp in ((ltl, imp_l), (stl_own, imp_s)):
        seen = set()
        for c, m in tab:
            if c not in CLASSES: fail(None, 'node class %s is not known to the translator' % c)
            if c in seen or not m.startswith('visit'): fail(None, 'dispatch table: %s twice / odd method %s' % (c, m))
            seen.add(c)
            if c not in imp or not imp[c].startswith('rtamt.syntax.node.'): fail(None, 'dispatch on %s, which is not imported from rtamt.syntax.node' % c)
            check_node_class(root, c, imp[c], imp)
    if set(c for c, _ in ltl) & set(c for c, _ in stl_own): fail(None, 'a class in both dispatch tables')
    ltl_t, stl_t = dict(ltl), dict(ltl); stl_t.update(dict(stl_own))
    if len(set(ltl_t.values())) != len(ltl_t) or len(set(stl_t.values())) != len(stl_t): fail(None, 'two classes dispatch to one method')
    timed = {c for c, (k, _) in CLASSES.items() if k in ('NTUn', 'NTBin')}
    if set(stl_t) != set(CLASSES) or set(ltl_t) != set(CLASSES) - timed:
        fail(None, 'the set of dispatched classes changed: %s' % sorted(set(stl_t) ^ set(CLASSES)))
    return {'ltl': ltl_t, 'stl': stl_t}

# ---------------------------------------------------------------- one method in the context of one visitor class
class Var:
    def __init__(self, ty): self.ty = ty       # num node param

class Method:
    def __init__(self, fd, cls, V, path):
        self.fd, self.cls, self.V, self.path, self.ntmp = fd, cls, V, path, 0
        self.ctor, self.tag = CLASSES[cls]
        self.num, self.kind = V['num'], V['kind']
        self.pynames = {n.id for n in ast.walk(fd) if isinstance(n, ast.Name)} | {a.arg for a in ast.walk(fd) if isinstance(a, ast.arg)}
        self.store = None
    def fail(self, n, msg): fail(n, '%s.%s (as %s): %s' % (self.V['name'], self.fd.name, self.cls, msg), self.path)
    def nm(self, s):
        r = s + '_' if (s in RESERVED or s.startswith('gen_') or s.startswith('py_')) else s
        if r != s and r in self.pynames: self.fail(self.fd, 'cannot rename %s: %s is also used' % (s, r))
        return r
    def tmp(self):
        while True:
            self.ntmp += 1
            t = 't%d' % self.ntmp
            if t not in self.pynames: return t
    def lit(self, k): return '%d%%Z' % k if self.num == 'Z' else '(inject_Z %d)' % k
    def op2(self, k, a, b):
        if self.num == 'Z': return '(Z.%s %s %s)' % ({'Add': 'add', 'Sub': 'sub'}[k], a, b)
        return '(%s %s %s)' % ({'Add': 'Qplus', 'Sub': 'Qminus'}[k], a, b)
    def p(self, f): return ('z_' if self.num == 'Z' else 'q_') + f
    def gen(self, name): return 'gen_%s%s' % (name, ' sample' if [v for v in VISITORS if v['name'] == name][0]['sample'] else '')

    def is_param(self, env): return env['node'].ty == 'param'
    def child(self, e, env):       # node.children[K] -> ch<K+1>
        if not (isinstance(e, ast.Subscript) and is_attr(e.value, 'node', 'children') and isinstance(e.slice, ast.Constant)
                and type(e.slice.value) is int): self.fail(e, 'self.visit() on something else than node.children[K]')
        if not self.is_param(env): self.fail(e, 'node.children after node was reassigned')
        k = e.slice.value
        if not 0 <= k < ARITY[self.ctor]: self.fail(e, 'children[%d] of a node with %d children' % (k, ARITY[self.ctor]))
        return 'ch%d' % (k + 1)

    # expressions: (binds, term, type); types: num node bool cmp str interval
    def expr(self, e, env):
        if isinstance(e, ast.Name):
            if e.id not in env: self.fail(e, 'name %s is not certainly bound here' % e.id)
            ty = env[e.id].ty
            return [], self.nm(e.id) if e.id != 'node' else 'node', 'node' if ty == 'param' else ty
        if isinstance(e, ast.Constant) and type(e.value) is int and e.value >= 0: return [], self.lit(e.value), 'num'
        if isinstance(e, ast.BinOp) and type(e.op).__name__ in ('Add', 'Sub'):
            b1, t1, y1 = self.expr(e.left, env); b2, t2, y2 = self.expr(e.right, env)
            if (y1, y2) != ('num', 'num'): self.fail(e, 'arithmetic on %s, %s' % (y1, y2))
            return b1 + b2, self.op2(type(e.op).__name__, t1, t2), 'num'
        if isinstance(e, ast.Compare) and len(e.ops) == 1:
            b1, t1, y1 = self.expr(e.left, env); b2, t2, y2 = self.expr(e.comparators[0], env)
            k = type(e.ops[0]).__name__
            if (y1, y2) != ('num', 'num') or k not in ('Gt', 'Lt', 'GtE', 'LtE'): self.fail(e, 'comparison %s on %s, %s' % (k, y1, y2))
            g = self.p('gt')
            return b1 + b2, {'Gt': '(%s %s %s)' % (g, t1, t2), 'Lt': '(%s %s %s)' % (g, t2, t1),
                             'GtE': '(negb (%s %s %s))' % (g, t2, t1), 'LtE': '(negb (%s %s %s))' % (g, t1, t2)}[k], 'bool'
        if isinstance(e, ast.Attribute):
            if is_self_attr(e, 'sample'):
                if not self.V['sample']: self.fail(e, 'self.sample in a class without it')
                return [], 'sample', 'num'
            if isinstance(e.value, ast.Name) and e.value.id == 'node':
                if not self.is_param(env): self.fail(e, 'node.%s after node was reassigned' % e.attr)
                if e.attr in ('begin', 'end') and self.ctor in ('NTUn', 'NTBin'):
                    if self.num != 'Q': self.fail(e, 'a bound in an LTL class')
                    return [], '(q_of_bound n%s)' % e.attr, 'num'
                if e.attr == 'operator' and self.cls == 'Predicate': return [], 'nop', 'cmp'
                if e.attr in ('var', 'field') and self.cls == 'Variable': return [], 'n' + e.attr, 'str'
                if e.attr == 'io_type' and self.cls == 'Variable': return [], '', 'iotype'
                if e.attr == 'val' and self.cls == 'Constant': return [], 'nval', 'val'
            self.fail(e, 'unsupported attribute %s of a %s' % (ast.unparse(e), self.cls))
        if isinstance(e, ast.Subscript):
            if is_name(e.value, 'args') and isinstance(e.slice, ast.Constant) and e.slice.value == 0 and type(e.slice.value) is int:
                if self.kind != 'pastifier': self.fail(e, 'args[0] in a horizon visitor')
                return [], 'args0', 'num'
            if is_self_attr(e.value, 'subformula_horizons') and is_name(e.slice, 'node') and self.kind == 'pastifier':
                if not self.is_param(env): self.fail(e, 'subformula_horizons[node] after node was reassigned')
                x = self.tmp()
                return [(x, '%s node' % self.gen(self.V['horizon']))], x, 'num'
            self.fail(e, 'unsupported subscript %s' % ast.unparse(e))
        if isinstance(e, ast.Call): return self.call(e, env)
        self.fail(e, 'unsupported expression %s' % type(e).__name__)

    def call(self, e, env):
        f = e.func
        if is_self_attr(f, 'visit'):
            if self.kind == 'horizon':
                if not star_args(e): self.fail(e, 'the horizon visitor must pass *args, **kwargs on')
                x = self.tmp()
                return [(x, '%s %s' % (self.gen(self.V['name']), self.child(e.args[0], env)))], x, 'num'
            if len(e.args) != 2 or e.keywords or isinstance(e.args[1], ast.Starred): self.fail(e, 'the pastifier must call self.visit(child, horizon)')
            c = self.child(e.args[0], env)
            b, t, ty = self.expr(e.args[1], env)
            if ty != 'num': self.fail(e, 'horizon argument of type %s' % ty)
            x = self.tmp()
            return b + [(x, '%s %s %s' % (self.gen(self.V['name']), c, t))], x, 'node'
        if not isinstance(f, ast.Name) or f.id in env or e.keywords or any(isinstance(a, ast.Starred) for a in e.args):
            self.fail(e, 'unsupported call %s' % ast.unparse(f))
        if f.id in ('max', 'min') and len(e.args) == 2:
            b1, t1, y1 = self.expr(e.args[0], env); b2, t2, y2 = self.expr(e.args[1], env)
            if (y1, y2) != ('num', 'num'): self.fail(e, '%s of %s, %s' % (f.id, y1, y2))
            return b1 + b2, '(%s %s %s)' % (self.p(f.id), t1, t2), 'num'
        if f.id in CLASSES:
            if self.kind != 'pastifier': self.fail(e, 'a horizon visitor builds a node')
            if self.V['table'] == 'ltl' and CLASSES[f.id][0] in ('NTUn', 'NTBin'): self.fail(e, 'an LTL class builds the STL node %s' % f.id)
            ctor, tag = CLASSES[f.id]
            want = {'NVar': ['str', 'str', 'iotype'], 'NConst': ['val'], 'NUn': ['node'], 'NTUn': ['node', 'interval'], 'NFn2': ['node', 'node'],
                    'NBin': ['node', 'node'], 'NTBin': ['node', 'node', 'interval']}[ctor]
            if f.id == 'Predicate': want = ['node', 'node', 'cmp']
            if len(e.args) != len(want): self.fail(e, '%s(...) with %d arguments' % (f.id, len(e.args)))
            binds, terms = [], []
            for a, w in zip(e.args, want):
                if w == 'interval':
                    if not (isinstance(a, ast.Call) and is_name(a.func, 'Interval') and 'Interval' not in env and len(a.args) == 2 and not a.keywords):
                        self.fail(a, 'the interval of a new node must be Interval(begin, end)')
                    for x in a.args:
                        b, t, ty = self.expr(x, env)
                        if ty != 'num' or self.num != 'Q': self.fail(x, 'bound of type %s' % ty)
                        y = self.tmp()
                        binds += b + [(y, 'q_bound %s' % t)]; terms.append(y)
                else:
                    b, t, ty = self.expr(a, env)
                    if ty != w: self.fail(a, 'argument of %s: %s where %s is expected' % (f.id, ty, w))
                    binds += b
                    if w != 'iotype': terms.append(t)
            if ctor == 'NVar': return binds, '(NVar %s %s)' % tuple(terms), 'node'
            if ctor == 'NConst': return binds, '(NConst %s)' % terms[0], 'node'
            if f.id == 'Predicate': return binds, '(NBin (b_pred %s) %s %s)' % (terms[2], terms[0], terms[1]), 'node'
            if ctor in ('NTUn', 'NTBin'):
                kids, bounds = terms[:ARITY[ctor]], terms[ARITY[ctor]:]
                return binds, '(%s %s %s %s)' % (ctor, tag, ' '.join(bounds), ' '.join(kids)), 'node'
            return binds, '(%s %s %s)' % (ctor, tag, ' '.join(terms)), 'node'
        self.fail(e, 'unsupported call %s' % f.id)

    # statements, continuation style
    def tup(self, names):
        if not names: return 'tt'
        return '(%s)' % ', '.join(self.cn(n) for n in names) if len(names) > 1 else self.cn(names[0])
    def cn(self, n): return 'node' if n == 'node' else self.nm(n)
    def pat(self, names): return "'" + self.tup(names) if len(names) != 1 else self.cn(names[0])
    def binds(self, b, ind): return [ind + '%s <- %s ;;' % bt for bt in b]
    def assigned(self, stmts):
        out = set()
        for s in stmts:
            if isinstance(s, ast.Assign):
                for t in s.targets:
                    if isinstance(t, ast.Name): out.add(t.id)
                    else: self.fail(s, 'assignment target %s inside a branch / loop' % ast.unparse(t))
            elif isinstance(s, ast.For): out |= self.assigned(s.body)
            elif isinstance(s, ast.If): out |= self.assigned(s.body) | self.assigned(s.orelse)
            elif isinstance(s, (ast.Raise, ast.Pass)): pass
            else: self.fail(s, 'unsupported statement %s inside a branch / loop' % type(s).__name__)
        return out

    def block(self, stmts, env, final, ind, top=False):
        if not stmts: return final(env, ind)
        s, rest = stmts[0], stmts[1:]
        env = dict(env)
        def cont(): return self.block(rest, env, final, ind, top)
        if ast.unparse(s) in SKIP_STMTS and self.fd.name == 'visitVariable' and top: return cont()
        if isinstance(s, ast.Return):
            if not top or rest or s.value is None: self.fail(s, 'return must be the last statement of the method')
            b, t, ty = self.expr(s.value, env)
            if ty != ('num' if self.kind == 'horizon' else 'node'): self.fail(s, 'returns %s' % ty)
            if self.kind == 'horizon':
                if self.store is None: self.fail(s, 'returns a horizon that was not stored in self.horizons[node]')
                if ast.dump(s.value) != self.store: self.fail(s, 'returns something else than what was stored in self.horizons[node]')
            return self.binds(b, ind) + [ind + 'Some %s' % t]
        if isinstance(s, ast.Raise):
            if rest: self.fail(s, 'statements after raise')
            if not (isinstance(s.exc, ast.Call) and is_name(s.exc.func, 'RTAMTException')): self.fail(s, 'raises something else than RTAMTException')
            return [ind + 'None']
        if isinstance(s, ast.Assign):
            if len(s.targets) != 1: self.fail(s, 'chained assignment')
            t = s.targets[0]
            if isinstance(t, ast.Subscript) and is_self_attr(t.value, 'horizons') and is_name(t.slice, 'node') and self.kind == 'horizon' and top:
                if self.store is not None: self.fail(s, 'self.horizons[node] stored twice')
                if not self.is_param(env): self.fail(s, 'node was reassigned')
                b, tt, ty = self.expr(s.value, env)
                if ty != 'num' or b: self.fail(s, 'stores %s / an expression that may raise' % ty)
                self.store = ast.dump(s.value)
                return cont()
            if not isinstance(t, ast.Name): self.fail(s, 'unsupported assignment target %s' % ast.unparse(t))
            if self.store is not None: self.fail(s, 'assignment after self.horizons[node] was stored')
            x = t.id
            if x in ('self', 'args', 'kwargs'): self.fail(s, 'assignment to a parameter')
            if x == 'node' and self.kind == 'horizon': self.fail(s, 'a horizon visitor reassigns node')
            b, tt, ty = self.expr(s.value, env)
            if ty not in ('num', 'node'): self.fail(s, 'variable of type %s' % ty)
            if x in env and env[x].ty != ty and not (env[x].ty == 'param' and ty == 'node'): self.fail(s, '%s changes type %s -> %s' % (x, env[x].ty, ty))
            out = self.binds(b, ind) + [ind + 'let %s := %s in' % (self.cn(x), tt)]
            env[x] = Var(ty)
            return out + cont()
        if isinstance(s, ast.For):
            if s.orelse or self.num != 'Z': self.fail(s, 'for/else, or a loop in a class whose numbers are Fractions')
            it = s.iter
            if not (isinstance(it, ast.Call) and is_name(it.func, 'range') and 'range' not in env and len(it.args) == 1 and not it.keywords
                    and isinstance(s.target, ast.Name) and s.target.id not in env): self.fail(s, 'only `for NEW_NAME in range(n)`')
            b, t, ty = self.expr(it.args[0], env)
            if ty != 'num': self.fail(s, 'range of %s' % ty)
            mut = self.assigned(s.body)
            if s.target.id in mut: self.fail(s, 'the loop variable is assigned in the body')
            carried = sorted(n for n in mut if n in env)
            for n in carried:
                if env[n].ty == 'param': self.fail(s, 'the loop reassigns the parameter node')
            env2 = dict(env); env2[s.target.id] = Var('num')
            def fin(e2, i2):
                for n in carried:
                    if e2[n].ty != env[n].ty: self.fail(s, '%s changes type in the loop' % n)
                return [i2 + 'Some %s' % self.tup(carried)]
            body = self.block(s.body, env2, fin, ind + '    ')
            head = ind + '%s <- py_for (py_range 0%%Z %s) (fun %s %s =>' % (self.pat(carried), t, self.nm(s.target.id), self.pat(carried))
            body[-1] += ') %s ;;' % self.tup(carried)
            return self.binds(b, ind) + [head] + body + cont()
        if isinstance(s, ast.If):
            b, t, ty = self.expr(s.test, env)
            if ty != 'bool' or b: self.fail(s, 'condition must be a comparison of numbers that cannot raise')
            def raises(blk): return bool(blk) and isinstance(blk[-1], ast.Raise)
            names = sorted(set().union(*[self.assigned(bl) for bl in (s.body, s.orelse) if not raises(bl)]))
            newenv = {}
            def fin(e2, i2):
                for n in names:
                    if n not in e2: self.fail(s, '%s is not bound on every path' % n)
                    ty2 = 'node' if e2[n].ty == 'param' else e2[n].ty
                    if n in newenv and newenv[n].ty != ty2: self.fail(s, '%s has two types' % n)
                    newenv[n] = Var(ty2)
                return [i2 + 'Some %s' % self.tup(names)]
            th = self.block(s.body, env, fin, ind + '    ')
            el = self.block(s.orelse, env, fin, ind + '    ')
            env.update(newenv)
            out = [ind + '%s <- (if %s then' % (self.pat(names), t)] + th + [ind + '  else'] + el
            out[-1] += ') ;;'
            return out + cont()
        self.fail(s, 'unsupported statement %s' % type(s).__name__)

    def translate(self):
        fd, a = self.fd, self.fd.args
        if ([x.arg for x in a.args] != ['self', 'node'] or a.vararg is None or a.vararg.arg != 'args' or a.kwarg is None
                or a.kwarg.arg != 'kwargs' or a.posonlyargs or a.kwonlyargs or a.defaults or fd.decorator_list or fd.returns):
            self.fail(fd, 'signature changed')
        body = [s for s in fd.body if not (isinstance(s, ast.Expr) and isinstance(s.value, ast.Constant) and isinstance(s.value.value, str))]
        for n in ast.walk(ast.Module(body=body, type_ignores=[])):
            if isinstance(n, (ast.Lambda, ast.FunctionDef, ast.ClassDef, ast.Global, ast.Nonlocal, ast.Try, ast.While, ast.With)):
                self.fail(n, 'unsupported construct %s' % type(n).__name__)
        for n in ('args0', 'sample'):
            if n in self.pynames: self.fail(fd, 'the name %s is used by the translator' % n)
        return self.block(body, {'node': Var('param')}, lambda e, i: self.fail(fd, 'method can end without return'), '      ', top=True)

# ---------------------------------------------------------------- classes
def visitor_text(V, sources, tables):
    table = tables[V['table']]
    cds = {}
    for cname in V['lookup']:
        Vc = [v for v in VISITORS if v['name'] == cname][0]
        cds[cname] = (methods_of(sources[Vc['file']][1][cname]), Vc['file'])
    own = sources[V['file']][1][V['name']]
    if [ast.unparse(b) for b in own.bases] != V['bases']: fail(own, 'bases of %s changed: %s' % (V['name'], [ast.unparse(b) for b in own.bases]), sources[V['file']][2])
    def resolve(m):
        for cname in V['lookup']:
            if m in cds[cname][0]: return cds[cname][0][m], cname, sources[cds[cname][1]][2]
        fail(own, '%s does not define %s: the default of the visitor base (visitChildren) would run' % (V['name'], m), sources[V['file']][2])
    # every method of the class itself is either dispatched to or pinned
    for m, fd in methods_of(own).items():
        if m in table.values(): continue
        if (V['name'], m) not in OPAQUE: fail(fd, 'new method %s.%s: not known to the translator' % (V['name'], m), sources[V['file']][2])
        if '--print-digests' in sys.argv: print(V['name'], m, digest(fd))
        elif digest(fd) != OPAQUE[(V['name'], m)]:
            fail(fd, 'the untranslated method %s.%s changed (digest %s)' % (V['name'], m, digest(fd)), sources[V['file']][2])
    for (c, m) in OPAQUE:
        if c == V['name'] and m not in methods_of(own): fail(own, 'the pinned method %s.%s was removed' % (c, m), sources[V['file']][2])
    num = V['num']
    ret = num if V['kind'] == 'horizon' else 'NodeName.node'
    params = ('(sample : Q) ' if V['sample'] else '') + '(node : NodeName.node)' + (' (args0 : %s)' % num if V['kind'] == 'pastifier' else '')
    L = ['(* class %s(%s) — %s *)' % (V['name'], ', '.join(V['bases']), V['file']),
         'Fixpoint gen_%s %s {struct node} : option %s :=' % (V['name'], params, ret), '  match node with']
    count = 0
    def clause(cls):
        nonlocal count
        if cls not in table: return ['      None (* %s: not dispatched by this visitor, raise_exception *)' % cls]
        fd, cname, path = resolve(table[cls])
        count += 1
        return ['      (* %s.%s %s:%d *)' % (cname, fd.name, os.path.basename(path), fd.lineno)] + Method(fd, cls, V, path).translate()
    by = {}
    for cls, (ctor, tag) in CLASSES.items(): by.setdefault(ctor, {})[tag] = cls
    for ctor in ['NVar', 'NConst', 'NUn', 'NTUn', 'NFn2', 'NBin', 'NTBin']:
        L.append('  | %s =>' % PATTERN[ctor])
        if ctor in ('NVar', 'NConst'): L += clause(by[ctor][None]); continue
        L.append('    match nop with')
        for tag in ORDER[ctor]:
            L.append('    | %s =>' % (tag if tag != 'b_pred' else 'b_pred nop'))
            L += clause(by[ctor][tag])
        L.append('    end')
    L.append('  end.')
    return '\n'.join(L) + '\n', count

EPILOGUE = '''(* ---- pastify() (hand-written, pinned by the digests of LtlPastifier.pastify / StlPastifier.pastify): for every specification
   of the ast  to_default_unit(spec);  horizon = h.visit(spec, None);  self.visit(spec, horizon)   (the bookkeeping of the names,
   of pastified_intervals and of var_subspec_dict is not modelled) ---- *)
Definition gen_ltl_pastify (spec : NodeName.node) : option NodeName.node :=
  horizon <- gen_LtlHorizon spec ;; gen_LtlPastifier spec horizon.
Definition gen_stl_pastify (du : tunit) (sample : Q) (spec : NodeName.node) : option NodeName.node :=
  let spec := to_default_unit du spec in
  horizon <- gen_StlHorizon sample spec ;; gen_StlPastifier sample spec horizon.
Definition gen_stl_dense_pastify (du : tunit) (sample : Q) (spec : NodeName.node) : option NodeName.node :=
  let spec := to_default_unit du spec in
  horizon <- gen_StlHorizon sample spec ;; gen_StlDenseTimePastifier sample spec horizon.
'''

def main():
    argv = [a for a in sys.argv[1:] if not a.startswith('--')]
    if len(argv) == 1: root, out = '/repo', argv[0]
    elif len(argv) == 2: root, out = argv
    else: sys.exit('usage: py2coq_pastifier.py [REPO_ROOT] OUT.v')
    tables = dispatch_tables(root)
    sources = {}
    for rel in (P_LTL_H, P_STL_H, P_LTL_P, P_STL_P):
        mod = parse(root, rel)
        imp, classes = module_parts(mod)
        sources[rel] = (imp, classes, PATH)
        want = [v['name'] for v in VISITORS if v['file'] == rel]
        if list(classes) != want: fail(mod.body[0], 'expected exactly the classes %s' % want)
        for name, module in imp.items():      # a constructor name must denote the node class of that name
            if name in CLASSES and not (module.startswith('rtamt.syntax.node.') and module.count('.') == 4):
                fail(mod.body[0], '%s is imported from %s' % (name, module))
            if name == 'Interval' and module != 'rtamt.semantics.interval.interval': fail(mod.body[0], 'Interval is imported from %s' % module)
            if name == 'RTAMTException' and module != 'rtamt.exception.exception': fail(mod.body[0], 'RTAMTException is imported from %s' % module)
        for cd in classes.values():
            for n in ast.walk(cd):
                if isinstance(n, ast.Call) and isinstance(n.func, ast.Name) and n.func.id in CLASSES and n.func.id not in imp:
                    fail(n, 'constructor %s is not imported' % n.func.id)
    texts, total = [], 0
    for V in VISITORS:
        t, c = visitor_text(V, sources, tables)
        texts.append(t); total += c
    text = ('(* GENERATED by tools/py2coq_pastifier.py from rtamt/pastifier/{ltl,stl}/{horizon,pastifier}.py — do not edit.\n'
            '   One Fixpoint per visitor class, one clause per node class (the method visit() dispatches to), built from the primitives\n'
            '   of PyNode.v / PySem.v; None = the Python code raises (or a bound would be negative, see q_bound). *)\n'
            'From Coq Require Import List Bool ZArith QArith String.\nFrom RV Require Import Val Syntax PySem Units NodeName PyNode.\n'
            'Import ListNotations.\n\n')
    text += '\n'.join(texts) + '\n' + EPILOGUE
    text += '\nDefinition gen_pastifier_clause_count : nat := %d%%nat.\n' % total
    if '--print-digests' not in sys.argv: open(out, 'w').write(text)

if __name__ == '__main__':
    main()
