#!/usr/bin/env python3
# tools/explainergen_mutants.py — does the generated-model tie of C20 notice changes of the explainer classes and their helpers?
# Each change is applied to a scratch COPY of the files the translator reads (never to the repository), tools/py2coq_explainer.py is
# run on the copy and ExplainGen.v / ExplainGenCorrect.v / Props/C20.v are compiled against the result in a scratch directory.
# Verdicts: "translator fails closed: <msg>" | "proof fails at <lemma>" | "all lemmas check (generated text changed/identical)".
import ast, json, os, re, shutil, subprocess, sys
ROOT = os.path.dirname(os.path.dirname(os.path.abspath(__file__)))
REPO = os.environ.get('REPO', '/repo')
TH = ROOT + '/coq/theories'
SCR = ROOT + '/build/explainergen_mutants'
EL, ES = 'rtamt/explanation/ltl/discrete_time/explainer.py', 'rtamt/explanation/stl/discrete_time/explainer.py'
XL, XS = 'rtamt/explanation/ltl/discrete_time/explanations.py', 'rtamt/explanation/stl/discrete_time/explanations.py'
SV = 'rtamt/syntax/ast/visitor/stl/ast_visitor.py'
LV = 'rtamt/syntax/ast/visitor/ltl/ast_visitor.py'
COPY = ['rtamt/explanation', 'rtamt/syntax/ast/visitor', 'rtamt/syntax/node', 'rtamt/semantics/discrete_time_interpreter.py']

def in_method(src, cls, method, old, new, count=1):
    """replace inside the LAST definition of cls.method"""
    tree = ast.parse(src)
    cd = [n for n in tree.body if isinstance(n, ast.ClassDef) and n.name == cls][0]
    fd = [n for n in cd.body if isinstance(n, ast.FunctionDef) and n.name == method][-1]
    lines = src.split('\n')
    seg = '\n'.join(lines[fd.lineno - 1:fd.end_lineno])
    assert seg.count(old) >= 1, (cls, method, old)
    return '\n'.join(lines[:fd.lineno - 1] + seg.replace(old, new, count).split('\n') + lines[fd.end_lineno:])

def drop_method(src, cls, method):
    tree = ast.parse(src)
    cd = [n for n in tree.body if isinstance(n, ast.ClassDef) and n.name == cls][0]
    fds = [n for n in cd.body if isinstance(n, ast.FunctionDef) and n.name == method]
    lines = src.split('\n')
    for fd in reversed(fds): del lines[fd.lineno - 1:fd.end_lineno]
    return '\n'.join(lines)

def ch(path, *a): return (path, lambda s: in_method(s, *a))

def fn(path, name, old, new, count=1):
    def f(src):
        tree = ast.parse(src)
        fd = [n for n in tree.body if isinstance(n, ast.FunctionDef) and n.name == name][-1]
        lines = src.split('\n')
        seg = '\n'.join(lines[fd.lineno - 1:fd.end_lineno])
        assert seg.count(old) >= 1, (name, old)
        return '\n'.join(lines[:fd.lineno - 1] + seg.replace(old, new, count).split('\n') + lines[fd.end_lineno:])
    return (path, f)

CHANGES = [
  ('M1 not keeps the polarity', [ch(EL, 'LTLExplainer', 'visitNot', '[op_intervals, not flag]', '[op_intervals, flag]')]),
  ('M2 implies: the antecedent keeps the polarity', [ch(EL, 'LTLExplainer', 'visitImplies', '[op1_intervals, not flag]', '[op1_intervals, flag]')]),
  ('M3 and: the sat / unsat helpers swapped', [ch(EL, 'LTLExplainer', 'visitAnd', 'explain_sat_and(', 'explain_TMP('), ch(EL, 'LTLExplainer', 'visitAnd', 'explain_unsat_and(', 'explain_sat_and('), ch(EL, 'LTLExplainer', 'visitAnd', 'explain_TMP(', 'explain_unsat_and(')]),
  ('M4 or: the second operand gets the intervals of the first', [ch(EL, 'LTLExplainer', 'visitOr', 'self.visit(element.children[1], [op2_intervals, flag])', 'self.visit(element.children[1], [op1_intervals, flag])')]),
  ('M5 a variable seen again overwrites its explanations', [ch(EL, 'LTLExplainer', 'visitVariable', "interval_union(self.explanations.get(element.name, []) + intervals)", 'intervals')]),
  ('M6 rise: the previous sample is not explored', [ch(EL, 'LTLExplainer', 'visitRise', 'self.visit(element.children[0], [explain_prev(op_signal, intervals), not flag])', '')]),
  ('M7 eventually[a,b]: the bounds are not converted to sampling periods', [ch(ES, 'STLExplainer', 'visitTimedEventually', 'begin, end = self.bounds(element)', 'begin, end = element.begin, element.end')]),
  ('M8 always[a,b] uses the helpers of eventually[a,b]', [ch(ES, 'STLExplainer', 'visitTimedAlways', 'explain_sat_timed_always', 'explain_sat_timed_eventually'), ch(ES, 'STLExplainer', 'visitTimedAlways', 'explain_unsat_timed_always', 'explain_unsat_timed_eventually')]),
  ('M9 a forwarding helper forwards elsewhere: explain_unsat_or = explain_sat_or', [fn(XL, 'explain_unsat_or', 'return explain_binary(op1_signal, op2_signal, intervals)', 'return explain_sat_or(op1_signal, op2_signal, intervals)')]),
  ('M10 explain_sat_prev forwards to explain_next', [fn(XL, 'explain_sat_prev', 'explain_prev(', 'explain_next(')]),
  ('M11 a pinned helper changes: explain_prev keeps the last sample', [fn(XL, 'explain_prev', '[begin - 1, end - 1]', '[begin - 1, end]')]),
  ('M12 a pinned helper changes: interval_union of the STL module merges only overlapping intervals', [fn(XS, 'interval_union', 'begin - 1', 'begin')]),
  ('M13 visitSince explains like visitOr instead of raising', [(EL, lambda s: drop_method(s, 'LTLExplainer', 'visitSince'))]),
  ('M14 abs is no longer entered: LTLExplainer.visitAbs removed (visitChildren of the base runs: same table)', [(EL, lambda s: drop_method(s, 'LTLExplainer', 'visitAbs'))]),
  ('M15 the visitor base dispatches TimedOnce to visitTimedHistorically and vice versa', [
      (SV, lambda s: s.replace('result = self.visitTimedOnce(node, *args, **kwargs)', 'result = self.visitTMP(node, *args, **kwargs)')
                      .replace('result = self.visitTimedHistorically(node, *args, **kwargs)', 'result = self.visitTimedOnce(node, *args, **kwargs)')
                      .replace('result = self.visitTMP(node, *args, **kwargs)', 'result = self.visitTimedHistorically(node, *args, **kwargs)'))]),
  ('M16 once: flag inverted in the choice of the helper', [ch(EL, 'LTLExplainer', 'visitOnce', 'if flag:', 'if not flag:')]),
  ('M17 explain() explains satisfied specifications too (pinned)', [ch(EL, 'LTLExplainer', 'explain', 'if top_signal[0] < 0:', 'if True:')]),
  ('M18 bounds() (pinned) returns the raw bounds', [ch(ES, 'STLExplainer', 'bounds', 'return transformer(element)', 'return element.begin, element.end')]),
  ('R1 rename a local (op_intervals -> oi) in visitAlways', [ch(EL, 'LTLExplainer', 'visitAlways', 'op_intervals', 'oi', 99)]),
  ('R2 reorder two independent statements in visitAnd', [ch(EL, 'LTLExplainer', 'visitAnd', 'op1_signal = self.spec.results[element.children[0]]\n        op2_signal = self.spec.results[element.children[1]]', 'op2_signal = self.spec.results[element.children[1]]\n        op1_signal = self.spec.results[element.children[0]]')]),
  ('R3 visitNot without the local names intervals / flag', [ch(EL, 'LTLExplainer', 'visitNot',
      """intervals = args[0]
        flag = args[1]
        op_signal = self.spec.results[element.children[0]]
        if flag:
            op_intervals = explain_sat_not(op_signal, intervals)
        else:
            op_intervals = explain_unsat_not(op_signal, intervals)
        self.explanations[element.name] = intervals""",
      """op_signal = self.spec.results[element.children[0]]
        if args[1]:
            op_intervals = explain_sat_not(op_signal, args[0])
        else:
            op_intervals = explain_unsat_not(op_signal, args[0])
        self.explanations[element.name] = args[0]
        flag = args[1]""")]),
  ('R4 explain_abs returns its argument directly', [fn(XL, 'explain_abs', 'return explain_unary(op_signal, intervals)', 'return intervals')]),
  ('R5 the entry of the node is stored before the helpers run (visitNext)', [ch(EL, 'LTLExplainer', 'visitNext',
      "op_signal = self.spec.results[element.children[0]]", "self.explanations[element.name] = intervals\n        op_signal = self.spec.results[element.children[0]]"),
      ch(EL, 'LTLExplainer', 'visitNext', "            op_intervals = explain_unsat_next(op_signal, intervals)\n        self.explanations[element.name] = intervals", "            op_intervals = explain_unsat_next(op_signal, intervals)")]),
  ('X1 a new visit method', [(ES, lambda s: s.replace('    def visitDefault(self, element):', '    def visitFoo(self, element, args):\n        return None\n\n    def visitDefault(self, element):'))]),
  ('X2 an unsupported construct (a loop) in visitAbs', [ch(EL, 'LTLExplainer', 'visitAbs', 'self.visit(element.children[0], [op_intervals, flag])', 'for c in element.children:\n            self.visit(c, [op_intervals, flag])')]),
  ('X3 a new function in the helper module', [(XS, lambda s: s + '\n\ndef helper(x):\n    y = x\n    return y\n')]),
  ('X4 visitChildren (pinned) visits the children in reverse', [('rtamt/syntax/ast/visitor/abstract_ast_visitor.py', lambda s: s.replace('for nodeChild in node.children:', 'for nodeChild in reversed(node.children):'))]),
]

def lemma_at(path, line):
    name = '?'
    for k, l in enumerate(open(path).read().split('\n'), 1):
        m = re.match(r'\s*(Lemma|Theorem|Example|Definition|Fixpoint)\s+(\w+)', l)
        if m: name = m.group(2)
        if k >= line: break
    return name

def strip(t): return re.sub(r'\w+\.py:\d+', '', t)

def run(name, edits):
    d = SCR + '/' + name.split()[0]
    shutil.rmtree(d, ignore_errors=True)
    os.makedirs(d + '/coq/Props')
    # the committed sources (other tools patch the working tree of the repository for a moment while they run)
    os.makedirs(d + '/root')
    if os.path.isdir(REPO + '/.git') and not os.environ.get('MUTANTS_WORKTREE'):
        subprocess.run('git -C %s archive HEAD %s | tar -x -C %s/root' % (REPO, ' '.join(COPY), d), shell=True, check=True)
    else:
        for rel in COPY: shutil.copytree(REPO + '/' + rel, d + '/root/' + rel, ignore=shutil.ignore_patterns('__pycache__'))
    for rel, f in edits:
        src = open(d + '/root/' + rel).read()
        new = f(src)
        assert new != src, name
        ast.parse(new)
        open(d + '/root/' + rel, 'w').write(new)
    r = subprocess.run([sys.executable, ROOT + '/tools/py2coq_explainer.py', d + '/root', d + '/coq/ExplainGen.v'], capture_output=True, text=True)
    if r.returncode != 0:
        import re as _re
        msg = _re.split(r': py2coq_(?:explainer|pastifier): ', r.stderr.strip())
        loc = msg[0].replace(d + '/root/', '')
        return 'translator fails closed (exit %d): %s [%s]' % (r.returncode, msg[-1], loc)
    same = strip(open(d + '/coq/ExplainGen.v').read()) == strip(open(TH + '/ExplainGen.v').read())
    for f in ['Val', 'Syntax', 'Rho', 'Offline', 'ListFacts', 'OfflineCorrect', 'PySem', 'PySemFacts', 'Units', 'Lexer', 'NodeName', 'NodeNameCorrect',
              'Explain', 'ExplainFacts', 'ExplainCorrect', 'PyExplain', 'ExtZ', 'ExtZFacts', 'Laws', 'Sat', 'Extend', 'Lipschitz', 'IA', 'Online', 'OnlineCorrect']:
        if os.path.exists(TH + '/%s.vo' % f): shutil.copy(TH + '/%s.vo' % f, d + '/coq/')
    shutil.copy(TH + '/ExplainGenCorrect.v', d + '/coq/')
    shutil.copy(TH + '/Props/C20.v', d + '/coq/Props/C20.v')
    for f in ['ExplainGen.v', 'ExplainGenCorrect.v', 'Props/C20.v']:
        r = subprocess.run(['timeout', '900', 'coqc', '-Q', '.', 'RV', f], cwd=d + '/coq', capture_output=True, text=True)
        if r.returncode != 0:
            m = re.search(r'File "\./([\w/]+\.v)", line (\d+)', r.stdout + r.stderr)
            where = lemma_at(d + '/coq/' + m.group(1), int(m.group(2))) if m else '?'
            err = [l for l in (r.stdout + r.stderr).split('\n') if l.startswith('Error') or l.startswith('Found no') or 'Unable' in l]
            return 'proof fails at %s (%s line %s): %s' % (where, m.group(1) if m else f, m.group(2) if m else '?', ' '.join(err)[:160])
    return 'all lemmas check (generated text %s)' % ('identical up to line numbers' if same else 'changed')

def main():
    only = sys.argv[1:]
    out = {}
    for name, edits in CHANGES:
        if only and name.split()[0] not in only: continue
        v = run(name, edits)
        out[name] = v
        print('%-90s %s' % (name, v), flush=True)
    os.makedirs(SCR, exist_ok=True)
    json.dump(out, open(SCR + '/RESULT.json', 'w'), indent=1)

if __name__ == '__main__':
    main()
