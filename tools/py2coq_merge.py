#!/usr/bin/env python3
# tools/py2coq_merge.py [REPO_ROOT] OUT.v [--print-digests] [--offline-file PATH] [--online-file PATH]
# FAIL-CLOSED translator: the dense-time merge of two sample lists
#     rtamt/semantics/stl/dense_time/offline/intersection.py : _append, intersection, the point-wise methods, split
#     rtamt/semantics/stl/dense_time/online/intersection.py  : _append, intersection
#                                                                                   ->  coq/theories/MergeGen.v
# For the two files X in {off, on}:
#   gen_X_append        _append(in_list, item)                 : list (T*B) -> T*B -> res (list (T*B))     (the list after the call)
#   gen_X_intersection  intersection(in_samples_1, in_samples_2, method)
#                       : list (T*V) -> list (T*V) -> res (list (T*B) * option (T*B) * list (T*V) * list (T*V))
# generic in the type T of the stamps (tltb is <, teqb is ==, `a > b` is `b < a`; the offline function also uses tinf = float('inf')),
# and in the type B of what `method` returns (beq is == on it: _append compares two of them with !=).
# `res` is three-valued (PyMerge.v): Ok / Raise (the code raises) / NoFuel (a while loop was cut; proved not to occur in MergeGenCorrect.v).
# Scheme of tools/py2coq_offline.py / py2coq_denseonline.py: continuation style, A-normal form for every operation that may raise
# (l[i], l.pop(0)), `if` = a Coq `if` that returns the tuple of the variables it assigns, with these additions:
#   * `while C: body` = py_while_r fuel C body over the tuple of the variables the body assigns; fuel = 2 + the sum of len(x) for the
#     lists x whose slice x[1:] is tested in C (for the main loops: len(in_samples_1) + len(in_samples_2) + 2);
#   * `break` (only as the last statement of a branch of an if-chain that ends the loop body) = the flag the body returns;
#   * an `if` without else whose body ends in `return` = if .. then <body> else <the rest of the function>;
#   * `_append(l, x)` rebinds l to the list after the call; in-place mutation (append, pop(0), _append) only of a list object this
#     function created (list(x), list(), x.copy()) - list variables are never aliased (`a = b` on lists is refused);
#   * types: stamp (T), val (V), bval (B), int (Z), bool, sample (T*V), osample (T*B), sig / osig (lists of them), olast (option (T*B):
#     the variables of OPTION_VARS hold [] or one sample); every use is checked.
# Supported statements / expressions = exactly what these functions use; anything else exits non-zero with file:line.
# The other module-level functions of the OFFLINE file are pinned by the digest of their syntax tree (OFF_PINNED); those of the ONLINE file
# belong to tools/py2coq_denseonline.py (which translates the methods and pins the rest, _append and intersection included).
# Python `ast` only; the Coq text is built from strings.
import ast, hashlib, sys

D_OFF = 'rtamt/semantics/stl/dense_time/offline/intersection.py'
D_ON = 'rtamt/semantics/stl/dense_time/online/intersection.py'
IMPORTS = {('from', 'rtamt.semantics.arithmetic', 'saturating'), ('import', 'math', None), ('from', 'rtamt', 'RTAMTException')}
OFF_METHODS = ['disjunction', 'conjunction', 'implication', 'xor', 'iff', 'addition', 'subtraction', 'multiplication', 'division']
OFF_PINNED = {'interval_union': 'b6bbbc8df29d', 'union': '162262a61e97', 'intersects': '5f2df0eb1150', 'eq': '16635e2b9033',
              'neq': '8fbdb37f4037', 'geq': 'd661182d42ea', 'greater': 'a0e4955cfa03', 'leq': 'ce7f7b030d34', 'less': '17b735698f5d',
              'power': '23a5c2516cef', 'log': '0c4d547e061a'}
# variables that hold [] or one sample [t, v]; what `list()` / `[]` means for a variable
OPTION_VARS = {'last', 'ans'}
EMPTY_KIND = {'out_samples': 'osig', 'last': 'olast', 'ans': 'olast'}
SIGNATURES = {'_append': [('in_list', 'osig'), ('item', 'osample')],
              'intersection': [('in_samples_1', 'sig'), ('in_samples_2', 'sig'), ('method', 'fun')]}
RETURN_TYPES = ['osig', 'olast', 'sig', 'sig']
COQ_TY = {'sig': 'list (T * V)', 'osig': 'list (T * B)', 'sample': 'T * V', 'osample': 'T * B', 'olast': 'option (T * B)'}

RESERVED = set('''end match with fun let in if then else return as at cofix fix forall exists for using where Type Prop Set Some None
  top bot neg map combine rev fst snd app length repeat seq nth a1 a2 AR VS V Z T B nat list option true false tt st
  Abs Sqrt Exp Ln Neg Add Sub Mul Div Pow Log vmin vmax orb andb negb bool prod pair S O nil cons tl hd firstn skipn concat
  tltb teqb tinf beq ltb leb veq azero Arith Val left right inl inr eq_refl conj exist existT I Lt Gt Eq xH xI xO Z0 Zpos Zneg TInf
  Ok Raise NoFuel res rlift rmap brk_'''.split())

PATH = '?'
def fail(node, msg):
    sys.stderr.write('%s:%s: py2coq_merge: %s\n' % (PATH, getattr(node, 'lineno', '?'), msg))
    sys.exit(2)

def digest(node):
    return hashlib.sha256(ast.unparse(node).encode()).hexdigest()[:12]

def is_name(e, s): return isinstance(e, ast.Name) and e.id == s
def is_inf(e):
    return (isinstance(e, ast.Call) and is_name(e.func, 'float') and len(e.args) == 1 and not e.keywords
            and isinstance(e.args[0], ast.Constant) and e.args[0].value == 'inf')
def const_index(e):
    if isinstance(e, ast.Constant) and type(e.value) is int: return e.value
    if isinstance(e, ast.UnaryOp) and isinstance(e.op, ast.USub) and isinstance(e.operand, ast.Constant) and type(e.operand.value) is int:
        return -e.operand.value
    return None
def is_slice1(e):     # x[1:]
    return (isinstance(e, ast.Subscript) and isinstance(e.slice, ast.Slice) and e.slice.upper is None and e.slice.step is None
            and const_index(e.slice.lower) == 1 and isinstance(e.value, ast.Name))

def assigned(stmts):
    """names a statement list (re)binds or mutates, in order of first appearance ('brk_' for break)"""
    out = []
    def add(n):
        if n not in out: out.append(n)
    for s in stmts:
        if isinstance(s, ast.Assign):
            for t in s.targets:
                if isinstance(t, ast.Name): add(t.id)
        elif isinstance(s, ast.Expr) and isinstance(s.value, ast.Call):
            c = s.value
            if isinstance(c.func, ast.Attribute) and isinstance(c.func.value, ast.Name): add(c.func.value.id)
            elif is_name(c.func, '_append') and c.args and isinstance(c.args[0], ast.Name): add(c.args[0].id)
        elif isinstance(s, ast.While):
            for n in assigned(s.body): add(n)
        elif isinstance(s, ast.If):
            for n in assigned(s.body) + assigned(s.orelse): add(n)
        elif isinstance(s, ast.Break): add('brk_')
    return out

class Var:
    def __init__(self, ty, fresh=False): self.ty, self.fresh = ty, fresh

class Tr:
    """translation of one function"""
    def __init__(self, fd, X, has_inf):
        self.fd, self.X, self.has_inf, self.ntmp = fd, X, has_inf, 0
        self.pynames = {n.id for n in ast.walk(fd) if isinstance(n, ast.Name)} | {a.arg for a in ast.walk(fd) if isinstance(a, ast.arg)}
        if 'brk_' in self.pynames: fail(fd, 'the name brk_ is used')
        self.known = {}      # option variable -> the name of the sample it certainly holds (straight-line code only)

    def nm(self, s):
        if s == 'brk_': return s
        r = s + '_' if (s in RESERVED or s.startswith(('py_', 'os_', 'ts_', 'gen_', 'isect', 'oisect'))) else s
        if r != s and r in self.pynames: fail(self.fd, 'cannot rename %s: %s is also used' % (s, r))
        return r
    def tmp(self):
        while True:
            self.ntmp += 1
            t = 't%d' % self.ntmp
            if t not in self.pynames: return t
    def look(self, e, env):
        if e.id not in env: fail(e, '%s is not certainly bound here' % e.id)
        return env[e.id]

    # ---------- expressions: (binds, term, type); a bind is (name, option-valued term)
    def expr(self, e, env):
        if isinstance(e, ast.Name):
            v = self.look(e, env)
            return [], self.nm(e.id), v.ty
        if isinstance(e, ast.Constant) and type(e.value) is int and e.value >= 0: return [], str(e.value), 'int'
        if is_inf(e):
            if not self.has_inf: fail(e, "float('inf') in a function that is generic in the stamps")
            return [], 'tinf', 'stamp'
        if isinstance(e, ast.Subscript):
            if is_slice1(e):
                v = self.look(e.value, env)
                if v.ty not in ('sig', 'osig'): fail(e, 'slice of %s' % v.ty)
                return [], '(py_slice %s (Some 1) None)' % self.nm(e.value.id), v.ty
            i = const_index(e.slice)
            if i is None: fail(e, 'index is not an integer literal')
            b, t, ty = self.expr(e.value, env)
            if ty in ('sig', 'osig'):
                x = self.tmp()
                return b + [(x, 'py_get %s %s' % (t, str(i) if i >= 0 else '(%d)' % i))], x, 'sample' if ty == 'sig' else 'osample'
            if ty in ('sample', 'osample') and i in (0, 1):
                return b, '(%s %s)' % ('fst' if i == 0 else 'snd', t), 'stamp' if i == 0 else ('val' if ty == 'sample' else 'bval')
            fail(e, 'subscript [%d] of %s' % (i, ty))
        if isinstance(e, ast.List) and len(e.elts) == 2:
            b1, t1, y1 = self.expr(e.elts[0], env); b2, t2, y2 = self.expr(e.elts[1], env)
            if y1 == 'stamp' and y2 in ('val', 'bval'): return b1 + b2, '(%s, %s)' % (t1, t2), 'sample' if y2 == 'val' else 'osample'
            fail(e, 'list display [%s, %s]' % (y1, y2))
        if isinstance(e, ast.Call) and not e.keywords:
            f = e.func
            if isinstance(f, ast.Attribute) and f.attr == 'copy' and isinstance(f.value, ast.Name) and not e.args:
                v = self.look(f.value, env)
                if v.ty not in ('sig', 'osig'): fail(e, '.copy() of %s' % v.ty)
                return [], self.nm(f.value.id), v.ty
            if isinstance(f, ast.Name) and f.id in env:
                if env[f.id].ty != 'fun' or len(e.args) != 2: fail(e, 'call of %s' % f.id)
                a1, a2 = self.expr(e.args[0], env), self.expr(e.args[1], env)
                if (a1[2], a2[2]) != ('val', 'val'): fail(e, '%s(%s, %s)' % (f.id, a1[2], a2[2]))
                return a1[0] + a2[0], '(%s %s %s)' % (self.nm(f.id), a1[1], a2[1]), 'bval'
            if isinstance(f, ast.Name) and f.id == 'len' and len(e.args) == 1:
                b, t, ty = self.expr(e.args[0], env)
                if ty not in ('sig', 'osig'): fail(e, 'len(%s)' % ty)
                return b, '(py_len %s)' % t, 'int'
            if isinstance(f, ast.Name) and f.id == 'list' and len(e.args) == 1 and isinstance(e.args[0], ast.Name):
                v = self.look(e.args[0], env)
                if v.ty not in ('sig', 'osig'): fail(e, 'list(%s)' % v.ty)
                return [], self.nm(e.args[0].id), v.ty
            fail(e, 'unsupported call')
        if isinstance(e, ast.Compare):
            ops = [self.expr(x, env) for x in [e.left] + e.comparators]
            if len(ops) > 2 and any(o[0] for o in ops): fail(e, 'an operand of a chained comparison may raise')
            parts = []
            for (l, op, r) in zip(ops, e.ops, ops[1:]):
                k = type(op).__name__
                if (l[2], r[2]) == ('stamp', 'stamp') and k in ('Lt', 'Gt', 'Eq'):
                    parts.append('tltb %s %s' % (l[1], r[1]) if k == 'Lt' else 'tltb %s %s' % (r[1], l[1]) if k == 'Gt' else 'teqb %s %s' % (l[1], r[1]))
                elif (l[2], r[2]) == ('int', 'int') and k in ('Eq', 'Gt'):
                    parts.append('(%s %s %s)' % (l[1], '=?' if k == 'Eq' else '>?', r[1]))
                elif (l[2], r[2]) == ('bval', 'bval') and k == 'NotEq':
                    parts.append('negb (beq %s %s)' % (l[1], r[1]))
                else: fail(e, 'comparison %s of %s, %s' % (k, l[2], r[2]))
            return sum((o[0] for o in ops), []), '(%s)' % ' && '.join(parts), 'bool'
        fail(e, 'unsupported expression %s' % type(e).__name__)

    def test(self, e, env):
        """a condition: (binds, bool term); lists and []-or-sample variables are tested for emptiness"""
        if isinstance(e, ast.BoolOp):
            parts = [self.test(v, env) for v in e.values]
            if any(p[0] for p in parts): fail(e, 'an operand of and / or may raise')
            return [], '(%s)' % (' && ' if isinstance(e.op, ast.And) else ' || ').join(p[1] for p in parts)
        if isinstance(e, ast.UnaryOp) and isinstance(e.op, ast.Not):
            b, t = self.test(e.operand, env)
            return b, '(negb %s)' % t
        b, t, ty = self.expr(e, env)
        if ty == 'bool': return b, t
        if ty in ('sig', 'osig'): return b, '(py_truthy %s)' % t
        if ty == 'olast': return b, '(os_truthy %s)' % t
        fail(e, 'condition of type %s' % ty)

    @staticmethod
    def binds(b, ind): return [ind + '%s <-r rlift (%s) ;;' % bt for bt in b]
    def pat(self, names): return "'(%s)" % ', '.join(self.nm(n) for n in names) if len(names) > 1 else self.nm(names[0])
    def tup(self, names): return '(%s)' % ', '.join(self.nm(n) for n in names) if len(names) > 1 else self.nm(names[0])

    # ---------- statements.  block() returns the lines of `stmts` followed by what finish(env) gives (the continuation)
    def block(self, stmts, env, ind, finish, loop=False, tail=False):
        """loop: inside a while body; tail: the last statement of this list is the last thing the loop body does"""
        out = []
        for i, s in enumerate(stmts):
            last = i == len(stmts) - 1
            if isinstance(s, ast.Return):
                if loop or not last: fail(s, 'return inside a loop / followed by code')
                if self.fd.name != 'intersection' or not isinstance(s.value, ast.Tuple) or not all(isinstance(x, ast.Name) for x in s.value.elts):
                    fail(s, 'expected return a, b, c, d')
                tys = [self.look(x, env).ty for x in s.value.elts]
                if tys != RETURN_TYPES: fail(s, 'return of %s' % tys)
                return out + [ind + 'Ok (%s)' % ', '.join(self.nm(x.id) for x in s.value.elts)]
            if isinstance(s, ast.Raise):
                if not last or s.exc is None or s.cause is not None: fail(s, 'raise followed by code / bare raise')
                return out + [ind + 'Raise']
            if isinstance(s, ast.Break):
                if not (loop and tail and last): fail(s, 'break that is not the last thing the loop body does')
                out.append(ind + 'let brk_ := true in')
                continue
            if isinstance(s, ast.If) and not s.orelse and s.body and isinstance(s.body[-1], ast.Return):
                if loop: fail(s, 'return inside a loop')
                self.known = {}
                b, t = self.test(s.test, env)
                out += self.binds(b, ind) + [ind + 'if %s then' % t]
                out += self.block(s.body, dict(env), ind + '  ', finish)
                self.known = {}
                out += [ind + 'else'] + self.block(stmts[i + 1:], env, ind + '  ', finish)
                return out
            if isinstance(s, ast.If):
                self.known = {}
                outs = [n for n in list(env) if n in assigned([s])]
                if not outs: fail(s, 'an if that changes nothing')
                b, t = self.test(s.test, env)        # (the first condition is evaluated unconditionally: it may use l[i])
                out += self.binds(b, ind)
                out += [ind + '%s <-r (' % self.pat(outs)] + self.chain(s, env, ind + '  ', outs, loop, tail and last, t) + [ind + '  ) ;;']
                self.known = {}
                continue
            if isinstance(s, ast.While):
                if loop or s.orelse: fail(s, 'nested while / while-else')
                self.known = {}
                carried = [n for n in list(env) if n in assigned(s.body)]
                if not carried: fail(s, 'a loop that changes nothing')
                b, t = self.test(s.test, env)
                if b: fail(s, 'the loop condition may raise')
                lists = []
                for n in ast.walk(s.test):
                    if is_slice1(n) and n.value.id not in lists: lists.append(n.value.id)
                if not lists: fail(s, 'no x[1:] in the loop condition: no fuel')
                for n in lists:
                    if n not in carried: fail(s, 'the loop does not change %s' % n)
                fuel = '(%s + 2)%%nat' % ' + '.join('length %s' % self.nm(n) for n in lists)
                benv = dict(env); benv['brk_'] = Var('bool')
                body = self.block(s.body, benv, ind + '    ', lambda e2: [ind + '    Ok (%s, brk_)' % self.tup(carried)], loop=True, tail=True)
                out += [ind + '%s <-r py_while_r %s (fun %s => %s) (fun %s =>' % (self.pat(carried), fuel, self.pat(carried), t, self.pat(carried)),
                        ind + '    let brk_ := false in'] + body
                out[-1] += ') %s ;;' % self.tup(carried)
                self.known = {}
                continue
            out += self.simple(s, env, ind)
        return out + finish(env)

    def chain(self, s, env, ind, outs, loop, tail, head=None):
        """if / elif / else that yields the tuple `outs`"""
        fin = lambda e2: [ind + '  Ok %s' % self.tup(outs)]
        b, t = ([], head) if head is not None else self.test(s.test, env)
        if b: fail(s, 'the condition of an elif may raise')
        lines = [ind + 'if %s then' % t] + self.block(s.body, dict(env), ind + '  ', fin, loop, tail)
        self.known = {}
        if len(s.orelse) == 1 and isinstance(s.orelse[0], ast.If):
            sub = self.chain(s.orelse[0], env, ind, outs, loop, tail)
            return lines + [ind + 'else ' + sub[0].lstrip()] + sub[1:]
        return lines + [ind + 'else'] + self.block(s.orelse, dict(env), ind + '  ', fin, loop, tail)

    def bind_var(self, s, env, name, ty, fresh=False):
        if name in env and env[name].ty != ty: fail(s, '%s changes its type (%s, %s)' % (name, env[name].ty, ty))
        env[name] = Var(ty, fresh)
        self.known.pop(name, None)

    def simple(self, s, env, ind):
        if isinstance(s, ast.Assign):
            if len(s.targets) != 1 or not isinstance(s.targets[0], ast.Name): fail(s, 'assignment target')
            x, v = s.targets[0].id, s.value
            if x == 'brk_' or (x in env and env[x].ty == 'fun'): fail(s, 'assignment to %s' % x)
            empty = (isinstance(v, ast.Call) and is_name(v.func, 'list') and not v.args and not v.keywords) or (isinstance(v, ast.List) and not v.elts)
            if empty:
                if x not in EMPTY_KIND: fail(s, 'an empty list for %s: unknown kind' % x)
                self.bind_var(s, env, x, EMPTY_KIND[x], True)
                return [ind + 'let %s := %s in' % (self.nm(x), '[]' if EMPTY_KIND[x] == 'osig' else 'None')]
            b, t, ty = self.expr(v, env)
            if x in OPTION_VARS:
                if ty != 'osample': fail(s, '%s = %s' % (x, ty))
                y = self.tmp()
                self.bind_var(s, env, x, 'olast')
                self.known[x] = y
                return self.binds(b, ind) + [ind + 'let %s := %s in' % (y, t), ind + 'let %s := Some %s in' % (self.nm(x), y)]
            if ty in ('sig', 'osig'):
                fresh = isinstance(v, ast.Call)      # list(y) / y.copy(): a new list object
                if not fresh: fail(s, 'a second name for a list')
                self.bind_var(s, env, x, ty, True)
            elif ty in ('sample', 'osample', 'bval'): self.bind_var(s, env, x, ty)
            else: fail(s, 'assignment of %s' % ty)
            return self.binds(b, ind) + [ind + 'let %s := %s in' % (self.nm(x), t)]
        if isinstance(s, ast.Expr) and isinstance(s.value, ast.Call) and not s.value.keywords:
            c = s.value
            if isinstance(c.func, ast.Attribute) and isinstance(c.func.value, ast.Name):
                x, m = c.func.value.id, c.func.attr
                v = self.look(c.func.value, env)
                if v.ty not in ('sig', 'osig') or not v.fresh: fail(s, 'in-place %s on %s that may be shared' % (m, v.ty))
                if m == 'pop' and len(c.args) == 1 and const_index(c.args[0]) == 0:
                    return [ind + '%s <-r rlift (py_pop0 %s) ;;' % (self.nm(x), self.nm(x))]
                if m == 'append' and len(c.args) == 1:
                    b, t, ty = self.expr(c.args[0], env)
                    if ty != {'sig': 'sample', 'osig': 'osample'}[v.ty]: fail(s, 'append of %s to %s' % (ty, v.ty))
                    return self.binds(b, ind) + [ind + 'let %s := %s ++ [%s] in' % (self.nm(x), self.nm(x), t)]
                fail(s, 'unsupported method call .%s' % m)
            if is_name(c.func, '_append') and len(c.args) == 2 and isinstance(c.args[0], ast.Name) and self.fd.name == 'intersection':
                x = c.args[0].id
                v = self.look(c.args[0], env)
                if v.ty != 'osig' or not v.fresh: fail(s, '_append on %s that may be shared' % v.ty)
                a = c.args[1]
                if isinstance(a, ast.Name) and a.id in OPTION_VARS:
                    if a.id not in self.known: fail(s, '%s may be [] here' % a.id)
                    b, t, ty = [], self.known[a.id], 'osample'
                else: b, t, ty = self.expr(a, env)
                if ty != 'osample': fail(s, '_append of %s' % ty)
                return self.binds(b, ind) + [ind + '%s <-r gen_%s_append T B beq %s %s ;;' % (self.nm(x), self.X, self.nm(x), t)]
        fail(s, 'unsupported statement %s' % type(s).__name__)


def check_sig(fd):
    a = fd.args
    want = [p for p, _ in SIGNATURES[fd.name]]
    if [x.arg for x in a.args] != want or a.vararg or a.kwarg or a.defaults or a.kwonlyargs or a.posonlyargs or fd.decorator_list or fd.returns:
        fail(fd, 'expected def %s(%s)' % (fd.name, ', '.join(want)))

def translate_append(fd, X, rel):
    check_sig(fd)
    tr = Tr(fd, X, False)
    env = {'in_list': Var('osig', True), 'item': Var('osample')}
    body = tr.block(fd.body, env, '  ', lambda e2: ['  Ok in_list'])
    return ('(* %s:%d *)\nDefinition gen_%s_append {VS : Val} (T B : Type) (beq : B -> B -> bool) (in_list : list (T * B)) (item : T * B)'
            ' : res (list (T * B)) :=\n' % (rel.split('/')[-2] + '/intersection.py', fd.lineno, X)) + '\n'.join(body) + '.\n'

def translate_intersection(fd, X, rel):
    check_sig(fd)
    has_inf = X == 'off'
    tr = Tr(fd, X, has_inf)
    env = {'in_samples_1': Var('sig'), 'in_samples_2': Var('sig'), 'method': Var('fun')}
    body = tr.block(fd.body, env, '  ', lambda e2: fail(fd, 'the function may end without return'))
    return ('(* %s:%d *)\nDefinition gen_%s_intersection {VS : Val} (T : Type) (tltb teqb : T -> T -> bool) %s(B : Type) (beq : B -> B -> bool)\n'
            '    (method : V -> V -> B) (in_samples_1 in_samples_2 : list (T * V)) : res (list (T * B) * option (T * B) * list (T * V) * list (T * V)) :=\n'
            % (rel.split('/')[-2] + '/intersection.py', fd.lineno, X, '(tinf : T) ' if has_inf else '')) + '\n'.join(body) + '.\n'

# ---------- def M(a, b): return E   of the offline file
def method_expr(fd, e, params):
    def go(e):
        if isinstance(e, ast.Name) and e.id in params: return e.id
        if isinstance(e, ast.UnaryOp) and isinstance(e.op, ast.USub): return '(neg %s)' % go(e.operand)
        if isinstance(e, ast.BinOp) and type(e.op).__name__ in ('Add', 'Sub', 'Mult', 'Div'):
            return '(a2 AR %s %s %s)' % ({'Mult': 'Mul'}.get(type(e.op).__name__, type(e.op).__name__), go(e.left), go(e.right))
        if isinstance(e, ast.Call) and isinstance(e.func, ast.Name) and not e.keywords:
            f, args = e.func.id, [go(a) for a in e.args]
            if f in ('min', 'max') and len(args) == 2: return '(py_%s2 %s %s)' % (f, args[0], args[1])
            if f == 'abs' and len(args) == 1: return '(a1 AR Abs %s)' % args[0]
            if f == 'float' and len(args) == 1: return args[0]
        fail(e, 'unsupported expression in %s' % fd.name)
    return go(e)

def method_def(fd):
    a = fd.args
    if len(a.args) != 2 or a.vararg or a.kwarg or a.defaults or a.kwonlyargs or a.posonlyargs or fd.decorator_list or len(fd.body) != 1 \
            or not isinstance(fd.body[0], ast.Return) or fd.body[0].value is None:
        fail(fd, 'expected def %s(a, b): return E' % fd.name)
    ps = [x.arg for x in a.args]
    if ps[0] == ps[1] or any(p in RESERVED for p in ps): fail(fd, 'parameter names')
    e = fd.body[0].value
    if fd.name == 'split':
        if not (isinstance(e, ast.List) and len(e.elts) == 2 and is_name(e.elts[0], ps[0]) and is_name(e.elts[1], ps[1])): fail(fd, 'expected return [a, b]')
        return '(* offline/intersection.py:%d *)\nDefinition gen_off_m_split {VS : Val} : V -> V -> V * V :=\n  fun %s %s => (%s, %s).\n' % (fd.lineno, ps[0], ps[1], ps[0], ps[1])
    return ('(* offline/intersection.py:%d *)\nDefinition gen_off_m_%s {VS : Val} (AR : Arith VS) : V -> V -> V :=\n  fun %s %s => %s.\n'
            % (fd.lineno, fd.name, ps[0], ps[1], method_expr(fd, e, ps)))


def functions_of(path, printing):
    global PATH
    PATH = path
    mod = ast.parse(open(path).read(), path)
    imports, funs = set(), {}
    for s in mod.body:
        if isinstance(s, ast.Import):
            for al in s.names: imports.add(('import', al.name, al.asname))
        elif isinstance(s, ast.ImportFrom):
            for al in s.names:
                if al.asname or s.level: fail(s, 'from ... import ... as / relative import')
                imports.add(('from', s.module, al.name))
        elif isinstance(s, ast.FunctionDef):
            if s.name in funs: fail(s, 'function %s defined twice' % s.name)
            funs[s.name] = s
        else: fail(s, 'unexpected module-level statement')
    if imports != IMPORTS: fail(mod.body[0], 'the import list changed: %s' % sorted(imports ^ IMPORTS, key=str))
    for f in funs.values():
        for n in ast.walk(f):
            if isinstance(n, (ast.Global, ast.Nonlocal)): fail(n, 'global / nonlocal')
    return mod, funs


def main():
    args = sys.argv[1:]
    printing = '--print-digests' in args
    args = [a for a in args if a != '--print-digests']
    def opt(name):
        if name in args:
            i = args.index(name); v = args[i + 1]; del args[i:i + 2]; return v
        return None
    off_file, on_file = opt('--offline-file'), opt('--online-file')
    if len(args) != 2: sys.exit('usage: py2coq_merge.py REPO_ROOT OUT.v [--print-digests] [--offline-file PATH] [--online-file PATH]')
    root, outp = args
    parts = []
    # ---- offline
    mod, funs = functions_of(off_file or root + '/' + D_OFF, printing)
    known = ['_append', 'intersection', 'split'] + OFF_METHODS + list(OFF_PINNED)
    for n, f in funs.items():
        if n not in known: fail(f, 'new function %s: not known to the translator' % n)
        if n in OFF_PINNED:
            if printing: print('OFF_PINNED', n, digest(f))
            elif digest(f) != OFF_PINNED[n]: fail(f, 'the untranslated function %s changed (digest %s)' % (n, digest(f)))
    missing = [n for n in known if n not in funs]
    if missing: fail(mod, 'functions removed: %s' % missing)
    parts.append('(* ---------------- %s ---------------- *)' % D_OFF)
    parts.append(translate_append(funs['_append'], 'off', D_OFF))
    parts.append(translate_intersection(funs['intersection'], 'off', D_OFF))
    for n in OFF_METHODS + ['split']: parts.append(method_def(funs[n]))
    # ---- online
    mod, funs = functions_of(on_file or root + '/' + D_ON, printing)
    missing = [n for n in ('_append', 'intersection') if n not in funs]
    if missing: fail(mod, 'functions removed: %s' % missing)
    parts.append('(* ---------------- %s ---------------- *)' % D_ON)
    parts.append(translate_append(funs['_append'], 'on', D_ON))
    parts.append(translate_intersection(funs['intersection'], 'on', D_ON))
    if printing: return
    head = ('(* GENERATED by tools/py2coq_merge.py from rtamt/semantics/stl/dense_time/{offline,online}/intersection.py — do not edit.\n'
            '   _append and intersection of both files, the point-wise methods and split of the offline file, built from the primitives of\n'
            '   PySem.v / PyDense.v / PyMerge.v.  Ok = the value the Python code returns, Raise = it raises, NoFuel = a loop was cut. *)\n'
            'From Coq Require Import List Bool Arith ZArith.\n'
            'From RV Require Import Val Syntax PySem PyDense PyMerge.\n'
            'Import ListNotations.\nLocal Open Scope Z_scope.\n\n')
    open(outp, 'w').write(head + '\n'.join(parts))

if __name__ == '__main__':
    main()
