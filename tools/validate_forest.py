#!/venv/bin/python
# validate_forest.py — DenseOnlineForest.forest_run / forest_run_out (driver command `onlforest`) against
# rtamt.StlDenseTimeSpecification fed online with multi-assertion specifications: what every update() returns,
# get_value(name) of every assertion after every update, get_value(printed text) of sub-formula nodes, and the update
# in which an exception is raised.   usage: validate_forest.py [seed] [ncases]
import sys, os, math, random, json
HERE = os.path.dirname(os.path.abspath(__file__))
sys.path.insert(0, os.path.dirname(HERE))
sys.path.insert(0, '/repo')
import logging
logging.disable(logging.CRITICAL)
import rtamt
from harness import fml, dense
from harness.common import Model
from harness.densex import gen_formula, gen_sigs, need_vars
from harness.modular import decompose, replace_all

SQ = [-4, -1, 0, 1, 4, 9]


def inline(f, env):
    if f[0] == 'ref':
        return env[f[1]]
    return fml.rebuild(f, [inline(c, env) for c in fml.children(f)])


def splits(n, k, rng):
    """cut range(n) into k consecutive pieces (possibly empty)"""
    cuts = sorted(rng.randint(0, n) for _ in range(k - 1))
    b = [0] + cuts + [n]
    return [(b[i], b[i + 1]) for i in range(k)]


def partial(rng, f):
    """put a sqrt / ln somewhere (it raises on some values)"""
    X = ('var', 0)
    t = rng.choice([('a1', 'sqrt', X), ('a1', 'sqrt', ('a1', 'abs', X)), ('a1', 'ln', ('const', 1)), ('a1', 'ln', ('a2', 'sub', X, X)),
                    ('a1', 'sqrt', ('a2', 'mul', X, X))])
    p = ('pred', rng.choice(['geq', 'leq']), t, ('const', rng.randint(0, 2)))
    return rng.choice([p, ('once', p), ('and', f, p), ('or', p, f), ('since', f, p), ('oncet', 0, 2, p)])


def gen_case(rng):
    style = rng.choice(['decomp', 'decomp', 'decomp', 'indep', 'indep', 'mixed', 'dup', 'partial'])
    nv = rng.choice([1, 2, 2])
    prog = []          # [(name, body-with-refs)]
    if style in ('decomp', 'mixed', 'partial'):
        while True:
            f = gen_formula(rng, nv, rng.choice([2, 2, 3]), future=False)
            if 4 <= fml.size(f) <= 24:
                break
        if style == 'partial':
            f = partial(rng, f)
        subs, main = decompose(rng, f, rng.choice([1, 1, 2, 3]))
        prog = [(nm, b) for (nm, b, s_) in subs]
        if style == 'mixed':
            # an assertion nobody uses, before, between or after the others; possibly one that raises
            g = gen_formula(rng, nv, rng.choice([1, 2]), future=False)
            if rng.random() < 0.3:
                g = partial(rng, g)
            prog.insert(rng.randint(0, len(prog)), ('free1', g))
        prog.append(('out', main))
    elif style == 'indep':
        k = rng.choice([2, 2, 3])
        for i in range(k):
            g = gen_formula(rng, nv, rng.choice([1, 2, 2]), future=False)
            if i > 0 and rng.random() < 0.4:
                # reuse an earlier assertion by name, several times
                r = ('ref', prog[rng.randrange(len(prog))][0])
                g = rng.choice([('and', r, g), ('since', r, r), ('or', g, ('once', r)), ('oncet', 0, 2, r), r, ('a2', 'add', r, r)])
            prog.append(('as%d' % i if (i < k - 1 or rng.random() < 0.5) else 'out', g))
    else:
        # the same text in two assertions (two nodes, one name), neither referring to the other
        g = gen_formula(rng, nv, rng.choice([1, 2]), future=False)
        h = gen_formula(rng, nv, 1, future=False)
        prog = [('aa', g), ('bb', rng.choice([g, ('and', g, h), ('since', h, g)])), ('out', rng.choice([('ref', 'aa'), ('or', ('ref', 'bb'), g), ('once', g)]))]
    env, F = {}, []
    for nm, b in prog:
        env[nm] = inline(b, env)
        F.append(env[nm])
    allf = [s for f in F for s in fml.subformulas(f)]
    nv = max([nv] + [need_vars(f, nv) for f in F])
    used = sorted({v for f in F for v in fml.fvars(f)})
    if not used:
        return None
    sigs = gen_sigs(rng, nv, maxn=6, minn=1)
    if style == 'partial' or any(s[0] == 'a1' and s[1] in ('sqrt', 'ln') for s in allf):
        sigs[0] = [[t, rng.choice(SQ if rng.random() < 0.5 else [0, 1, 4, 9])] for t, _ in sigs[0]]
    K = rng.choice([1, 2, 2, 3, 4])
    batches = []       # per update: {var index: samples}
    cut = {i: splits(len(sigs[i]), K, rng) for i in used}
    overlap = rng.random() < 0.4
    for j in range(K):
        env_j = {}
        for i in used:
            lo, hi = cut[i][j]
            if j == 0 and hi == 0 and rng.random() < 0.7:
                # most first batches are not empty
                hi = 1
                cut[i][0] = (0, 1)
                if K > 1:
                    cut[i][1] = (max(cut[i][1][0], 1), max(cut[i][1][1], 1))
                    for jj in range(2, K):
                        cut[i][jj] = (max(cut[i][jj][0], 1), max(cut[i][jj][1], 1))
            lo, hi = cut[i][j]
            smp = sigs[i][lo:hi]
            if overlap and lo > 0 and smp and rng.random() < 0.6:
                smp = [sigs[i][lo - 1]] + smp          # the batch starts with a copy of the last sample already sent
            env_j[i] = smp
        batches.append(env_j)
    return {'style': style, 'nv': nv, 'prog': prog, 'F': F, 'used': used, 'batches': batches,
            'text_style': rng.choice(['add_sub_spec', 'one_text'])}


def node_names(node, f, acc):
    """parallel walk of the rtamt node and the formula: [(formula, node.name)]"""
    acc.append((f, node.name))
    kids = fml.children(f)
    assert len(kids) == len(node.children), (f, node.name)
    for k, n in zip(kids, node.children):
        node_names(n, k, acc)


def canon(l):
    out = []
    for t, v in l:
        tt = 'inf' if t == math.inf else t / dense.SCALE
        if tt != 'inf':
            assert tt == int(tt), l
            tt = int(tt)
        vv = 'inf' if v == math.inf else ('-inf' if v == -math.inf else v)
        if vv not in ('inf', '-inf'):
            assert vv == vv, 'nan'
            assert float(vv) == int(vv), l
            vv = int(vv)
        out.append('%s:%s' % (tt, vv))
    return ' '.join(out)


def run_impl(c, rng):
    spec = rtamt.StlDenseTimeSpecification()
    for i in range(c['nv']):
        spec.declare_var(fml.VARS[i], 'float')
    texts = ['%s = %s' % (nm, dense.dense_formula_text(b)) for nm, b in c['prog']]
    if c['text_style'] == 'add_sub_spec':
        for t in texts[:-1]:
            spec.add_sub_spec(t + ';')
        spec.spec = texts[-1]
    else:
        spec.spec = ';\n'.join(texts) + ';'
    spec.parse()
    specs = spec.ast.specs
    assert len(specs) == len(c['F'])
    acc = []
    for n, f in zip(specs, c['F']):
        node_names(n, f, acc)
    # at most 6 distinct sub-formulas to query by printed name
    seen, Q = set(), []
    for f, nm in acc:
        if f not in seen:
            seen.add(f)
            Q.append((f, nm))
    rng.shuffle(Q)
    Q = Q[:6]
    rets, gets, subs, failed = [], [], [], None
    for j, env_j in enumerate(c['batches']):
        data = [[fml.VARS[i], dense.to_impl(env_j[i])] for i in c['used']]
        try:
            r = spec.update(*data)
        except Exception as exc:  # noqa
            failed = (j, type(exc).__name__ + ': ' + str(exc)[:80])
            break
        rets.append(canon(r))
        gets.append(' , '.join(canon(spec.get_value(nm)) for nm, _ in c['prog']))
        subs.append(' , '.join(canon(spec.get_value(nm)) for _, nm in Q))
    return Q, rets, gets, subs, failed


def model_line(c, Q, upto=None):
    envs = []
    bs = c['batches'] if upto is None else c['batches'][:upto]
    for env_j in bs:
        envs.append('(' + ' '.join(dense.sig_sx(env_j.get(i, [])) for i in range(c['nv'])) + ')')
    return '(onlforest std (%s) (%s) (%s))' % (' '.join(fml.to_sx(f) for f in c['F']), ' '.join(fml.to_sx(q) for q, _ in Q), ' '.join(envs))


def norm(s):
    return ' '.join(s.split())


def main():
    seed = int(sys.argv[1]) if len(sys.argv) > 1 else 20260926
    n = int(sys.argv[2]) if len(sys.argv) > 2 else 3000
    rng = random.Random(seed)
    model = Model()
    cases, lines, impl = [], [], []
    while len(cases) < n:
        c = gen_case(rng)
        if c is None:
            continue
        try:
            Q, rets, gets, subs, failed = run_impl(c, rng)
        except AssertionError as exc:
            print('SKIP (non-integer value or parse shape)', exc.args[:1])
            continue
        cases.append(c)
        impl.append((Q, rets, gets, subs, failed))
        lines.append(model_line(c, Q))
        if failed is not None:
            lines.append(model_line(c, Q, upto=failed[0]))      # the updates before the exception
    outs = model.batch(lines)
    bad = 0
    stats = {'ok': 0, 'raise': 0, 'updates': 0, 'gets': 0, 'subs': 0, 'styles': {}}
    li = 0
    for c, (Q, rets, gets, subs, failed) in zip(cases, impl):
        ml = outs[li]
        li += 1
        stats['styles'][c['style']] = stats['styles'].get(c['style'], 0) + 1
        if failed is not None:
            mlp = outs[li]
            li += 1
            stats['raise'] += 1
            kk = failed[1].split(':')[0] + ':' + failed[1].split(':')[1][:25]
            stats.setdefault('exc', {})[kk] = stats.setdefault('exc', {}).get(kk, 0) + 1
            if ml != 'ONLFOREST BAD':
                bad += 1
                print('MISMATCH: rtamt raises in update %d (%s), the model does not\n  %s\n  %s' % (failed[0], failed[1], lines[li - 2], ml))
                continue
            ml = mlp
            if ml == 'ONLFOREST BAD':
                bad += 1
                print('MISMATCH: the model raises before update %d, rtamt raises in it\n  %s' % (failed[0], lines[li - 1]))
                continue
        else:
            stats['ok'] += 1
            if ml == 'ONLFOREST BAD':
                bad += 1
                print('MISMATCH: the model raises, rtamt does not\n  %s\n  prog %s' % (lines[li - 1], c['prog']))
                continue
        head, rest = ml[len('ONLFOREST'):].split(' | GET')
        get, sub = rest.split(' | SUB')
        k = len(rets)
        exp = (norm(' ; '.join(rets)), norm(' ; '.join(gets)), norm(' ; '.join(subs)))
        obs = (norm(head), norm(get), norm(sub))
        if k == 0:
            exp = ('', '', '')
        if exp != obs:
            bad += 1
            print('MISMATCH\n  prog %s\n  line %s\n  rtamt %s\n  model %s' % (c['prog'], lines[li - 1], exp, obs))
            continue
        stats['updates'] += k
        stats['gets'] += k * len(c['prog'])
        stats['subs'] += k * len(Q)
    print(json.dumps(stats))
    print('cases %d  mismatches %d' % (len(cases), bad))
    return 1 if bad else 0


if __name__ == '__main__':
    sys.exit(main())
