#!/usr/bin/env python3
"""py2coq_online.py [REPO_ROOT [OUT.v]] -- FAIL-CLOSED translator of rtamt's discrete-time online operation classes to Coq.

Reads <root>/rtamt/semantics/stl/discrete_time/online/*_operation.py and the IA-STL predicate_operation.py with Python's
`ast` module and writes, for every class, definitions generated from the Python text: a record of the `self.` fields,
`<Cls>_init` (from __init__), `<Cls>_reset`, `<Cls>_update` (and any further method, e.g. `sat`).
Python number -> V (class Val); int -> Z; collections.deque(maxlen=m) -> list V + dq_append m; a method that can raise
(`raise`, deque index out of range, deque(maxlen<0)) returns `option`, the others are pure.
Anything outside the supported subset (unknown statement, call, attribute, operator, parameter name, signature, file or
class) stops the translation with exit status 2 and a message naming file and line.  Nothing is skipped, nothing is guessed."""
import ast, glob, os, sys

STL = 'rtamt/semantics/stl/discrete_time/online'
IAD = 'rtamt/semantics/iastl/discrete_time/online'
ENUMS = 'rtamt/semantics/enumerations'
# file, Coq prefix, Python class, parameters of __init__, parameters of update
EXPECTED = [(STL + '/' + f, p, p, i, u) for f, p, i, u in [
    ('always_operation.py', 'AlwaysOperation', [], ['sample']),
    ('and_operation.py', 'AndOperation', [], ['sample_left', 'sample_right']),
    ('constant_operation.py', 'ConstantOperation', ['val'], []),
    ('eventually_operation.py', 'EventuallyOperation', [], ['sample']),
    ('fall_operation.py', 'FallOperation', [], ['sample']),
    ('historically_operation.py', 'HistoricallyOperation', [], ['sample']),
    ('historically_timed_operation.py', 'HistoricallyTimedOperation', ['begin', 'end'], ['sample']),
    ('iff_operation.py', 'IffOperation', [], ['sample_left', 'sample_right']),
    ('implies_operation.py', 'ImpliesOperation', [], ['sample_left', 'sample_right']),
    ('not_operation.py', 'NotOperation', [], ['sample']),
    ('once_operation.py', 'OnceOperation', [], ['sample']),
    ('once_timed_operation.py', 'OnceTimedOperation', ['begin', 'end'], ['sample']),
    ('or_operation.py', 'OrOperation', [], ['sample_left', 'sample_right']),
    ('precedes_timed_operation.py', 'PrecedesTimedOperation', ['begin', 'end'], ['sample_left', 'sample_right']),
    ('predicate_operation.py', 'PredicateOperation', ['comparison_op'], ['sample_left', 'sample_right']),
    ('previous_operation.py', 'PreviousOperation', [], ['sample']),
    ('rise_operation.py', 'RiseOperation', [], ['sample']),
    ('since_operation.py', 'SinceOperation', [], ['sample_left', 'sample_right']),
    ('since_timed_operation.py', 'SinceTimedOperation', ['begin', 'end'], ['sample_left', 'sample_right']),
    ('strong_previous_operation.py', 'StrongPreviousOperation', [], ['sample']),
    ('variable_operation.py', 'VariableOperation', [], []),
    ('xor_operation.py', 'XorOperation', [], ['sample_left', 'sample_right'])]]
EXPECTED.append((IAD + '/predicate_operation.py', 'IAPredicateOperation', 'PredicateOperation',
                 ['comparison_op', 'semantics', 'in_vars', 'out_vars'], ['sample_left', 'sample_right']))
ABSTRACT = ('rtamt.semantics.abstract_online_operation', 'AbstractOnlineOperation')
# types: parameters are typed by their NAME (an unknown name is an error); locals and fields by what is assigned to them
PARAM_TYPES = {'begin': 'Z', 'end': 'Z', 'val': 'V', 'sample': 'V', 'sample_left': 'V', 'sample_right': 'V',
               'comparison_op': 'cmp', 'semantics': 'semantics', 'in_vars': 'vars', 'out_vars': 'vars'}
COQ_TYPE = {'V': 'V', 'Z': 'Z', 'bool': 'bool', 'cmp': 'cmp', 'semantics': 'semantics', 'vars': 'list nat',
            'optV': 'option V', 'deque': 'list V'}
ENUM_CTORS = {'StlComparisonOperator': ('cmp', {'LESS': 'CLt', 'LEQ': 'CLeq', 'EQ': 'CEq', 'NEQ': 'CNeq', 'GREATER': 'CGt', 'GEQ': 'CGeq'}),
              'Semantics': ('semantics', {'STANDARD': 'Standard', 'OUTPUT_ROBUSTNESS': 'OutputRobustness', 'INPUT_VACUITY': 'InputVacuity',
                                          'INPUT_ROBUSTNESS': 'InputRobustness', 'OUTPUT_VACUITY': 'OutputVacuity'})}
ENUM_FILES = {'StlComparisonOperator': ('rtamt.semantics.enumerations.comp_oper', ENUMS + '/comp_oper.py'),
              'Semantics': ('rtamt.semantics.enumerations.options', ENUMS + '/options.py')}
BUILTINS = ('min', 'max', 'abs', 'float', 'range', 'collections', 'self')
V_BINOP = {ast.Add: 'Add', ast.Sub: 'Sub', ast.Mult: 'Mul', ast.Div: 'Div'}
Z_BINOP = {ast.Add: '+', ast.Sub: '-', ast.Mult: '*'}

PRELUDE = r'''From Coq Require Import List Bool ZArith Lia.
From RV Require Import Val Syntax Rho IA.
Import ListNotations.

(* ---- fixed prelude: the Python primitives the operation classes use ---- *)
Definition bind {A B : Type} (m : option A) (f : A -> option B) : option B :=
  match m with Some a => f a | None => None end.
Notation "'do' p <- m ; k" := (bind m (fun p => k)) (at level 200, p pattern, m at level 100, k at level 200, right associativity).
(* range(lo, hi) over Python ints *)
Definition zrange (lo hi : Z) : list Z := map (fun k => (lo + Z.of_nat k)%Z) (seq 0 (Z.to_nat (hi - lo))).
(* a for loop whose body cannot raise / can raise: a fold over the range, the loop-carried variables are the accumulator *)
Definition for_range_p {A : Type} (lo hi : Z) (body : A -> Z -> A) (a : A) : A := fold_left body (zrange lo hi) a.
Definition for_range {A : Type} (lo hi : Z) (body : A -> Z -> option A) (a : A) : option A :=
  fold_left (fun acc i => bind acc (fun a => body a i)) (zrange lo hi) (Some a).
Definition cmp_eqb (a b : cmp) : bool :=
  match a, b with CLeq, CLeq | CLt, CLt | CGeq, CGeq | CGt, CGt | CEq, CEq | CNeq, CNeq => true | _, _ => false end.
Definition sem_eqb (a b : semantics) : bool :=
  match a, b with Standard, Standard | OutputRobustness, OutputRobustness | InputRobustness, InputRobustness
  | OutputVacuity, OutputVacuity | InputVacuity, InputVacuity => true | _, _ => false end.
(* `not xs` for a Python list *)
Definition py_not_list {A : Type} (l : list A) : bool := match l with [] => true | _ => false end.

Section OnlineGen.
Context {VS : Val} (AR : Arith VS).
(* collections.deque(maxlen=m): ValueError for m < 0 *)
Definition dq_new (m : Z) : option (list V) := if (m <? 0)%Z then None else Some [].
(* d.append(x) of a deque with maxlen m: the oldest elements are dropped *)
Definition dq_append (m : Z) (d : list V) (x : V) : list V := let d' := d ++ [x] in skipn (length d' - Z.to_nat m) d'.
(* d[i]: IndexError outside -len(d) <= i < len(d); negative indices count from the right *)
Definition dq_get (d : list V) (i : Z) : option V :=
  if (0 <=? i)%Z then nth_error d (Z.to_nat i)
  else if (- Z.of_nat (length d) <=? i)%Z then nth_error d (Z.to_nat (Z.of_nat (length d) + i)) else None.
'''

class NeedMonad(Exception):
    pass

def die(path, node, msg):
    sys.stderr.write('%s:%d: py2coq_online: %s\n' % (path, getattr(node, 'lineno', 0), msg))
    sys.exit(2)

def dotted(node):
    """a.b.c as a list of names, or None"""
    out = []
    while isinstance(node, ast.Attribute):
        out.append(node.attr)
        node = node.value
    if isinstance(node, ast.Name):
        return [node.id] + out[::-1]
    return None

class Sig:
    def __init__(self, name, params, ret, raises, is_init):
        self.name, self.params, self.ret, self.raises, self.is_init = name, params, ret, raises, is_init

class Cls:
    def __init__(self, path, prefix, node, imports):
        self.path, self.prefix, self.node, self.imports = path, prefix, node, imports
        self.base = None            # Cls of the parent operation class, if any
        self.methods = {}           # name -> FunctionDef
        self.fields = []            # [(name, type)] in order of first assignment in __init__
        self.frozen = False         # True once a method other than __init__ has been compiled against the field list
        self.maxlen = {}            # deque field -> Coq text of its maxlen (over self_ fields)
        self.dqlist = {}            # field that is a Python list of deques -> number of deques appended in __init__
        self.sigs, self.out, self.busy = {}, [], set()
    def mk(self):
        return '(%s)' % ' '.join([self.prefix + '_mk'] + ['self_' + f for f, _ in self.fields]) if self.fields else self.prefix + '_mk'
    def find(self, m):
        c = self
        while c is not None:
            if m in c.methods:
                return c
            c = c.base
        return None

class Ctx:
    """one block of one method: the variables in scope, the lines emitted so far"""
    def __init__(self, cls, meth, monadic, parent=None):
        self.cls, self.meth, self.monadic, self.parent = cls, meth, monadic, parent
        self.env = dict(parent.env) if parent else {}        # Python local -> type
        self.fld = dict(parent.fld) if parent else {}        # self field in scope -> type
        self.lines, self.assigned = [], []
        self.ind = parent.ind + 2 if parent else 2
        self.counter = parent.counter if parent else [0]
    def die(self, node, msg):
        die(self.cls.path, node, msg)
    def emit(self, s):
        self.lines.append(' ' * self.ind + s)
    def fresh(self, base):
        self.counter[0] += 1
        return '%s%d' % (base, self.counter[0])
    def need_monad(self, node):
        if not self.monadic:
            raise NeedMonad()
    def bind(self, pat, rhs, may_raise):
        if may_raise:
            self.emit('do %s <- %s ;' % (pat.lstrip("'"), rhs))
        else:
            self.emit('let %s := %s in' % (pat, rhs))
    def ret(self, s):
        return 'Some %s' % s if self.monadic else s
    def mark(self, coqname):
        c = self
        while c is not None:
            if coqname not in c.assigned:
                c.assigned.append(coqname)
            c = c.parent
    def set_local(self, node, name, ty):
        if name in BUILTINS:
            self.die(node, 'the builtin %s is rebound' % name)
        if name in self.env and self.env[name] != ty:
            self.die(node, 'variable %s changes type from %s to %s' % (name, self.env[name], ty))
        self.env[name] = ty
        self.mark('v_' + name)
    def set_field(self, node, name, ty):
        cls = self.cls
        if name not in self.fld:
            if self.meth != '__init__' or self.parent is not None or cls.frozen:
                self.die(node, 'field self.%s is first assigned outside the straight-line part of __init__' % name)
            cls.fields.append((name, ty))
        elif self.fld[name] != ty:
            self.die(node, 'field self.%s changes type from %s to %s' % (name, self.fld[name], ty))
        if self.meth != '__init__' and any(('self_' + name) in t.replace('(', ' ').replace(')', ' ').split() for t in cls.maxlen.values()):
            self.die(node, 'field self.%s determines a deque maxlen and is assigned outside __init__' % name)
        self.fld[name] = ty
        self.mark('self_' + name)

    # ---------- expressions ----------
    def tuple_of(self, names):
        return 'tt' if not names else names[0] if len(names) == 1 else '(%s)' % ', '.join(names)
    def pat_of(self, names):
        return '_' if not names else names[0] if len(names) == 1 else "'(%s)" % ', '.join(names)

    def field_ref(self, node):
        """self.f  or  self.f[c] for a static list of deques -> (coq variable, field name, type)"""
        if isinstance(node, ast.Subscript) and isinstance(node.value, ast.Attribute) and dotted(node.value) == ['self', node.value.attr] \
                and node.value.attr in self.cls.dqlist:
            k = node.slice
            if not (isinstance(k, ast.Constant) and type(k.value) is int and 0 <= k.value < self.cls.dqlist[node.value.attr]):
                self.die(node, 'a list of deques is indexed by something else than a constant in range')
            name = '%s_%d' % (node.value.attr, k.value)
        elif isinstance(node, ast.Attribute) and dotted(node) == ['self', node.attr]:
            name = node.attr
            if name in self.cls.dqlist:
                self.die(node, 'a list of deques is used as a whole')
        else:
            return None
        if name not in self.fld:
            self.die(node, 'field self.%s is not defined here' % name)
        return 'self_' + name, name, self.fld[name]

    def enum_const(self, node):
        """StlComparisonOperator.EQ / Semantics.X -> (ctor, type)"""
        d = dotted(node)
        if d and len(d) == 2 and d[0] in ENUM_CTORS and self.cls.imports.get(d[0]) == (ENUM_FILES[d[0]][0], d[0]):
            ty, ctors = ENUM_CTORS[d[0]]
            if d[1] not in ctors:
                self.die(node, 'unknown member %s of %s' % (d[1], d[0]))
            return ctors[d[1]], ty
        return None

    def expr(self, node, want=None):
        """-> (Coq text, type); may emit bindings (deque indexing) before the statement that contains the expression"""
        if isinstance(node, ast.Name):
            if node.id not in self.env:
                self.die(node, 'variable %s is not (definitely) defined here' % node.id)
            return 'v_' + node.id, self.env[node.id]
        if isinstance(node, ast.Constant):
            if node.value is True or node.value is False:
                return ('true' if node.value else 'false'), 'bool'
            if node.value is None:
                return '(@None V)', 'optV'
            if type(node.value) is int:
                if want == 'V':
                    if node.value != 0:
                        self.die(node, 'the only int literal usable as a sample value is 0')
                    return '(azero AR)', 'V'
                return '%d%%Z' % node.value if node.value >= 0 else '(%d)%%Z' % node.value, 'Z'
            self.die(node, 'unsupported constant %r' % (node.value,))
        e = self.enum_const(node)
        if e:
            return e
        f = self.field_ref(node)
        if f:
            return f[0], f[2]
        if isinstance(node, ast.Subscript):             # d[i] on a deque
            d = self.field_ref(node.value)
            if not d or d[2] != 'deque':
                self.die(node, 'indexing something that is not a deque field')
            i, ti = self.expr(node.slice)
            if ti != 'Z':
                self.die(node, 'deque index is not an int')
            self.need_monad(node)
            t = self.fresh('t')
            self.bind(t, 'dq_get %s %s' % (d[0], i), True)
            return t, 'V'
        if isinstance(node, ast.Call):
            fn = dotted(node.func)
            if node.keywords:
                self.die(node, 'keyword arguments in a call inside an expression')
            if fn == ['float'] and len(node.args) == 1 and isinstance(node.args[0], ast.Constant) and node.args[0].value == 'inf':
                return 'top', 'V'
            if fn in (['min'], ['max']) and len(node.args) == 2:
                (a, ta), (b, tb) = self.expr(node.args[0]), self.expr(node.args[1])
                if (ta, tb) != ('V', 'V'):
                    self.die(node, '%s of non-sample values' % fn[0])
                return '(v%s %s %s)' % (fn[0], a, b), 'V'
            if fn == ['abs'] and len(node.args) == 1:
                a, ta = self.expr(node.args[0])
                if ta != 'V':
                    self.die(node, 'abs of a non-sample value')
                return '(a1 AR Abs %s)' % a, 'V'
            self.die(node, 'unsupported call %s' % ast.unparse(node.func))
        if isinstance(node, ast.UnaryOp):
            if isinstance(node.op, ast.USub):
                a, ta = self.expr(node.operand)
                if ta == 'V':
                    return '(neg %s)' % a, 'V'
                if ta == 'Z':
                    return '(- %s)%%Z' % a, 'Z'
                self.die(node, 'unary minus on %s' % ta)
            if isinstance(node.op, ast.Not):
                a, ta = self.expr(node.operand)
                if ta == 'bool':
                    return '(negb %s)' % a, 'bool'
                if ta == 'vars':
                    return '(py_not_list %s)' % a, 'bool'
                self.die(node, '`not` on %s' % ta)
            self.die(node, 'unsupported unary operator')
        if isinstance(node, ast.BinOp):
            (a, ta), (b, tb) = self.expr(node.left), self.expr(node.right)
            if (ta, tb) == ('V', 'V') and type(node.op) in V_BINOP:
                return '(a2 AR %s %s %s)' % (V_BINOP[type(node.op)], a, b), 'V'
            if (ta, tb) == ('Z', 'Z') and type(node.op) in Z_BINOP:
                return '(%s %s %s)%%Z' % (a, Z_BINOP[type(node.op)], b), 'Z'
            self.die(node, 'unsupported binary operator %s on %s, %s' % (type(node.op).__name__, ta, tb))
        if isinstance(node, ast.BoolOp):
            parts = []
            for k, v in enumerate(node.values):
                n0 = len(self.lines)
                a, ta = self.expr(v)
                if ta != 'bool':
                    self.die(v, 'operand of and/or is not a bool')
                if k > 0 and len(self.lines) != n0:
                    self.die(v, 'an operand of and/or that can raise is evaluated conditionally')
                parts.append(a)
            return '(%s)' % (' && ' if isinstance(node.op, ast.And) else ' || ').join(parts), 'bool'
        if isinstance(node, ast.IfExp):
            c, tc = self.expr(node.test)
            n0 = len(self.lines)
            (a, ta), (b, tb) = self.expr(node.body, want), self.expr(node.orelse, want)
            if tc != 'bool' or ta != tb or len(self.lines) != n0:
                self.die(node, 'unsupported conditional expression')
            return '(if %s then %s else %s)' % (c, a, b), ta
        if isinstance(node, ast.Compare):
            if len(node.ops) != 1:
                self.die(node, 'chained comparison')
            op, l, r = type(node.ops[0]), node.left, node.comparators[0]
            if op is ast.Eq and isinstance(l, ast.Attribute) and isinstance(r, ast.Attribute) and l.attr == r.attr == 'value':
                l, r = l.value, r.value          # X.value == Enum.MEMBER.value (the values of the members are checked to be distinct)
                if not self.enum_const(r):
                    self.die(node, 'comparison of .value with something that is not an enum member')
            (a, ta), (b, tb) = self.expr(l), self.expr(r)
            if ta != tb:
                self.die(node, 'comparison between %s and %s' % (ta, tb))
            if ta == 'V':
                tab = {ast.LtE: 'leb %s %s' % (a, b), ast.Lt: 'ltb %s %s' % (a, b), ast.GtE: 'leb %s %s' % (b, a), ast.Gt: 'ltb %s %s' % (b, a),
                       ast.Eq: 'veqb %s %s' % (a, b), ast.NotEq: 'negb (veqb %s %s)' % (a, b)}
                if op in tab:
                    return '(%s)' % tab[op], 'bool'
            if op is ast.Eq and ta in ('cmp', 'semantics', 'bool'):
                return '(%s %s %s)' % ({'cmp': 'cmp_eqb', 'semantics': 'sem_eqb', 'bool': 'Bool.eqb'}[ta], a, b), 'bool'
            self.die(node, 'unsupported comparison %s on %s' % (op.__name__, ta))
        self.die(node, 'unsupported expression %s' % type(node).__name__)

    # ---------- calls of methods of this object ----------
    def method_call(self, node):
        """self.m(args) | Base.m(self, args) -> (owner class, method name, argument nodes) or None"""
        if not isinstance(node, ast.Call) or not isinstance(node.func, ast.Attribute):
            return None
        d = dotted(node.func)
        if d and len(d) == 2 and d[0] == 'self':
            owner = self.cls.find(d[1])
            if owner is None:
                self.die(node, 'call of unknown method self.%s' % d[1])
            return owner, d[1], node.args
        if d and len(d) == 2 and self.cls.base is not None and self.cls.imports.get(d[0]) == self.cls.base.key:
            if not node.args or dotted(node.args[0]) != ['self'] or d[1] not in self.cls.base.methods:
                self.die(node, 'unsupported call through the base class')
            return self.cls.base, d[1], node.args[1:]
        return None

    def call(self, node, target):
        owner, m, args = self.method_call(node)
        if node.keywords:
            self.die(node, 'keyword arguments in a method call')
        if owner is self.cls:
            self.cls.frozen = True          # the callee is compiled against the field list as it is now
        sig = compile_method(owner, m)
        if len(args) != len(sig.params):
            self.die(node, '%s.%s expects %d arguments' % (owner.prefix, m, len(sig.params)))
        texts = []
        for a, (pn, pt) in zip(args, sig.params):
            t, ty = self.expr(a, pt)
            if ty != pt:
                self.die(a, 'argument %s of %s has type %s, expected %s' % (pn, m, ty, pt))
            texts.append(t)
        if sig.raises:
            self.need_monad(node)
        if not sig.is_init:
            missing = [f for f, _ in owner.fields if f not in self.fld]
            if missing:
                self.die(node, 'method call before field self.%s is assigned' % missing[0])
            texts.insert(0, owner.mk())
        st = self.fresh('st')
        res = None
        if sig.ret is not None:
            res = 'v_' + target if target else '_'
        self.bind(st if res is None else "'(%s, %s)" % (st, res), ' '.join([sig.name] + texts), sig.raises)
        for f, ty in owner.fields:
            if f not in dict(self.cls.fields):      # a field inherited through the base class's __init__
                if self.meth != '__init__' or self.parent is not None or self.cls.frozen:
                    self.die(node, 'field self.%s appears outside the straight-line part of __init__' % f)
                self.cls.fields.append((f, ty))
            self.fld[f] = ty
            self.mark('self_' + f)
            self.emit('let self_%s := %s_%s %s in' % (f, owner.prefix, f, st))
        if target:
            if sig.ret is None:
                self.die(node, 'the result of a method without return value is used')
            self.set_local(node, target, sig.ret)

    # ---------- statements ----------
    def is_deque_ctor(self, node):
        return isinstance(node, ast.Call) and dotted(node.func) == ['collections', 'deque'] and 'collections' in self.cls.imports

    def new_deque(self, node, name):
        if self.meth != '__init__' or self.parent is not None:
            self.die(node, 'a deque is created outside the straight-line part of __init__')
        if node.args or len(node.keywords) != 1 or node.keywords[0].arg != 'maxlen':
            self.die(node, 'deque(...) with other arguments than maxlen=')
        m, tm = self.expr(node.keywords[0].value)
        names = [n for n in ast.walk(node.keywords[0].value) if isinstance(n, (ast.Subscript, ast.Call)) or isinstance(n, ast.Name) and n.id != 'self']
        if tm != 'Z' or names:
            self.die(node, 'maxlen must be an int expression over self fields')
        self.need_monad(node)
        self.cls.maxlen[name] = m
        self.set_field(node, name, 'deque')
        self.bind('self_' + name, 'dq_new %s' % m, True)

    def stmt(self, s, last):
        if isinstance(s, ast.Pass):
            return
        if isinstance(s, ast.Expr) and isinstance(s.value, ast.Constant) and isinstance(s.value.value, str):
            return                                   # docstring
        if isinstance(s, ast.Return):
            if not last or self.parent is not None or s.value is None:
                self.die(s, '`return` is supported only as the last statement of a method, with a value')
            self.result = self.expr(s.value)
            return
        if isinstance(s, ast.Assign):
            if len(s.targets) != 1:
                self.die(s, 'multiple assignment')
            tgt = s.targets[0]
            if isinstance(tgt, ast.Name):
                if self.method_call(s.value):
                    return self.call(s.value, tgt.id)
                e, ty = self.expr(s.value, self.env.get(tgt.id))
                self.set_local(s, tgt.id, ty)
                return self.bind('v_' + tgt.id, e, False)
            if isinstance(tgt, ast.Attribute) and dotted(tgt) == ['self', tgt.attr]:
                if self.is_deque_ctor(s.value):
                    return self.new_deque(s.value, tgt.attr)
                if isinstance(s.value, ast.List) and not s.value.elts:
                    if self.meth != '__init__' or self.parent is not None or tgt.attr in self.cls.dqlist or tgt.attr in self.fld:
                        self.die(s, 'a list field is created outside the straight-line part of __init__')
                    self.cls.dqlist[tgt.attr] = 0
                    return
                if tgt.attr in self.cls.dqlist or self.fld.get(tgt.attr) == 'deque':
                    self.die(s, 'a deque field is overwritten')
                e, ty = self.expr(s.value, self.fld.get(tgt.attr))
                self.set_field(s, tgt.attr, ty)
                return self.bind('self_' + tgt.attr, e, False)
            self.die(s, 'unsupported assignment target')
        if isinstance(s, ast.Expr) and isinstance(s.value, ast.Call):
            c = s.value
            if self.method_call(c):
                return self.call(c, None)
            if isinstance(c.func, ast.Attribute) and c.func.attr == 'append' and len(c.args) == 1 and not c.keywords:
                recv = c.func.value
                if isinstance(recv, ast.Attribute) and dotted(recv) == ['self', recv.attr] and recv.attr in self.cls.dqlist:
                    if not self.is_deque_ctor(c.args[0]):
                        self.die(s, 'only deques are appended to a list field')
                    k = self.cls.dqlist[recv.attr]
                    self.new_deque(c.args[0], '%s_%d' % (recv.attr, k))
                    self.cls.dqlist[recv.attr] = k + 1
                    return
                d = self.field_ref(recv)
                if d and d[2] == 'deque':
                    e, ty = self.expr(c.args[0], 'V')
                    if ty != 'V':
                        self.die(s, 'a non-sample value is appended to a deque')
                    self.mark(d[0])
                    return self.bind(d[0], 'dq_append %s %s %s' % (self.cls.maxlen[d[1]], d[0], e), False)
            self.die(s, 'unsupported call statement %s' % ast.unparse(c.func))
        if isinstance(s, ast.If):
            return self.if_stmt(s)
        if isinstance(s, ast.For):
            return self.for_stmt(s)
        self.die(s, 'unsupported statement %s' % type(s).__name__)

    def block(self, stmts):
        self.result = None
        for k, s in enumerate(stmts):
            self.stmt(s, k == len(stmts) - 1)

    def if_stmt(self, s):
        c, tc = self.expr(s.test)
        if tc != 'bool':
            self.die(s, 'the condition is not a bool')
        subs = []
        for body in (s.body, s.orelse):
            sub = type(self)(self.cls, self.meth, self.monadic, self)
            sub.raised = len(body) == 1 and isinstance(body[0], ast.Raise)
            if sub.raised:
                self.need_monad(body[0])
            else:
                sub.block(body)
            subs.append(sub)
        live = [x for x in subs if not x.raised]
        joined = []
        for x in live:
            for v in x.assigned:
                before = (v[2:] in self.env) if v.startswith('v_') else (v[5:] in self.fld)
                if v not in joined and (before or all(v in y.assigned for y in live)):
                    joined.append(v)
        for v in joined:
            tys = set((x.env.get(v[2:]) if v.startswith('v_') else x.fld.get(v[5:])) for x in live)
            if len(tys) != 1 or None in tys:
                self.die(s, 'variable %s has different types after the branches' % v)
            if v.startswith('v_'):
                self.set_local(s, v[2:], tys.pop())
            else:
                self.set_field(s, v[5:], tys.pop())
        def branch(x):
            if x.raised:
                return [' ' * x.ind + 'None']
            return x.lines + [' ' * x.ind + self.ret(self.tuple_of(joined))]
        head = 'do %s <- (if %s then (' if self.monadic else 'let %s := (if %s then ('
        self.emit(head % (self.pat_of(joined).lstrip("'") if self.monadic else self.pat_of(joined), c))
        self.lines += branch(subs[0])
        self.emit(') else (')
        self.lines += branch(subs[1])
        self.emit(')) ;' if self.monadic else ')) in')

    def for_stmt(self, s):
        it = s.iter
        if s.orelse or not isinstance(s.target, ast.Name) or not (isinstance(it, ast.Call) and dotted(it.func) == ['range']
                                                                   and len(it.args) in (1, 2) and not it.keywords):
            self.die(s, 'only `for <name> in range(a[, b]):` is supported')
        if s.target.id in self.env:
            self.die(s, 'the loop variable %s shadows a variable' % s.target.id)
        bounds = [self.expr(a) for a in it.args]
        if any(t != 'Z' for _, t in bounds):
            self.die(s, 'range bounds are not ints')
        lo, hi = ('0%Z', bounds[0][0]) if len(bounds) == 1 else (bounds[0][0], bounds[1][0])
        sub = type(self)(self.cls, self.meth, self.monadic, self)
        sub.env[s.target.id] = 'Z'
        sub.block(s.body)
        carried = [v for v in sub.assigned if ((v[2:] in self.env) if v.startswith('v_') else (v[5:] in self.fld))]
        if not carried:
            self.die(s, 'a loop that changes no variable defined before it')
        for v in carried:
            t0 = self.env[v[2:]] if v.startswith('v_') else self.fld[v[5:]]
            t1 = sub.env[v[2:]] if v.startswith('v_') else sub.fld[v[5:]]
            if t0 != t1:
                self.die(s, 'variable %s changes type in the loop' % v)
        if self.monadic:
            self.emit('do %s <- for_range %s %s (fun %s v_%s =>' % (self.pat_of(carried).lstrip("'"), lo, hi, self.pat_of(carried), s.target.id))
        else:
            self.emit('let %s := for_range_p %s %s (fun %s v_%s =>' % (self.pat_of(carried), lo, hi, self.pat_of(carried), s.target.id))
        self.lines += sub.lines + [' ' * sub.ind + self.ret(self.tuple_of(carried))]
        self.emit(') %s %s' % (self.tuple_of(carried), ';' if self.monadic else 'in'))

def compile_method(cls, m):
    if m in cls.sigs:
        return cls.sigs[m]
    fn = cls.methods[m]
    if m in cls.busy:
        die(cls.path, fn, 'recursive method calls through %s' % m)
    cls.busy.add(m)
    a = fn.args
    if a.vararg or a.kwarg or a.kwonlyargs or a.defaults or a.posonlyargs or fn.decorator_list or not a.args or a.args[0].arg != 'self':
        die(cls.path, fn, 'unsupported signature of %s' % m)
    params = []
    for p in a.args[1:]:
        if p.arg not in PARAM_TYPES:
            die(cls.path, fn, 'parameter name %s of %s has no declared type' % (p.arg, m))
        params.append((p.arg, PARAM_TYPES[p.arg]))
    is_init = m == '__init__'
    if not is_init:
        if '__init__' not in cls.busy:
            compile_method(cls, '__init__')
        cls.frozen = True
    name = '%s_%s' % (cls.prefix, 'init' if is_init else m)
    for monadic in (False, True):
        snapshot = (list(cls.fields), dict(cls.maxlen), dict(cls.dqlist), cls.frozen)
        ctx = Ctx(cls, m, monadic)
        ctx.env = dict(params)
        if not is_init:
            ctx.fld = dict(cls.fields)
        try:
            ctx.block(fn.body)
        except NeedMonad:
            cls.fields, cls.maxlen, cls.dqlist, cls.frozen = snapshot
            continue
        break
    if is_init:
        missing = [f for f, _ in cls.fields if f not in ctx.fld]
        assert not missing
    ret = ctx.result
    state_t = cls.prefix + '_state'
    out_t = state_t if ret is None else '%s * %s' % (state_t, COQ_TYPE[ret[1]])
    head = 'Definition %s %s: %s :=' % (name, ''.join(['' if is_init else '(s : %s) ' % state_t] + ['(v_%s : %s) ' % (p, COQ_TYPE[t]) for p, t in params]),
                                        'option (%s)' % out_t if monadic else out_t)
    lines = ['(* %s:%d  %s.%s *)' % (os.path.relpath(cls.path, cls.root), fn.lineno, cls.node.name, m), head]
    if not is_init:
        lines += ['  let self_%s := %s_%s s in' % (f, cls.prefix, f) for f, _ in cls.fields]
    final = cls.mk() if ret is None else '(%s, %s)' % (cls.mk(), ret[0])
    lines += ctx.lines + ['  ' + ctx.ret(final) + '.']
    cls.out.append('\n'.join(lines))
    cls.busy.discard(m)
    cls.sigs[m] = Sig(name, params, ret[1] if ret else None, monadic, is_init)
    return cls.sigs[m]

def load_class(root, rel, prefix, pyname):
    path = os.path.join(root, rel)
    try:
        tree = ast.parse(open(path).read(), path)
    except (OSError, SyntaxError) as e:
        die(path, None, 'cannot read/parse: %s' % e)
    imports, classes = {}, []
    for n in tree.body:
        if isinstance(n, ast.Import) and all(a.asname is None for a in n.names):
            for a in n.names:
                imports[a.name] = (a.name, None)
        elif isinstance(n, ast.ImportFrom) and n.level == 0:
            for a in n.names:
                imports[a.asname or a.name] = (n.module, a.name)
        elif isinstance(n, ast.ClassDef):
            classes.append(n)
        else:
            die(path, n, 'unsupported top-level statement %s' % type(n).__name__)
    for k, v in imports.items():
        if k in BUILTINS and v != ('collections', None):
            die(path, tree.body[0], 'an import rebinds the builtin %s' % k)
    if len(classes) != 1 or classes[0].name != pyname:
        die(path, classes[0] if classes else None, 'expected exactly one class, named %s' % pyname)
    node = classes[0]
    if len(node.bases) != 1 or node.keywords or node.decorator_list or not isinstance(node.bases[0], ast.Name) or node.bases[0].id not in imports:
        die(path, node, 'unsupported class header')
    cls = Cls(path, prefix, node, imports)
    cls.root, cls.key, cls.base_key = root, (rel[:-3].replace('/', '.'), pyname), imports[node.bases[0].id]
    for n in node.body:
        if isinstance(n, ast.FunctionDef):
            if n.name in cls.methods:
                die(path, n, 'method %s defined twice' % n.name)
            cls.methods[n.name] = n
        elif not isinstance(n, ast.Pass) and not (isinstance(n, ast.Expr) and isinstance(n.value, ast.Constant)):
            die(path, n, 'unsupported statement in class body: %s' % type(n).__name__)
    return cls

def check_enum(root, pyname):
    """the members the translator maps to constructors exist, there are no others, and their values are pairwise distinct"""
    path = os.path.join(root, ENUM_FILES[pyname][1])
    try:
        tree = ast.parse(open(path).read(), path)
    except (OSError, SyntaxError) as e:
        die(path, None, 'cannot read/parse: %s' % e)
    for n in tree.body:
        if isinstance(n, ast.ClassDef) and n.name == pyname:
            members = {}
            for b in n.body:
                if isinstance(b, ast.Assign) and len(b.targets) == 1 and isinstance(b.targets[0], ast.Name) and isinstance(b.value, ast.Constant):
                    members[b.targets[0].id] = b.value.value
                elif not isinstance(b, ast.FunctionDef) or b.name not in ('__str__',):
                    die(path, b, 'unsupported statement in enum %s' % pyname)
            if set(members) != set(ENUM_CTORS[pyname][1]) or len(set(members.values())) != len(members):
                die(path, n, 'enum %s: members %s changed or values not distinct' % (pyname, sorted(members)))
            return
    die(path, None, 'enum %s not found' % pyname)

def main():
    root = sys.argv[1] if len(sys.argv) > 1 else '/repo'
    out = sys.argv[2] if len(sys.argv) > 2 else 'OnlineGen.v'
    for d in (STL, IAD):
        have = sorted(os.path.relpath(p, root) for p in glob.glob(os.path.join(root, d, '*_operation.py')))
        want = sorted(e[0] for e in EXPECTED if e[0].startswith(d + '/'))
        for f in have + want:
            if f not in have or f not in want:
                die(os.path.join(root, f), None, 'operation file %s' % ('is missing' if f in want else 'is new: not in the translator\'s table'))
    for e in ENUM_CTORS:
        check_enum(root, e)
    classes = [load_class(root, rel, prefix, py) for rel, prefix, py, _, _ in EXPECTED]
    bykey = {c.key: c for c in classes}
    for c in classes:
        if c.base_key != ABSTRACT:
            if c.base_key not in bykey or bykey[c.base_key] is c:
                die(c.path, c.node, 'unknown base class %s.%s' % c.base_key)
            c.base = bykey[c.base_key]
    for c in sorted(classes, key=lambda c: c.base is not None):     # base classes first
        if c.base is not None:                   # inherited methods: wrappers that call the base class's method on the projected state
            alias = [k for k, v in c.imports.items() if v == c.base.key][0]
            for m, fn in c.base.methods.items():
                if m not in c.methods:
                    ps = [a.arg for a in fn.args.args[1:]]
                    call = '%s.%s(%s)' % (alias, m, ', '.join(['self'] + ps))
                    has_ret = any(isinstance(n, ast.Return) for n in ast.walk(fn))
                    src = 'def %s(%s):\n' % (m, ', '.join(['self'] + ps)) + ('    r = %s\n    return r\n' % call if has_ret else '    %s\n' % call)
                    c.methods[m] = ast.increment_lineno(ast.parse(src).body[0], c.node.lineno - 1)
        for m in ['__init__'] + [m for m in c.methods if m != '__init__']:
            if m not in c.methods:
                die(c.path, c.node, 'no %s' % m)
            compile_method(c, m)
    chunks = ['(* GENERATED by tools/py2coq_online.py from %s/*_operation.py and %s/predicate_operation.py -- do not edit *)' % (STL, IAD), PRELUDE]
    for (rel, prefix, py, ini, upd), c in zip(EXPECTED, classes):
        for m, want in (('__init__', ini), ('update', upd), ('reset', [])):
            if c.find(m) is None:
                die(c.path, c.node, 'no method %s' % m)
            got = [a.arg for a in c.find(m).methods[m].args.args[1:]]
            if got != want:
                die(c.path, c.find(m).methods[m], 'signature of %s changed: parameters %s, expected %s' % (m, got, want))
        flds = ' '.join('%s_%s : %s;' % (prefix, f, COQ_TYPE[t]) for f, t in c.fields).rstrip(';')
        chunks.append('(* ===== %s: class %s%s ===== *)' % (rel, py, '(%s)' % c.base.prefix if c.base else ''))
        chunks.append('Record %s_state := %s_mk { %s }.' % (prefix, prefix, flds))
        chunks += c.out
    chunks.append('End OnlineGen.')
    text = '\n'.join(chunks) + '\n'
    os.makedirs(os.path.dirname(os.path.abspath(out)), exist_ok=True)
    open(out, 'w').write(text)

if __name__ == '__main__':
    main()
