#!/usr/bin/env python3
# tools/mergegen_mutants.py [--diff] — does the generated-model tie of the two dense-time intersection() functions notice changes?
# Each change is applied to a scratch COPY of the two intersection.py files (never to the repository), the translator is run on the copy
# and MergeGen.v / MergeGenCorrect.v are compiled against the result in a scratch directory.
# Verdicts: "translator fails closed: <msg>" | "<lemma> fails" | "all lemmas check (generated text changed/identical)".
# --diff: the modified Python function is also compared with its own translation (harness/mergegen_check.py, 40 cases per variant).
import ast, os, re, shutil, subprocess, sys
ROOT = os.path.dirname(os.path.dirname(os.path.abspath(__file__)))
REPO = os.environ.get('REPO', '/repo')
OFF, ON = 'rtamt/semantics/stl/dense_time/offline/intersection.py', 'rtamt/semantics/stl/dense_time/online/intersection.py'
TH = ROOT + '/coq/theories'
SCR = ROOT + '/build/mergegen_mutants'

def sub(rel, old, new, count=1, nth=0):
    def f(root):
        p = root + '/' + rel
        src = open(p).read()
        assert src.count(old) >= nth + 1, (rel, old)
        if nth:
            i = -1
            for _ in range(nth + 1): i = src.index(old, i + 1)
            out = src[:i] + new + src[i + len(old):]
        else: out = src.replace(old, new, count)
        assert out != src
        ast.parse(out)
        open(p, 'w').write(out)
        return rel
    return f

CHANGES = [
  ('M1 offline case 3: the emitted stamp is prev_in_sample_1[0]', sub(OFF, '_append(out_samples, [prev_in_sample_2[0], out_value])', '_append(out_samples, [prev_in_sample_1[0], out_value])')),
  ('M2 offline case 6 pops list 1', sub(OFF, 'in_samples_2.pop(0)\n            prev_in_sample_2 = current_in_sample_2', 'in_samples_1.pop(0)\n            prev_in_sample_1 = current_in_sample_1')),
  ('M3 offline _append: != -> ==', sub(OFF, 'if prev_item[1] != item[1]:', 'if prev_item[1] == item[1]:')),
  ('M4 offline: the sample appended at inf carries the FIRST value of list 2', sub(OFF, "in_samples_2.append([float('inf'), in_samples_2[-1][1]])", "in_samples_2.append([float('inf'), in_samples_2[0][1]])")),
  ('M5 offline case 1: < -> >', sub(OFF, 'if current_in_sample_1[0] < prev_in_sample_2[0]:', 'if current_in_sample_1[0] > prev_in_sample_2[0]:')),
  ('M6 offline case 13 dropped (falls into the raise)', sub(OFF, '        elif prev_in_sample_1[0] > current_in_sample_2[0]:\n            in_samples_2.pop(0)\n            prev_in_sample_2 = current_in_sample_2\n', '')),
  ('M7 offline method implication: max(-a, b) -> max(a, -b)', sub(OFF, 'return max(-a, b)', 'return max(a, -b)')),
  ('M8 offline split: [a, b] -> [b, a]', sub(OFF, 'return [a,b]', 'return [b,a]')),
  ('M9 online case 13 resets last as case 1 does', sub(ON, '        elif prev_in_sample_1[0] > current_in_sample_2[0]:\n            in_samples_2.pop(0)\n            prev_in_sample_2 = current_in_sample_2\n',
      '        elif prev_in_sample_1[0] > current_in_sample_2[0]:\n            in_samples_2.pop(0)\n            prev_in_sample_2 = current_in_sample_2\n            last = list()\n')),
  ('M10 online first tail loop, case ==: the value of prev_in_sample_1 instead of current_in_sample_1', sub(ON, 'last_val = method(current_in_sample_1[1], prev_in_sample_2[1])\n                last = [prev_in_sample_2[0], last_val]\n                _append',
      'last_val = method(prev_in_sample_1[1], prev_in_sample_2[1])\n                last = [prev_in_sample_2[0], last_val]\n                _append')),
  ('M11 online: the initial last is computed when the first stamps differ (== -> <)', sub(ON, 'if prev_in_sample_1[0] == prev_in_sample_2[0]:\n        out_val', 'if prev_in_sample_1[0] < prev_in_sample_2[0]:\n        out_val')),
  ('M12 online main loop: and -> or', sub(ON, 'while in_samples_1[1:] and in_samples_2[1:]:', 'while in_samples_1[1:] or in_samples_2[1:]:')),
  ('M13 online second tail loop: a break dropped (the branch then falls through without a change)', sub(ON, '                last = [prev_in_sample_1[0], last_val]\n                break\n', '                last = [prev_in_sample_1[0], last_val]\n')),
  ('M14 online: the remainders are taken after the tail loops', lambda root: (sub(ON, '    remainder_samples_1 = in_samples_1.copy()\n    remainder_samples_2 = in_samples_2.copy()\n', '')(root),
      sub(ON, '    return out_samples, last, remainder_samples_1, remainder_samples_2', '    remainder_samples_1 = in_samples_1.copy()\n    remainder_samples_2 = in_samples_2.copy()\n    return out_samples, last, remainder_samples_1, remainder_samples_2')(root))[1]),
  ('R1 rename a local (out_value -> ov) in the offline file', sub(OFF, 'out_value', 'ov', 999)),
  ('R2 a chained comparison written with and (offline case 2)', sub(OFF, 'prev_in_sample_1[0] < current_in_sample_1[0] == prev_in_sample_2[0] < current_in_sample_2[0]',
      'prev_in_sample_1[0] < current_in_sample_1[0] and current_in_sample_1[0] == prev_in_sample_2[0] and prev_in_sample_2[0] < current_in_sample_2[0]')),
  ('R3 online: x.copy() -> list(x)', sub(ON, 'in_samples_1.copy()', 'list(in_samples_1)')),
  ('R4 online case 1: two independent statements reordered', sub(ON, '            in_samples_1.pop(0)\n            prev_in_sample_1 = current_in_sample_1\n            last = list()', '            prev_in_sample_1 = current_in_sample_1\n            last = list()\n            in_samples_1.pop(0)')),
  ('R5 online: last = list() -> last = []', sub(ON, 'last = list()', 'last = []', 99)),
  ('R6 offline: a > b written b < a (case 13)', sub(OFF, 'elif prev_in_sample_1[0] > current_in_sample_2[0]:', 'elif current_in_sample_2[0] < prev_in_sample_1[0]:')),
  ('R7 online case 2: method(prev_in_sample_1[1], ..) after prev_in_sample_1 = current_in_sample_1 (an equivalent program)', sub(ON, 'last_val = method(current_in_sample_1[1], prev_in_sample_2[1])\n            last = [prev_in_sample_2[0], last_val]', 'last_val = method(prev_in_sample_1[1], prev_in_sample_2[1])\n            last = [prev_in_sample_2[0], last_val]')),
  ('X1 a new function in the offline file', sub(OFF, 'def split(a, b):', 'def helper(a):\n    return a\n\n\ndef split(a, b):')),
  ('X2 a pinned function of the offline file changed (intersects)', sub(OFF, 'if x1 <= y2 and y1 <= x2:', 'if x1 < y2 and y1 <= x2:')),
  ('X3 an unsupported comparison (>=) in the online tail loop', sub(ON, 'if prev_in_sample_1[0] > prev_in_sample_2[0]:\n                break', 'if prev_in_sample_1[0] >= prev_in_sample_2[0]:\n                break')),
  ('X4 online: the remainder is an alias, not a copy', sub(ON, 'remainder_samples_1 = in_samples_1.copy()', 'remainder_samples_1 = in_samples_1')),
  ('X5 a default value for method', sub(ON, 'def intersection(in_samples_1, in_samples_2, method):', 'def intersection(in_samples_1, in_samples_2, method=None):')),
  ('X6 a statement after a break', sub(ON, '                last = [prev_in_sample_2[0], last_val]\n                break\n', '                last = [prev_in_sample_2[0], last_val]\n                break\n                last = []\n')),
  ('X7 _append called on a list that is not this function\'s own (the parameter before list())', sub(OFF, '    in_samples_1 = list(in_samples_1)\n', '')),
  ('X8 try/except around the offline loop body', sub(OFF, '        current_in_sample_1 = in_samples_1[1]\n        current_in_sample_2 = in_samples_2[1]\n',
      '        try:\n            current_in_sample_1 = in_samples_1[1]\n        except IndexError:\n            break\n        current_in_sample_2 = in_samples_2[1]\n')),
]

def lemma_at(path, line):
    name = '?'
    for k, l in enumerate(open(path).read().split('\n'), 1):
        m = re.match(r'\s*(Lemma|Theorem|Example|Definition|Fixpoint)\s+(\w+)', l)
        if m: name = m.group(2)
        if k >= line: break
    return name

def strip(t): return re.sub(r'\(\* [\w./]+:\d+ \*\)', '', t)

def run(name, mut):
    d = SCR + '/' + name.split()[0]
    shutil.rmtree(d, ignore_errors=True)
    for rel in (OFF, ON):
        os.makedirs(os.path.dirname(d + '/root/' + rel))
        shutil.copy(REPO + '/' + rel, d + '/root/' + rel)
    os.makedirs(d + '/coq')
    rel = mut(d + '/root')
    r = subprocess.run([sys.executable, ROOT + '/tools/py2coq_merge.py', d + '/root', d + '/coq/MutGen.v'], capture_output=True, text=True)
    if r.returncode != 0:
        msg = r.stderr.strip()
        return rel, 'translator fails closed (exit %d): %s [%s]' % (r.returncode, msg.split(': py2coq_merge: ')[-1],
                                                                    '/'.join(msg.split(': py2coq_merge')[0].split('/')[-2:]))
    same = strip(open(d + '/coq/MutGen.v').read()) == strip(open(TH + '/MergeGen.v').read())
    cor = open(TH + '/MergeGenCorrect.v').read()
    assert ' PyMerge MergeGen.' in cor
    open(d + '/coq/MutCorrect.v', 'w').write(cor.replace(' PyMerge MergeGen.', ' PyMerge.\nFrom Mut Require Import MutGen.', 1))
    for f in ['MutGen.v', 'MutCorrect.v']:
        r = subprocess.run(['timeout', '600', 'coqc', '-Q', TH, 'RV', '-Q', '.', 'Mut', f], cwd=d + '/coq', capture_output=True, text=True)
        if r.returncode != 0:
            m = re.search(r'line (\d+)', r.stderr)
            err = ' '.join(r.stderr.split('Error:')[-1].split())[:110]
            what = lemma_at(d + '/coq/' + f, int(m.group(1))) if m else '?'
            return rel, 'translated; %s fails (%s...)' % (what if f == 'MutCorrect.v' else 'the generated file does not compile: ' + what, err)
    return rel, 'translated (generated text %s); all lemmas check' % ('identical' if same else 'changed')

def diff(name, rel):
    d = SCR + '/' + name.split()[0]
    if not os.path.exists(d + '/coq/MutGen.vo') or rel is None: return None
    env = dict(os.environ, PYTHONDONTWRITEBYTECODE='1', PYTHONPATH=REPO)
    try:
        r = subprocess.run(['/venv/bin/python', ROOT + '/harness/mergegen_check.py', '--n', '40', '--offline-file', d + '/root/' + OFF, '--online-file', d + '/root/' + ON,
                            d + '/coq/Cases.v'], capture_output=True, text=True, env=env, timeout=120)
    except subprocess.TimeoutExpired: return 'the modified Python function does not terminate on some input (harness stopped after 120 s)'
    if r.returncode != 0: return 'harness error: ' + r.stderr[-300:]
    txt = open(d + '/coq/Cases.v').read().replace(' DenseMerge MergeGen.', ' DenseMerge.\nFrom Mut Require Import MutGen.', 1)
    open(d + '/coq/Cases.v', 'w').write(txt)
    c = subprocess.run(['timeout', '1200', 'coqc', '-Q', TH, 'RV', '-Q', '.', 'Mut', 'Cases.v'], cwd=d + '/coq', capture_output=True, text=True)
    return '%s; %s' % (r.stdout.strip().split('\n')[-1], 'all agree' if c.returncode == 0 else 'DISAGREE: ' + ' '.join((c.stdout + c.stderr).split())[:200])

if __name__ == '__main__':
    out = []
    for name, mut in CHANGES:
        rel, v = run(name, mut)
        out.append('%s\n    -> %s' % (name, v)); print(out[-1], flush=True)
        if '--diff' in sys.argv:
            dv = diff(name, rel)
            if dv: out.append('    -> modified Python vs its own translation: ' + dv); print(out[-1], flush=True)
    open(ROOT + '/build/mergegen_mutants.txt', 'w').write('\n'.join(out) + '\n')
