#!/usr/bin/env python3
# tools/py2coq_shell.py [REPO_ROOT] OUT.v
# FAIL-CLOSED translator of the glue of the discrete-time offline interpreter and of get_value  ->  coq/theories/ShellGen.v
#   rtamt/semantics/abstract_discrete_time_offline_interpreter.py  AbstractDiscreteTimeOfflineInterpreter.evaluate,
#                                                                   .set_variable_to_ast_from_dataset
#   rtamt/syntax/ast/visitor/abstract_ast_visitor.py               AbstractAstVisitor.visitAst
#   rtamt/syntax/ast/parser/abstract_ast_parser.py                 AbstractAst.get_value
#   rtamt/spec/abstract_specification.py                           AbstractSpecification.get_value
# Scheme (that of tools/py2coq_offline.py, with the outcome monad of PyShell.v instead of option): a statement list is a term in
# continuation style; the state (the fields of the ast object and the interpreter's counter) is the record `s`, a store into a field
# is `let s := set_F s ..`; an expression that may raise is bound first (`t <-- e ;;`); `for x in IT: body` is py_for_o IT (fun x STATE
# => body ;; Ok STATE) STATE, STATE = s or (out, s) when the body appends to the list `out`.
# Hand-modelled and pinned by digest: exist_ast, gap, update_sampling_violation_counter, create_var_from_name (parameters of the
# generated section), AbstractAstVisitor.visit (PyShell.py_visit; the visit of the offline visitor is pinned by py2coq_offline.py).
# Anything else: exit 2 with file:line.
import ast, hashlib, sys

FIELDS = ['free_vars', 'var_object_dict', 'inputs', 'results', 'specs', 'phi_name_to_node_dict']
SRC = {
  'interp': ('rtamt/semantics/abstract_discrete_time_offline_interpreter.py', 'AbstractDiscreteTimeOfflineInterpreter',
             ['AbstractOfflineInterpreter', 'DiscreteTimeInterpreter']),
  'visitor': ('rtamt/syntax/ast/visitor/abstract_ast_visitor.py', 'AbstractAstVisitor', ['object']),
  'parser': ('rtamt/syntax/ast/parser/abstract_ast_parser.py', 'AbstractAst', []),
  'spec': ('rtamt/spec/abstract_specification.py', 'AbstractSpecification', ['object']),
  'absint': ('rtamt/semantics/abstract_interpreter.py', 'AbstractInterpreter', ['object']),
  'offint': ('rtamt/semantics/abstract_offline_interpreter.py', 'AbstractOfflineInterpreter', ['AbstractInterpreter']),
  'disc': ('rtamt/semantics/discrete_time_interpreter.py', 'DiscreteTimeInterpreter', ['TimeInterpreter']),
}
# the complete method set of the interpreter class (a new method could override what is modelled)
INTERP_METHODS = ['__init__', 'set_ast', 'evaluate', 'set_variable_to_ast_from_dataset']
PIN_VALUES = {}   # filled below, before main()

PATH = '?'
def fail(node, msg):
    sys.stderr.write('%s:%s: py2coq_shell: %s\n' % (PATH, getattr(node, 'lineno', '?'), msg))
    sys.exit(2)
def digest(node): return hashlib.sha256(ast.unparse(node).encode()).hexdigest()[:12]
def is_name(e, s): return isinstance(e, ast.Name) and e.id == s
def is_attr(e, base, attr): return isinstance(e, ast.Attribute) and is_name(e.value, base) and e.attr == attr

class Ctx:
    def __init__(self, astform, params):
        self.astform, self.locals, self.n, self.mut = astform, set(params), 0, False
    def fresh(self):
        self.n += 1
        return 't%d' % self.n
    def is_ast(self, e):
        if self.astform == 'self.ast': return is_attr(e, 'self', 'ast')
        return is_name(e, self.astform)
    def field(self, e):
        if isinstance(e, ast.Attribute) and self.is_ast(e.value) and e.attr in FIELDS: return e.attr
        return None

def plain_call(e, nargs):
    return isinstance(e, ast.Call) and len(e.args) == nargs and not e.keywords and not any(isinstance(a, ast.Starred) for a in e.args)

def expr(e, c, b):
    """b: list of binding lines (appended in evaluation order); returns a Coq term without effects"""
    if isinstance(e, ast.Name):
        if e.id not in c.locals: fail(e, 'name %s is not certainly bound' % e.id)
        return e.id
    if isinstance(e, ast.Constant) and type(e.value) is int: return '%d%%Z' % e.value
    if isinstance(e, ast.BinOp) and isinstance(e.op, (ast.Add, ast.Sub)):
        l = expr(e.left, c, b); r = expr(e.right, c, b)
        return '(%s %s %s)%%Z' % (l, '+' if isinstance(e.op, ast.Add) else '-', r)
    if isinstance(e, ast.Subscript):
        if is_name(e.value, 'dataset') and 'dataset' in c.locals:
            t = c.fresh()
            if isinstance(e.slice, ast.Constant) and e.slice.value == 'time': b.append('%s <-- ds_time_get dataset ;;' % t)
            elif isinstance(e.slice, ast.Name): b.append('%s <-- ds_col_get dataset %s ;;' % (t, expr(e.slice, c, b)))
            else: fail(e, 'unsupported key of the data set')
            return t
        f = c.field(e.value)
        if f is not None:
            k = expr(e.slice, c, b); t = c.fresh()
            b.append('%s <-- dict_get_o (%s s) %s ;;' % (t, f, k))
            return t
        if isinstance(e.value, ast.Name):
            l = expr(e.value, c, b); i = expr(e.slice, c, b); t = c.fresh()
            b.append('%s <-- py_get_o %s %s ;;' % (t, l, i))
            return t
        fail(e, 'unsupported subscript')
    if plain_call(e, 1) and is_name(e.func, 'len'):
        return '(py_len %s)' % expr(e.args[0], c, b)
    if plain_call(e, 1) and isinstance(e.func, ast.Attribute) and e.func.attr == 'create_var_from_name' and c.is_ast(e.func.value):
        a = expr(e.args[0], c, b); t = c.fresh()
        b.append('%s <-- create_var %s ;;' % (t, a)); return t
    if plain_call(e, 2) and is_attr(e.func, 'self', 'gap'):
        x = expr(e.args[0], c, b); y = expr(e.args[1], c, b); t = c.fresh()
        b.append('%s <-- gap %s %s ;;' % (t, x, y)); return t
    if plain_call(e, 2) and is_attr(e.func, 'self', 'visitAst') and c.is_ast(e.args[0]):
        a = expr(e.args[1], c, b); t = c.fresh(); c.mut = True
        b.append("'(%s, s) <-- gen_visitAst s %s ;;" % (t, a)); return t
    if (isinstance(e, ast.Call) and is_attr(e.func, 'self', 'visit') and len(e.args) == 2 and len(e.keywords) == 1
            and isinstance(e.args[1], ast.Starred) and is_name(e.args[1].value, 'args') and e.keywords[0].arg is None
            and is_name(e.keywords[0].value, 'kwargs') and 'length' in c.locals):
        a = expr(e.args[0], c, b); t = c.fresh(); c.mut = True
        b.append("'(%s, s) <-- py_visit AR s %s length ;;" % (t, a)); return t
    if plain_call(e, 1) and isinstance(e.func, ast.Attribute) and e.func.attr == 'get_value' and is_attr(e.func.value, 'self', 'ast') and c.astform == 'self.ast':
        a = expr(e.args[0], c, b); t = c.fresh()
        b.append('%s <-- gen_ast_get_value s %s ;;' % (t, a)); return t
    if isinstance(e, ast.ListComp):     # [[a[0], a[1]] for a in zip(ts, rob)]
        g = e.generators
        if (len(g) == 1 and not g[0].ifs and not g[0].is_async and isinstance(g[0].target, ast.Name) and plain_call(g[0].iter, 2)
                and is_name(g[0].iter.func, 'zip') and isinstance(e.elt, ast.List) and len(e.elt.elts) == 2
                and all(isinstance(x, ast.Subscript) and is_name(x.value, g[0].target.id) and isinstance(x.slice, ast.Constant)
                        and x.slice.value == i for i, x in enumerate(e.elt.elts))):
            x = expr(g[0].iter.args[0], c, b); y = expr(g[0].iter.args[1], c, b); t = c.fresh()
            b.append('%s <-- py_zip_pairs %s %s ;;' % (t, x, y)); return t
        fail(e, 'unsupported comprehension')
    fail(e, 'unsupported expression %s' % type(e).__name__)

def cond(e, c):
    if isinstance(e, ast.BoolOp) and isinstance(e.op, ast.And):
        return '(' + ' && '.join(cond(v, c) for v in e.values) + ')'
    if isinstance(e, ast.Compare) and len(e.ops) == 1 and isinstance(e.ops[0], (ast.In, ast.NotIn)):
        f = c.field(e.comparators[0])
        if f is None: fail(e, 'membership test of something that is not a dictionary of the ast')
        b = []; k = expr(e.left, c, b)
        if b: fail(e, 'a condition that may raise')
        t = 'dict_mem (%s s) %s' % (f, k)
        return '(negb (%s))' % t if isinstance(e.ops[0], ast.NotIn) else '(%s)' % t
    fail(e, 'unsupported condition')

def iterable(s, c):
    """-> (Coq list, body statements)"""
    it = s.iter
    f = c.field(it)
    if f in ('free_vars', 'specs'): return '(%s s)' % f, s.body
    if is_name(it, 'dataset') and 'dataset' in c.locals:
        # for key in dataset: if key != 'time': BODY      (the keys other than 'time', in order)
        if (len(s.body) == 1 and isinstance(s.body[0], ast.If) and not s.body[0].orelse and isinstance(s.body[0].test, ast.Compare)
                and len(s.body[0].test.ops) == 1 and isinstance(s.body[0].test.ops[0], ast.NotEq) and is_name(s.body[0].test.left, s.target.id)
                and isinstance(s.body[0].test.comparators[0], ast.Constant) and s.body[0].test.comparators[0].value == 'time'):
            return '(ds_keys dataset)', s.body[0].body
        fail(s, 'a loop over the data set must skip exactly the key "time"')
    if isinstance(it, ast.Call) and is_name(it.func, 'range') and len(it.args) == 1 and not it.keywords:
        b = []; hi = expr(it.args[0], c, b)
        if b: fail(s, 'a range bound that may raise')
        return '(py_range 0%%Z %s)' % hi, s.body
    fail(s, 'unsupported iterable')

def stmts(ss, c, ind, fin):
    """fin: the term that ends the block when it does not return"""
    out = []
    P = '  ' * ind
    for idx, s in enumerate(ss):
        b = []
        if isinstance(s, ast.Expr) and plain_call(s.value, 0) and is_attr(s.value.func, 'self', 'exist_ast'):
            out.append(P + '_ <-- py_exist_ast s ;;')
        elif isinstance(s, ast.Expr) and plain_call(s.value, 1) and is_attr(s.value.func, 'self', 'set_variable_to_ast_from_dataset'):
            a = expr(s.value.args[0], c, b); c.mut = True
            out += [P + x for x in b] + [P + 's <-- gen_set_variable_to_ast_from_dataset s %s ;;' % a]
        elif isinstance(s, ast.Expr) and plain_call(s.value, 1) and is_attr(s.value.func, 'self', 'update_sampling_violation_counter'):
            a = expr(s.value.args[0], c, b); t = c.fresh(); c.mut = True
            out += [P + x for x in b] + [P + '%s <-- upd_svc %s (sampling_violation_counter s) ;;' % (t, a),
                                         P + 'let s := set_sampling_violation_counter s %s in' % t]
        elif (isinstance(s, ast.Expr) and plain_call(s.value, 1) and isinstance(s.value.func, ast.Attribute) and s.value.func.attr == 'append'
              and isinstance(s.value.func.value, ast.Name) and s.value.func.value.id in c.lists):
            l = s.value.func.value.id; a = expr(s.value.args[0], c, b)
            out += [P + x for x in b] + [P + 'let %s := %s ++ [%s] in' % (l, l, a)]
        elif isinstance(s, ast.Assign) and len(s.targets) == 1:
            tg = s.targets[0]
            if isinstance(tg, ast.Name):
                if tg.id in ('s', 'AR', 'T', 'C', 'D', 'gap', 'svc0') or tg.id.startswith('gen_'): fail(s, 'reserved name')
                if isinstance(s.value, ast.List) and not s.value.elts:
                    out.append(P + 'let %s := [] in' % tg.id); c.lists.add(tg.id)
                else:
                    v = expr(s.value, c, b); c.lists.discard(tg.id)
                    out += [P + x for x in b] + [P + 'let %s := %s in' % (tg.id, v)]
                c.locals.add(tg.id)
            elif is_attr(tg, 'self', 'sampling_violation_counter') and c.astform == 'self.ast':
                if not (isinstance(s.value, ast.Constant) and s.value.value == 0 and type(s.value.value) is int): fail(s, 'the counter is only reset to 0')
                out.append(P + 'let s := set_sampling_violation_counter s svc0 in'); c.mut = True
            elif isinstance(tg, ast.Subscript) and c.field(tg.value) in ('var_object_dict', 'inputs', 'results'):
                f = c.field(tg.value); v = expr(s.value, c, b); c.mut = True
                if f == 'results' and isinstance(tg.slice, ast.Constant) and tg.slice.value == 'time':
                    out += [P + x for x in b] + [P + 'let s := set_results_time s %s in' % v]
                else:
                    k = expr(tg.slice, c, b)
                    out += [P + x for x in b] + [P + 'let s := set_%s s (dict_set (%s s) %s %s) in' % (f, f, k, v)]
            else: fail(s, 'unsupported assignment target')
        elif isinstance(s, ast.For) and not s.orelse and isinstance(s.target, ast.Name):
            lst, body = iterable(s, c)
            carried = sorted({x.value.func.value.id for x in ast.walk(s) if isinstance(x, ast.Expr) and isinstance(x.value, ast.Call)
                              and isinstance(x.value.func, ast.Attribute) and x.value.func.attr == 'append' and isinstance(x.value.func.value, ast.Name)})
            for v in carried:
                if v not in c.lists: fail(s, 'append to %s, which is not a list created here' % v)
            state = 's' if not carried else '(%s, s)' % ', '.join(carried)
            pat = 's' if not carried else "'%s" % state
            saved = set(c.locals); c.locals.add(s.target.id); c.mut = True
            inner = stmts(body, c, ind + 2, 'Ok %s' % state)
            c.locals = saved
            out.append(P + "%s <-- py_for_o %s (fun %s %s =>" % (pat, lst, s.target.id, pat))
            out += inner
            out.append(P + '  ) %s ;;' % state)
        elif isinstance(s, ast.If) and not s.orelse and s.body and isinstance(s.body[-1], ast.Return):
            cd = cond(s.test, c)
            saved = set(c.locals)
            th = stmts(s.body, c, ind + 1, None)
            c.locals = saved
            el = stmts(ss[idx + 1:], c, ind + 1, fin)
            return out + [P + 'if %s then' % cd] + th + [P + 'else'] + el
        elif isinstance(s, ast.Return) and s.value is not None:
            if idx != len(ss) - 1: fail(s, 'code after return')
            v = expr(s.value, c, b)
            out += [P + x for x in b] + [P + 'RETURN %s' % v]
            return out
        else:
            fail(s, 'unsupported statement %s' % type(s).__name__)
    if fin is None: fail(ss[-1], 'a branch that does not return')
    out.append('  ' * ind + fin)
    return out

def load(repo, key):
    global PATH
    rel, cls, bases = SRC[key]
    PATH = repo + '/' + rel
    tree = ast.parse(open(PATH).read())
    cs = [n for n in tree.body if isinstance(n, ast.ClassDef) and n.name == cls]
    if len(cs) != 1: fail(tree, 'class %s not found once' % cls)
    if bases is not None and [ast.unparse(x) for x in cs[0].bases] != bases: fail(cs[0], 'bases of %s changed' % cls)
    meths = {}
    for n in cs[0].body:
        if isinstance(n, ast.FunctionDef):
            if n.name in meths and not n.decorator_list: fail(n, 'method %s defined twice' % n.name)
            if not n.decorator_list: meths[n.name] = n
    return cs[0], meths

def params(f):
    a = f.args
    return ([x.arg for x in a.args], a.vararg.arg if a.vararg else None, a.kwarg.arg if a.kwarg else None, len(a.defaults), len(a.kwonlyargs))

def function(f, name, astform, want, coqparams, locals_):
    if params(f) != want or f.decorator_list: fail(f, 'signature of %s changed' % f.name)
    c = Ctx(astform, locals_); c.lists = set()
    body = [s for s in f.body if not (isinstance(s, ast.Expr) and isinstance(s.value, ast.Constant) and isinstance(s.value.value, str))]
    lines = stmts(body, c, 1, 'RETURN')
    res = []
    for l in lines:
        if l.strip().startswith('RETURN'):
            v = l.strip()[6:].strip()
            if c.mut: l = l[:len(l) - len(l.lstrip())] + ('Ok (%s, s)' % v if v else 'Ok s')
            else:
                if not v: fail(f, '%s neither returns nor changes the state' % f.name)
                l = l[:len(l) - len(l.lstrip())] + 'Ok %s' % v
        res.append(l)
    return 'Definition %s (s : st T C) %s :=\n%s.\n' % (name, coqparams, '\n'.join(res))

def main():
    argv = sys.argv[1:]
    repo = argv[0] if len(argv) == 2 else '/repo'
    outp = argv[-1]
    cl = {}
    for k in SRC: cl[k] = load(repo, k)
    global PATH
    PATH = repo + '/' + SRC['interp'][0]
    if sorted(cl['interp'][1]) != sorted(INTERP_METHODS): fail(cl['interp'][0], 'method set of the interpreter changed: %s' % sorted(cl['interp'][1]))
    for k in ('evaluate', 'visitAst', 'get_value', 'set_variable_to_ast_from_dataset', 'visit'):
        for other in ('offint', 'absint'):
            if k in cl[other][1]: fail(cl[other][1][k], '%s defines %s' % (SRC[other][1], k))
    for (k, m), d in sorted(PIN_VALUES.items()):
        PATH = repo + '/' + SRC[k][0]
        if m not in cl[k][1]: fail(cl[k][0], 'pinned method %s is gone' % m)
        if digest(cl[k][1][m]) != d: fail(cl[k][1][m], 'pinned (hand-modelled) method %s changed: digest %s, expected %s' % (m, digest(cl[k][1][m]), d))
    parts = []
    PATH = repo + '/' + SRC['visitor'][0]
    parts.append(('AbstractAstVisitor.visitAst', function(cl['visitor'][1]['visitAst'], 'gen_visitAst', 'ast', (['self', 'ast'], 'args', 'kwargs', 0, 0), '(length : Z)', ['length'])))
    PATH = repo + '/' + SRC['interp'][0]
    parts.append(('AbstractDiscreteTimeOfflineInterpreter.set_variable_to_ast_from_dataset',
                  function(cl['interp'][1]['set_variable_to_ast_from_dataset'], 'gen_set_variable_to_ast_from_dataset', 'self.ast', (['self', 'dataset'], None, None, 0, 0), '(dataset : dataset T)', ['dataset'])))
    parts.append(('AbstractDiscreteTimeOfflineInterpreter.evaluate',
                  function(cl['interp'][1]['evaluate'], 'gen_evaluate', 'self.ast', (['self', 'dataset'], None, None, 0, 0), '(dataset : dataset T)', ['dataset'])))
    PATH = repo + '/' + SRC['parser'][0]
    parts.append(('AbstractAst.get_value', function(cl['parser'][1]['get_value'], 'gen_ast_get_value', 'self', (['self', 'phi_name'], None, None, 0, 0), '(phi_name : nat)', ['phi_name'])))
    PATH = repo + '/' + SRC['spec'][0]
    parts.append(('AbstractSpecification.get_value', function(cl['spec'][1]['get_value'], 'gen_spec_get_value', 'self.ast', (['self', 'phi_name'], None, None, 0, 0), '(phi_name : nat)', ['phi_name'])))
    txt = HEADER
    for title, d in parts: txt += '(* %s *)\n%s\n' % (title, d)
    txt += 'End ShellGen.\n'
    open(outp, 'w').write(txt)

HEADER = '''(* ShellGen.v — GENERATED by tools/py2coq_shell.py from the Python text of rtamt; do not edit.
   The glue of the discrete-time offline interpreter (evaluate, set_variable_to_ast_from_dataset, visitAst) and get_value,
   over the primitives of PyShell.v.  gap, update_sampling_violation_counter, create_var_from_name are hand-modelled
   (pinned by digest) and enter as parameters that may raise. *)
From Coq Require Import List Bool Arith ZArith.
From RV Require Import Val Syntax Rho Offline PySem PyShell.
Import ListNotations.

Section ShellGen.
Context {VS : Val} (AR : Arith VS).
Context {T C D : Type}.
Variable gap : T -> T -> outcome D.
Variable upd_svc : D -> C -> outcome C.
Variable svc0 : C.
Variable create_var : nat -> outcome vobj.

'''
PIN_VALUES.update({
  ('interp', '__init__'): 'f7ea9205f4bb', ('interp', 'set_ast'): 'ec7042d273bc', ('absint', 'exist_ast'): 'c1753ddb04f6',
  ('disc', 'gap'): 'd99818953efb', ('disc', 'update_sampling_violation_counter'): '1129774164fe',
  ('parser', 'create_var_from_name'): '4f0b5e157bf5', ('visitor', 'visit'): '6e6aea40f013',
})
if __name__ == '__main__':
    main()
