#!/usr/bin/env python3
# tools/py2coq_parservisitor.py [REPO_ROOT] OUT.v [--print-digests]
# FAIL-CLOSED translator:  rtamt/syntax/ast/parser/{ltl,stl}/parser_visitor.py  ->  coq/theories/ElabGen.v
#
# The AST-building methods of the parser visitors (visitExprX, visitInterval, visitIntervalTimeLiteral, visitConstantTimeLiteral,
# str_to_op_type) become ONE Fixpoint per visitor class over the tree of the model parser (Parser.sexpr):
#     gen_visit_stl, gen_visit_ltl : dstate -> sexpr -> outcome (dstate * string)      (Rtamt = RTAMTException, Crash = any other exception)
#   * a parse-tree context is the model's sexpr; the table  grammar alternative (# label) -> constructor pattern + accessors  is ALTS below
#     and is CHECKED against the right-hand sides and labels of rtamt/antlr/grammar/tl/{Ltl,Stl}Parser.g4 (every alternative of the rule
#     `expression` / `intervalTime` must be in the table with exactly the symbols the table expects); the method of a label L is visitL,
#     looked up like Python does (StlAstParserVisitor, then LtlAstParserVisitor; a later def replaces an earlier one);
#   * self.visit(ctx.expression(k)) is the structural recursive call; self.visit(ctx.interval()) / self.visit(ctx.intervalTime(k)) call the
#     generated interval functions; visitExprParen / visitExpr must be `return self.visit(ctx.expression())` (the sexpr has no parentheses);
#   * a statement list is a term in continuation style over the outcome monad (the continuation is copied into both branches of an `if`);
#     `if ctx.X() == None / is None` is a match on the optional child; d[k] on a dictionary of self is py_getitem (KeyError = Crash);
#   * node constructors Cls(..) are the functions mk_Cls of PyParse.v (a node object is its canonical s-expression);
#     `self.phi_name_to_node_dict[node.name] = node` (write-only here) is recognised exactly and dropped;
#   * supported statements / expressions = exactly what these methods use; anything else stops with file:line (exit 1).
# Not translated, pinned by digest (hand models in PyParse.v / ParserDecl.v): time_bound, visitExprLiteral, the variable branch of
# visitExprId, and every other method of the two classes (declarations, imports, assertions, the specification rule: ParserDecl.v).
import ast, sys, re, hashlib, os

args = [a for a in sys.argv[1:] if not a.startswith('--')]
REPO = args[0] if len(args) > 1 else '/repo'
OUT = args[-1]
PRINT = '--print-digests' in sys.argv

LTL_PY = 'rtamt/syntax/ast/parser/ltl/parser_visitor.py'
STL_PY = 'rtamt/syntax/ast/parser/stl/parser_visitor.py'
LTL_G4 = 'rtamt/antlr/grammar/tl/LtlParser.g4'
STL_G4 = 'rtamt/antlr/grammar/tl/StlParser.g4'


def fail(node, msg, path):
    line = getattr(node, 'lineno', node if isinstance(node, int) else 0)
    sys.stderr.write('%s:%s: %s\n' % (path, line, msg))
    print('%s:%s: %s' % (path, line, msg))
    sys.exit(1)


def digest(x):
    if isinstance(x, list):
        txt = '\n'.join(ast.unparse(s) for s in x)
    else:
        txt = ast.unparse(x)
    return hashlib.sha256(txt.encode()).hexdigest()[:12]


# ---------------------------------------------------------------- grammar
def g4_rules(path):
    txt = open(path).read()
    txt = re.sub(r'//[^\n]*', '', txt)
    txt = re.sub(r'/\*.*?\*/', '', txt, flags=re.S)
    txt = re.sub(r'options\s*\{.*?\}', '', txt, flags=re.S)
    rules = {}
    for m in re.finditer(r'(?m)^([a-z][A-Za-z_]*)\s*:(.*?);', txt, flags=re.S):
        name, body = m.group(1), m.group(2)
        alts, depth, cur = [], 0, ''
        for ch in body:
            if ch == '(':
                depth += 1
            if ch == ')':
                depth -= 1
            if ch == '|' and depth == 0:
                alts.append(cur); cur = ''
            else:
                cur += ch
        alts.append(cur)
        out = []
        for a in alts:
            lab = re.search(r'#\s*([A-Za-z_]+)', a)
            rhs = ' '.join(re.sub(r'#\s*[A-Za-z_]+', '', a).split())
            out.append((lab.group(1) if lab else None, rhs))
        rules[name] = out
    return rules


# label -> (rhs in the LTL grammar, rhs in the STL grammar, [(pattern with interval, pattern without, accessors)])
# accessors: 'expression' -> list of the operand variables, 'interval' -> True when the STL alternative has ( interval )?,
#            other accessor chains -> Coq term
def un(tok, op, timed=False):
    return (tok + ' expression', tok + (' ( interval )? expression' if timed else ' expression'),
            [('EUn %s %%s a' % op, {'expression': ['a']})], timed)


def f1(tok, fn):
    rhs = tok + ' LPAREN expression RPAREN'
    return (rhs, rhs, [('EFun1 %s a' % fn, {'expression': ['a']})], False)


def f2(tok, fn):
    rhs = tok + ' LPAREN expression COMMA expression RPAREN'
    return (rhs, rhs, [('EFun2 %s a b' % fn, {'expression': ['a', 'b']})], False)


def bi(tok, op, timed=False):
    return ('expression ' + tok + ' expression', 'expression ' + tok + (' ( interval )? expression' if timed else ' expression'),
            [('EBin %s %%s a b' % op, {'expression': ['a', 'b']})], timed)


ALTS = {
    'ExprParen': ('LPAREN expression RPAREN', 'LPAREN expression RPAREN', None, False),
    'ExprNegate': un('MINUS', 'UNeg'), 'ExprNot': un('NotOperator', 'UNot'),
    'ExprAlways': un('AlwaysOperator', 'UAlways', True), 'ExprEv': un('EventuallyOperator', 'UEv', True),
    'ExprHist': un('HistoricallyOperator', 'UHist', True), 'ExpreOnce': un('OnceOperator', 'UOnce', True),
    'ExprPrevious': un('PreviousOperator', 'UPrev'), 'ExprNext': un('NextOperator', 'UNext'),
    'ExprStrongPrevious': un('StrongPreviousOperator', 'USPrev'), 'ExprStrongNext': un('StrongNextOperator', 'USNext'),
    'ExprAbs': f1('ABS', 'FAbs'), 'ExprSqrt': f1('SQRT', 'FSqrt'), 'ExprExp': f1('EXP', 'FExp'), 'ExprLn': f1('LN', 'FLn'),
    'ExprRise': f1('RiseOperator', 'FRise'), 'ExprFall': f1('FallOperator', 'FFall'),
    'ExprPow': f2('POW', 'FPow'), 'ExprLog': f2('LOG', 'FLog'),
    'ExprMultDiv': ('expression multdivOp expression', 'expression multdivOp expression',
                    [('EBin BMul %s a b', {'expression': ['a', 'b'], 'multdivOp.getText': '"*"'}),
                     ('EBin BDiv %s a b', {'expression': ['a', 'b'], 'multdivOp.getText': '"/"'})], False),
    'ExprAddSub': ('expression addsubOp expression', 'expression addsubOp expression',
                   [('EBin BAdd %s a b', {'expression': ['a', 'b'], 'addsubOp.getText': '"+"'}),
                    ('EBin BSub %s a b', {'expression': ['a', 'b'], 'addsubOp.getText': '"-"'})], False),
    'ExprPredicate': ('expression comparisonOp expression', 'expression comparisonOp expression',
                      [('EBin (BCmp c) %s a b', {'expression': ['a', 'b'], 'comparisonOp.getText': '(cmp_sym c)'})], False),
    'ExprUntil': bi('UntilOperator', 'BUntil', True), 'ExprUnless': bi('UnlessOperator', 'BUnless', True),
    'ExprSince': bi('SinceOperator', 'BSince', True),
    'ExprAnd': bi('AndOperator', 'BAnd'), 'ExprOr': bi('OrOperator', 'BOr'), 'ExprImplies': bi('ImpliesOperator', 'BImplies'),
    'ExprIff': bi('IffOperator', 'BIff'), 'ExprXor': bi('XorOperator', 'BXor'),
    'ExprId': ('Identifier', 'Identifier', [('EId s', {'Identifier.getText': 's'})], False),
    'ExprLiteral': ('literal', 'literal', [('ELit s', {'literal.getText': 's'})], False),
}
# the operator rules whose text the table above fixes: rule -> [(label, token)]
OP_RULES = {'multdivOp': [('Mult', 'TIMES'), ('Div', 'DIVIDE')], 'addsubOp': [('Plus', 'PLUS'), ('Minus', 'MINUS')],
            'comparisonOp': [('Leq', 'LesserOrEqualOperator'), ('Geq', 'GreaterOrEqualOperator'), ('Less', 'LesserOperator'),
                             ('Greater', 'GreaterOperator'), ('Eq', 'EqualOperator'), ('Neq', 'NotEqualOperator')]}
INTERVAL_RULES = {'interval': [(None, 'LBRACK intervalTime ( COLON | COMMA ) intervalTime RBRACK')],
                  'intervalTime': [('intervalTimeLiteral', 'literal ( unit )?'), ('constantTimeLiteral', 'Identifier ( unit )?')],
                  'unit': [(None, 'SEC'), (None, 'MSEC'), (None, 'USEC'), (None, 'NSEC')]}


def check_grammar():
    ltl, stl = g4_rules(os.path.join(REPO, LTL_G4)), g4_rules(os.path.join(REPO, STL_G4))
    for gname, g, col in ((LTL_G4, ltl, 0), (STL_G4, stl, 1)):
        if 'expression' not in g:
            fail(0, 'no rule `expression`', gname)
        seen = set()
        for lab, rhs in g['expression']:
            if lab not in ALTS:
                fail(0, 'alternative #%s of `expression` is not in the table of the translator' % lab, gname)
            if rhs != ALTS[lab][col]:
                fail(0, 'alternative #%s is `%s`, the translator expects `%s`' % (lab, rhs, ALTS[lab][col]), gname)
            if lab in seen:
                fail(0, 'label #%s twice' % lab, gname)
            seen.add(lab)
        if seen != set(ALTS):
            fail(0, 'alternatives missing from `expression`: %s' % sorted(set(ALTS) - seen), gname)
    for r, alts in OP_RULES.items():
        if ltl.get(r) != alts:
            fail(0, 'rule `%s` is %s, the translator expects %s' % (r, ltl.get(r), alts), LTL_G4)
        if r in stl:
            fail(0, 'rule `%s` redefined' % r, STL_G4)
    for r, alts in INTERVAL_RULES.items():
        if stl.get(r) != alts:
            fail(0, 'rule `%s` is %s, the translator expects %s' % (r, stl.get(r), alts), STL_G4)
        if r in ltl:
            fail(0, 'rule `%s` in the LTL grammar' % r, LTL_G4)


# ---------------------------------------------------------------- classes
# every method of the two classes: translated ('T'), or pinned by digest
PINNED = {
    ('LtlAstParserVisitor', 'reads'): '51e49dbb3731',
    ('LtlAstParserVisitor', 'visitAssertion'): '55fb242a4e3d',
    ('LtlAstParserVisitor', 'visitConstantDeclaration'): 'fc2cc30472ce',
    ('LtlAstParserVisitor', 'visitExprLiteral'): 'cedd07cce4c4',
    ('LtlAstParserVisitor', 'visitModImport'): 'ca25a0f7fecd',
    ('LtlAstParserVisitor', 'visitRosTopic'): '03c8252f1a5b',
    ('LtlAstParserVisitor', 'visitSpecification'): '729d8d137ee8',
    ('LtlAstParserVisitor', 'visitSpecificationId'): '1af96851681e',
    ('LtlAstParserVisitor', 'visitSpecification_file'): 'cad48c6244cc',
    ('LtlAstParserVisitor', 'visitVariableDeclaration'): 'f53da732adf1',
    ('StlAstParserVisitor', '__init__'): '2c2761ab9446',
    ('StlAstParserVisitor', 'get_sampling_period'): 'e92921f2f653',
    ('StlAstParserVisitor', 'time_bound'): '504c19453d2b',
    ('StlAstParserVisitor', 'unit'): 'ef1c3c467ea1',
}
# the variable branch of visitExprId (the statements of the last `else`), hand model PyParse.py_resolve_var: assigns `node`
OPAQUE_BLOCK = {'digest': '620162da572c', 'term': 'py_resolve_var orc st v_id', 'binds': 'v_node'}
IDENTITY = ['visitExprParen', 'visitExpr']
HELPERS = ['str_to_op_type']
INTERVAL_METHODS = ['visitInterval', 'visitIntervalTimeLiteral', 'visitConstantTimeLiteral']
BASES = {'LtlAstParserVisitor': ['LtlParserVisitor'], 'StlAstParserVisitor': ['LtlAstParserVisitor', 'StlParserVisitor']}

NODE_ARITY = {'Constant': 1, 'Predicate': 3, 'Interval': 4}
for c in ('Negate Neg Always Eventually Historically Once Previous Next StrongPrevious StrongNext Abs Sqrt Exp Ln Rise Fall').split():
    NODE_ARITY[c] = 1
for c in ('Pow Log Multiplication Division Addition Subtraction Until Since Conjunction Disjunction Implies Iff Xor '
          'TimedAlways TimedEventually TimedHistorically TimedOnce').split():
    NODE_ARITY[c] = 2
for c in ('TimedUntil', 'TimedSince'):
    NODE_ARITY[c] = 3
IV_FIELDS = {'begin': 'i_begin', 'end': 'i_end', 'begin_unit': 'i_begin_unit', 'end_unit': 'i_end_unit'}
SELF_ATTRS = {'const_val_dict': '(d_consts st)', 'var_subspec_dict': '(d_subs st)', 'U': 'py_U', 'unit': '(kw_unit_text du)'}
OPS = ('LESS', 'LEQ', 'GEQ', 'GREATER', 'EQUAL', 'NEQ')


def load(rel):
    path = os.path.join(REPO, rel)
    tree = ast.parse(open(path).read(), path)
    imports = {}
    for n in tree.body:
        if isinstance(n, ast.ImportFrom):
            for a in n.names:
                imports[a.asname or a.name] = n.module
    classes = [n for n in tree.body if isinstance(n, ast.ClassDef)]
    return path, tree, imports, classes


def cstr(s):
    if '"' in s or '\\' in s or any(ord(ch) < 32 or ord(ch) > 126 for ch in s):
        raise ValueError(s)
    return '"%s"' % s


class Tr:
    """translation of one method body under one accessor environment"""

    def __init__(self, path, imports, env, kind, rec):
        self.path, self.imports, self.env, self.kind, self.rec = path, imports, dict(env), kind, rec
        self.bound = set()
        self.fresh = 0
        self.opaque_seen = 0

    def no(self, node, what):
        fail(node, 'unsupported %s: %s' % (what, ast.unparse(node)[:80] if isinstance(node, ast.AST) else ''), self.path)

    # -- context accessors: ctx.a().b() ... -> key 'a.b'; arguments: at most one int constant on the first call
    def ctx_chain(self, e):
        names, idx = [], None
        cur = e
        while True:
            if isinstance(cur, ast.Call) and isinstance(cur.func, ast.Attribute) and not cur.keywords:
                if len(cur.args) > 1 or (cur.args and not (isinstance(cur.args[0], ast.Constant) and type(cur.args[0].value) is int)):
                    return None
                a = cur.args[0].value if cur.args else None
                names.append((cur.func.attr, a))
                cur = cur.func.value
            elif isinstance(cur, ast.Name) and cur.id == 'ctx':
                break
            else:
                return None
        names.reverse()
        if not names or any(a is not None for _, a in names[1:]):
            return None
        return names

    def ctx_term(self, e, want):
        """want: 'ctx' (a child context: returns (kind, term)) | 'opt' (optional child: returns key) | 'text'"""
        ch = self.ctx_chain(e)
        if ch is None:
            return None
        (head, idx), rest = ch[0], [n for n, _ in ch[1:]]
        if want == 'ctx' and not rest:
            if head == 'expression' and 'expression' in self.env:
                ops = self.env['expression']
                if idx is None and len(ops) == 1:
                    return ('expression', ops[0])
                if idx is not None and len(ops) == 2 and idx in (0, 1):
                    return ('expression', ops[idx])
                self.no(e, 'operand access (the alternative has %d operands)' % len(ops))
            if head == 'interval' and idx is None and 'interval!' in self.env:
                return ('interval', self.env['interval!'])
            if head == 'intervalTime' and idx in (0, 1) and 'intervalTime' in self.env:
                return ('intervalTime', '(%s %s)' % (('fst', 'snd')[idx], self.env['intervalTime']))
            self.no(e, 'context access')
        if want == 'opt' and not rest and idx is None:
            if head + '?' in self.env:
                return head
            self.no(e, 'optional child')
        if want == 'text':
            key = '.'.join([head] + rest)
            if idx is None and key in self.env:
                return self.env[key]
            if idx is None and rest == ['getText'] and head + '!' in self.env and head == 'unit':
                return '(kw_unit_text %s)' % self.env[head + '!']
            self.no(e, 'context text access')
        return None

    def var(self, n, node):
        if n not in self.bound:
            self.no(node, 'use of a name that is not assigned on every path before')
        return 'v_' + n

    # -- expressions: (binds, term); binds = [(coq var, term of type outcome _)] evaluated left to right before the term
    def expr(self, e):
        if isinstance(e, ast.Name):
            return [], self.var(e.id, e)
        if isinstance(e, ast.Constant):
            if type(e.value) is str:
                try:
                    return [], cstr(e.value)
                except ValueError:
                    self.no(e, 'string constant')
            if type(e.value) is int and e.value >= 0:
                return [], '(py_int %d)' % e.value
            self.no(e, 'constant')
        if isinstance(e, ast.Attribute):
            if isinstance(e.value, ast.Name) and e.value.id == 'self':
                if e.attr in SELF_ATTRS:
                    return [], SELF_ATTRS[e.attr]
                self.no(e, 'attribute of self')
            if ast.unparse(e.value) == 'self.comp_op_mod.StlComparisonOperator' and e.attr in OPS:
                return [], 'op_' + e.attr
            if isinstance(e.value, ast.Name) and e.attr in IV_FIELDS:
                return [], '(%s %s)' % (IV_FIELDS[e.attr], self.var(e.value.id, e))
            self.no(e, 'attribute')
        if isinstance(e, ast.Subscript):
            if isinstance(e.value, ast.Attribute) and isinstance(e.value.value, ast.Name) and e.value.value.id == 'self' and e.value.attr in ('U', 'const_val_dict', 'var_subspec_dict'):
                b, k = self.expr(e.slice)
                self.fresh += 1
                x = 'x%d_' % self.fresh
                return b + [(x, 'py_getitem %s %s' % (SELF_ATTRS[e.value.attr], k))], x
            self.no(e, 'subscript')
        if isinstance(e, ast.Compare) and len(e.ops) == 1:
            op, l, r = e.ops[0], e.left, e.comparators[0]
            bl, tl = self.expr(l)
            br, tr = self.expr(r)
            if isinstance(op, ast.Eq) and (isinstance(l, ast.Constant) and type(l.value) is str or isinstance(r, ast.Constant) and type(r.value) is str):
                return bl + br, '(String.eqb %s %s)' % (tl, tr)
            if isinstance(op, (ast.In, ast.NotIn)) and isinstance(r, ast.Attribute) and ast.unparse(r) in ('self.const_val_dict', 'self.var_subspec_dict'):
                t = '(py_in %s %s)' % (tl, tr)
                return bl + br, t if isinstance(op, ast.In) else '(negb %s)' % t
            if isinstance(op, ast.Lt):
                return bl + br, '(py_lt %s %s)' % (tl, tr)
            if isinstance(op, ast.Gt):
                return bl + br, '(py_gt %s %s)' % (tl, tr)
            self.no(e, 'comparison')
        if isinstance(e, ast.BoolOp):
            parts = [self.expr(v) for v in e.values]
            if any(b for b, _ in parts[1:]):
                self.no(e, 'operand that may raise behind a short-circuit operator')
            f = 'orb' if isinstance(e.op, ast.Or) else 'andb'
            t = parts[0][1]
            for _, p in parts[1:]:
                t = '(%s %s %s)' % (f, t, p)
            return parts[0][0], t
        if isinstance(e, ast.BinOp) and isinstance(e.op, ast.Mult):
            bl, tl = self.expr(e.left)
            br, tr = self.expr(e.right)
            return bl + br, '(py_mul %s %s)' % (tl, tr)
        if isinstance(e, ast.IfExp):
            if not isinstance(e.test, ast.Name):
                self.no(e, 'conditional expression (the test must be a name)')
            ba, ta = self.expr(e.body)
            bb, tb = self.expr(e.orelse)
            if ba or bb:
                self.no(e, 'conditional expression with a part that may raise')
            return [], '(if py_truthy %s then %s else %s)' % (self.var(e.test.id, e), ta, tb)
        if isinstance(e, ast.Call) and not e.keywords:
            t = self.ctx_term(e, 'text') if self.ctx_chain(e) is not None else None
            if t is not None:
                return [], t
            if isinstance(e.func, ast.Name) and e.func.id in NODE_ARITY:
                cls = e.func.id
                mod = self.imports.get(cls, '')
                if not (mod.startswith('rtamt.syntax.node.') or (cls == 'Interval' and mod == 'rtamt.semantics.interval.interval')):
                    self.no(e, 'constructor (imported from %r)' % mod)
                if len(e.args) != NODE_ARITY[cls]:
                    self.no(e, 'number of constructor arguments')
                bs, ts = [], []
                for a in e.args:
                    b, t = self.expr(a)
                    bs += b
                    ts.append(t)
                return bs, '(mk_%s %s)' % (cls, ' '.join(ts))
            if isinstance(e.func, ast.Name) and e.func.id == 'float' and len(e.args) == 1:
                b, t = self.expr(e.args[0])
                return b, '(py_float %s)' % t
            if isinstance(e.func, ast.Attribute) and e.func.attr == 'replace' and len(e.args) == 2 and all(isinstance(a, ast.Constant) and type(a.value) is str for a in e.args) \
                    and len(e.args[0].value) == 1 and e.args[1].value == '':
                b, t = self.expr(e.func.value)
                return b, '(py_remove_char %s%%char %s)' % (cstr(e.args[0].value), t)
            self.no(e, 'call')
        self.no(e, 'expression')

    def with_binds(self, binds, body):
        for x, t in reversed(binds):
            body = 'bind (%s) (fun %s =>\n%s)' % (t, x, body)
        return body

    def ret(self, t):
        if self.kind == 'expression':
            return 'Ok (st, %s)' % t
        if self.kind == 'pure':
            return t
        return 'Ok %s' % t

    # -- statements
    def stmts(self, ss, rest_depth=0):
        if not ss:
            fail(0, 'a path reaches the end of the method without return / raise', self.path)
        s, rest = ss[0], ss[1:]
        if isinstance(s, ast.Return):
            if s.value is None:
                self.no(s, 'return without a value')
            if isinstance(s.value, ast.Tuple):
                bs, ts = [], []
                for el in s.value.elts:
                    b, t = self.expr(el)
                    bs += b
                    ts.append(t)
                return self.with_binds(bs, self.ret('(%s)' % ', '.join(ts)))
            b, t = self.expr(s.value)
            return self.with_binds(b, self.ret(t))
        if isinstance(s, ast.Raise):
            if self.kind == 'pure' or not (isinstance(s.exc, ast.Call) and isinstance(s.exc.func, ast.Name) and s.exc.func.id == 'RTAMTException'
                                           and self.imports.get('RTAMTException') == 'rtamt.exception.exception'):
                self.no(s, 'raise')
            return 'Rtamt'
        if isinstance(s, ast.Assign) and len(s.targets) == 1:
            tg, v = s.targets[0], s.value
            # ghost: self.phi_name_to_node_dict[n.name] = n
            if isinstance(tg, ast.Subscript):
                if ast.unparse(tg.value) == 'self.phi_name_to_node_dict' and isinstance(v, ast.Name) and ast.unparse(tg.slice) == v.id + '.name' and v.id in self.bound:
                    return self.stmts(rest)
                self.no(s, 'assignment to a subscript')
            # x = self.visit(ctx....)   /   x, y = self.visit(ctx.intervalTime(k))
            if isinstance(v, ast.Call) and ast.unparse(v.func) == 'self.visit' and len(v.args) == 1 and not v.keywords:
                kt = self.ctx_term(v.args[0], 'ctx')
                if kt is None:
                    self.no(s, 'argument of self.visit')
                kind, term = kt
                if kind == 'expression' and isinstance(tg, ast.Name) and self.kind == 'expression':
                    self.bound.add(tg.id)
                    return 'bind (%s st %s) (fun r_ => let st := fst r_ in let v_%s := snd r_ in\n%s)' % (self.rec, term, tg.id, self.stmts(rest))
                if kind == 'interval' and isinstance(tg, ast.Name):
                    self.bound.add(tg.id)
                    return 'bind (gen_visitInterval st %s) (fun v_%s =>\n%s)' % (term, tg.id, self.stmts(rest))
                if kind == 'intervalTime' and isinstance(tg, ast.Tuple) and len(tg.elts) == 2 and all(isinstance(x, ast.Name) for x in tg.elts):
                    a, b = tg.elts[0].id, tg.elts[1].id
                    self.bound.update((a, b))
                    return 'bind (gen_visit_intervalTime st %s) (fun r_ => let v_%s := fst r_ in let v_%s := snd r_ in\n%s)' % (term, a, b, self.stmts(rest))
                self.no(s, 'visit of a child')
            if not isinstance(tg, ast.Name):
                self.no(s, 'assignment target')
            if isinstance(v, ast.Call) and ast.unparse(v.func) == 'self.time_bound' and len(v.args) == 1 and not v.keywords and self.kind != 'pure':
                b, t = self.expr(v.args[0])
                self.bound.add(tg.id)
                return self.with_binds(b, 'bind (py_time_bound %s) (fun v_%s =>\n%s)' % (t, tg.id, self.stmts(rest)))
            if isinstance(v, ast.Call) and ast.unparse(v.func) == 'self.str_to_op_type' and len(v.args) == 1 and not v.keywords:
                b, t = self.expr(v.args[0])
                self.bound.add(tg.id)
                return self.with_binds(b, 'let v_%s := gen_str_to_op_type %s in\n%s' % (tg.id, t, self.stmts(rest)))
            b, t = self.expr(v)
            if b and self.kind == 'pure':
                self.no(s, 'expression that may raise')
            self.bound.add(tg.id)
            return self.with_binds(b, 'let v_%s := %s in\n%s' % (tg.id, t, self.stmts(rest)))
        if isinstance(s, ast.If):
            saved = set(self.bound)
            # if ctx.X() == None / is None
            t = s.test
            if isinstance(t, ast.Compare) and len(t.ops) == 1 and isinstance(t.ops[0], (ast.Eq, ast.Is)) and isinstance(t.comparators[0], ast.Constant) and t.comparators[0].value is None:
                key = self.ctx_term(t.left, 'opt') if self.ctx_chain(t.left) is not None else None
                if key is None:
                    self.no(s, 'test against None')
                if not s.orelse:
                    self.no(s, 'if without else on an optional child')
                opt = self.env[key + '?']
                a = self.stmts(s.body + rest)
                self.bound = set(saved)
                self.env[key + '!'] = 'c_' + key
                b = self.stmts(s.orelse + rest)
                del self.env[key + '!']
                self.bound = set(saved)
                return 'match %s with\n| None =>\n%s\n| Some c_%s =>\n%s\nend' % (opt, a, key, b)
            bs, tt = self.expr(t)
            a = self.stmts(s.body + rest)
            self.bound = set(saved)
            if s.orelse and OPAQUE_BLOCK['digest'] and self.kind == 'expression' and digest(s.orelse) == OPAQUE_BLOCK['digest']:
                self.opaque_seen += 1
                self.bound.add(OPAQUE_BLOCK['binds'][2:])
                b = 'bind (%s) (fun r_ => let st := fst r_ in let %s := snd r_ in\n%s)' % (OPAQUE_BLOCK['term'], OPAQUE_BLOCK['binds'], self.stmts(rest))
            else:
                b = self.stmts((s.orelse or []) + rest)
            self.bound = set(saved)
            return self.with_binds(bs, 'if %s then\n%s\nelse\n%s' % (tt, a, b))
        self.no(s, 'statement')


ALLDEFS = {}


def method_table(cls, path):
    tab = {}
    for n in cls.body:
        if isinstance(n, ast.FunctionDef):
            ALLDEFS.setdefault((cls.name, n.name), []).append(n)
            tab[n.name] = n          # a later def replaces an earlier one
        elif isinstance(n, ast.Expr) and isinstance(n.value, ast.Constant) and isinstance(n.value.value, str):
            pass
        else:
            fail(n, 'unsupported class member', path)
    return tab


def check_sig(fd, params, path):
    a = fd.args
    if [x.arg for x in a.args] != params or a.vararg or a.kwarg or a.kwonlyargs or a.defaults or a.posonlyargs:
        fail(fd, 'signature of %s changed' % fd.name, path)
    decos = [ast.unparse(d) for d in fd.decorator_list]
    if decos and fd.name != 'unit':
        fail(fd, 'decorated method', path)


def indent(txt, n):
    return '\n'.join(' ' * n + l for l in txt.split('\n'))


def main():
    check_grammar()
    lpath, ltree, limports, lclasses = load(LTL_PY)
    spath, stree, simports, sclasses = load(STL_PY)
    if [c.name for c in lclasses] != ['LtlAstParserVisitor'] or [c.name for c in sclasses] != ['StlAstParserVisitor']:
        fail(0, 'the classes of the two files changed', lpath)
    L, S = lclasses[0], sclasses[0]
    for c, p in ((L, lpath), (S, spath)):
        if [ast.unparse(b) for b in c.bases] != BASES[c.name] or c.keywords or c.decorator_list:
            fail(c, 'bases of %s changed' % c.name, p)
    if simports.get('LtlAstParserVisitor') != 'rtamt.syntax.ast.parser.ltl.parser_visitor':
        fail(S, 'LtlAstParserVisitor is imported from elsewhere', spath)
    # module level: imports and the class only
    for tree, p in ((ltree, lpath), (stree, spath)):
        for n in tree.body:
            if not isinstance(n, (ast.Import, ast.ImportFrom, ast.ClassDef)):
                fail(n, 'unsupported module-level statement', p)
    LT, ST = method_table(L, lpath), method_table(S, spath)
    info = {'LtlAstParserVisitor': (LT, lpath, limports), 'StlAstParserVisitor': (ST, spath, simports)}

    def lookup(mro, name):
        for c in mro:
            if name in info[c][0]:
                return c, info[c][0][name]
        return None, None

    # method sets: every method is translated, an identity, a helper, or pinned
    visit_names = {'visit' + l for l in ALTS if ALTS[l][2] is not None and l != 'ExprLiteral'}
    expected_L = visit_names | set(IDENTITY) | set(HELPERS) | {m for (c, m) in PINNED if c == 'LtlAstParserVisitor'}
    timed = {'visit' + l for l in ALTS if ALTS[l][3]}
    expected_S = timed | set(INTERVAL_METHODS) | {m for (c, m) in PINNED if c == 'StlAstParserVisitor'}
    for c, tab, exp, p in (('LtlAstParserVisitor', LT, expected_L, lpath), ('StlAstParserVisitor', ST, expected_S, spath)):
        if set(tab) != exp:
            fail(0, 'methods of %s changed: new %s, missing %s' % (c, sorted(set(tab) - exp), sorted(exp - set(tab))), p)
    for (c, m), d in sorted(PINNED.items()):
        fd = info[c][0][m]
        dg = digest(ALLDEFS[(c, m)])       # (every definition of the name: the property `unit` has two)
        if PRINT:
            print("    ('%s', '%s'): '%s'," % (c, m, dg))
        elif dg != d:
            fail(fd, 'the untranslated method %s.%s changed (digest %s)' % (c, m, dg), info[c][1])
    for m in IDENTITY:
        fd = LT[m]
        check_sig(fd, ['self', 'ctx'], lpath)
        if len(fd.body) != 1 or ast.unparse(fd.body[0]) != 'return self.visit(ctx.expression())':
            fail(fd, '%s is no longer the identity on its operand' % m, lpath)
    # the variable branch of visitExprId
    fd = LT['visitExprId']
    try:
        blk = fd.body[1].orelse[0].orelse
        assert isinstance(fd.body[1], ast.If) and isinstance(fd.body[1].orelse[0], ast.If) and blk
    except (IndexError, AttributeError, AssertionError):
        fail(fd, 'shape of visitExprId changed', lpath)
    if PRINT:
        print('OPAQUE_BLOCK digest', digest(blk))
        return
    if digest(blk) != OPAQUE_BLOCK['digest']:
        fail(blk[0], 'the variable branch of visitExprId changed (digest %s)' % digest(blk), lpath)

    out = []
    w = out.append
    w('(* GENERATED by tools/py2coq_parservisitor.py from %s and %s — do not edit.' % (LTL_PY, STL_PY))
    w('   The AST-building methods of LtlAstParserVisitor / StlAstParserVisitor over the tree of the model parser; run-time library: PyParse.v;')
    w('   ElabGenCorrect.v proves that they compute the hand models Elab.dump / ParserDecl.visit_dump. *)')
    w('From Coq Require Import List Bool Arith ZArith QArith Ascii String.')
    w('From RV Require Import Lexer Parser Elab Offline ParserDecl PyParse.')
    w('Import ListNotations.')
    w('Local Open Scope string_scope.')
    w('')
    w('Section Gen.')
    w('Variable orc : oracle.')
    w('Variable du : kw.')
    w('')
    # str_to_op_type
    fd = LT['str_to_op_type']
    check_sig(fd, ['self', 'input'], lpath)
    tr = Tr(lpath, limports, {}, 'pure', None)
    tr.bound.add('input')
    w('(* LtlAstParserVisitor.str_to_op_type (%s:%d) *)' % (LTL_PY, fd.lineno))
    w('Definition gen_str_to_op_type (v_input : string) : string :=')
    w(indent(tr.stmts(fd.body), 2) + '.')
    w('')
    # interval methods (STL)
    for m, label, text_key in (('visitIntervalTimeLiteral', 'intervalTimeLiteral', 'literal.getText'), ('visitConstantTimeLiteral', 'constantTimeLiteral', 'Identifier.getText')):
        fd = ST[m]
        check_sig(fd, ['self', 'ctx'], spath)
        tr = Tr(spath, simports, {text_key: 's', 'unit?': 'u'}, 'interval', None)
        w('(* StlAstParserVisitor.%s (%s:%d): alternative #%s of intervalTime *)' % (m, STL_PY, fd.lineno, label))
        w('Definition gen_%s (st : dstate) (s : string) (u : option kw) : outcome (pnum * string) :=' % m)
        w(indent(tr.stmts(fd.body), 2) + '.')
        w('')
    w('Definition gen_visit_intervalTime (st : dstate) (t : itime) : outcome (pnum * string) :=')
    w('  match t with ILit s u => gen_visitIntervalTimeLiteral st s u | IId s u => gen_visitConstantTimeLiteral st s u end.')
    w('')
    fd = ST['visitInterval']
    check_sig(fd, ['self', 'ctx'], spath)
    tr = Tr(spath, simports, {'intervalTime': 'iv'}, 'interval', None)
    w('(* StlAstParserVisitor.visitInterval (%s:%d) *)' % (STL_PY, fd.lineno))
    w('Definition gen_visitInterval (st : dstate) (iv : interval) : outcome pinterval :=')
    w(indent(tr.stmts(fd.body), 2) + '.')
    w('')
    # the two visitors
    for gen, mro, stl in (('gen_visit_stl', ['StlAstParserVisitor', 'LtlAstParserVisitor'], True), ('gen_visit_ltl', ['LtlAstParserVisitor'], False)):
        w('(* %s: visit() of %s over the contexts of %s *)' % (gen, mro[0], STL_G4 if stl else LTL_G4))
        w('Fixpoint %s (st : dstate) (e : sexpr) {struct e} : outcome (dstate * string) :=' % gen)
        w('  match e with')
        opaque = 0
        for label, (_, _, pats, is_timed) in ALTS.items():
            if pats is None:
                continue
            if label == 'ExprLiteral':
                w('  (* visitExprLiteral: hand model, pinned *)')
                w('  | ELit s => py_visitExprLiteral st s')
                continue
            c, fd = lookup(mro, 'visit' + label)
            if fd is None:
                fail(0, 'no method visit%s' % label, lpath)
            path, imports = info[c][1], info[c][2]
            check_sig(fd, ['self', 'ctx'], path)
            for pat, acc in pats:
                env = dict(acc)
                if '%s' in pat:
                    if stl and is_timed:
                        pat = pat % 'iv'
                        env['interval?'] = 'iv'
                    else:
                        pat = pat % 'None'
                tr = Tr(path, imports, env, 'expression', gen)
                body = tr.stmts(fd.body)
                opaque += tr.opaque_seen
                w('  (* %s.visit%s (%s:%d) *)' % (c, label, os.path.relpath(path, REPO), fd.lineno))
                w('  | %s =>' % pat)
                w(indent(body, 6))
        if opaque != 1:
            fail(LT['visitExprId'], 'the pinned variable branch of visitExprId was met %d times' % opaque, lpath)
        w('  (* a context the grammar cannot produce (an interval where the alternative has none) *)')
        w('  | _ => Crash')
        w('  end.')
        w('')
    w('End Gen.')
    open(OUT, 'w').write('\n'.join(out) + '\n')


main()
