#!/usr/bin/env python3
# tools/offlinegen_mutants.py — does the generated-model tie notice changes of the visitor?
# Each change is applied to a scratch COPY of ast_visitor.py (never to the repository), the translator is run on the copy and
# OfflineGen.v / OfflineGenEval.v / OfflineGenCorrect.v are compiled against the result in a scratch directory.
# Verdicts: "translator fails closed: <msg>" | "proof fails at <lemma>" | "all lemmas check (generated text changed/identical)".
import ast, os, re, shutil, subprocess, sys
ROOT = os.path.dirname(os.path.dirname(os.path.abspath(__file__)))
REPO = os.environ.get('REPO', '/repo')
REL = 'rtamt/semantics/stl/discrete_time/offline/ast_visitor.py'
TH = ROOT + '/coq/theories'
SCR = ROOT + '/build/offlinegen_mutants'
SRC = open(REPO + '/' + REL).read()

def in_method(src, method, old, new, count=1):
    tree = ast.parse(src)
    fd = [n for n in ast.walk(tree) if isinstance(n, ast.FunctionDef) and n.name == method][0]
    lines = src.split('\n')
    seg = '\n'.join(lines[fd.lineno - 1:fd.end_lineno])
    assert seg.count(old) >= 1, (method, old)
    seg2 = seg.replace(old, new, count)
    return '\n'.join(lines[:fd.lineno - 1] + seg2.split('\n') + lines[fd.end_lineno:])

def chain(*steps):
    def f(src):
        for st in steps: src = in_method(src, *st)
        return src
    return f

CHANGES = [
  ('M1 max->min in visitEventually', chain(('visitEventually', 'max(i, prev_out)', 'min(i, prev_out)'))),
  ('M2 off-by-one window bound in visitTimedOnce', chain(('visitTimedOnce', 'j - begin+ 1]', 'j - begin]'))),
  ('M3 wrong initial value in visitSince', chain(('visitSince', 'prev_out = -float("inf")', 'prev_out = float("inf")'))),
  ('M4 swapped operands in visitUntil', chain(('visitUntil', 'min(sample_left[i], next_out)', 'min(sample_right[i], next_out)'),
                                               ('visitUntil', 'max(out_sample, sample_right[i])', 'max(out_sample, sample_left[i])'))),
  ('M5 < for <= in visitTimedAlways', chain(('visitTimedAlways', 'if sample_len <= end:', 'if sample_len < end:'))),
  ('M6 missing clip to the trace length in visitTimedEventually', chain(('visitTimedEventually', 'return sample_return[0:sample_len]', 'return sample_return'))),
  ('M7 inner window bound of visitTimedSince (range(j+1,end+1) -> range(j,end+1))', chain(('visitTimedSince', 'range(j+1, end+1)', 'range(j, end+1)'))),
  ('R1 rename a local (prev_out -> acc) in visitOnce', chain(('visitOnce', 'prev_out', 'acc', 99))),
  ('R1b rename a local so that the state tuple is ordered differently (prev_out -> zprev) in visitOnce', chain(('visitOnce', 'prev_out', 'zprev', 99))),
  ('R2 reorder two independent statements in visitSince', chain(('visitSince', 'sample_return = []\n        prev_out = -float("inf")', 'prev_out = -float("inf")\n        sample_return = []'))),
  ('R3 loop of visitAbs rewritten as a comprehension', chain(('visitAbs', '''sample_return = []
        for i in sample:
            out_sample = abs(i)
            sample_return.append(out_sample)''', 'sample_return = [abs(i) for i in sample]'))),
  ('R4 range(n-1,-1,-1) -> reversed(range(n)) in visitUntil', chain(('visitUntil', 'range(len(sample_left)-1, -1, -1)', 'reversed(range(len(sample_left)))'))),
  ('R5 comprehension of visitNot rewritten as a loop', chain(('visitNot', 'sample_return = [ -i for i in sample]', '''sample_return = []
        for i in sample:
            sample_return.append(-i)'''))),
  ('X1 a new visit method', lambda s: s + '\n    def visitFoo(self, node, *args, **kwargs):\n        return []\n'),
  ('X2 an unsupported construct (try/except) in visitDivision', chain(('visitDivision', 'out_sample = sample_left[i] / sample_right[i]',
      'try:\n                out_sample = sample_left[i] / sample_right[i]\n            except ZeroDivisionError:\n                out_sample = float("inf")'))),
  ('X3 visitVariable (pinned, untranslated) changed', chain(('visitVariable', 'sample_return = var', 'sample_return = list(var)'))),
]

def lemma_at(path, line):
    name = '?'
    for k, l in enumerate(open(path).read().split('\n'), 1):
        m = re.match(r'\s*(Lemma|Theorem|Example|Definition|Fixpoint)\s+(\w+)', l)
        if m: name = m.group(2)
        if k >= line: break
    return name

def run(name, mut):
    d = SCR + '/' + name.split()[0]
    shutil.rmtree(d, ignore_errors=True)
    os.makedirs(d + '/root/' + os.path.dirname(REL)); os.makedirs(d + '/coq')
    src = mut(SRC)
    assert src != SRC
    ast.parse(src)
    open(d + '/root/' + REL, 'w').write(src)
    r = subprocess.run([sys.executable, ROOT + '/tools/py2coq_offline.py', d + '/root', d + '/coq/OfflineGen.v'], capture_output=True, text=True)
    if r.returncode != 0:
        return 'translator fails closed (exit %d): %s' % (r.returncode, r.stderr.strip().split(': py2coq_offline: ')[-1] + ' [line ' + r.stderr.split(':')[1] + ']')
    base = re.sub(r'\(\* ast_visitor.py:\d+ \*\)', '', open(TH + '/OfflineGen.v').read())
    same = re.sub(r'\(\* ast_visitor.py:\d+ \*\)', '', open(d + '/coq/OfflineGen.v').read()) == base
    for f in ['Val', 'Syntax', 'Rho', 'Offline', 'ListFacts', 'OfflineCorrect', 'PySem', 'PySemFacts']:
        shutil.copy(TH + '/%s.vo' % f, d + '/coq/')
    for f in ['OfflineGenEval.v', 'OfflineGenCorrect.v']: shutil.copy(TH + '/' + f, d + '/coq/')
    for f in ['OfflineGen.v', 'OfflineGenEval.v', 'OfflineGenCorrect.v']:
        r = subprocess.run(['timeout', '600', 'coqc', '-Q', '.', 'RV', f], cwd=d + '/coq', capture_output=True, text=True)
        if r.returncode != 0:
            m = re.search(r'line (\d+)', r.stderr)
            err = ' '.join(r.stderr.split('Error:')[-1].split())[:110]
            return 'translated; %s does not check: %s fails (%s...)' % (f, lemma_at(d + '/coq/' + f, int(m.group(1))) if m else '?', err)
    return 'translated (generated text %s); all lemmas check' % ('identical' if same else 'changed')

def diff(name):
    """the translator is also faithful on the modified source: method-level differential check of the scratch visitor against its own translation"""
    d = SCR + '/' + name.split()[0]
    if not os.path.exists(d + '/coq/OfflineGen.vo'): return None
    shutil.copy(TH + '/ExtZ.vo', d + '/coq/')
    env = dict(os.environ, PYTHONDONTWRITEBYTECODE='1', PYTHONPATH=REPO)
    r = subprocess.run(['/venv/bin/python', ROOT + '/harness/offlinegen_check.py', '--n', '25', '--visitor-file', d + '/root/' + REL,
                        '--gen', d + '/coq/OfflineGen.v', d + '/coq/Cases.v'], capture_output=True, text=True, env=env)
    if r.returncode != 0: return 'harness error: ' + r.stderr[-200:]
    c = subprocess.run(['timeout', '1200', 'coqc', '-Q', '.', 'RV', 'Cases.v'], cwd=d + '/coq', capture_output=True, text=True)
    return '%s; %s' % (r.stdout.strip().split('\n')[-1], 'all agree' if c.returncode == 0 else 'DISAGREE: ' + ' '.join(c.stdout.split())[:200])

if __name__ == '__main__':
    out = []
    for name, mut in CHANGES:
        v = run(name, mut)
        out.append('%s\n    -> %s' % (name, v)); print(out[-1], flush=True)
        if '--diff' in sys.argv:
            dv = diff(name)
            if dv: out.append('    -> modified Python vs its own translation: ' + dv); print(out[-1], flush=True)
    open(ROOT + '/build/offlinegen_mutants.txt', 'w').write('\n'.join(out) + '\n')
