#!/usr/bin/env python3
# tools/shellgen_mutants.py — semantic mutations and harmless rewrites of scratch COPIES of the sources translated by
# tools/py2coq_shell.py: verdict of the translator, then (if it translates) whether ShellGenCorrect.v still checks.
import os, shutil, subprocess, sys, tempfile
HERE = os.path.dirname(os.path.dirname(os.path.abspath(__file__)))
REPO = sys.argv[1] if len(sys.argv) > 1 else '/repo'
sys.path.insert(0, os.path.join(HERE, 'tools'))
import py2coq_shell as T
I, V, P, S, D = (T.SRC[k][0] for k in ('interp', 'visitor', 'parser', 'spec', 'disc'))
MUT = [  # (kind, file, old, new)
  ('semantic', I, "rob = rob[len(rob)-1]", "rob = rob[0]"),
  ('semantic', I, "if key != 'time':\n                self.ast.var_object_dict[key] = dataset[key]", "if key != 'time':\n                self.ast.var_object_dict[key] = dataset['time']"),
  ('semantic', I, "        self.set_variable_to_ast_from_dataset(dataset)\n", "        pass\n"),
  ('semantic', I, "length = len(dataset['time'])", "length = len(dataset['time']) - 1"),
  ('semantic', I, "zip(ts, rob)", "zip(rob, ts)"),
  ('semantic', V, "for spec in ast.specs:", "for spec in ast.specs[1:]:"),
  ('semantic', V, "out.append(self.visit(spec, *args, **kwargs))", "out.append(self.visit(spec, *args, **kwargs)); out.append(self.visit(spec, *args, **kwargs))"),
  ('semantic', P, "return self.results[node]", "return self.inputs[node]"),
  ('semantic', P, "if phi_name not in self.phi_name_to_node_dict and phi_name in self.inputs:", "if phi_name in self.inputs:"),
  ('semantic', S, "return self.ast.get_value(phi_name)", "return self.ast.get_value(phi_name + 1)"),
  ('semantic', D, "if duration < period - tolerance or duration > period + tolerance:", "if duration < period - tolerance:"),
  ('semantic', I, "    def set_ast(self, ast):", "    def visitAst(self, ast, *args, **kwargs):\n        return []\n\n    def set_ast(self, ast):"),
  ('harmless', I, "        # convert format\n", "        # convert the format\n\n"),
  ('harmless', V, "        out = []\n        for spec", "        out = []   # one column per assertion\n        for spec"),
  ('harmless', P, "        node = self.phi_name_to_node_dict[phi_name]", "        node = (self.phi_name_to_node_dict[phi_name])"),
]
def main():
    res = []
    for k, (kind, rel, old, new) in enumerate(MUT):
        tmp = tempfile.mkdtemp(prefix='shellmut')
        for key in T.SRC:
            dst = os.path.join(tmp, T.SRC[key][0]); os.makedirs(os.path.dirname(dst), exist_ok=True)
            shutil.copy(os.path.join(REPO, T.SRC[key][0]), dst)
        txt = open(os.path.join(tmp, rel)).read()
        if txt.count(old) != 1: res.append((k, kind, 'MUTATION DOES NOT APPLY')); continue
        open(os.path.join(tmp, rel), 'w').write(txt.replace(old, new))
        os.makedirs(os.path.join(tmp, 'm'))
        r = subprocess.run([sys.executable, os.path.join(HERE, 'tools', 'py2coq_shell.py'), tmp, os.path.join(tmp, 'm', 'ShellGen.v')], capture_output=True, text=True)
        if r.returncode != 0:
            res.append((k, kind, 'translator refuses: ' + r.stderr.strip().split(': ', 1)[-1][:110]))
        elif open(os.path.join(tmp, 'm', 'ShellGen.v')).read() == open(os.path.join(HERE, 'coq/theories/ShellGen.v')).read():
            res.append((k, kind, 'same generated text'))
        else:
            c = open(os.path.join(HERE, 'coq/theories/ShellGenCorrect.v')).read().replace('PyShell ShellGen.', 'PyShell.\nFrom RVM Require Import ShellGen.', 1)
            open(os.path.join(tmp, 'm', 'ShellGenCorrect.v'), 'w').write(c)
            out = ''
            for f in ('ShellGen.v', 'ShellGenCorrect.v'):
                q = subprocess.run(['timeout', '300', 'coqc', '-Q', os.path.join(HERE, 'coq/theories'), 'RV', '-Q', os.path.join(tmp, 'm'), 'RVM', os.path.join(tmp, 'm', f)], capture_output=True, text=True)
                if q.returncode != 0: out = '%s fails at %s' % (f, q.stderr.split('line ')[1].split(',')[0] if 'line ' in q.stderr else '?'); break
            res.append((k, kind, out or 'translates, proofs still check'))
        shutil.rmtree(tmp)
    bad = 0
    for k, kind, v in res:
        ok = (kind == 'semantic' and (v.startswith('translator refuses') or 'fails at' in v)) or (kind == 'harmless' and (v.startswith('same') or v.startswith('translates')))
        bad += not ok
        print('%2d %-8s %s %s' % (k, kind, 'OK ' if ok else 'BAD', v))
    print('shellgen_mutants: %d/%d as expected' % (len(res) - bad, len(res)))
    sys.exit(1 if bad else 0)
main()
