#!/venv/bin/python
# Runs the repository's pinned suite (BASELINE.json command) and checks that
# every test of BASELINE.stable_pass still passes.
import json, subprocess, sys, tempfile, os
import xml.etree.ElementTree as ET
base = json.load(open('/root/.vp/BASELINE.json'))
fd, path = tempfile.mkstemp(suffix='.xml'); os.close(fd)
root = sys.argv[1] if len(sys.argv) > 1 else '/repo'
cmd = base['cmd'].replace('<file>', path).replace('cd /repo', 'cd ' + root)
env = dict(os.environ); env.pop('RTAMT_VERIF', None)
if root != '/repo':
    env['PYTHONPATH'] = root
subprocess.run(cmd, shell=True, stdout=subprocess.DEVNULL, stderr=subprocess.DEVNULL, env=env)
passed = set()
for tc in ET.parse(path).getroot().iter('testcase'):
    if not any(ch.tag in ('failure', 'error', 'skipped') for ch in tc):
        passed.add('%s::%s' % (tc.get('classname'), tc.get('name')))
os.unlink(path)
missing = [t for t in base['stable_pass'] if t not in passed]
print('stable_pass: %d, now passing: %d, missing: %d' % (len(base['stable_pass']), len(base['stable_pass']) - len(missing), len(missing)))
for m in missing[:20]:
    print('  MISSING', m)
sys.exit(1 if missing else 0)
