#!/usr/bin/env python3
# tools/py2coq_units.py [REPO_ROOT] OUT.v [--print-digests]
# FAIL-CLOSED translator of the unit conversion and of the sampling-violation counter of rtamt  ->  coq/theories/UnitsGen.v
#   rtamt/semantics/discrete_time_interpreter.py  DiscreteTimeInterpreter.__init__, set_sampling_period, gap,
#                                                 update_sampling_violation_counter, time_unit_transformer, check_pastified_bounds
#   rtamt/semantics/dense_time_interpreter.py     DenseTimeInterpreter.time_unit_transformer
#   rtamt/semantics/abstract_discrete_time_online_interpreter.py   the counter statements of update() and of reset()
#   rtamt/semantics/abstract_discrete_time_offline_interpreter.py  the counter statements of evaluate()
#   rtamt/syntax/ast/parser/abstract_ast_parser.py                 the unit dictionary ast.U
# Scheme (the one of py2coq_offline.py, with the exception monad `res` of PyUnits.v instead of option):
#   * a statement list is a term of type res R in continuation style (`let x := e in K`; `x <-- e ;; K` when e may raise);
#   * `self` is a record (dti / dnti of PyUnits.v); `self.f = e` is `let self := set_f_ self e in`; a method without `return`
#     returns the object; a call of a translated method is a call of its generated function;
#   * `if` returns the tuple of the names its branches assign; `for` is ufor with the tuple of the names its body assigns;
#     `try: B except E: H` is py_catch E B H; `raise C(..)` is Raise C;
#   * types: int (Z), frac (Fraction: Q), written (a number only read through Fraction(str(.)): the Q its text denotes),
#     unit / ustr (tunit / option tunit), float (float(Fraction): the Q it rounds), num (int | float), lists of written numbers / intervals.
# `update`, `reset`, `evaluate` do much more than counting: the translated part is the contiguous range of top-level statements
# from the first to the last one that mentions a counter name; the translator checks that no other statement of the method
# mentions one, that nothing before the range returns, and that the range reads only parameters that are never re-assigned.
# Everything else in the five files is pinned by the digest of its syntax tree.  Anything unexpected: exit 2 with file:line.
import ast, hashlib, sys
from fractions import Fraction

DISC = 'rtamt/semantics/discrete_time_interpreter.py'
DENSE = 'rtamt/semantics/dense_time_interpreter.py'
ONL = 'rtamt/semantics/abstract_discrete_time_online_interpreter.py'
OFFL = 'rtamt/semantics/abstract_discrete_time_offline_interpreter.py'
ASTP = 'rtamt/syntax/ast/parser/abstract_ast_parser.py'
PARSERV = 'rtamt/syntax/ast/parser/stl/parser_visitor.py'
TIMEI = 'rtamt/semantics/time_interpreter.py'

UNITS = {'s': 'US', 'ms': 'UMS', 'us': 'UUS', 'ns': 'UNS'}
# attributes of DiscreteTimeInterpreter the model keeps (record dti of PyUnits.v)
FIELDS = {'sampling_period': 'written', 'sampling_period_unit': 'unit', 'sampling_tolerance': 'written', 'update_counter': 'int',
          'previous_time': 'written', 'sampling_violation_counter': 'int', 'normalize': 'written'}
COUNTER_NAMES = {'update_counter', 'previous_time', 'sampling_violation_counter', 'gap', 'update_sampling_violation_counter',
                 'sampling_tolerance', 'normalize'}
COQ_TYPE = {'int': 'Z', 'frac': 'Q', 'written': 'Q', 'unit': 'tunit', 'ustr': 'option tunit', 'float': 'Q', 'num': 'pynum',
            'interval': 'interval', 'wlist': 'list Q', 'ivlist': 'list interval', 'self': 'dti', 'dself': 'dnti',
            'intpair': '(Z * Z)', 'numpair': '(pynum * pynum)'}
# translated methods of DiscreteTimeInterpreter: parameter types, result ('self' = no return statement: the object)
SIGS = {'set_sampling_period': ([('sampling_period', 'written'), ('unit', 'unit'), ('tolerance', 'written')], 'self'),
        'gap': ([('earlier', 'written'), ('later', 'written')], 'frac'),
        'update_sampling_violation_counter': ([('duration', 'frac')], 'self'),
        'time_unit_transformer': ([('node', 'interval')], 'intpair'),
        'check_pastified_bounds': ([], 'self')}
ORDER = ['set_sampling_period', 'gap', 'update_sampling_violation_counter', 'time_unit_transformer', 'check_pastified_bounds']
# not translated: pinned by the digest of the syntax tree
PINNED = {
    (DISC, 'DiscreteTimeInterpreter', 'get_sampling_period'): 'e92921f2f653',
    (DISC, 'DiscreteTimeInterpreter', 'get_sampling_frequency'): 'd9a020d9e442',
    (DISC, 'DiscreteTimeInterpreter', 'dataset_check'): '52e7bb5f6340',
    # the handler of gap(): time stamps whose text is not a number are outside the model (Raise Unmodelled)
    (DISC, 'DiscreteTimeInterpreter', 'gap/except ValueError'): 'a008bb696b5e',
    (DENSE, 'DenseTimeInterpreter', '__init__'): 'cc0ec22ddeb3',
    (DENSE, 'DenseTimeInterpreter', 'dataset_check'): 'df322f568ea1',
    (DENSE, 'DenseTimeInterpreter', 'set_variable_to_ast_from_dataset'): '8feff848c275',
    (DENSE, 'DenseTimeInterpreter', 'is_dataset_valid'): 'd9875dec83ae',
    # super().__init__() of both interpreters: does nothing
    (TIMEI, 'TimeInterpreter', '__init__'): '0b6c8cfb7658',
    # hand-modelled (UnitsLift.v: ULit q is the Fraction that time_bound() returns; check_interval is visitInterval)
    (PARSERV, 'StlAstParserVisitor', 'time_bound'): '504c19453d2b',
    (PARSERV, 'StlAstParserVisitor', 'visitInterval'): '7f415cb88e38',
}
RESERVED = set('''end match with fun let in if then else return as at cofix fix forall exists for using where Type Prop Set Some None
  Ret Raise ubind ufor res dti dnti pyast interval Q Z nat list option true false tt S O nil cons fst snd ib ie ibu ieu
  Qmult Qplus Qminus Qeq_bool inject_Z negb orb andb pynum NInt NFloat US UMS UUS UNS tunit unit'''.split())

PATH = '?'
def fail(node, msg):
    sys.stderr.write('%s:%s: py2coq_units: %s\n' % (PATH, getattr(node, 'lineno', '?'), msg))
    sys.exit(2)

def digest(node):
    if isinstance(node, list): node = ast.Module(body=node, type_ignores=[])
    return hashlib.sha256(ast.unparse(node).encode()).hexdigest()[:12]

PRINT = '--print-digests' in sys.argv
def pin(key, node):
    d = digest(node)
    if PRINT: print("    (%s, %r, %r): '%s'," % ({DISC: 'DISC', DENSE: 'DENSE', ONL: 'ONL', OFFL: 'OFFL', ASTP: 'ASTP', PARSERV: 'PARSERV', TIMEI: 'TIMEI'}[key[0]], key[1], key[2], d))
    elif PINNED.get(key) != d: fail(node if not isinstance(node, list) else (node[0] if node else None), 'the untranslated %s.%s changed (digest %s)' % (key[1], key[2], d))

def is_name(e, s): return isinstance(e, ast.Name) and e.id == s
def is_attr(e, base, attr): return isinstance(e, ast.Attribute) and is_name(e.value, base) and e.attr == attr
def is_self_ast(e, attr):      # self.ast.<attr>
    return isinstance(e, ast.Attribute) and e.attr == attr and is_attr(e.value, 'self', 'ast')
def qlit(f):
    f = Fraction(f)
    return '(%s # %d)%%Q' % (('(%d)' % f.numerator) if f.numerator < 0 else str(f.numerator), f.denominator)

def mentions(node):
    """attribute / method names of `self` a statement mentions"""
    return {n.attr for n in ast.walk(node) if isinstance(n, ast.Attribute) and is_name(n.value, 'self')}

class Method:
    """one function body.  cls: 'dti' | 'dnti'.  params: [(python name, type)].  ret: result type or 'self'."""
    def __init__(self, fd, name, cls, params, ret, stmts=None, init=False, mutators=()):
        self.fd, self.name, self.cls, self.params, self.ret, self.init = fd, name, cls, params, ret, init
        self.stmts = fd.body if stmts is None else stmts
        self.ntmp = 0
        self.pynames = {n.id for n in ast.walk(fd) if isinstance(n, ast.Name)} | {a.arg for a in ast.walk(fd) if isinstance(a, ast.arg)}
        self.mutators = set(mutators)       # methods of self that return the object
        self.selfty = 'self' if cls == 'dti' else 'dself'
        self.astterm = '(dti_ast self)' if cls == 'dti' else '(dnti_ast self)'

    def nm(self, s):
        if s == 'self': return 'self'
        r = s + '_' if (s in RESERVED or s.startswith('py_') or s.startswith('gen_') or s.startswith('set_') or s.startswith('Q') or s in FIELDS) else s
        if r != s and r in self.pynames: fail(self.fd, 'cannot rename %s: %s is also used' % (s, r))
        return r
    def tmp(self):
        while True:
            self.ntmp += 1
            t = 't%d' % self.ntmp
            if t not in self.pynames: return t

    def assigned(self, stmts):
        out = set()
        for s in stmts:
            if isinstance(s, ast.Assign):
                for t in s.targets:
                    if isinstance(t, ast.Attribute) and is_name(t.value, 'self'): out.add('self')
                    for n in ast.walk(t):
                        if isinstance(n, ast.Name) and n.id != 'self': out.add(n.id)
            elif isinstance(s, ast.Expr) and isinstance(s.value, ast.Call) and isinstance(s.value.func, ast.Attribute) \
                    and is_name(s.value.func.value, 'self') and s.value.func.attr in self.mutators: out.add('self')
            elif isinstance(s, ast.For): out |= self.assigned(s.body)
            elif isinstance(s, ast.If): out |= self.assigned(s.body) | self.assigned(s.orelse)
            elif isinstance(s, ast.Try):
                out |= self.assigned(s.body)
                for h in s.handlers: out |= self.assigned(h.body)
        return out

    # ---------- expressions: (binds, term, type)
    def look(self, e, env):
        if e.id not in env: fail(e, 'name %s is not certainly bound here' % e.id)
        return env[e.id]

    def const(self, e):
        """a literal, possibly wrapped in int(.) / float(.): (term, type) or None"""
        if isinstance(e, ast.Call) and isinstance(e.func, ast.Name) and e.func.id in ('int', 'float') and len(e.args) == 1 and not e.keywords \
                and isinstance(e.args[0], ast.Constant) and type(e.args[0].value) in (int, float):
            v = int(e.args[0].value) if e.func.id == 'int' else float(e.args[0].value)
        elif isinstance(e, ast.Constant) and type(e.value) in (int, float, str): v = e.value
        else: return None
        if type(v) is int: return ('%d%%Z' % v if v >= 0 else '(%d)%%Z' % v), 'int'
        if type(v) is float:
            if v != v or v in (float('inf'), -float('inf')): fail(e, 'a float literal that is not a number')
            return qlit(Fraction(str(v))), 'written'            # the rational its text denotes
        if v == '': return 'None', 'ustr'
        if v in UNITS: return UNITS[v], 'unit'
        fail(e, 'string literal %r' % v)

    def coerce(self, e, t, ty, want):
        if ty == want: return t
        if ty == 'unit' and want == 'ustr': return '(Some %s)' % t
        if ty == 'int' and want == 'written': return '(inject_Z %s)' % t        # str(int) is its decimal text
        if ty == 'int' and want == 'num': return '(NInt %s)' % t
        if ty == 'float' and want == 'num': return '(NFloat %s)' % t
        fail(e, 'a value of type %s where %s is expected' % (ty, want))

    def expr(self, e, env):
        c = self.const(e)
        if c: return [], c[0], c[1]
        if isinstance(e, ast.Name):
            if e.id == 'self': fail(e, '`self` as a value')
            return [], self.nm(e.id), self.look(e, env)
        if isinstance(e, ast.Attribute):
            if is_name(e.value, 'self') and e.attr in FIELDS and self.cls == 'dti' and 'self' in env:
                return [], '(%s self)' % e.attr, FIELDS[e.attr]
            if is_self_ast(e, 'unit') and 'self' in env: return [], '(ast_unit %s)' % self.astterm, 'unit'
            if is_attr(e, 'sys', 'maxsize') and 'sys' not in env: return [], 'py_maxsize', 'int'
            if isinstance(e.value, ast.Name) and e.value.id in env:
                ty, x = env[e.value.id], self.nm(e.value.id)
                tab = {('interval', 'begin'): ('ib', 'frac'), ('interval', 'end'): ('ie', 'frac'), ('interval', 'begin_unit'): ('ibu', 'ustr'),
                       ('interval', 'end_unit'): ('ieu', 'ustr'), ('frac', 'numerator'): ('py_numerator', 'int'),
                       ('frac', 'denominator'): ('py_denominator', 'int')}
                if (ty, e.attr) in tab: return [], '(%s %s)' % (tab[(ty, e.attr)][0], x), tab[(ty, e.attr)][1]
            fail(e, 'unsupported attribute .%s' % e.attr)
        if isinstance(e, ast.Subscript):
            if isinstance(e.slice, ast.Slice): fail(e, 'slice')
            d = 'gen_U' if (is_attr(e.value, 'self', 'U') and self.cls == 'dti') else 'gen_ast_U' if is_self_ast(e.value, 'U') else None
            if d:
                b, t, ty = self.expr(e.slice, env)
                x = self.tmp()
                return b + [(x, 'py_dict_get %s %s' % (d, self.coerce(e, t, ty, 'ustr')))], x, 'int'
            if is_name(e.value, 'dataset') and env.get('dataset') == 'dataset' and isinstance(e.slice, ast.Constant) and e.slice.value == 'time':
                return [], 'dataset_time', 'wlist'
            b, t, ty = self.expr(e.value, env)
            bi, ti, yi = self.expr(e.slice, env)
            if (ty, yi) == ('wlist', 'int'):
                x = self.tmp()
                return b + bi + [(x, 'py_index %s %s' % (t, ti))], x, 'written'
            fail(e, 'subscript %s[%s]' % (ty, yi))
        if isinstance(e, ast.BinOp):
            b1, t1, y1 = self.expr(e.left, env); b2, t2, y2 = self.expr(e.right, env)
            k, b = type(e.op).__name__, b1 + b2
            zop = {'Add': 'Z.add', 'Sub': 'Z.sub', 'Mult': 'Z.mul'}
            qop = {'Add': 'Qplus', 'Sub': 'Qminus', 'Mult': 'Qmult'}
            q1 = t1 if y1 == 'frac' else '(inject_Z %s)' % t1
            q2 = t2 if y2 == 'frac' else '(inject_Z %s)' % t2
            if (y1, y2) == ('int', 'int') and k in zop: return b, '(%s %s %s)' % (zop[k], t1, t2), 'int'
            if (y1, y2) == ('int', 'int') and k == 'Mod':
                x = self.tmp()
                return b + [(x, 'py_mod %s %s' % (t1, t2))], x, 'int'
            if (y1, y2) in (('frac', 'frac'), ('frac', 'int'), ('int', 'frac')):
                if k in qop: return b, '(%s %s %s)' % (qop[k], q1, q2), 'frac'
                if k == 'Div':
                    x = self.tmp()
                    return b + [(x, 'py_qdiv %s %s' % (q1, q2))], x, 'frac'
            fail(e, 'operator %s on %s, %s' % (k, y1, y2))
        if isinstance(e, ast.BoolOp):
            parts = [self.expr(v, env) for v in e.values]
            if any(p[2] != 'bool' for p in parts): fail(e, 'and/or of something else than Booleans')
            if any(p[0] for p in parts[1:]): fail(e, 'and/or whose second operand may raise')
            return parts[0][0], '(%s)' % (' && ' if isinstance(e.op, ast.And) else ' || ').join(p[1] for p in parts), 'bool'
        if isinstance(e, ast.Compare):
            if len(e.ops) != 1: fail(e, 'chained comparison')
            k = type(e.ops[0]).__name__
            r = e.comparators[0]
            if k == 'IsNot' and isinstance(r, ast.Constant) and r.value is None:
                b, t, ty = self.expr(e.left, env)
                if ty not in ('float', 'frac', 'int'): fail(e, '`is not None` on %s' % ty)
                return b, 'true', 'bool'          # a number is not None; the operand is evaluated (it may raise)
            b1, t1, y1 = self.expr(e.left, env); b2, t2, y2 = self.expr(r, env)
            b = b1 + b2
            if (y1, y2) == ('int', 'int'):
                ops = {'LtE': 'Z.leb', 'Lt': 'Z.ltb', 'GtE': 'Z.geb', 'Gt': 'Z.gtb', 'Eq': 'Z.eqb'}
                if k not in ops: fail(e, 'comparison %s on ints' % k)
                return b, '(%s %s %s)' % (ops[k], t1, t2), 'bool'
            if (y1, y2) in (('frac', 'frac'), ('written', 'written')):
                # (written numbers: only against literals 0.0 / 1.0 in the source; str() of a float is monotone, so the order of the
                #  texts is the order of the floats)
                if k == 'Lt': return b, '(py_qltb %s %s)' % (t1, t2), 'bool'
                if k == 'Gt': return b, '(py_qltb %s %s)' % (t2, t1), 'bool'
            if (y1, y2) == ('frac', 'int') and k == 'Eq': return b, '(Qeq_bool %s (inject_Z %s))' % (t1, t2), 'bool'
            fail(e, 'comparison %s on %s, %s' % (k, y1, y2))
        if isinstance(e, ast.IfExp):
            bt, tt, yt = self.expr(e.test, env)
            if yt != 'bool': fail(e, 'condition of type %s' % yt)
            ba, ta, ya = self.expr(e.body, env); bb, tb, yb = self.expr(e.orelse, env)
            ty = ya if ya == yb else 'num' if {ya, yb} == {'int', 'float'} else fail(e, 'branches of type %s and %s' % (ya, yb))
            def br(bs, t, y): return ' '.join('%s <-- %s ;;' % x for x in bs) + (' ' if bs else '') + 'Ret %s' % self.coerce(e, t, y, ty)
            x = self.tmp()
            return bt + [(x, '(if %s then %s else %s)' % (tt, br(ba, ta, ya), br(bb, tb, yb)))], x, ty
        if isinstance(e, ast.Call): return self.call(e, env)
        fail(e, 'unsupported expression %s' % type(e).__name__)

    def call(self, e, env):
        f = e.func
        if e.keywords: fail(e, 'keyword arguments')
        # Fraction(str(x))
        if is_name(f, 'Fraction') and 'Fraction' not in env and len(e.args) == 1 and isinstance(e.args[0], ast.Call) and is_name(e.args[0].func, 'str') \
                and 'str' not in env and len(e.args[0].args) == 1 and not e.args[0].keywords:
            b, t, ty = self.expr(e.args[0].args[0], env)
            if ty not in ('written', 'frac'): fail(e, 'Fraction(str(.)) of %s' % ty)
            x = self.tmp()
            return b + [(x, 'py_fraction_str %s' % t)], x, 'frac'
        # getattr(self.ast, 'pastified_intervals', [])
        if is_name(f, 'getattr') and 'getattr' not in env and len(e.args) == 3 and is_attr(e.args[0], 'self', 'ast') and isinstance(e.args[1], ast.Constant) \
                and e.args[1].value == 'pastified_intervals' and isinstance(e.args[2], ast.List) and not e.args[2].elts:
            return [], '(ast_pastified_intervals %s)' % self.astterm, 'ivlist'
        # self.method(args)
        if isinstance(f, ast.Attribute) and is_name(f.value, 'self') and self.cls == 'dti' and f.attr in SIGS and SIGS[f.attr][1] != 'self':
            ps, ret = SIGS[f.attr]
            if len(e.args) != len(ps): fail(e, 'arity of self.%s' % f.attr)
            args = [self.expr(a, env) for a in e.args]
            ts = [self.coerce(a, x[1], x[2], p[1]) for a, x, p in zip(e.args, args, ps)]
            x = self.tmp()
            return sum((a[0] for a in args), []) + [(x, 'gen_%s self %s' % (f.attr, ' '.join(ts)))], x, ret
        if not isinstance(f, ast.Name) or f.id in env: fail(e, 'unsupported call')
        args = [self.expr(a, env) for a in e.args]
        b, tys = sum((a[0] for a in args), []), [a[2] for a in args]
        if f.id == 'len' and tys == ['ustr']: return b, '(py_unit_len %s)' % args[0][1], 'int'
        if f.id == 'len' and tys == ['wlist']: return b, '(py_len %s)' % args[0][1], 'int'
        if f.id == 'int' and tys == ['frac']: return b, '(py_int_of_frac %s)' % args[0][1], 'int'
        if f.id == 'float' and tys == ['frac']:
            x = self.tmp()
            return b + [(x, 'py_float %s' % args[0][1])], x, 'float'
        fail(e, 'unsupported call %s(%s)' % (f.id, ', '.join(tys)))

    # ---------- statements
    def tup(self, names):
        if not names: return 'tt'
        return '(%s)' % ', '.join(self.nm(n) for n in names) if len(names) > 1 else self.nm(names[0])
    def pat(self, names):
        return "'" + self.tup(names) if len(names) != 1 else self.nm(names[0])
    def binds(self, b, ind): return [ind + '%s <-- %s ;;' % bt for bt in b]

    def exc_class(self, s):
        x = s.exc
        if isinstance(x, ast.Call) and isinstance(x.func, ast.Name) and not x.keywords and all(isinstance(a, ast.Constant) and isinstance(a.value, str) for a in x.args):
            if x.func.id == 'RTAMTException': return 'RTAMTException'
            if x.func.id == 'Exception': return 'PyException'
        fail(s, 'raise of something else than RTAMTException("..") / Exception("..")')

    def block(self, stmts, env, final, ind, top=False):
        if not stmts: return final(env, ind)
        s, rest = stmts[0], stmts[1:]
        env = dict(env)
        def cont(): return self.block(rest, env, final, ind, top)
        if isinstance(s, ast.Pass): return cont()
        if isinstance(s, ast.Return):
            if rest: fail(s, 'statements after return')
            if s.value is None:
                if not (top and self.ret in ('self', 'dself')): fail(s, 'bare return')
                return final(env, ind)
            if self.ret in ('self', 'dself'): fail(s, 'a method that is modelled as returning nothing returns a value')
            if isinstance(s.value, ast.Tuple):
                if len(s.value.elts) != 2: fail(s, 'tuple of %d' % len(s.value.elts))
                xs = [self.expr(x, env) for x in s.value.elts]
                want = {'intpair': 'int', 'numpair': 'num'}.get(self.ret) or fail(s, 'returns a pair')
                return self.binds(xs[0][0] + xs[1][0], ind) + [ind + 'Ret (%s, %s)' % tuple(self.coerce(s, x[1], x[2], want) for x in xs)]
            b, t, ty = self.expr(s.value, env)
            return self.binds(b, ind) + [ind + 'Ret %s' % self.coerce(s, t, ty, self.ret)]
        if isinstance(s, ast.Raise):
            if rest: fail(s, 'statements after raise')
            if s.cause: fail(s, 'raise ... from')
            return [ind + 'Raise %s' % self.exc_class(s)]
        if isinstance(s, ast.Assign):
            if len(s.targets) != 1: fail(s, 'chained assignment')
            tg = s.targets[0]
            b, t, ty = self.expr(s.value, env)
            if isinstance(tg, ast.Attribute) and is_name(tg.value, 'self') and self.cls == 'dti':
                if tg.attr not in FIELDS: fail(s, 'attribute %s: not known to the translator' % tg.attr)
                if 'self' not in env: fail(s, 'no object here')
                return self.binds(b, ind) + [ind + 'let self := set_%s_ self %s in' % (tg.attr, self.coerce(s, t, ty, FIELDS[tg.attr]))] + cont()
            if not isinstance(tg, ast.Name): fail(s, 'unsupported assignment target')
            x = tg.id
            if x in [p[0] for p in self.params] and not (x in env and env[x] == ty): fail(s, 'a parameter changes type')
            if x == 'self' or ty == 'bool': fail(s, 'assignment to self / of a Boolean')
            if x in env and env[x] in ('ustr', 'num'): t, ty = self.coerce(s, t, ty, env[x]), env[x]
            env[x] = ty
            return self.binds(b, ind) + [ind + 'let %s := %s in' % (self.nm(x), t)] + cont()
        if isinstance(s, ast.Expr):
            c = s.value
            if isinstance(c, ast.Constant) and isinstance(c.value, str): return cont()      # docstring
            if self.init and isinstance(c, ast.Call) and isinstance(c.func, ast.Attribute) and c.func.attr == '__init__' and not c.args and not c.keywords \
                    and isinstance(c.func.value, ast.Call) and is_name(c.func.value.func, 'super'):
                return cont()           # super(..).__init__(): TimeInterpreter.__init__ is `pass` (pinned)
            if not (isinstance(c, ast.Call) and isinstance(c.func, ast.Attribute) and is_name(c.func.value, 'self') and not c.keywords
                    and c.func.attr in SIGS and self.cls == 'dti'):
                fail(s, 'unsupported expression statement')
            m = c.func.attr
            ps, ret = SIGS[m]
            if len(c.args) != len(ps): fail(s, 'arity of self.%s' % m)
            args = [self.expr(a, env) for a in c.args]
            ts = [self.coerce(a, x[1], x[2], p[1]) for a, x, p in zip(c.args, args, ps)]
            call = 'gen_%s self %s' % (m, ' '.join(ts))
            return self.binds(sum((a[0] for a in args), []), ind) + [ind + '%s <-- %s ;;' % ('self' if ret == 'self' else '_', call.rstrip())] + cont()
        if isinstance(s, ast.For):
            if s.orelse: fail(s, 'for/else')
            mut = self.assigned(s.body)
            if not isinstance(s.target, ast.Name) or s.target.id in env or s.target.id in mut: fail(s, 'loop target must be a new name that the body does not assign')
            it = s.iter
            if isinstance(it, ast.Call) and is_name(it.func, 'range') and 'range' not in env and len(it.args) == 1 and not it.keywords:
                b, t, ty = self.expr(it.args[0], env)
                if ty != 'int': fail(s, 'range of %s' % ty)
                term, ety = '(py_range 0 %s)' % t, 'int'
            else:
                b, term, ty = self.expr(it, env)
                ety = {'ivlist': 'interval', 'wlist': 'written'}.get(ty) or fail(s, 'iteration over %s' % ty)
                if isinstance(it, ast.Name) and it.id in mut: fail(s, 'the loop changes the list it iterates over')
            carried = sorted(n for n in mut if n in env)
            env2 = dict(env); env2[s.target.id] = ety
            def fin(e2, i2):
                for n in carried:
                    if e2[n] != env[n]: fail(s, '%s changes type in the loop' % n)
                return [i2 + 'Ret %s' % self.tup(carried)]
            body = self.block(s.body, env2, fin, ind + '    ')
            head = ind + '%s <-- ufor %s (fun %s %s =>' % (self.pat(carried), term, self.nm(s.target.id), self.pat(carried))
            body[-1] += ') %s ;;' % self.tup(carried)
            return self.binds(b, ind) + [head] + body + cont()
        if isinstance(s, ast.If):
            b, t, ty = self.expr(s.test, env)
            if ty != 'bool': fail(s, 'condition of type %s' % ty)
            def raises(blk): return bool(blk) and isinstance(blk[-1], ast.Raise)
            live = [self.assigned(bl) for bl in (s.body, s.orelse) if not raises(bl)]
            # (a name that only one branch binds, and that does not exist before, is local to that branch)
            names = sorted(n for n in set().union(*live) if n in env or all(n in a for a in live))
            newenv = {}
            def fin(e2, i2):
                for n in names:
                    if n not in e2: fail(s, '%s is not bound on every path' % n)
                    if n in newenv and newenv[n] != e2[n]: fail(s, '%s has two types' % n)
                    newenv[n] = e2[n]
                return [i2 + 'Ret %s' % self.tup(names)]
            th = self.block(s.body, env, fin, ind + '    ')
            el = self.block(s.orelse, env, fin, ind + '    ')
            for n in names:
                if n in env and n in newenv and env[n] != newenv[n]: fail(s, '%s changes type in a branch' % n)
            env.update(newenv)
            out = self.binds(b, ind) + [ind + '%s <-- (if %s then' % (self.pat(names), t)] + th + [ind + '  else'] + el
            out[-1] += ') ;;'
            return out + cont()
        if isinstance(s, ast.Try):
            if s.orelse or s.finalbody or len(s.handlers) != 1: fail(s, 'try with else / finally / several handlers')
            h = s.handlers[0]
            if h.name or not isinstance(h.type, ast.Name) or h.type.id not in ('OverflowError', 'ValueError'): fail(s, 'unsupported except clause')
            tail = isinstance(s.body[-1], ast.Return)
            if tail and rest: fail(s, 'statements after a try that returns')
            names = [] if tail else sorted(self.assigned(s.body))
            newenv = {}
            def fin(e2, i2):
                for n in names:
                    if n not in e2: fail(s, '%s is not bound' % n)
                    newenv[n] = e2[n]
                return [i2 + 'Ret %s' % self.tup(names)]
            old, self_top = top, top
            body = self.block(s.body, env, fin, ind + '    ', top=tail and top)
            key = (PATH_REL, self.clsname, '%s/except %s' % (self.name, h.type.id))
            if key in PINNED or (PRINT and self.name == 'gap'):
                pin(key, h.body)
                handler = [ind + '    Raise Unmodelled']
            else:
                if not (tail or isinstance(h.body[-1], ast.Raise)): fail(s, 'an except clause must end with raise (or return, when the try returns)')
                handler = self.block(h.body, env, fin, ind + '    ', top=tail and top)
            if not tail: env.update(newenv)
            out = [ind + ('py_catch %s (' if tail else '%s <-- py_catch %s (' % (self.pat(names), '%s')) % h.type.id] + body
            out[-1] += ') ('
            out += handler
            out[-1] += ')' if tail else ') ;;'
            return out + ([] if tail else cont())
        fail(s, 'unsupported statement %s' % type(s).__name__)

    def translate(self, coqname, extra_params=()):
        env = {p: t for p, t in self.params}
        env['self'] = self.selfty
        for n in ('dataset_time', 't1'):
            pass
        def fin(e, i):
            if self.ret not in ('self', 'dself'): fail(self.fd, 'method can end without return')
            return [i + 'Ret self']
        lines = self.block(list(self.stmts), env, fin, '  ', top=True)
        ps = ['(self : %s)' % COQ_TYPE[self.selfty]]
        for p, t in self.params:
            if t == 'dataset': ps.append('(dataset_time : list Q)')
            else: ps.append('(%s : %s)' % (self.nm(p), COQ_TYPE[t]))
        rt = COQ_TYPE[self.ret]
        head = '(* %s:%d %s *)\nDefinition %s %s : res %s :=' % (PATH_REL.split('/')[-1], self.stmts[0].lineno if self.stmts else self.fd.lineno, self.name, coqname, ' '.join(ps), rt)
        lines[-1] += '.'
        return head + '\n' + '\n'.join(lines) + '\n'

PATH_REL = '?'
def load(root, rel):
    global PATH, PATH_REL
    PATH_REL = rel
    PATH = root.rstrip('/') + '/' + rel
    try: return ast.parse(open(PATH).read(), PATH)
    except (OSError, SyntaxError) as ex: fail(None, 'cannot read / parse: %s' % ex)

def the_class(mod, name, bases):
    cs = [s for s in mod.body if isinstance(s, ast.ClassDef) and s.name == name]
    if len(cs) != 1: fail(mod.body[0], 'expected exactly one class %s' % name)
    c = cs[0]
    if [getattr(b, 'id', None) for b in c.bases] != bases or c.keywords or c.decorator_list: fail(c, 'the bases of %s changed' % name)
    return c

def methods_of(c, lenient=False):
    out = {}
    for s in c.body:
        if isinstance(s, ast.Expr) and isinstance(s.value, ast.Constant): continue
        if not isinstance(s, ast.FunctionDef):
            if lenient: continue
            fail(s, 'unexpected class-level statement %s' % type(s).__name__)
        out.setdefault(s.name, []).append(s)
    return out

def check_sig(fd, names, defaults=0):
    a = fd.args
    if [x.arg for x in a.args] != ['self'] + names or a.vararg or a.kwarg or a.posonlyargs or a.kwonlyargs or len(a.defaults) != defaults or fd.returns:
        fail(fd, 'signature of %s changed' % fd.name)

def check_property(c, ms, name):
    """@property def name(self): return self.__name  /  @name.setter def name(self, name): self.__name = name"""
    fds = ms.get(name, [])
    priv = '_%s__%s' % (c.name, name)
    ok = len(fds) == 2
    if ok:
        g, st = fds
        ok = (len(g.decorator_list) == 1 and is_name(g.decorator_list[0], 'property') and [x.arg for x in g.args.args] == ['self']
              and len(g.body) == 1 and isinstance(g.body[0], ast.Return) and is_attr(g.body[0].value, 'self', '__' + name)
              and len(st.decorator_list) == 1 and is_attr(st.decorator_list[0], name, 'setter') and [x.arg for x in st.args.args] == ['self', name]
              and len(st.body) == 1 and isinstance(st.body[0], ast.Assign) and len(st.body[0].targets) == 1
              and is_attr(st.body[0].targets[0], 'self', '__' + name) and is_name(st.body[0].value, name))
    if not ok: fail(fds[0] if fds else c, 'attribute %s is not a plain property (getter returns self.__%s, setter stores it)' % (name, name))

def unit_dict(fd, stmts_out):
    """self.X_UNIT = int(N) ... self.U = {'s': self.S_UNIT, ...}: returns {unit: N}; the other statements go to stmts_out"""
    consts, U = {}, None
    for s in fd.body:
        if isinstance(s, ast.Assign) and len(s.targets) == 1 and isinstance(s.targets[0], ast.Attribute) and is_name(s.targets[0].value, 'self'):
            a = s.targets[0].attr
            if a.isupper() and a != 'U':
                v = s.value
                if isinstance(v, ast.Call) and isinstance(v.func, ast.Name) and v.func.id in ('int', 'float') and len(v.args) == 1 and isinstance(v.args[0], ast.Constant):
                    if a in consts: fail(s, 'constant %s assigned twice' % a)
                    consts[a] = (v.func.id, v.args[0].value)
                    continue
                fail(s, 'constant %s is not int(literal) / float(literal)' % a)
            if a == 'U':
                if U is not None or not isinstance(s.value, ast.Dict): fail(s, 'self.U must be one dictionary display')
                U = {}
                for k, v in zip(s.value.keys, s.value.values):
                    if not (isinstance(k, ast.Constant) and k.value in UNITS and k.value not in U and isinstance(v, ast.Attribute) and is_name(v.value, 'self')
                            and v.attr in consts and consts[v.attr][0] == 'int' and type(consts[v.attr][1]) is int):
                        fail(s, 'entry of self.U that is not unit: self.CONSTANT (an int)')
                    U[k.value] = consts[v.attr][1]
                if set(U) != set(UNITS): fail(s, 'the units of self.U are not s, ms, us, ns')
                continue
        stmts_out.append(s)
    if U is None: fail(fd, 'no self.U')
    # the constants must not be re-assigned anywhere else in the class: checked by the caller through `stores`
    return U, consts

def gen_U(name, U):
    return 'Definition %s (u : tunit) : Z :=\n  match u with %s end.\n' % (name, ' | '.join('%s => %d%%Z' % (UNITS[k], U[k]) for k in ('s', 'ms', 'us', 'ns')))

def stores(c, skip):
    """(method, attribute) for every store to an attribute of self in the class, outside the methods in `skip`"""
    out = []
    for s in c.body:
        if isinstance(s, ast.FunctionDef) and s.name not in skip:
            for n in ast.walk(s):
                if isinstance(n, ast.Attribute) and is_name(n.value, 'self') and isinstance(n.ctx, (ast.Store, ast.Del)): out.append((s, n.attr))
    return out

def counter_slice(fd, params):
    """the contiguous range of top-level statements of fd from the first to the last that mentions a counter name"""
    idx = [i for i, s in enumerate(fd.body) if mentions(s) & COUNTER_NAMES]
    if not idx: fail(fd, '%s does not touch the sampling counter any more' % fd.name)
    lo, hi = idx[0], idx[-1]
    sl = fd.body[lo:hi + 1]
    for s in fd.body[:lo]:
        for n in ast.walk(s):
            if isinstance(n, (ast.Return, ast.Yield, ast.YieldFrom)): fail(n, 'a return before the counter statements of %s' % fd.name)
    for s in fd.body[hi + 1:]:
        if isinstance(s, ast.Return) and s is fd.body[-1]: continue
    free = {n.id for s in sl for n in ast.walk(s) if isinstance(n, ast.Name) and isinstance(n.ctx, ast.Load)}
    bound = {n.id for s in sl for n in ast.walk(s) if isinstance(n, ast.Name) and isinstance(n.ctx, ast.Store)}
    for v in sorted(free - bound - {'self', 'range', 'len', 'int', 'float', 'Fraction', 'str'}):
        if v not in params: fail(sl[0], 'the counter statements of %s read %s, which is not a parameter' % (fd.name, v))
        for s in fd.body[:lo]:
            for n in ast.walk(s):
                if isinstance(n, ast.Name) and n.id == v and isinstance(n.ctx, (ast.Store, ast.Del)): fail(n, 'parameter %s is re-assigned before the counter statements' % v)
    for s in fd.body[lo:hi + 1]:
        for n in ast.walk(s):
            if isinstance(n, ast.Return): fail(n, 'return inside the counter statements')
    return sl

def main():
    argv = [a for a in sys.argv[1:] if not a.startswith('--')]
    if len(argv) == 1: root, out = '/repo', argv[0]
    elif len(argv) == 2: root, out = argv
    else: sys.exit('usage: py2coq_units.py [REPO_ROOT] OUT.v')
    defs = []

    # ---- the unit dictionary of the AST
    mod = load(root, ASTP)
    c = [s for s in mod.body if isinstance(s, ast.ClassDef) and s.name == 'AbstractAst']
    if len(c) != 1: fail(mod.body[0], 'expected class AbstractAst')
    ms = methods_of(c[0], lenient=True)
    if len(ms.get('__init__', [])) != 1: fail(c[0], 'AbstractAst.__init__')
    astU, astconsts = unit_dict(ms['__init__'][0], [])
    for fd, a in stores(c[0], ['__init__']):
        if a == 'U' or a in astconsts: fail(fd, '%s is assigned outside __init__ (in %s)' % (a, fd.name))
    # self.unit / the default unit is a plain attribute or a plain property
    defs.append('(* %s: AbstractAst.__init__ *)\n' % ASTP + gen_U('gen_ast_U', astU))

    # ---- DiscreteTimeInterpreter
    mod = load(root, DISC)
    c = the_class(mod, 'DiscreteTimeInterpreter', ['TimeInterpreter'])
    ms = methods_of(c)
    known = set(ORDER) | {'__init__', 'get_sampling_period', 'get_sampling_frequency', 'dataset_check'} | (set(FIELDS) - {'update_counter', 'previous_time', 'normalize'})
    for m in ms:
        if m not in known: fail(ms[m][0], 'new method %s: not known to the translator' % m)
    for m in known:
        if m not in ms: fail(c, 'method %s removed' % m)
    for f in ('sampling_period', 'sampling_tolerance', 'sampling_period_unit', 'sampling_violation_counter'): check_property(c, ms, f)
    for m in ('get_sampling_period', 'get_sampling_frequency', 'dataset_check'):
        if len(ms[m]) != 1: fail(ms[m][1], 'method %s defined twice' % m)
        pin((DISC, c.name, m), ms[m][0])
    for m in ORDER + ['__init__']:
        if len(ms[m]) != 1 or ms[m][0].decorator_list: fail(ms[m][0], 'method %s defined twice / decorated' % m)
    init = ms['__init__'][0]
    check_sig(init, [])
    rest = []
    U, consts = unit_dict(init, rest)
    for fd, a in stores(c, ['__init__']):
        if a == 'U' or a in consts: fail(fd, '%s is assigned outside __init__ (in %s)' % (a, fd.name))
        if a.startswith('__'): continue        # the property setters
        if a not in FIELDS: fail(fd, 'attribute %s (stored in %s): not known to the translator' % (a, fd.name))
    defs.append('(* %s: DiscreteTimeInterpreter.__init__ *)\n' % DISC + gen_U('gen_U', U))
    m = Method(init, '__init__', 'dti', [], 'self', stmts=rest, init=True); m.clsname = c.name
    got = {s.targets[0].attr for s in rest if isinstance(s, ast.Assign) and isinstance(s.targets[0], ast.Attribute)}
    if got != set(FIELDS): fail(init, '__init__ must assign exactly the attributes %s (not %s)' % (sorted(FIELDS), sorted(got ^ set(FIELDS))))
    defs.append(m.translate('gen_init'))
    muts = [k for k in SIGS if SIGS[k][1] == 'self']
    for name in ORDER:
        fd = ms[name][0]
        ps, ret = SIGS[name]
        check_sig(fd, [p[0] for p in ps], defaults=3 if name == 'set_sampling_period' else 0)
        if name == 'set_sampling_period':
            d = [ast.unparse(x) for x in fd.args.defaults]
            if d != ['int(1)', "'s'", 'float(0.1)']: fail(fd, 'the defaults of set_sampling_period changed: %s' % d)
        m = Method(fd, name, 'dti', ps, ret, mutators=muts); m.clsname = c.name
        defs.append(m.translate('gen_' + name))

    # ---- DenseTimeInterpreter
    mod = load(root, DENSE)
    c = the_class(mod, 'DenseTimeInterpreter', ['TimeInterpreter'])
    ms = methods_of(c)
    known = {'__init__', 'dataset_check', 'set_variable_to_ast_from_dataset', 'is_dataset_valid', 'time_unit_transformer'}
    if set(ms) != known: fail(c, 'the methods of DenseTimeInterpreter changed: %s' % sorted(set(ms) ^ known))
    for k in ms:
        if len(ms[k]) != 1 or ms[k][0].decorator_list: fail(ms[k][0], 'method %s defined twice / decorated' % k)
        if k != 'time_unit_transformer': pin((DENSE, c.name, k), ms[k][0])
    fd = ms['time_unit_transformer'][0]
    check_sig(fd, ['node'])
    m = Method(fd, 'time_unit_transformer', 'dnti', [('node', 'interval')], 'numpair'); m.clsname = c.name
    defs.append(m.translate('gen_dense_time_unit_transformer'))

    # ---- the counter statements of the online update() / reset() and of the offline evaluate()
    for rel, cname, bases, meths in [
            (ONL, 'AbstractDiscreteTimeOnlineInterpreter', ['AbstractOnlineInterpreter', 'DiscreteTimeInterpreter'],
             [('update', ['timestamp', 'dataset'], [('timestamp', 'written')], 'gen_online_update_counter'), ('reset', [], [], 'gen_online_reset_counter')]),
            (OFFL, 'AbstractDiscreteTimeOfflineInterpreter', ['AbstractOfflineInterpreter', 'DiscreteTimeInterpreter'],
             [('evaluate', ['dataset'], [('dataset', 'dataset')], 'gen_offline_evaluate_counter')])]:
        mod = load(root, rel)
        c = the_class(mod, cname, bases)
        ms = methods_of(c)
        for k in ms:
            if k == 'update_counter': continue
            if len(ms[k]) != 1 or ms[k][0].decorator_list: fail(ms[k][0], 'method %s defined twice / decorated' % k)
        if 'update_counter' in ms: check_property(c, ms, 'update_counter')
        for k in SIGS:
            if k in ms: fail(ms[k][0], '%s overrides %s' % (cname, k))
        names = [x[0] for x in meths]
        for k in ms:
            if k in names or k == 'update_counter': continue
            bad = mentions(ms[k][0]) & (COUNTER_NAMES | set(SIGS) | set(FIELDS))
            if bad - ({'check_pastified_bounds'} if k == 'set_ast' else set()): fail(ms[k][0], 'method %s of %s touches %s' % (k, cname, sorted(bad)))
        for name, sig, ps, coqname in meths:
            if name not in ms: fail(c, 'method %s removed' % name)
            fd = ms[name][0]
            check_sig(fd, sig)
            sl = counter_slice(fd, sig)
            outside = [s for s in fd.body if s not in sl]
            for s in outside:
                bad = mentions(s) & (COUNTER_NAMES | set(SIGS) | set(FIELDS))
                if bad: fail(s, 'a statement of %s outside the counter statements touches %s' % (name, sorted(bad)))
            m = Method(fd, name, 'dti', ps, 'self', stmts=sl, mutators=muts); m.clsname = cname
            defs.append(m.translate(coqname))

    # ---- TimeInterpreter.__init__
    mod = load(root, TIMEI)
    c = the_class(mod, 'TimeInterpreter', ['object'])
    ms = methods_of(c, lenient=True)
    if len(ms.get('__init__', [])) != 1: fail(c, 'TimeInterpreter.__init__')
    pin((TIMEI, 'TimeInterpreter', '__init__'), ms['__init__'][0])

    # ---- hand-modelled parts of the parser visitor
    mod = load(root, PARSERV)
    cs = [s for s in mod.body if isinstance(s, ast.ClassDef) and s.name == 'StlAstParserVisitor']
    if len(cs) != 1: fail(mod.body[0], 'expected class StlAstParserVisitor')
    ms = methods_of(cs[0], lenient=True)
    for k in ('time_bound', 'visitInterval'):
        if len(ms.get(k, [])) != 1: fail(cs[0], 'StlAstParserVisitor.%s' % k)
        pin((PARSERV, 'StlAstParserVisitor', k), ms[k][0])
    if PRINT: return

    text = ('(* GENERATED by tools/py2coq_units.py from %s, %s,\n   %s, %s, %s — do not edit.\n'
            '   Built from the primitives of PyUnits.v; Raise e = the Python code raises e. *)\n'
            'From Coq Require Import ZArith QArith List Bool.\nFrom RV Require Import Offline Units PySem PyUnits.\nImport ListNotations.\n'
            'Local Open Scope units_scope.\n\n' % (DISC, DENSE, ONL, OFFL, ASTP))
    text += '\n'.join(defs)
    text += '\nDefinition gen_units_count : nat := %d%%nat.\n' % len(defs)
    open(out, 'w').write(text)

if __name__ == '__main__':
    main()
