#!/venv/bin/python
# tools/seeded_recheck.py [ids...] — re-runs the quick check of the property of every seeded change (seeded/<id>/patch.diff)
# against /repo with the patch applied, reverts the patch, restores the evidence file, and writes seeded/RECHECK.json.
# Used while building the machinery; not part of any registered check.
import json, os, subprocess, sys, time

def sh(cmd, cwd=None, timeout=3600):
    p = subprocess.run(cmd, shell=True, cwd=cwd, stdout=subprocess.PIPE, stderr=subprocess.STDOUT, universal_newlines=True, timeout=timeout)
    return p.returncode, p.stdout

def main():
    ids = sys.argv[1:] or sorted(d for d in os.listdir('/verif/seeded') if os.path.isdir('/verif/seeded/' + d))
    res = {}
    if os.path.exists('/verif/seeded/RECHECK.json') and sys.argv[1:]:
        res = json.load(open('/verif/seeded/RECHECK.json'))
    for name in ids:
        pid = name.split('_')[0]
        patch = '/verif/seeded/%s/patch.diff' % name
        evf = '/verif/evidence/%s.json' % pid
        ev = open(evf).read() if os.path.exists(evf) else None
        rc, o = sh('git -C /repo apply %s' % patch)
        if rc != 0:
            res[name] = {'applies': False, 'msg': o[-200:]}
            print(name, 'DOES NOT APPLY')
            continue
        t0 = time.time()
        try:
            rc, o = sh('./check %s --tier quick' % pid, cwd='/verif')
        finally:
            sh('git -C /repo checkout -- .')
            if ev is not None:
                open(evf, 'w').write(ev)
        viol = [l for l in o.splitlines() if l.startswith('VIOLATION')]
        res[name] = {'applies': True, 'exit': rc, 'violations': len(viol), 'caught': rc == 1 and len(viol) > 0, 'seconds': round(time.time() - t0, 1)}
        print(name, res[name], flush=True)
    rc, o = sh('git -C /repo status --short')
    res['_repo_clean_after'] = (o.strip() == '')
    json.dump(res, open('/verif/seeded/RECHECK.json', 'w'), indent=1, sort_keys=True)
    missed = [k for k, v in res.items() if isinstance(v, dict) and not v.get('caught')]
    print('missed:', missed)

main()
