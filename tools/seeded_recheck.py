#!/venv/bin/python
# tools/seeded_recheck.py [-j N] [ids...] — re-runs the quick check of the property of every seeded change (seeded/<id>/patch.diff)
# against a scratch worktree of /repo with the patch applied (RTAMT_REPO points the check at the worktree, VERIF_OUTDIR keeps its
# evidence and replays out of /verif), N worktrees in parallel, and writes seeded/RECHECK.json.  /repo itself is never touched.
# Used while building the machinery; not part of any registered check.
import json, os, subprocess, sys, time, threading, shutil


def sh(cmd, cwd=None, env=None, timeout=3600):
    p = subprocess.run(cmd, shell=True, cwd=cwd, env=env, stdout=subprocess.PIPE, stderr=subprocess.STDOUT, universal_newlines=True, timeout=timeout)
    return p.returncode, p.stdout


def worker(k, todo, res, lock):
    wt, out = '/tmp/seedre%d' % k, '/tmp/seedre%d_out' % k
    sh('git -C /repo worktree remove --force %s' % wt)
    sh('git -C /repo worktree prune')
    rc, o = sh('git -C /repo worktree add -q --detach %s HEAD' % wt)
    assert rc == 0, o
    os.makedirs(out, exist_ok=True)
    env = dict(os.environ, RTAMT_REPO=wt, VERIF_OUTDIR=out, PYTHONPATH=wt)
    while True:
        with lock:
            if not todo:
                break
            name = todo.pop(0)
        pid = name.split('_')[0]
        patch = '/verif/seeded/%s/patch.diff' % name
        rc, o = sh('git -C %s apply %s' % (wt, patch))
        if rc != 0:
            with lock:
                res[name] = {'applies': False, 'msg': o[-200:]}
            print(name, 'DOES NOT APPLY', flush=True)
            continue
        t0 = time.time()
        demo = '/verif/seeded/%s/demo.py' % name
        drc = None
        if os.path.exists(demo):
            # does the change still violate the property on the current tree?  (a later repair can neutralise an older change)
            try:
                drc, _ = sh('/venv/bin/python %s' % demo, cwd=wt, env=dict(os.environ, PYTHONPATH=wt, PYTHONHASHSEED='0'), timeout=900)
            except Exception:
                drc = None
        try:
            rc, o = sh('./check %s --tier quick' % pid, cwd='/verif', env=env)
        finally:
            sh('git -C %s checkout -- .' % wt)
            sh('git -C %s clean -fdq' % wt)
        viol = [l for l in o.splitlines() if l.startswith('VIOLATION')]
        with lock:
            res[name] = {'applies': True, 'exit': rc, 'violations': len(viol), 'caught': rc == 1 and len(viol) > 0, 'with_failing_input': len([l for l in viol if not l.rstrip().endswith('no-failing-input-found')]), 'seconds': round(time.time() - t0, 1),
                         'demo_exit_on_current_tree_with_patch': drc, 'neutralised_by_a_later_repair': drc == 0}
            if rc != 0 and not viol:
                res[name]['output_tail'] = o[-1500:]
        print(name, res[name], flush=True)
    sh('git -C /repo worktree remove --force %s' % wt)
    shutil.rmtree(out, ignore_errors=True)


def main():
    args = sys.argv[1:]
    # one worktree at a time by default: the Makefile passes RTAMT_REPO to the translators, and the generated .v files, the extraction and
    # the driver under /verif are shared (use -j N only for changes that touch no translated source; run `make all` afterwards)
    j = 1
    if args[:1] == ['-j']:
        j = int(args[1])
        args = args[2:]
    ids = args or sorted(d for d in os.listdir('/verif/seeded') if os.path.isdir('/verif/seeded/' + d))
    res = {}
    if os.path.exists('/verif/seeded/RECHECK.json') and args:
        res = json.load(open('/verif/seeded/RECHECK.json'))
    todo, lock = list(ids), threading.Lock()
    ts = [threading.Thread(target=worker, args=(k, todo, res, lock)) for k in range(j)]
    for t in ts:
        t.start()
    for t in ts:
        t.join()
    sh('git -C /repo worktree prune')
    rc, o = sh('git -C /repo status --short')
    res['_repo_clean_after'] = (o.strip() == '')
    json.dump(res, open('/verif/seeded/RECHECK.json', 'w'), indent=1, sort_keys=True)
    missed = [k for k, v in res.items() if isinstance(v, dict) and not v.get('caught') and not v.get('neutralised_by_a_later_repair')]
    print('missed:', missed)


main()
