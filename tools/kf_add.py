#!/usr/bin/env python3
# tools/kf_add.py <json-entry-file>  — append an entry to known_findings.json (used while building; never at check time)
import json, sys
e = json.load(open(sys.argv[1]))
p = '/verif/known_findings.json'
d = json.load(open(p))
d['findings'] = [f for f in d['findings'] if f.get('id') != e['id']] + [e]
json.dump(d, open(p, 'w'), indent=1)
