#!/usr/bin/env python3
"""Differential validation of the GENERATED model (OnlineGen.v, instance ExtZ) against rtamt's operation classes.
usage: PYTHONPATH=/repo /venv/bin/python tools/validate_onlinegen.py [N] [seed]   (writes build/gencases/cases.v, runs coqc, diffs exactly)"""
import math, os, random, re, subprocess, sys, importlib
N = int(sys.argv[1]) if len(sys.argv) > 1 else 3000
rnd = random.Random(int(sys.argv[2]) if len(sys.argv) > 2 else 20260926)
HERE = os.path.dirname(os.path.abspath(__file__))
VERIF = os.path.dirname(HERE)
COQ = os.path.join(VERIF, 'coq')
S = 'rtamt.semantics.stl.discrete_time.online.'
from rtamt.semantics.enumerations.comp_oper import StlComparisonOperator as C
from rtamt.semantics.enumerations.options import Semantics as Sem
def cls(mod, name):
    return getattr(importlib.import_module(mod), name)
UN_PURE = ['Always', 'Eventually', 'Fall', 'Historically', 'Not', 'Once', 'Previous', 'Rise', 'StrongPrevious']
BI_PURE = ['And', 'Iff', 'Implies', 'Or', 'Since', 'Xor']
UN_T = ['HistoricallyTimed', 'OnceTimed']
BI_T = ['PrecedesTimed', 'SinceTimed']
def modname(n):
    return S + re.sub(r'(?<!^)([A-Z])', r'_\1', n).lower() + '_operation'
CMP = {C.LESS: 'CLt', C.LEQ: 'CLeq', C.EQ: 'CEq', C.NEQ: 'CNeq', C.GREATER: 'CGt', C.GEQ: 'CGeq'}
SEM = {Sem.STANDARD: 'Standard', Sem.OUTPUT_ROBUSTNESS: 'OutputRobustness', Sem.INPUT_VACUITY: 'InputVacuity',
       Sem.INPUT_ROBUSTNESS: 'InputRobustness', Sem.OUTPUT_VACUITY: 'OutputVacuity'}

def val(finite=False):
    r = rnd.random()
    if not finite and r < 0.12:
        return math.inf if r < 0.06 else -math.inf
    return float(rnd.randint(-6, 6))
def cv(x):
    if x is True or x is False:
        return 'true' if x else 'false'
    return 'PosInf' if x == math.inf else 'NegInf' if x == -math.inf else 'Fin (%d)' % int(x)
def cz(k):
    return '(%d)%%Z' % k

HEADER = '''From Coq Require Import List ZArith Bool.
From RV Require Import Val Syntax Rho IA ExtZ OnlineGen.
Import ListNotations.
Fixpoint run {S X R : Type} (upd : S -> X -> option (S * R)) (rst : S -> S) (s : S) (ops : list (option X)) : list (option R) :=
  match ops with [] => [] | None :: r => run upd rst (rst s) r
  | Some x :: r => match upd s x with None => [None] | Some (s', v) => Some v :: run upd rst s' r end end.
Definition start {S X R : Type} (upd : S -> X -> option (S * R)) (rst : S -> S) (s : option S) (ops : list (option X)) : option (list (option R)) :=
  match s with None => None | Some s => Some (run upd rst s ops) end.
Definition p1 {S : Type} (f : S -> V -> S * V) := fun s x => Some (f s x).
Definition p2 {S : Type} (f : S -> V -> V -> S * V) := fun s (x : V * V) => Some (f s (fst x) (snd x)).
Definition m2 {S R : Type} (f : S -> V -> V -> option (S * R)) := fun s (x : V * V) => f s (fst x) (snd x).
Definition AR := ExtZArith.
'''

def pyrun(mk, ops, meth='update'):
    try:
        o = mk()
    except Exception:
        return None
    out = []
    for op in ops:
        if op is None:
            o.reset()
            continue
        try:
            out.append(getattr(o, meth)(*op))
        except Exception:
            out.append(None)
            break
    return out
def expect(res):
    if res is None:
        return 'None'
    return 'Some [%s]' % '; '.join('None' if v is None else 'Some (%s)' % cv(v) for v in res)
def ops_text(ops):
    return '[%s]' % '; '.join('None' if o is None else 'Some (%s)' % (cv(o[0]) if len(o) == 1 else '%s, %s' % (cv(o[0]), cv(o[1]))) for o in ops)
def gen_ops(arity, finite=False):
    return [None if rnd.random() < 0.08 else tuple(val(finite) for _ in range(arity)) for _ in range(rnd.randint(1, 9))]

cases = []   # (description, coq term, expected text)
for k in range(N):
    kind = rnd.choice(['un', 'un', 'bi', 'bi', 'unt', 'unt', 'unt', 'bit', 'bit', 'bit', 'pred', 'sat', 'ia', 'ia']) if rnd.random() < 0.98 else rnd.choice(['const', 'var'])
    if kind == 'un':
        n = rnd.choice(UN_PURE); ops = gen_ops(1)
        K = cls(modname(n), n + 'Operation')
        term = 'start (p1 %sOperation_update) %sOperation_reset (Some %sOperation_init) %s' % (n, n, n, ops_text(ops))
        cases.append((n, term, expect(pyrun(K, ops))))
    elif kind == 'bi':
        n = rnd.choice(BI_PURE); ops = gen_ops(2, finite=n in ('Iff', 'Xor'))
        K = cls(modname(n), n + 'Operation')
        ar = 'AR ' if n in ('Iff', 'Xor') else ''
        term = 'start (p2 (%sOperation_update %s)) %sOperation_reset (Some %sOperation_init) %s' % (n, ar, n, n, ops_text(ops))
        cases.append((n, term, expect(pyrun(K, ops))))
    elif kind in ('unt', 'bit'):
        n = rnd.choice(UN_T if kind == 'unt' else BI_T); ops = gen_ops(1 if kind == 'unt' else 2)
        b, e = rnd.randint(-1, 4), rnd.randint(-2, 4)
        if rnd.random() < 0.7:
            b, e = min(abs(b), abs(e)), max(abs(b), abs(e))
        K = cls(modname(n), n + 'Operation')
        upd = '%sOperation_update' % n if kind == 'unt' else '(m2 %sOperation_update)' % n
        term = 'start %s %sOperation_reset (%sOperation_init %s %s) %s' % (upd, n, n, cz(b), cz(e), ops_text(ops))
        cases.append(('%s[%d,%d]' % (n, b, e), term, expect(pyrun(lambda: K(b, e), ops))))
    elif kind in ('pred', 'sat'):
        c = rnd.choice(list(CMP)); ops = gen_ops(2, finite=True)
        K = cls(S + 'predicate_operation', 'PredicateOperation')
        meth = 'update' if kind == 'pred' else 'sat'
        term = 'start (m2 (PredicateOperation_%s%s)) PredicateOperation_reset (Some (PredicateOperation_init %s)) %s' % (
            meth, ' AR' if kind == 'pred' else '', CMP[c], ops_text(ops))
        cases.append(('Predicate.%s %s' % (meth, CMP[c]), term, expect(pyrun(lambda: K(c), ops, meth))))
    elif kind == 'ia':
        c = rnd.choice(list(CMP)); sem = rnd.choice(list(SEM)); ops = gen_ops(2, finite=True)
        iv, ov = [['a'], []][rnd.random() < 0.5], [['b', 'c'], []][rnd.random() < 0.5]
        K = cls('rtamt.semantics.iastl.discrete_time.online.predicate_operation', 'PredicateOperation')
        term = 'start (m2 (IAPredicateOperation_update AR)) IAPredicateOperation_reset (Some (IAPredicateOperation_init %s %s %s %s)) %s' % (
            CMP[c], SEM[sem], '[0]' if iv else '[]', '[1; 2]' if ov else '[]', ops_text(ops))
        cases.append(('IAPredicate %s %s' % (CMP[c], SEM[sem]), term, expect(pyrun(lambda: K(c, sem, iv, ov), ops))))
    elif kind == 'const':
        v = val(); K = cls(S + 'constant_operation', 'ConstantOperation')
        term = 'snd (ConstantOperation_update (ConstantOperation_reset (ConstantOperation_init (%s : @V ExtZVal))))' % cv(v)
        o = K(v); o.reset()
        cases.append(('Constant', term, cv(o.update())))
    else:
        K = cls(S + 'variable_operation', 'VariableOperation')
        o = K(); o.reset()
        cases.append(('Variable', 'snd (VariableOperation_update (VariableOperation_reset (@VariableOperation_init ExtZVal)))', 'None' if o.update() is None else '?'))

if os.environ.get('SELFTEST'):      # corrupt one expectation: the run must report exactly one mismatch
    k0 = [k for k, c in enumerate(cases) if 'Fin (' in c[2]][0]
    cases[k0] = (cases[k0][0], cases[k0][1], cases[k0][2].replace('Fin (', 'Fin (1 + ', 1))
out = os.path.join(VERIF, 'build', 'gencases')
os.makedirs(out, exist_ok=True)
with open(os.path.join(out, 'cases.v'), 'w') as f:
    f.write(HEADER)
    for k, (d, term, exp) in enumerate(cases):
        # exact diff inside Coq: the expected value is stated, vm_compute decides; a mismatch prints the model's value
        ty = 'extz' if d == 'Constant' else 'option extz' if d == 'Variable' else 'option (list (option %s))' % ('bool' if d.startswith('Predicate.sat') else 'extz')
        f.write('Definition c%d : %s := %s.\nDefinition e%d : %s := %s.\n' % (k, ty, term, k, ty, exp))
    for k in range(len(cases)):
        f.write('Eval vm_compute in (%d%%nat, c%d, e%d).\n' % (k, k, k))
r = subprocess.run(['timeout', '900', 'coqc', '-Q', os.path.join(COQ, 'theories'), 'RV', os.path.join(out, 'cases.v')], capture_output=True, text=True)
if r.returncode != 0:
    print(r.stdout[-2000:], r.stderr[-3000:]); sys.exit(1)
text = re.sub(r'\s+', ' ', r.stdout)
res = re.findall(r'= \((\d+), (.*?)\) : nat \* ', text)
bad, per = 0, {}
assert len(res) == len(cases), (len(res), len(cases))
for k, body in res:
    k = int(k)
    # body = "<model>, <expected>": both printed by Coq in the same normal form, so they must be the two equal halves
    half = (len(body) - 2) // 2
    ok = body[:half] == body[half + 2:] and body[half:half + 2] == ', '
    key = cases[k][0].split('[')[0].split(' ')[0]
    per[key] = per.get(key, 0) + 1
    if not ok:
        bad += 1
        if bad <= 10:
            print('MISMATCH case %d %s\n  term %s\n  coq/expected: %s' % (k, cases[k][0], cases[k][1], body))
print('cases %d, mismatches %d' % (len(cases), bad))
print('per class:', dict(sorted(per.items())))
raising = sum(1 for c in cases if 'None' in c[2] and c[0] not in ('Variable',))
print('cases in which rtamt raised (init or update):', raising)
sys.exit(1 if bad else 0)
