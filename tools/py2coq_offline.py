#!/usr/bin/env python3
# tools/py2coq_offline.py [REPO_ROOT] OUT.v
# FAIL-CLOSED translator: rtamt/semantics/stl/discrete_time/offline/ast_visitor.py  ->  coq/theories/OfflineGen.v
# Every visitX method of StlDiscreteTimeOfflineAstVisitor that computes a result list from its operands' lists becomes
#   gen_visitX : [nat ->]* [cmp ->] [V ->] list V [-> list V] -> option (list V)          (None = the Python code raises)
# built only from the primitives of PySem.v.  ONE scheme for everything:
#   * a statement list is a term of type option R in continuation style (`let x := e in K`, `x <- e ;; K` when e may raise);
#   * `for x in IT: body` is  py_for IT (fun x STATE => body ;; Some STATE) STATE  where STATE is the tuple (sorted by name) of the
#     variables the body assigns and that exist before the loop; variables first assigned in the body are local to one iteration;
#   * `if`/`elif`/`else` is a Coq `if` returning the tuple of the variables its branches assign; `raise` is None;
#   * a comprehension is `map` (pure element) or `py_mapM` (element may raise) over the same iterables as loops;
#   * expressions are put in A-normal form: every sub-expression that may raise (l[i], min/max of a list, deque(maxlen=..)) is bound
#     first with `t <- .. ;;`; ints are Z, floats are V (`float("inf")` = top, `-float("inf")` = bot, `-x` = neg x), lists are lists.
# Anything outside the statement/expression/call set below, any change of the method set or of a signature, any use of a name that is
# not certainly bound, any in-place mutation of a list that is not known to be a fresh object: exit code 2 with file:line.
import ast, hashlib, sys

REL = 'rtamt/semantics/stl/discrete_time/offline/ast_visitor.py'
CLASS, BASE = 'StlDiscreteTimeOfflineAstVisitor', 'StlAstVisitor'
IMPORTS = {('from', 'rtamt.semantics.arithmetic', 'saturating'), ('import', 'math', None), ('import', 'operator', None),
           ('import', 'collections', None), ('from', 'rtamt.syntax.ast.visitor.stl.ast_visitor', 'StlAstVisitor'),
           ('from', 'rtamt.semantics.enumerations.comp_oper', 'StlComparisonOperator'),
           ('from', 'rtamt.exception.exception', 'RTAMTException')}
# methods that do not compute a list from operand lists: not translated, pinned by the digest of their syntax tree
OPAQUE = {'visit': '1ac9af0a10d2', 'visitVariable': '15cfae1788b9'}
TRANSLATED = ['visitPredicate', 'visitAbs', 'visitSqrt', 'visitExp', 'visitPow', 'visitNegate', 'visitLn', 'visitLog', 'visitAddition',
              'visitSubtraction', 'visitMultiplication', 'visitDivision', 'visitNot', 'visitAnd', 'visitOr', 'visitImplies', 'visitIff',
              'visitXor', 'visitEventually', 'visitAlways', 'visitUntil', 'visitOnce', 'visitHistorically', 'visitSince', 'visitRise',
              'visitFall', 'visitConstant', 'visitPrevious', 'visitStrongPrevious', 'visitNext', 'visitStrongNext',
              'visitTimedPrecedes', 'visitTimedOnce', 'visitTimedHistorically', 'visitTimedSince', 'visitTimedAlways',
              'visitTimedEventually', 'visitTimedUntil']
CMP = {'EQ': 'CEq', 'NEQ': 'CNeq', 'LEQ': 'CLeq', 'LESS': 'CLt', 'GEQ': 'CGeq', 'GREATER': 'CGt'}
FUN1 = {('math', 'sqrt'): 'Sqrt', ('saturating', 'exp'): 'Exp', ('math', 'log'): 'Ln'}
FUN2 = {('saturating', 'power'): 'Pow', ('math', 'log'): 'Log'}
# identifiers the generated text itself uses (or Coq keywords): a Python local with such a name gets a trailing underscore
RESERVED = set('''end match with fun let in if then else return as at cofix fix forall exists for using where Type Prop Set Some None
  top bot neg map combine rev fst snd app length repeat seq nth a1 a2 AR VS V Z nat list option cmp op true false tt
  Abs Sqrt Exp Ln Neg Add Sub Mul Div Pow Log CEq CNeq CLeq CLt CGeq CGt vmin vmax cmp_eqb orb andb negb bool prod pair S O nil cons
  tl hd firstn skipn concat deque Arith Val'''.split())

PATH = '?'
def fail(node, msg):
    sys.stderr.write('%s:%s: py2coq_offline: %s\n' % (PATH, getattr(node, 'lineno', '?'), msg))
    sys.exit(2)

def digest(node):
    return hashlib.sha256(ast.unparse(node).encode()).hexdigest()[:12]

def is_name(e, s): return isinstance(e, ast.Name) and e.id == s
def is_attr(e, base, attr): return isinstance(e, ast.Attribute) and is_name(e.value, base) and e.attr == attr
def is_inf(e):    # float("inf")
    return (isinstance(e, ast.Call) and is_name(e.func, 'float') and len(e.args) == 1 and not e.keywords
            and isinstance(e.args[0], ast.Constant) and e.args[0].value == 'inf')
def is_visit_child(e):  # self.visit(node.children[K], *args, **kwargs)  ->  K
    if (isinstance(e, ast.Call) and is_attr(e.func, 'self', 'visit') and len(e.args) == 2 and len(e.keywords) == 1
            and isinstance(e.args[0], ast.Subscript) and is_attr(e.args[0].value, 'node', 'children')
            and isinstance(e.args[0].slice, ast.Constant) and isinstance(e.args[0].slice.value, int)
            and isinstance(e.args[1], ast.Starred) and is_name(e.args[1].value, 'args')
            and e.keywords[0].arg is None and is_name(e.keywords[0].value, 'kwargs')):
        return e.args[0].slice.value
    return None
def is_bounds(e):       # self.time_unit_transformer(node)
    return (isinstance(e, ast.Call) and is_attr(e.func, 'self', 'time_unit_transformer') and len(e.args) == 1
            and is_name(e.args[0], 'node') and not e.keywords)
def cmp_const(e):       # StlComparisonOperator.X.value -> CX
    if (isinstance(e, ast.Attribute) and e.attr == 'value' and isinstance(e.value, ast.Attribute)
            and is_name(e.value.value, 'StlComparisonOperator')):
        if e.value.attr not in CMP: fail(e, 'unknown comparison operator %s' % e.value.attr)
        return CMP[e.value.attr]
    return None
def is_node_op(e):      # node.operator.value
    return isinstance(e, ast.Attribute) and e.attr == 'value' and is_attr(e.value, 'node', 'operator')

def assigned(stmts):
    """names a statement list (re)binds or mutates, loop targets excluded"""
    out = set()
    for s in stmts:
        if isinstance(s, ast.Assign):
            for t in s.targets:
                for n in ast.walk(t):
                    if isinstance(n, ast.Name): out.add(n.id)
        elif isinstance(s, ast.AugAssign) and isinstance(s.target, ast.Name): out.add(s.target.id)
        elif isinstance(s, ast.Expr) and isinstance(s.value, ast.Call) and isinstance(s.value.func, ast.Attribute) \
                and isinstance(s.value.func.value, ast.Name): out.add(s.value.func.value.id)
        elif isinstance(s, ast.For): out |= assigned(s.body)
        elif isinstance(s, ast.If): out |= assigned(s.body) | assigned(s.orelse)
    return out

class Var:
    def __init__(self, ty, fresh=False): self.ty, self.fresh = ty, fresh   # ty: int val bool list plist deque

class Method:
    def __init__(self, fd):
        self.fd, self.ntmp = fd, 0
        self.pynames = {n.id for n in ast.walk(fd) if isinstance(n, ast.Name)} | {a.arg for a in ast.walk(fd) if isinstance(a, ast.arg)}
        self.params = []     # (coq name, coq type, sort key)
        self.uses_op = self.uses_val = self.uses_args0 = False

    def nm(self, s):
        r = s + '_' if (s in RESERVED or s.startswith('py_') or s.startswith('dq_') or s.startswith('gen_')) else s
        if r != s and r in self.pynames: fail(self.fd, 'cannot rename %s: %s is also used' % (s, r))
        return r
    def tmp(self):
        while True:
            self.ntmp += 1
            t = 't%d' % self.ntmp
            if t not in self.pynames: return t

    # ---------- expressions: (binds, term, type, fresh) ; binds = [(name, option-valued term)]
    def look(self, e, env):
        if e.id not in env: fail(e, 'name %s is not certainly bound here' % e.id)
        return env[e.id]

    def expr(self, e, env):
        if isinstance(e, ast.Name):
            v = self.look(e, env)
            return [], self.nm(e.id), v.ty, False
        if isinstance(e, ast.Constant) and type(e.value) is int and e.value >= 0:
            return [], str(e.value), 'int', False
        if is_inf(e): return [], 'top', 'val', False
        if isinstance(e, ast.UnaryOp) and isinstance(e.op, ast.USub):
            if is_inf(e.operand): return [], 'bot', 'val', False
            b, t, ty, _ = self.expr(e.operand, env)
            if ty == 'int': return b, '(- %s)' % t, 'int', False
            if ty == 'val': return b, '(neg %s)' % t, 'val', False
            fail(e, 'unary minus on %s' % ty)
        if isinstance(e, ast.BinOp):
            b1, t1, y1, _ = self.expr(e.left, env); b2, t2, y2, _ = self.expr(e.right, env)
            k, b = type(e.op).__name__, b1 + b2
            if (y1, y2) == ('int', 'int') and k in ('Add', 'Sub'):
                return b, '(%s %s %s)' % (t1, '+' if k == 'Add' else '-', t2), 'int', False
            if (y1, y2) == ('val', 'val') and k in ('Add', 'Sub', 'Mult', 'Div'):
                return b, '(a2 AR %s %s %s)' % ({'Mult': 'Mul'}.get(k, k), t1, t2), 'val', False
            if (y1, y2) == ('list', 'list') and k == 'Add': return b, '(%s ++ %s)' % (t1, t2), 'list', True
            if (y1, y2) == ('list', 'int') and k == 'Mult': return b, '(py_repeat %s %s)' % (t1, t2), 'list', True
            fail(e, 'operator %s on %s, %s' % (k, y1, y2))
        if isinstance(e, ast.BoolOp) and isinstance(e.op, ast.Or):
            parts = [self.expr(v, env) for v in e.values]
            if any(p[0] for p in parts) or any(p[2] != 'bool' for p in parts): fail(e, '`or` of something else than pure Booleans')
            return [], '(%s)' % ' || '.join(p[1] for p in parts), 'bool', False
        if isinstance(e, ast.Compare) and len(e.ops) == 1:
            l, r, k = e.left, e.comparators[0], type(e.ops[0]).__name__
            if is_node_op(l) and k == 'Eq' and cmp_const(r):
                self.uses_op = True
                return [], '(cmp_eqb op %s)' % cmp_const(r), 'bool', False
            b1, t1, y1, _ = self.expr(l, env); b2, t2, y2, _ = self.expr(r, env)
            ops = {'LtE': '<=?', 'Lt': '<?', 'GtE': '>=?', 'Gt': '>?', 'Eq': '=?'}
            if (y1, y2) == ('int', 'int') and k in ops: return b1 + b2, '(%s %s %s)' % (t1, ops[k], t2), 'bool', False
            fail(e, 'comparison %s on %s, %s' % (k, y1, y2))
        if isinstance(e, ast.List):
            if len(e.elts) > 1: fail(e, 'list display with more than one element')
            if not e.elts: return [], '[]', 'list', True
            b, t, ty, _ = self.expr(e.elts[0], env)
            if ty != 'val': fail(e, 'list of %s' % ty)
            return b, '[%s]' % t, 'list', True
        if isinstance(e, ast.Attribute) and is_attr(e, 'node', 'val'):
            self.uses_val = True
            return [], 'node_val', 'val', False
        if isinstance(e, ast.Subscript):
            if is_name(e.value, 'args') and isinstance(e.slice, ast.Constant) and e.slice.value == 0:
                self.uses_args0 = True
                return [], 'args0', 'int', False
            b, t, ty, _ = self.expr(e.value, env)
            if isinstance(e.slice, ast.Slice):
                if ty != 'list' or e.slice.step is not None: fail(e, 'slice of %s / with a step' % ty)
                bs, ts = list(b), []
                for part in (e.slice.lower, e.slice.upper):
                    if part is None: ts.append('None')
                    else:
                        bp, tp, yp, _ = self.expr(part, env)
                        if yp != 'int': fail(e, 'slice bound of type %s' % yp)
                        bs += bp; ts.append('(Some %s)' % tp)
                return bs, '(py_slice %s %s %s)' % (t, ts[0], ts[1]), 'list', True
            bi, ti, yi, _ = self.expr(e.slice, env)
            if yi != 'int' or ty not in ('list', 'deque'): fail(e, 'subscript %s[%s]' % (ty, yi))
            x = self.tmp()
            return b + bi + [(x, '%s %s %s' % ('py_get' if ty == 'list' else 'dq_get', t, ti))], x, 'val', False
        if isinstance(e, ast.ListComp): return self.comp(e, env)
        if isinstance(e, ast.Call): return self.call(e, env)
        fail(e, 'unsupported expression %s' % type(e).__name__)

    def call(self, e, env):
        f = e.func
        if isinstance(f, ast.Attribute) and isinstance(f.value, ast.Name) and f.value.id not in env:
            key = (f.value.id, f.attr)
            if key == ('collections', 'deque'):
                if e.args or len(e.keywords) != 1 or e.keywords[0].arg != 'maxlen': fail(e, 'deque(...) without exactly maxlen=')
                b, t, ty, _ = self.expr(e.keywords[0].value, env)
                if ty != 'int': fail(e, 'maxlen of type %s' % ty)
                x = self.tmp()
                return b + [(x, 'dq_new %s' % t)], x, 'deque', True
            if e.keywords: fail(e, 'keyword arguments')
            args = [self.expr(a, env) for a in e.args]
            b = sum((a[0] for a in args), [])
            if any(a[2] != 'val' for a in args): fail(e, '%s.%s on non-float' % key)
            if len(args) == 1 and key in FUN1: return b, '(a1 AR %s %s)' % (FUN1[key], args[0][1]), 'val', False
            if len(args) == 2 and key in FUN2: return b, '(a2 AR %s %s %s)' % (FUN2[key], args[0][1], args[1][1]), 'val', False
            fail(e, 'unknown function %s.%s/%d' % (key[0], key[1], len(args)))
        if not isinstance(f, ast.Name) or f.id in env or e.keywords: fail(e, 'unsupported call')
        if f.id == 'map':       # map(min|max, zip(a, b))
            if len(e.args) == 2 and isinstance(e.args[0], ast.Name) and e.args[0].id in ('min', 'max') and e.args[0].id not in env:
                b, t, ty, _ = self.expr(e.args[1], env)
                if ty == 'plist':
                    return b, '(map (fun p => py_%s2 (fst p) (snd p)) %s)' % (e.args[0].id, t), 'list', True
            fail(e, 'map(...) other than map(min|max, zip(..))')
        args = [self.expr(a, env) for a in e.args]
        b, tys = sum((a[0] for a in args), []), [a[2] for a in args]
        if f.id == 'len' and tys == ['list']: return b, '(py_len %s)' % args[0][1], 'int', False
        if f.id == 'abs' and tys == ['val']: return b, '(a1 AR Abs %s)' % args[0][1], 'val', False
        if f.id in ('min', 'max') and tys == ['val', 'val']: return b, '(py_%s2 %s %s)' % (f.id, args[0][1], args[1][1]), 'val', False
        if f.id in ('min', 'max') and tys == ['list']:
            x = self.tmp()
            return b + [(x, 'py_%s_list %s' % (f.id, args[0][1]))], x, 'val', False
        if f.id == 'zip' and tys == ['list', 'list']: return b, '(combine %s %s)' % (args[0][1], args[1][1]), 'plist', True
        if f.id == 'list' and tys == ['list']: return b, args[0][1], 'list', True
        fail(e, 'unsupported call %s(%s)' % (f.id, ', '.join(tys)))

    def iterable(self, it, target, env, mutated=()):
        """(binds, term of type list X, env extension {name: Var}, lambda binder text, let-lines for tuple targets)"""
        def tname(t):
            if not isinstance(t, ast.Name): fail(t, 'loop target must be a name')
            if t.id in env: fail(t, 'loop target %s shadows an existing variable' % t.id)
            return t.id
        if isinstance(it, ast.Call) and is_name(it.func, 'range') and 'range' not in env and not it.keywords and 1 <= len(it.args) <= 3:
            args = [self.expr(a, env) for a in it.args]
            if any(a[2] != 'int' for a in args): fail(it, 'range of non-ints')
            b = sum((a[0] for a in args), [])
            ts = [a[1] for a in args]
            if len(ts) == 1: term = '(py_range 0 %s)' % ts[0]
            elif len(ts) == 2: term = '(py_range %s %s)' % (ts[0], ts[1])
            else:
                st = it.args[2]
                lit = isinstance(st, ast.Constant) or (isinstance(st, ast.UnaryOp) and isinstance(st.operand, ast.Constant))
                if not lit or ts[2] in ('0', '(- 0)'): fail(it, 'range step must be a non-zero literal')
                term = '(py_range3 %s %s %s)' % tuple(ts)
            n = tname(target)
            return b, term, {n: Var('int')}, self.nm(n), []
        if isinstance(it, ast.Call) and is_name(it.func, 'zip') and 'zip' not in env:
            b, t, ty, _ = self.expr(it, env)
            if not (isinstance(target, ast.Tuple) and len(target.elts) == 2): fail(it, 'zip needs a 2-tuple target')
            n1, n2 = tname(target.elts[0]), tname(target.elts[1])
            if n1 == n2: fail(it, 'same name twice')
            p = self.tmp()
            return b, t, {n1: Var('val'), n2: Var('val')}, p, ['let %s := fst %s in' % (self.nm(n1), p), 'let %s := snd %s in' % (self.nm(n2), p)]
        rev = isinstance(it, ast.Call) and is_name(it.func, 'reversed') and 'reversed' not in env and len(it.args) == 1 and not it.keywords
        src = it.args[0] if rev else it
        if isinstance(src, ast.Name):
            if src.id in mutated: fail(it, 'the loop changes the list it iterates over')
            v = self.look(src, env)
            if v.ty != 'list': fail(it, 'iteration over %s' % v.ty)
            n = tname(target)
            return [], '(rev %s)' % self.nm(src.id) if rev else self.nm(src.id), {n: Var('val')}, self.nm(n), []
        fail(it, 'unsupported iterable')

    def comp(self, e, env):
        if len(e.generators) != 1 or e.generators[0].ifs or e.generators[0].is_async: fail(e, 'comprehension shape')
        g = e.generators[0]
        b, it, ext, binder, lets = self.iterable(g.iter, g.target, env)
        env2 = dict(env); env2.update(ext)
        be, te, ye, _ = self.expr(e.elt, env2)
        if ye != 'val': fail(e, 'comprehension of %s' % ye)
        pre = ' '.join(lets) + (' ' if lets else '')
        if not be: return b, '(map (fun %s => %s%s) %s)' % (binder, pre, te, it), 'list', True
        x = self.tmp()
        body = pre + ' '.join('%s <- %s ;;' % bt for bt in be) + ' Some %s' % te
        return b + [(x, 'py_mapM (fun %s => %s) %s' % (binder, body, it))], x, 'list', True

    # ---------- statements, continuation style.  final(env) -> term ; returns list of lines
    def tup(self, names):
        if not names: return 'tt'
        return '(%s)' % ', '.join(self.nm(n) for n in names) if len(names) > 1 else self.nm(names[0])
    def pat(self, names):
        return "'" + self.tup(names) if len(names) != 1 else self.nm(names[0])

    def binds(self, b, ind): return [ind + '%s <- %s ;;' % bt for bt in b]

    def block(self, stmts, env, final, ind, top=False):
        if not stmts: return final(env, ind)
        s, rest = stmts[0], stmts[1:]
        env = dict(env)
        def cont(): return self.block(rest, env, final, ind, top)
        if isinstance(s, ast.Return):
            if not top or rest or s.value is None: fail(s, 'return must be the last statement of the method')
            b, t, ty, _ = self.expr(s.value, env)
            if ty != 'list': fail(s, 'returns %s' % ty)
            return self.binds(b, ind) + [ind + 'Some %s' % t]
        if isinstance(s, ast.Raise):
            if rest: fail(s, 'statements after raise')
            return [ind + 'None']
        if isinstance(s, ast.Assign):
            if len(s.targets) != 1 or not isinstance(s.targets[0], ast.Name): fail(s, 'unsupported assignment target')
            x = s.targets[0].id
            if x in ('self', 'node', 'args', 'kwargs'): fail(s, 'assignment to a parameter')
            if isinstance(s.value, ast.Name) and self.look(s.value, env).ty in ('list', 'deque'): fail(s, 'alias of a list')
            b, t, ty, fresh = self.expr(s.value, env)
            if ty in ('bool', 'plist'): fail(s, 'variable of type %s' % ty)
            if x in env and env[x].ty != ty: fail(s, '%s changes type %s -> %s' % (x, env[x].ty, ty))
            env[x] = Var(ty, fresh)
            return self.binds(b, ind) + [ind + 'let %s := %s in' % (self.nm(x), t)] + cont()
        if isinstance(s, ast.AugAssign):
            if not (isinstance(s.target, ast.Name) and isinstance(s.op, ast.Add)): fail(s, 'unsupported augmented assignment')
            v = self.look(s.target, env)
            b, t, ty, _ = self.expr(s.value, env)
            if not (v.ty == 'list' and v.fresh and ty == 'list'): fail(s, '+= on something else than a fresh list')
            x = self.nm(s.target.id)
            return self.binds(b, ind) + [ind + 'let %s := %s ++ %s in' % (x, x, t)] + cont()
        if isinstance(s, ast.Expr):
            c = s.value
            if not (isinstance(c, ast.Call) and isinstance(c.func, ast.Attribute) and isinstance(c.func.value, ast.Name) and not c.keywords):
                fail(s, 'unsupported expression statement')
            v, x, m = self.look(c.func.value, env), self.nm(c.func.value.id), c.func.attr
            if not v.fresh: fail(s, 'in-place %s on an object that may be shared' % m)
            args = [self.expr(a, env) for a in c.args]
            b = sum((a[0] for a in args), [])
            if m == 'append' and [a[2] for a in args] == ['val'] and v.ty == 'list': t = '%s ++ [%s]' % (x, args[0][1])
            elif m == 'append' and [a[2] for a in args] == ['val'] and v.ty == 'deque': t = 'dq_append %s %s' % (x, args[0][1])
            elif m == 'insert' and [a[2] for a in args] == ['int', 'val'] and args[0][1] == '0' and v.ty == 'list': t = '%s :: %s' % (args[1][1], x)
            elif m == 'reverse' and not args and v.ty == 'list': t = 'rev %s' % x
            else: fail(s, 'unsupported method %s.%s' % (v.ty, m))
            return self.binds(b, ind) + [ind + 'let %s := %s in' % (x, t)] + cont()
        if isinstance(s, ast.For):
            if s.orelse: fail(s, 'for/else')
            mut = assigned(s.body)
            b, it, ext, binder, lets = self.iterable(s.iter, s.target, env, mut)
            for n in ext:
                if n in mut: fail(s, 'loop variable %s is assigned in the body' % n)
            carried = sorted(n for n in mut if n in env)
            env2 = dict(env); env2.update(ext)
            def fin(e2, i2):
                for n in carried:
                    if e2[n].ty != env[n].ty: fail(s, '%s changes type in the loop' % n)
                return [i2 + 'Some %s' % self.tup(carried)]
            body = self.block(s.body, env2, fin, ind + '    ')
            for n in carried: env[n] = Var(env[n].ty, env[n].fresh)
            head = ind + '%s <- py_for %s (fun %s %s =>' % (self.pat(carried), it, binder, self.pat(carried))
            body[-1] += ') %s ;;' % self.tup(carried)
            return self.binds(b, ind) + [head] + [ind + '    ' + l for l in lets] + body + cont()
        if isinstance(s, ast.If):
            b, t, ty, _ = self.expr(s.test, env)
            if ty != 'bool' or b: fail(s, 'condition must be a pure Boolean')
            def raises(blk): return bool(blk) and isinstance(blk[-1], ast.Raise)
            def rset(blk):   # names certainly (re)bound on every non-raising path
                return assigned(blk)
            branches = [s.body, s.orelse]
            names = sorted(set().union(*[rset(bl) for bl in branches if not raises(bl)]))
            newenv = {}
            def fin(e2, i2):
                for n in names:
                    if n not in e2: fail(s, '%s is not bound on every path' % n)
                    if n in newenv and newenv[n].ty != e2[n].ty: fail(s, '%s has two types' % n)
                    newenv[n] = Var(e2[n].ty, e2[n].fresh and newenv.get(n, e2[n]).fresh)
                return [i2 + 'Some %s' % self.tup(names)]
            th = self.block(s.body, env, fin, ind + '    ')
            el = self.block(s.orelse, env, fin, ind + '    ')
            if len(s.orelse) == 1 and isinstance(s.orelse[0], ast.If): pass
            for n in names:
                if n in env and env[n].ty != newenv[n].ty: fail(s, '%s changes type' % n)
            env.update(newenv)
            out = [ind + '%s <- (if %s then' % (self.pat(names), t)] + th + [ind + '  else'] + el
            out[-1] += ') ;;'
            return out + cont()
        fail(s, 'unsupported statement %s' % type(s).__name__)

    def translate(self):
        fd, a = self.fd, self.fd.args
        if ([x.arg for x in a.args] != ['self', 'node'] or a.vararg is None or a.vararg.arg != 'args' or a.kwarg is None
                or a.kwarg.arg != 'kwargs' or a.posonlyargs or a.kwonlyargs or a.defaults or fd.decorator_list or fd.returns):
            fail(fd, 'signature of %s changed' % fd.name)
        body, env, lists, nats = list(fd.body), {}, [], []
        while body and isinstance(body[0], ast.Assign) and len(body[0].targets) == 1:
            s, t = body[0], body[0].targets[0]
            k = is_visit_child(s.value)
            if k is not None and isinstance(t, ast.Name):
                if k != len(lists) or t.id in env: fail(s, 'operands must be bound in the order children[0], children[1], to new names')
                lists.append(t.id); env[t.id] = Var('list', False)
            elif is_bounds(s.value):
                if not (isinstance(t, ast.Tuple) and len(t.elts) == 2 and all(isinstance(x, ast.Name) for x in t.elts)) or nats:
                    fail(s, 'expected `begin, end = self.time_unit_transformer(node)` once')
                nats = [x.id for x in t.elts]
                if nats[0] == nats[1] or any(n in env for n in nats): fail(s, 'bad names for the bounds')
                for n in nats: env[n] = Var('int')
            else: break
            body.pop(0)
        for n in ast.walk(ast.Module(body=body, type_ignores=[])):
            if is_visit_child(n) is not None or is_bounds(n): fail(n, 'operand / bounds binding after the prologue')
            if isinstance(n, ast.Name) and n.id in ('self', 'kwargs'): fail(n, 'use of %s in the body' % n.id)
        lines = self.block(body, env, lambda e, i: fail(fd, 'method can end without return'), '  ', top=True)
        ps = ['(%s : nat)' % self.nm(n) for n in nats]
        pre = ['  let %s := Z.of_nat %s in' % (self.nm(n), self.nm(n)) for n in nats]
        if self.uses_args0: ps.append('(args0 : nat)'); pre.append('  let args0 := Z.of_nat args0 in')
        if self.uses_op: ps.append('(op : cmp)')
        if self.uses_val: ps.append('(node_val : V)')
        ps += ['(%s : list V)' % self.nm(n) for n in lists]
        for n in ('op', 'node_val', 'args0'):
            if n in self.pynames: fail(fd, 'the name %s is used by the translator' % n)
        head = '(* %s:%d *)\nDefinition gen_%s %s : option (list V) :=' % (REL.split('/')[-1], fd.lineno, fd.name, ' '.join(ps))
        lines = pre + lines
        lines[-1] += '.'
        return head + '\n' + '\n'.join(lines) + '\n'

def main():
    global PATH
    argv = [a for a in sys.argv[1:] if not a.startswith('--')]
    if len(argv) == 1: root, out = '/repo', argv[0]
    elif len(argv) == 2: root, out = argv
    else: sys.exit('usage: py2coq_offline.py [REPO_ROOT] OUT.v')
    PATH = root.rstrip('/') + '/' + REL
    src = open(PATH).read()
    mod = ast.parse(src, PATH)
    imports, classes = set(), []
    for s in mod.body:
        if isinstance(s, ast.Import):
            for al in s.names:
                if al.asname: fail(s, 'import ... as')
                imports.add(('import', al.name, None))
        elif isinstance(s, ast.ImportFrom):
            for al in s.names:
                if al.asname or s.level: fail(s, 'from ... import ... as / relative import')
                imports.add(('from', s.module, al.name))
        elif isinstance(s, ast.ClassDef): classes.append(s)
        else: fail(s, 'unexpected module-level statement %s' % type(s).__name__)
    if imports != IMPORTS: fail(mod.body[0], 'the import list changed: %s' % sorted(imports ^ IMPORTS))
    if len(classes) != 1 or classes[0].name != CLASS or [getattr(b, 'id', None) for b in classes[0].bases] != [BASE] \
            or classes[0].keywords or classes[0].decorator_list:
        fail(classes[0] if classes else mod, 'expected exactly class %s(%s)' % (CLASS, BASE))
    seen, defs = [], []
    for s in classes[0].body:
        if not isinstance(s, ast.FunctionDef): fail(s, 'unexpected class-level statement %s' % type(s).__name__)
        if s.name in seen: fail(s, 'method %s defined twice' % s.name)
        seen.append(s.name)
        if s.name in OPAQUE:
            if '--print-digests' in sys.argv: print(s.name, digest(s))
            if digest(s) != OPAQUE[s.name]: fail(s, 'the untranslated method %s changed (digest %s)' % (s.name, digest(s)))
        elif s.name in TRANSLATED: defs.append((s.name, Method(s).translate()))
        else: fail(s, 'new method %s: not known to the translator' % s.name)
    missing = [m for m in list(OPAQUE) + TRANSLATED if m not in seen]
    if missing: fail(classes[0], 'methods removed (the inherited ones would run): %s' % missing)
    defs.sort(key=lambda d: TRANSLATED.index(d[0]))
    text = ('(* GENERATED by tools/py2coq_offline.py from %s — do not edit.\n'
            '   One definition per visitX method, built from the primitives of PySem.v; None = the Python code raises. *)\n'
            'From Coq Require Import List Bool Arith ZArith.\nFrom RV Require Import Val Syntax PySem.\nImport ListNotations.\n'
            'Local Open Scope Z_scope.\n\nSection OfflineGen.\nContext {VS : Val} (AR : Arith VS).\n\n' % REL)
    text += '\n'.join(d[1] for d in defs)
    text += '\nEnd OfflineGen.\n\nDefinition gen_method_count : nat := %d%%nat.\n' % len(defs)
    open(out, 'w').write(text)

if __name__ == '__main__':
    main()
