#!/venv/bin/python
# tools/counts.py — rewrites the numbers DESIGN.md quotes (fix commits, Coq files / kLOC, property theorems) from the trees.
import re, glob, subprocess
n = sum(1 for l in subprocess.check_output(['git', '-C', '/repo', 'log', '--format=%s']).decode().splitlines() if l.startswith('fix:'))
files = glob.glob('/verif/coq/theories/*.v') + glob.glob('/verif/coq/theories/Props/*.v')
loc = sum(len(open(f).read().splitlines()) for f in files)
nt = sum(len(re.findall(r'^Theorem ', open(f).read(), re.M)) for f in glob.glob('/verif/coq/theories/Props/*.v'))
p = '/verif/DESIGN.md'
s = open(p).read()
s = re.sub(r"\*\*Repaired in /repo \(\d+ `fix:` commits", "**Repaired in /repo (%d `fix:` commits" % n, s)
s = re.sub(r"### 3.2 Files \([0-9.]+ kLOC of Coq, \d+ files\)", "### 3.2 Files (%.1f kLOC of Coq, %d files)" % (loc / 1000.0, len(files)), s)
s = re.sub(r"property theorems only \(\d+ theorems\)", "property theorems only (%d theorems)" % nt, s)
open(p, 'w').write(s)
print(n, 'fix commits;', len(files), 'files;', loc, 'lines;', nt, 'theorems')
