#!/usr/bin/env python3
# tools/parservisitorgen_mutants.py — semantic mutations, harmless rewrites and fail-closed probes on scratch COPIES of the two parser visitor
# files (and of the grammar): the verdict of tools/py2coq_parservisitor.py and, when it translates, the first lemma of ElabGenCorrect.v that fails.
import os, shutil, subprocess, sys, tempfile, re
ROOT = os.path.dirname(os.path.dirname(os.path.abspath(__file__)))
REPO = os.environ.get('REPO', '/repo')
FILES = ['rtamt/syntax/ast/parser/ltl/parser_visitor.py', 'rtamt/syntax/ast/parser/stl/parser_visitor.py',
         'rtamt/antlr/grammar/tl/LtlParser.g4', 'rtamt/antlr/grammar/tl/StlParser.g4']
L, S, GL, GS = FILES
MUTANTS = [  # (name, kind, file, old, new)   kind: 'sem' must be caught (translator refuses or a lemma fails), 'ok' must pass
    ('unless-left-always->eventually', 'sem', L, "        left = Always(child1)\n        right = Until(child1, child2)\n        node = Disjunction(left, right)\n\n", "        left = Eventually(child1)\n        right = Until(child1, child2)\n        node = Disjunction(left, right)\n\n"),
    ('stl-unless-left-interval-keeps-begin', 'sem', S, 'Interval(0, interval.end, interval.begin_unit, interval.end_unit)', 'Interval(interval.begin, interval.end, interval.begin_unit, interval.end_unit)'),
    ('stl-unless-left-unit', 'sem', S, 'Interval(0, interval.end, interval.begin_unit, interval.end_unit)', 'Interval(0, interval.end, interval.end_unit, interval.end_unit)'),
    ('stl-unless-children-swapped', 'sem', S, 'right = TimedUntil(child1, child2, interval)', 'right = TimedUntil(child2, child1, interval)'),
    ('stl-unless-or->and', 'sem', S, "            right = TimedUntil(child1, child2, interval)\n            node = Disjunction(left, right)", "            right = TimedUntil(child1, child2, interval)\n            node = Conjunction(left, right)"),
    ('interval-check-dropped', 'sem', S, "        if begin * self.U[b_unit] > end * self.U[e_unit]:", "        if False and begin * self.U[b_unit] > end * self.U[e_unit]:"),
    ('interval-check-strict->weak', 'sem', S, "begin * self.U[b_unit] > end * self.U[e_unit]", "end * self.U[e_unit] < begin * self.U[b_unit] * 2"),
    ('interval-units-crossed', 'sem', S, "begin * self.U[b_unit] > end * self.U[e_unit]", "begin * self.U[e_unit] > end * self.U[b_unit]"),
    ('interval-default-unit-order', 'sem', S, "b_unit = begin_unit if begin_unit else (end_unit if end_unit else self.unit)", "b_unit = begin_unit if begin_unit else self.unit"),
    ('interval-ends-swapped', 'sem', S, "interval = Interval(begin, end, begin_unit, end_unit)", "interval = Interval(end, begin, begin_unit, end_unit)"),
    ('bound-constant-undeclared-accepted', 'sem', S, "        if const_name not in self.const_val_dict:\n            raise RTAMTException('Bound {} not declared'.format(const_name))\n", ""),
    ('always-timed-ignores-interval', 'sem', S, "            node = TimedAlways(child, interval)", "            node = Always(child)"),
    ('once->historically', 'sem', S, "            node = TimedOnce(child, interval)", "            node = TimedHistorically(child, interval)"),
    ('since-children-swapped', 'sem', S, "            node = Since(child1, child2)", "            node = Since(child2, child1)"),
    ('addsub-minus-is-addition', 'sem', L, "if opText == '+' or opText == '--':", "if opText == '+' or opText == '-':"),
    ('multdiv-swapped', 'sem', L, "if opText == '*':", "if opText == '/':"),
    ('predicate-leq->less', 'sem', L, "        elif input == '<=':\n            return self.comp_op_mod.StlComparisonOperator.LEQ", "        elif input == '<=':\n            return self.comp_op_mod.StlComparisonOperator.LESS"),
    ('implies-children-swapped', 'sem', L, "        node = Implies(child1, child2)", "        node = Implies(child2, child1)"),
    ('visit-order-right-first', 'sem', L, "        child1 = self.visit(ctx.expression(0))\n        child2 = self.visit(ctx.expression(1))\n        node = Conjunction(child1, child2)", "        child2 = self.visit(ctx.expression(1))\n        child1 = self.visit(ctx.expression(0))\n        node = Conjunction(child1, child2)"),
    ('id-subspec-before-constant', 'sem', L, "        if id in self.const_val_dict:\n            val = self.const_val_dict[id]\n            node = Constant(float(val))\n            self.phi_name_to_node_dict[node.name] = node\n        # Identifier is either an input variable or a sub-formula\n        elif id in self.var_subspec_dict:\n                node = self.var_subspec_dict[id]\n                self.phi_name_to_node_dict[node.name] = node\n                return node",
     "        if id in self.var_subspec_dict:\n                node = self.var_subspec_dict[id]\n                self.phi_name_to_node_dict[node.name] = node\n                return node\n        elif id in self.const_val_dict:\n            val = self.const_val_dict[id]\n            node = Constant(float(val))\n            self.phi_name_to_node_dict[node.name] = node"),
    ('id-variable-branch-changed', 'sem', L, "self.declare_var(id_head, 'float')", "self.declare_var(id_head, 'int')"),
    ('time_bound-changed', 'sem', S, "abs(d.adjusted()) > 1000", "abs(d.adjusted()) > 10"),
    ('literal-changed', 'sem', L, "                val = float('inf')\n        node = Constant(val)", "                val = float('-inf')\n        node = Constant(val)"),
    ('paren-not-identity', 'sem', L, "    def visitExprParen(self, ctx):\n        return self.visit(ctx.expression())", "    def visitExprParen(self, ctx):\n        return Neg(self.visit(ctx.expression()))"),
    ('new-method', 'sem', S, "    def get_sampling_period(self):", "    def visitExprNot(self, ctx):\n        return self.visit(ctx.expression())\n\n    def get_sampling_period(self):"),
    ('grammar-new-alternative', 'sem', GS, "    | Identifier                                                 #ExprId", "    | Identifier LPAREN expression RPAREN                        #ExprCall\n    | Identifier                                                 #ExprId"),
    ('grammar-labels-swapped', 'sem', GS, "AlwaysOperator ( interval )? expression                   #ExprAlways\n    | EventuallyOperator ( interval )? expression               #ExprEv", "AlwaysOperator ( interval )? expression                   #ExprEv\n    | EventuallyOperator ( interval )? expression               #ExprAlways"),
    ('grammar-interval-on-next', 'sem', GS, "NextOperator expression                                   #ExprNext", "NextOperator ( interval )? expression                     #ExprNext"),
    ('unsupported-construct', 'sem', L, "        node = Xor(child1, child2)", "        node = [Xor(child1, child2)][0]"),
    # harmless rewrites
    ('rename-locals', 'ok', S, "        child = self.visit(ctx.expression())\n        if ctx.interval() == None:\n            node = Always(child)\n        else:\n            interval = self.visit(ctx.interval())\n            node = TimedAlways(child, interval)",
     "        c = self.visit(ctx.expression())\n        if ctx.interval() == None:\n            node = Always(c)\n        else:\n            itv = self.visit(ctx.interval())\n            node = TimedAlways(c, itv)"),
    ('is-None', 'ok', S, "    def visitExprHist(self, ctx):\n        child = self.visit(ctx.expression())\n        if ctx.interval() == None:", "    def visitExprHist(self, ctx):\n        child = self.visit(ctx.expression())\n        if ctx.interval() is None:"),
    ('comments-and-docstring', 'ok', L, "    def visitExprAnd(self, ctx):\n", "    def visitExprAnd(self, ctx):\n        # the conjunction\n"),
    ('inline-temporaries', 'ok', L, "        left = Always(child1)\n        right = Until(child1, child2)\n        node = Disjunction(left, right)\n\n", "        node = Disjunction(Always(child1), Until(child1, child2))\n\n"),
    ('message-text', 'ok', S, "'Bound {} not declared'", "'The bound {} is not a declared constant'"),
    ('unit-else-swapped-test', 'ok', S, "        text = ctx.literal().getText().replace('_', '')\n        time_bound = self.time_bound(text)\n        if ctx.unit() is None:\n            unit = ''\n        else:\n            unit = ctx.unit().getText()",
     "        text = ctx.literal().getText().replace('_', '')\n        time_bound = self.time_bound(text)\n        if ctx.unit() == None:\n            unit = ''\n        else:\n            unit = ctx.unit().getText()"),
]


def run(cmd, cwd=None, timeout=900):
    p = subprocess.run(cmd, cwd=cwd, shell=True, stdout=subprocess.PIPE, stderr=subprocess.STDOUT, timeout=timeout, text=True)
    return p.returncode, p.stdout


def main():
    bad = 0
    only = sys.argv[1:]
    for name, kind, f, old, new in MUTANTS:
        if only and name not in only:
            continue
        tmp = tempfile.mkdtemp(prefix='pvmut_')
        try:
            for g in FILES:
                os.makedirs(os.path.dirname(os.path.join(tmp, 'repo', g)), exist_ok=True)
                shutil.copy(os.path.join(REPO, g), os.path.join(tmp, 'repo', g))
            p = os.path.join(tmp, 'repo', f)
            txt = open(p).read()
            if txt.count(old) != 1:
                print('%-40s %-4s MUTATION DOES NOT APPLY (%d occurrences)' % (name, kind, txt.count(old)))
                bad += 1
                continue
            open(p, 'w').write(txt.replace(old, new))
            os.makedirs(os.path.join(tmp, 'G'))
            rc, out = run('python3 %s/tools/py2coq_parservisitor.py %s/repo %s/G/ElabGen.v' % (ROOT, tmp, tmp))
            if rc != 0:
                verdict = 'translator refuses: ' + out.strip().split('\n')[-1][:150].replace(tmp + '/repo/', '')
                caught = True
            else:
                shutil.copy(os.path.join(ROOT, 'coq/theories/ElabGenCorrect.v'), os.path.join(tmp, 'G/ElabGenCorrect.v'))
                src = open(os.path.join(tmp, 'G/ElabGenCorrect.v')).read().replace('PyParse ElabGen.', 'PyParse. From G Require Import ElabGen.')
                open(os.path.join(tmp, 'G/ElabGenCorrect.v'), 'w').write(src)
                rc1, out1 = run('timeout 600 coqc -Q %s/coq/theories RV -Q . G ElabGen.v' % ROOT, cwd=os.path.join(tmp, 'G'))
                rc2, out2 = (1, out1) if rc1 else run('timeout 600 coqc -Q %s/coq/theories RV -Q . G ElabGenCorrect.v' % ROOT, cwd=os.path.join(tmp, 'G'))
                if rc1:
                    verdict, caught = 'generated file does not compile: ' + out1.strip().split('\n')[-1][:120], True
                elif rc2:
                    m = re.search(r'line (\d+)', out2)
                    ln = int(m.group(1)) if m else 0
                    names = [(i + 1, l) for i, l in enumerate(src.split('\n')) if re.match(r'\s*(Lemma|Theorem)\s', l)]
                    lem = [l.split()[1] for i, l in names if i <= ln]
                    verdict, caught = 'translated; proof fails at %s' % (lem[-1] if lem else 'line %d' % ln), True
                else:
                    verdict, caught = 'translated; all proofs pass', False
            okay = caught if kind == 'sem' else not caught
            bad += not okay
            print('%-40s %-4s %s%s' % (name, kind, verdict, '' if okay else '   <== UNEXPECTED'))
        finally:
            shutil.rmtree(tmp, ignore_errors=True)
    print('unexpected verdicts: %d' % bad)
    sys.exit(1 if bad else 0)


main()
