#!/usr/bin/env python3
# tools/py2coq_denseonlinevisitor.py [REPO_ROOT] OUT.v [DenseOnlineGen.v]
# FAIL-CLOSED translator of the visitors of the DENSE-time ONLINE interpreter  ->  coq/theories/DenseOnlineVisitorGen.v
# (sibling of tools/py2coq_onlinevisitor.py, whose statement translator `M` and clause builders are reused)
#
#   gen_dconstruct : node -> sdict dgop -> option (sdict dgop)      StlDenseTimeOnlineAstVisitor (stl/dense_time/online/ast_visitor.py):
#       which operation class is constructed for which node class, which node classes raise; one clause per node class, found through
#       the dispatch of StlAstVisitor.visit / LtlAstVisitor.visit and Python's method lookup
#   gen_dupdate    : vobj -> node -> sdict dgop -> sdict esig -> option (sdict dgop * sdict esig * esig)
#       AbstractOnlineUpdateVisitor.visitUnary / visitBinary / visitLeaf (abstract_online_interpreter.py) with the `visited` memo;
#       DenseTimeOnlineUpdateVisitor.visitConstant (abstract_dense_time_online_interpreter.py) inlined at its call site in visitLeaf
# plus the type `dgop` of operation objects (one constructor per class the construction visitor instantiates) and the dynamic dispatch
# of operator.update(..) on it (dgop_update0 / dgop_update1 / dgop_update2), which call the GENERATED gen_X_update of DenseOnlineGen.v
# (tools/py2coq_denseonline.py) at the stamps tz = Z + {+inf} (a constant is the signal [[0, c], [inf, c]]); signatures are read from that file.
# None = the Python code raises.  A mutable operation object lives in online_operator_dict only.
# Hand-modelled and PINNED by digest: what tools/py2coq_onlinevisitor.py pins of the shared files, StlDenseTimeOnlineAstVisitor.visit
# (self.ast.results[node], not modelled), DenseTimeOnlineUpdateVisitor.visitVariable (parameter vobj), VariableOperation (never updated),
# AbstractDenseTimeOnlineInterpreter.__init__ / update / reset (epilogue; dense reset() is set_ast again: there is no reset visitor).
# A method defined twice in the class body (visitNegate) is accepted only when both texts are identical.
import ast, os, re, sys
sys.path.insert(0, os.path.dirname(os.path.abspath(__file__)))
import py2coq_pastifier as P
import py2coq_onlinevisitor as OV

F_AOI = OV.F_AOI
F_AAV = OV.F_AAV
F_ADD = 'rtamt/semantics/abstract_dense_time_online_interpreter.py'
F_CON = 'rtamt/semantics/stl/dense_time/online/ast_visitor.py'
F_VAR = 'rtamt/semantics/stl/dense_time/online/variable_operation.py'
TOOL = 'py2coq_denseonlinevisitor'

def fail(node, msg, path=None):
    sys.stderr.write('%s:%s: %s: %s\n' % (path or OV.PATH, getattr(node, 'lineno', '?'), TOOL, msg))
    sys.exit(2)
OV.fail = fail
digest, parse, classes_of, imports_of, body_of = OV.digest, OV.parse, OV.classes_of, OV.imports_of, OV.body_of
PRINT = '--print-digests' in sys.argv

PINNED = {
    (F_AAV, 'AbstractAstVisitor', 'visitChildren'): OV.PINNED[(F_AAV, 'AbstractAstVisitor', 'visitChildren')],
    (F_AAV, 'AbstractAstVisitor', 'visitAst'): OV.PINNED[(F_AAV, 'AbstractAstVisitor', 'visitAst')],
    (F_AOI, 'AbstractOnlineUpdateVisitor', '__init__'): OV.PINNED[(F_AOI, 'AbstractOnlineUpdateVisitor', '__init__')],
    (F_AOI, 'AbstractOnlineUpdateVisitor', 'visitAst'): OV.PINNED[(F_AOI, 'AbstractOnlineUpdateVisitor', 'visitAst')],
    (F_AOI, 'AbstractOnlineUpdateVisitor', 'reuse'): OV.PINNED[(F_AOI, 'AbstractOnlineUpdateVisitor', 'reuse')],
    (F_AOI, 'AbstractOnlineUpdateVisitor', 'visitSpec'): OV.PINNED[(F_AOI, 'AbstractOnlineUpdateVisitor', 'visitSpec')],
    (F_AOI, 'AbstractOnlineInterpreter', 'set_ast'): OV.PINNED[(F_AOI, 'AbstractOnlineInterpreter', 'set_ast')],
    (F_ADD, 'DenseTimeOnlineUpdateVisitor', 'visitVariable'): '8d8fbbfe3fd7',
    (F_ADD, 'AbstractDenseTimeOnlineInterpreter', '__init__'): '2023df32f101',
    (F_ADD, 'AbstractDenseTimeOnlineInterpreter', 'update'): 'bef96c053502',
    (F_ADD, 'AbstractDenseTimeOnlineInterpreter', 'reset'): 'da0235a0972d',
    (F_CON, 'StlDenseTimeOnlineAstVisitor', 'visit'): '9649341e8b50',
    (F_VAR, 'module', 'VariableOperation'): '8782415663a3',
}
def pin(fd, key, path):
    d = digest(fd)
    if PRINT: print(key, d); return
    if d != PINNED[key]: fail(fd, 'the untranslated (hand-modelled) %s.%s changed (digest %s)' % (key[1], key[2], d), path)

def methods_dup(cd, path):
    """methods of a class body; Python keeps the LAST definition of a name: a repeated definition is accepted when the texts are identical"""
    out = {}
    for s in cd.body:
        if isinstance(s, ast.Expr) and isinstance(s.value, ast.Constant) and isinstance(s.value.value, str): continue
        if not isinstance(s, ast.FunctionDef): fail(s, 'unexpected class-level statement %s' % type(s).__name__, path)
        if s.name in out and ast.unparse(out[s.name]) != ast.unparse(s): fail(s, 'method %s defined twice with different bodies' % s.name, path)
        out[s.name] = s
    return out

# ---------------------------------------------------------------- DenseOnlineGen.v: the generated operation classes
INST = {'tadd': 'tadd', 'tzero': '(T 0)', 'tinf': 'TInf'}
HEAD = r'\{VS : Val\} \(AR : Arith VS\) \(T : Type\) \(tltb teqb : T -> T -> bool\)'
def read_densegen(path):
    if not os.path.exists(path): fail(None, 'DenseOnlineGen.v not found', path)
    txt = open(path).read()
    cls = {}
    for f, c in re.findall(r'\(\* -+ (\S+) : class (\w+) -+ \*\)', txt):
        if not c.endswith('Operation'): fail(None, 'class name %s in DenseOnlineGen.v' % c, path)
        if c in cls:
            if '/iastl/' in f: continue          # the IA-STL override of PredicateOperation (IAPredicate_* in DenseOnlineGen.v): not used by this visitor
            fail(None, 'class %s twice in DenseOnlineGen.v' % c, path)
        cls[c] = f
    defs = {}
    for m in re.finditer(r'^Definition gen_(\w+)_update %s((?: +\([^)]*\))*) *: option \((\w+)_state T \* psig T\) :=' % HEAD, txt, re.M):
        short, extra, samples = m.group(1), [], 0
        if m.group(3) != short: fail(None, 'result type of gen_%s_update' % short, path)
        for names, ty in re.findall(r'\(([\w ]+) : ([^)]*)\)', m.group(2)):
            for n in names.split():
                if n in INST and not samples and ty in ('T', 'T -> Z -> T'): extra.append(INST[n])
                elif n == 'st' and ty == short + '_state T': pass
                elif ty == 'psig T': samples += 1
                else: fail(None, 'parameter %s : %s of gen_%s_update' % (n, ty, short), path)
        defs[(short, 'update')] = dict(extra=extra, arity=samples)
    for m in re.finditer(r'^Definition (\w+)_init \{VS : Val\} \(T : Type\)((?: +\([^)]*\))*) *: (\w+)_state T :=', txt, re.M):
        short = m.group(1)
        if m.group(3) != short: fail(None, 'result type of %s_init' % short, path)
        defs[(short, 'init')] = [(n, ty) for n, ty in re.findall(r'\((\w+) : ([^)]*)\)', m.group(2))]
    return cls, defs

class DenseOps:
    """the operation classes the construction visitor instantiates, in order of first use (interface of OV.Ops as far as OV.M uses it)"""
    def __init__(self, root, gen_path, imports):
        self.root, self.imports = root, imports
        self.cls_file, self.gdefs = read_densegen(gen_path)
        self.used, self.defs = [], {}
    def short(self, c): return c[:-len('Operation')]
    def use(self, c, node, path):
        if c in self.used: return
        mod = self.imports.get(c)
        if mod is None: fail(node, 'operation class %s is not imported' % c, path)
        if c == 'VariableOperation':
            if mod != F_VAR[:-3].replace('/', '.'): fail(node, '%s is imported from %s' % (c, mod), path)
            m, p = parse(self.root, F_VAR)
            pin(m, (F_VAR, 'module', 'VariableOperation'), p)
            self.defs[(c, 'init')] = dict(params=[], ret=None)
        else:
            if c not in self.cls_file: fail(node, 'operation class %s is neither in DenseOnlineGen.v nor the pinned VariableOperation' % c, path)
            if mod != self.cls_file[c][:-3].replace('/', '.'): fail(node, '%s is imported from %s, DenseOnlineGen.v has it from %s' % (c, mod, self.cls_file[c]), path)
            s = self.short(c)
            for k in ('init', 'update'):
                if (s, k) not in self.gdefs: fail(node, 'DenseOnlineGen.v has no %s of %s with the expected signature' % (k, s), path)
            self.defs[(c, 'init')] = dict(params=self.gdefs[(s, 'init')], ret=c + '_state')
        self.used.append(c)
    def stateful(self, c): return c != 'VariableOperation'
    def fn(self, c, m):
        assert m == 'init'
        return '%s_init tz' % self.short(c)
    def text(self):
        L = ['(* an operation object: one constructor per class that the construction visitor instantiates; the stamps are tz = Z + {+inf} *)', 'Inductive dgop :=']
        for c in self.used:
            L.append('| Op_%s%s' % (c, ' (s : %s_state tz)' % self.short(c) if self.stateful(c) else ''))
        L[-1] += '.'
        for n in (0, 1, 2):
            xs = ' '.join('x%d' % i for i in range(1, n + 1))
            L.append('(* operator.update(%s): dispatch on the class of the object; TypeError (None) when update() of that class takes another number of samples'
                     % ', '.join('sample%d' % i for i in range(1, n + 1)))
            L.append('   (VariableOperation.update, whatever it is given, returns self.val = None, not a sample list: the update visitor never calls it; pinned) *)')
            L.append('Definition dgop_update%d (o : dgop) %s : option (dgop * esig) :=' % (n, ' '.join('(x%d : esig)' % i for i in range(1, n + 1))))
            L.append('  match o with')
            for c in self.used:
                if not self.stateful(c): continue
                d = self.gdefs[(self.short(c), 'update')]
                if d['arity'] != n: continue
                call = ' '.join(['gen_%s_update AR tz tlt teq' % self.short(c)] + d['extra'] + ['s'] + ([xs] if xs else []))
                L.append("  | Op_%s s => '(s', r) <- %s ;; Some (Op_%s s', r)" % (c, call, c))
            L.append('  | _ => None')
            L.append('  end.')
        return '\n'.join(L) + '\n'

# ---------------------------------------------------------------- method translation: OV.M plus the dense-time differences
VC_BODY = ['if node.name in self.visited:\n    return self.visited[node.name]',
           'sample_return = online_operator_dict[node.name].update()',
           'return sample_return']
class DM(OV.M):
    def block(self, stmts, env, ind):
        if stmts:
            s, rest = stmts[0], stmts[1:]
            src = ast.unparse(s)
            # self.online_operator_dict[node.name] = ConstantOperation(node.val)
            if (self.kind == 'construct' and self.cls == 'Constant' and isinstance(s, ast.Assign) and len(s.targets) == 1
                    and isinstance(s.targets[0], ast.Subscript) and OV.is_self_attr(s.targets[0].value, 'online_operator_dict')
                    and isinstance(s.value, ast.Call) and isinstance(s.value.func, ast.Name) and not s.value.keywords
                    and len(s.value.args) == 1 and OV.is_attr(s.value.args[0], 'node', 'val')):
                k = self.key(s.targets[0].slice)
                c = s.value.func.id
                self.ops.use(c, s, self.path)
                if not self.ops.stateful(c) or [ty for _, ty in self.ops.defs[(c, 'init')]['params']] != ['V']: self.fail(s, '%s(node.val): signature' % c)
                return [ind + 'let ood := sd_set ood %s (Op_%s (%s (cval nval))) in' % (k, c, self.ops.fn(c, 'init'))] + self.block(rest, dict(env), ind)
            # sample_return = self.visitConstant(node, online_operator_dict, var_object_dict): DenseTimeOnlineUpdateVisitor.visitConstant, inlined
            if (self.kind == 'update' and self.cls == 'Constant' and isinstance(s, ast.Assign) and len(s.targets) == 1 and isinstance(s.targets[0], ast.Name)
                    and ast.unparse(s.value) == 'self.visitConstant(node, online_operator_dict, var_object_dict)'):
                fd = self.ctx['visitConstant']
                if [a.arg for a in fd.args.args] != ['self', 'node', 'online_operator_dict', 'var_object_dict'] or fd.args.vararg or fd.args.kwarg or fd.args.defaults or fd.decorator_list:
                    fail(fd, 'signature of visitConstant changed', self.ctx['visitConstant_path'])
                b = [ast.unparse(x) for x in body_of(fd)]
                if b != VC_BODY: fail(fd, 'visitConstant: unsupported statements (supported: the memo test, online_operator_dict[node.name].update(), return)', self.ctx['visitConstant_path'])
                x = s.targets[0].id
                env = dict(env); env[x] = 'V'
                return [ind + "'(ood, %s) <- (if sd_mem visited (nname node) then (t_memo <- sd_get visited (nname node) ;; Some (ood, t_memo))" % self.v(x),
                        ind + "    else (t_op <- sd_get ood (nname node) ;; '(t_op, t_r) <- dgop_update0 t_op ;; Some (sd_set ood (nname node) t_op, t_r))) ;; (* visitConstant %s:%d *)"
                        % (os.path.basename(self.ctx['visitConstant_path']), fd.lineno)] + self.block(rest, env, ind)
        return OV.M.block(self, stmts, env, ind)

def rename(lines):
    out = []
    for l in lines:
        l = re.sub(r'\bgop_update(\d)\b', r'dgop_update\1', l)
        l = re.sub(r'\bgen_construct\b', 'gen_dconstruct', l)
        l = re.sub(r'\bgen_update\b', 'gen_dupdate', l)
        l = re.sub(r'\bgop\b', 'dgop', l)
        out.append(l)
    return out

PRELUDE = '''(* GENERATED by tools/py2coq_denseonlinevisitor.py from rtamt/semantics/abstract_online_interpreter.py,
   rtamt/semantics/abstract_dense_time_online_interpreter.py and rtamt/semantics/stl/dense_time/online/ast_visitor.py — do not edit.
   The construction visitor and the update visitor (with the `visited` memo) of the dense-time online interpreter over the nodes of
   NodeName.v; the operation objects are the generated classes of DenseOnlineGen.v at the stamps tz.  None = Python raises. *)
From Coq Require Import List Bool ZArith String.
From RV Require Import Val Syntax Units NodeName Dense DenseMerge PyDense DenseOnlineMon DenseOnlineGen.
Import ListNotations.

(* ---- fixed prelude ---- *)
Notation "x <- e ;; k" := (match e with Some x => k | None => None end)
  (at level 61, e at next level, right associativity, only parsing).
Notation "' p <- e ;; k" := (match e with Some p => k | None => None end)
  (at level 61, p pattern, e at next level, right associativity, only parsing).
(* a dict with str keys: d[k] (KeyError: None), k in d, d[k] = v, dict() *)
Definition sdict (A : Type) : Type := string -> option A.
Definition sd_empty {A : Type} : sdict A := fun _ => None.
Definition sd_get {A : Type} (d : sdict A) (k : string) : option A := d k.
Definition sd_mem {A : Type} (d : sdict A) (k : string) : bool := match d k with Some _ => true | None => false end.
Definition sd_set {A : Type} (d : sdict A) (k : string) (v : A) : sdict A := fun k' => if String.eqb k' k then Some v else d k'.
(* out[len(out) - 1] *)
Definition last_item {A : Type} (l : list A) : option A := match l with [] => None | _ => List.nth_error l (List.length l - 1) end.

Section DenseOnlineVisitorGen.
Context {VS : Val} (AR : Arith VS).
Variable tut : bound -> bound -> option (Z * Z).   (* self.time_unit_transformer(node): (begin, end), None when it raises *)
Variable cval : string -> V.                       (* node.val of a Constant whose text is str(val) *)

'''

EPILOGUE = '''
(* ---- the interpreter methods around the visitors (hand-written here, pinned by digest in the translator) ----
   AbstractAstVisitor.visitAst: out = []; for spec in ast.specs: out.append(self.visit(spec, ..)); return out *)
(* AbstractOnlineInterpreter.set_ast: self.online_operator_dict = dict(); self.visitAst(self.ast)
   (AbstractDenseTimeOnlineInterpreter.reset: self.set_ast(self.ast) again) *)
Fixpoint gen_dconstruct_forest (specs : list NodeName.node) (ood : sdict dgop) : option (sdict dgop) :=
  match specs with
  | [] => Some ood
  | spec :: rest => ood <- gen_dconstruct spec ood ;; gen_dconstruct_forest rest ood
  end.
Definition gen_dset_ast (specs : list NodeName.node) : option (sdict dgop) := gen_dconstruct_forest specs sd_empty.
(* AbstractOnlineUpdateVisitor.visitAst: self.visited = dict(); then the loop of the base class *)
Fixpoint gen_dupdate_forest (vobj : string -> string -> option esig) (specs : list NodeName.node) (ood : sdict dgop) (visited : sdict esig)
  : option (sdict dgop * list esig) :=
  match specs with
  | [] => Some (ood, [])
  | spec :: rest =>
      '(ood, visited, v) <- gen_dupdate vobj spec ood visited ;;
      '(ood, vs) <- gen_dupdate_forest vobj rest ood visited ;;
      Some (ood, v :: vs)
  end.
(* AbstractDenseTimeOnlineInterpreter.update: rob = self.updateVisitor.visitAst(..); rob = rob[len(rob) - 1]; .. return rob
   (the bookkeeping of the variable objects and of the output variable is not modelled here) *)
Definition gen_dupdate_step (vobj : string -> string -> option esig) (specs : list NodeName.node) (ood : sdict dgop) : option (sdict dgop * esig) :=
  '(ood, rob) <- gen_dupdate_forest vobj specs ood sd_empty ;;
  rob <- last_item rob ;;
  Some (ood, rob).
(* len successive calls of update(); the k-th call reads the variable objects vobjs k *)
Fixpoint gen_drun (vobjs : nat -> string -> string -> option esig) (specs : list NodeName.node) (ood : sdict dgop) (k0 len : nat)
  : option (sdict dgop * list esig) :=
  match len with
  | O => Some (ood, [])
  | S len' =>
      '(ood, v) <- gen_dupdate_step (vobjs k0) specs ood ;;
      '(ood, vs) <- gen_drun vobjs specs ood (S k0) len' ;;
      Some (ood, v :: vs)
  end.

End DenseOnlineVisitorGen.
'''

def main():
    argv = [a for a in sys.argv[1:] if not a.startswith('--')]
    if len(argv) == 1: root, out = '/repo', argv[0]
    elif len(argv) in (2, 3): root, out = argv[0], argv[1]
    else: sys.exit('usage: py2coq_denseonlinevisitor.py [REPO_ROOT] OUT.v [DenseOnlineGen.v]')
    gen_path = argv[2] if len(argv) == 3 else os.path.join(os.path.dirname(os.path.abspath(out)), 'DenseOnlineGen.v')
    if not os.path.exists(gen_path): gen_path = os.path.join(os.path.dirname(os.path.dirname(os.path.abspath(__file__))), 'coq/theories/DenseOnlineGen.v')
    tables = P.dispatch_tables(root)          # class -> visitX of LtlAstVisitor / StlAstVisitor; checks the node classes and their bases

    # ---- the generic dispatch of AbstractAstVisitor.visit
    m_aav, p_aav = parse(root, F_AAV)
    c_aav = classes_of(m_aav, p_aav)
    if list(c_aav) != ['AbstractAstVisitor'] or [ast.unparse(b) for b in c_aav['AbstractAstVisitor'].bases] != ['object']:
        fail(m_aav.body[0], 'expected exactly class AbstractAstVisitor(object)', p_aav)
    me_aav = OV.methods_of(c_aav['AbstractAstVisitor'], p_aav)
    P.PATH = p_aav
    generic = P.isinstance_chain(me_aav['visit'], "raise RTAMTException('{} is not RTAMT AST node'.format(node.__class__.__name__))")
    if generic != [('BinaryNode', 'visitBinary'), ('UnaryNode', 'visitUnary'), ('LeafNode', 'visitLeaf')]: fail(me_aav['visit'], 'dispatch of AbstractAstVisitor.visit changed: %s' % generic, p_aav)
    imp = imports_of(m_aav, p_aav)
    for b in ('BinaryNode', 'UnaryNode', 'LeafNode'):
        if imp.get(b) != 'rtamt.syntax.node.' + {'BinaryNode': 'binary_node', 'UnaryNode': 'unary_node', 'LeafNode': 'leaf_node'}[b]: fail(m_aav.body[0], '%s is imported from %s' % (b, imp.get(b)), p_aav)
    base_method = {'NVar': 'visitLeaf', 'NConst': 'visitLeaf', 'NUn': 'visitUnary', 'NTUn': 'visitUnary', 'NFn2': 'visitBinary', 'NBin': 'visitBinary', 'NTBin': 'visitBinary'}
    for k in ('visitChildren', 'visitAst'): pin(me_aav[k], (F_AAV, 'AbstractAstVisitor', k), p_aav)
    for k in me_aav:
        if k not in ('visitChildren', 'visitAst', 'visit', 'visitSpec', 'visitBinary', 'visitUnary', 'visitLeaf'): fail(me_aav[k], 'new method AbstractAstVisitor.%s' % k, p_aav)

    # ---- the shared update visitor
    m_aoi, p_aoi = parse(root, F_AOI)
    c_aoi = classes_of(m_aoi, p_aoi)
    i_aoi = imports_of(m_aoi, p_aoi)
    for c in ('AbstractOnlineInterpreter', 'AbstractOnlineUpdateVisitor'):
        if c not in c_aoi: fail(m_aoi.body[0], 'class %s removed' % c, p_aoi)
    if [ast.unparse(b) for b in c_aoi['AbstractOnlineUpdateVisitor'].bases] != ['AbstractAstVisitor']: fail(c_aoi['AbstractOnlineUpdateVisitor'], 'bases changed', p_aoi)
    if i_aoi.get('AbstractAstVisitor') != 'rtamt.syntax.ast.visitor.abstract_ast_visitor': fail(m_aoi.body[0], 'AbstractAstVisitor is imported from %s' % i_aoi.get('AbstractAstVisitor'), p_aoi)
    me_upd = OV.methods_of(c_aoi['AbstractOnlineUpdateVisitor'], p_aoi)
    me_int = OV.methods_of(c_aoi['AbstractOnlineInterpreter'], p_aoi)
    if set(me_upd) != {'__init__', 'visitAst', 'reuse', 'visitSpec', 'visitBinary', 'visitUnary', 'visitLeaf'}: fail(c_aoi['AbstractOnlineUpdateVisitor'], 'methods of the update visitor changed: %s' % sorted(me_upd), p_aoi)
    for k in ('__init__', 'visitAst', 'reuse', 'visitSpec'): pin(me_upd[k], (F_AOI, 'AbstractOnlineUpdateVisitor', k), p_aoi)
    if 'set_ast' not in me_int: fail(c_aoi['AbstractOnlineInterpreter'], 'AbstractOnlineInterpreter.set_ast removed', p_aoi)
    pin(me_int['set_ast'], (F_AOI, 'AbstractOnlineInterpreter', 'set_ast'), p_aoi)

    # ---- the dense-time update visitor and interpreter
    m_add, p_add = parse(root, F_ADD)
    c_add = classes_of(m_add, p_add)
    i_add = imports_of(m_add, p_add)
    for c in ('AbstractDenseTimeOnlineInterpreter', 'DenseTimeOnlineUpdateVisitor'):
        if c not in c_add: fail(m_add.body[0], 'class %s removed' % c, p_add)
    if [ast.unparse(b) for b in c_add['DenseTimeOnlineUpdateVisitor'].bases] != ['AbstractOnlineUpdateVisitor']: fail(c_add['DenseTimeOnlineUpdateVisitor'], 'bases changed', p_add)
    for n in ('AbstractOnlineUpdateVisitor', 'AbstractOnlineInterpreter'):
        if i_add.get(n) != 'rtamt.semantics.abstract_online_interpreter': fail(m_add.body[0], '%s is imported from %s' % (n, i_add.get(n)), p_add)
    me_dupd = OV.methods_of(c_add['DenseTimeOnlineUpdateVisitor'], p_add)
    if set(me_dupd) != {'visitVariable', 'visitConstant'}: fail(c_add['DenseTimeOnlineUpdateVisitor'], 'methods changed: %s' % sorted(me_dupd), p_add)
    pin(me_dupd['visitVariable'], (F_ADD, 'DenseTimeOnlineUpdateVisitor', 'visitVariable'), p_add)
    me_dint = OV.methods_of_loose(c_add['AbstractDenseTimeOnlineInterpreter'])
    for k in ('__init__', 'update', 'reset'):
        if k not in me_dint: fail(c_add['AbstractDenseTimeOnlineInterpreter'], 'method %s removed' % k, p_add)
        pin(me_dint[k], (F_ADD, 'AbstractDenseTimeOnlineInterpreter', k), p_add)
    if 'set_ast' in me_dint: fail(me_dint['set_ast'], 'AbstractDenseTimeOnlineInterpreter overrides set_ast', p_add)

    # ---- the construction visitor
    m_con, p_con = parse(root, F_CON)
    c_con = classes_of(m_con, p_con)
    i_con = imports_of(m_con, p_con)
    CN = 'StlDenseTimeOnlineAstVisitor'
    if list(c_con) != [CN] or [ast.unparse(b) for b in c_con[CN].bases] != ['StlAstVisitor']: fail(m_con.body[0], 'expected exactly class %s(StlAstVisitor)' % CN, p_con)
    if i_con.get('StlAstVisitor') != 'rtamt.syntax.ast.visitor.stl.ast_visitor' or i_con.get('RTAMTException') != 'rtamt.exception.exception':
        fail(m_con.body[0], 'StlAstVisitor / RTAMTException imported from elsewhere', p_con)
    me_con = methods_dup(c_con[CN], p_con)
    if 'visit' not in me_con: fail(c_con[CN], '%s.visit removed' % CN, p_con)
    pin(me_con.pop('visit'), (F_CON, CN, 'visit'), p_con)
    table = tables['stl']
    for k in me_con:
        if k not in table.values(): fail(me_con[k], 'new method %s.%s: not reached by the dispatch' % (CN, k), p_con)
    base_methods = []
    for rel, cname in ((P.V_STL, 'StlAstVisitor'), (P.V_LTL, 'LtlAstVisitor')):
        mb, pb = parse(root, rel)
        base_methods.append((P.methods_of(classes_of(mb, pb)[cname]), pb, cname))
    ops = DenseOps(root, gen_path, i_con)
    ncl = [0, 0]
    def con_clause(ctor, by, tag='-'):
        if ctor in ('NVar', 'NConst'): tag = None
        elif tag == '-': return None
        cls = by[tag]
        mname = table[cls]
        if mname in me_con: fd, path, owner = me_con[mname], p_con, CN
        else:
            for ms, pb, cname in base_methods:
                if mname in ms: fd, path, owner = ms[mname], pb, cname; break
            else: fail(None, 'no class defines %s' % mname, p_con)
        ncl[0] += 1
        return ['      (* %s.%s %s:%d *)' % (owner, fd.name, os.path.basename(path), fd.lineno)] + rename(DM(fd, cls, 'construct', path, ops).translate())
    t_con = OV.fixpoint('gen_dconstruct', '(node : NodeName.node) (ood : sdict dgop)', 'sdict dgop', con_clause)
    ctx = dict(imports=i_aoi, visitConstant=me_dupd['visitConstant'], visitConstant_path=p_add)
    def upd_clause(ctor, by, tag='-'):
        fd = me_upd[base_method[ctor]]
        cls = by[None] if ctor in ('NVar', 'NConst') else by[P.ORDER[ctor][0]]
        ncl[1] += 1
        return ['      (* %s %s:%d *)' % (fd.name, os.path.basename(p_aoi), fd.lineno)] + rename(DM(fd, cls, 'update', p_aoi, ops, ctx).translate())
    t_upd = OV.fixpoint_flat('gen_dupdate', '(vobj : string -> string -> option esig) (node : NodeName.node) (ood : sdict dgop) (visited : sdict esig)',
                             'sdict dgop * sdict esig * esig', upd_clause)
    text = PRELUDE + ops.text() + '\n(* ---- class StlDenseTimeOnlineAstVisitor(StlAstVisitor): the construction of online_operator_dict ---- *)\n' + t_con
    text += '\n(* ---- class AbstractOnlineUpdateVisitor(AbstractAstVisitor) / DenseTimeOnlineUpdateVisitor: one update ---- *)\n' + t_upd + EPILOGUE
    text += '\nDefinition gen_denseonlinevisitor_clause_count : nat := %d%%nat.\n' % sum(ncl)
    if not PRINT: open(out, 'w').write(text)

if __name__ == '__main__':
    main()
