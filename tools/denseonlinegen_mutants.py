#!/usr/bin/env python3
# tools/denseonlinegen_mutants.py [--diff] — does the generated-model tie of the dense-time ONLINE operation classes notice changes?
# Each change is applied to a scratch COPY of the class files (never to the repository), the translator is run on the copy and
# DenseOnlineGen.v / DenseOnlineGenCorrect.v are compiled against the result in a scratch directory.
# Verdicts: "translator fails closed: <msg>" | "<lemma> fails" | "all lemmas check (generated text changed/identical)".
# --diff: the modified Python class is also compared with its own translation (harness/denseonlinegen_check.py, 150 cases of that class).
# --from K: start at the K-th change.
import ast, glob, os, re, shutil, subprocess, sys
ROOT = os.path.dirname(os.path.dirname(os.path.abspath(__file__)))
REPO = os.environ.get('REPO', '/repo')
D_STL, D_AR, D_IA = ('rtamt/semantics/stl/dense_time/online', 'rtamt/semantics/arithmetic/dense_time/online',
                     'rtamt/semantics/iastl/dense_time/online')
D_EN = 'rtamt/semantics/enumerations'
TH = ROOT + '/coq/theories'
SCR = ROOT + '/build/denseonlinegen_mutants'

def sub(rel, old, new, count=1):
    def f(root):
        p = root + '/' + rel
        src = open(p).read()
        assert src.count(old) >= 1, (rel, old)
        out = src.replace(old, new, count)
        assert out != src
        ast.parse(out)
        open(p, 'w').write(out)
        return rel
    return f
def newfile(rel, text):
    def f(root):
        open(root + '/' + rel, 'w').write(text); return None
    return f

CHANGES = [
  ('M1 division_operation.py:36 == -> != (survivor of the mutation sweep)', sub(D_AR + '/division_operation.py', 'self.last_output[0] == result[0][0]', 'self.last_output[0] != result[0][0]')),
  ('M2 pow_operation.py:20 [-1][0] -> [-1][1] (survivor of the mutation sweep)', sub(D_AR + '/pow_operation.py', 'self.sample_right_buf[-1][0]', 'self.sample_right_buf[-1][1]')),
  ('M3 or_operation.py: last[0] > result[-1][0] -> >=', sub(D_STL + '/or_operation.py', 'last[0] > result[-1][0]', 'last[0] >= result[-1][0]')),
  ('M4 once_operation.py: max -> min', sub(D_STL + '/once_operation.py', 'max(i[1], self.prev)', 'min(i[1], self.prev)')),
  ('M5 since_operation.py: a_end < b_end -> a_end > b_end (first branch)', sub(D_STL + '/since_operation.py', 'if a_end < b_end:', 'if a_end > b_end:')),
  ('M6 multiplication_operation.py: last_output created by __init__ instead of reset in every update',
   lambda root: (sub(D_AR + '/multiplication_operation.py', '        self.last_output = []\n', '')(root),
                 sub(D_AR + '/multiplication_operation.py', '        self.sample_right_buf = []\n', '        self.sample_right_buf = []\n        self.last_output = []\n')(root))[1]),
  ('M7 xor_operation.py: intersect.xor -> intersect.iff', sub(D_STL + '/xor_operation.py', 'intersect.xor)', 'intersect.iff)')),
  ('M8 sqrt_operation.py: i[1] < 0 -> i[1] > 0', sub(D_AR + '/sqrt_operation.py', 'if i[1] < 0:', 'if i[1] > 0:')),
  ('M9 intersection.py: implication max(-a, b) -> max(a, -b)', sub(D_STL + '/intersection.py', 'return max(-a, b)', 'return max(a, -b)')),
  ('M10 and_operation.py: sample_left[1:] -> sample_left[2:]', sub(D_STL + '/and_operation.py', 'sample_left[1:]', 'sample_left[2:]')),
  ('M11 log_operation.py: the right buffer is not replaced by the remainder', sub(D_AR + '/log_operation.py', '        self.sample_right_buf = right\n', '')),
  ('M12 once_timed_operation.py: popping loop a[2] < b[2] -> a[2] <= b[2]', sub(D_STL + '/once_timed_operation.py', 'while (a[2] < b[2]) and (b[0] < a[0]):', 'while (a[2] <= b[2]) and (b[0] < a[0]):')),
  ('M13 historically_timed_operation.py: the padding piece gets -inf', sub(D_STL + '/historically_timed_operation.py', "sample[0][0] + begin, float('inf')))", "sample[0][0] + begin, -float('inf')))")),
  ('M14 once_timed_operation.py: residual_start >= b[1] -> > b[1]', sub(D_STL + '/once_timed_operation.py', 'if self.residual_start >= b[1]:', 'if self.residual_start > b[1]:')),
  ('M15 once_timed_operation.py: started is never set', sub(D_STL + '/once_timed_operation.py', '        if sample:\n            self.started = True\n', '')),
  ('M16 historically_timed_operation.py: b[0] > a[0] -> b[0] >= a[0] (an empty piece is kept)', sub(D_STL + '/historically_timed_operation.py', 'if b[0] > a[0]:', 'if b[0] >= a[0]:')),
  ('M17 once_timed_operation.py: the last piece ends at sample[i-1][0] + begin', sub(D_STL + '/once_timed_operation.py', 'b = (sample[i - 1][0] + begin, sample[i-1][0] + end, sample[i - 1][1])', 'b = (sample[i - 1][0] + begin, sample[i-1][0] + begin, sample[i - 1][1])')),
  ('M18 since_timed_operation.py: historically over [0, end] instead of [0, begin]', sub(D_STL + '/since_timed_operation.py', 'HistoricallyTimedOperation(0, self.begin)', 'HistoricallyTimedOperation(0, self.end)')),
  ('M19 since_timed_operation.py: once is fed the left operand', sub(D_STL + '/since_timed_operation.py', 'out1 = self.once.update(sample_right)', 'out1 = self.once.update(sample_left)')),
  ('M20 constant_operation.py: is_first_sample is never cleared', sub(D_STL + '/constant_operation.py', '            self.is_first_sample = False\n', '')),
  ('M21 predicate_operation.py update: LEQ / LESS give i[1] instead of -i[1]', sub(D_STL + '/predicate_operation.py', '                out_val = - i[1]\n', '                out_val = i[1]\n')),
  ('M22 predicate_operation.py sat: LEQ tests < 0', sub(D_STL + '/predicate_operation.py', 'out_val = True if in_sample[1] <= 0 else False', 'out_val = True if in_sample[1] < 0 else False')),
  ('M23 iastl predicate_operation.py: OUTPUT_ROBUSTNESS looks at in_vars', sub(D_IA + '/predicate_operation.py', 'self.semantics == Semantics.OUTPUT_ROBUSTNESS and not self.out_vars', 'self.semantics == Semantics.OUTPUT_ROBUSTNESS and not self.in_vars')),
  ('M24 iastl predicate_operation.py: the vacuity value is +inf', sub(D_IA + '/predicate_operation.py', '                sample = 0\n', "                sample = float('inf')\n")),
  ('R1 rename a local (result -> res) in or_operation.py', sub(D_STL + '/or_operation.py', 'result', 'res', 99)),
  ('R2 reorder two independent statements in not_operation.py', sub(D_STL + '/not_operation.py', 'out_time = i[0]\n            out_value = - i[1]', 'out_value = - i[1]\n            out_time = i[0]')),
  ('R3 else: if -> elif in and_operation.py', sub(D_STL + '/and_operation.py', '            else:\n                if last[0] > result[-1][0]:\n                    result.append(last)',
                                                 '            elif last[0] > result[-1][0]:\n                result.append(last)')),
  ('R4 i = j = 1 -> two assignments in since_operation.py', sub(D_STL + '/since_operation.py', 'i = j = 1', 'i = 1\n        j = 1')),
  ('R5 if not result / else swapped to if result / else in iff_operation.py', sub(D_STL + '/iff_operation.py',
      '            if not result:\n                result.append(last)\n            else:\n                if last[0] > result[-1][0]:\n                    result.append(last)',
      '            if result:\n                if last[0] > result[-1][0]:\n                    result.append(last)\n            else:\n                result.append(last)')),
  ('R6 rename a local (first_now -> fn) in once_timed_operation.py', sub(D_STL + '/once_timed_operation.py', 'first_now', 'fn', 9)),
  ('R7 the two buffer assignments swapped in since_timed_operation.py update', sub(D_STL + '/since_timed_operation.py',
      '        self.sample_left_buf = self.sample_left_buf + sample_left\n        self.sample_right_buf = self.sample_right_buf + sample_right\n\n        out1 = self.once.update',
      '        self.sample_right_buf = self.sample_right_buf + sample_right\n        self.sample_left_buf = self.sample_left_buf + sample_left\n\n        out1 = self.once.update')),
  ('R8 if / elif chain of predicate update written as else: if', sub(D_STL + '/predicate_operation.py',
      "            elif self.comparison_op.value == StlComparisonOperator.NEQ.value:\n                out_val = abs(i[1])\n            elif self.comparison_op.value == StlComparisonOperator.LEQ.value or self.comparison_op.value == StlComparisonOperator.LESS.value:\n                out_val = - i[1]\n            elif self.comparison_op.value == StlComparisonOperator.GEQ.value or self.comparison_op.value == StlComparisonOperator.GREATER.value:\n                out_val = i[1]\n            else:\n                out_val = float('nan')\n\n\n            sample_result.append([i[0], out_val])\n            prev = out_val\n\n        return sample_result\n\n    def update_final",
      "            else:\n                if self.comparison_op.value == StlComparisonOperator.NEQ.value:\n                    out_val = abs(i[1])\n                elif self.comparison_op.value == StlComparisonOperator.LEQ.value or self.comparison_op.value == StlComparisonOperator.LESS.value:\n                    out_val = - i[1]\n                elif self.comparison_op.value == StlComparisonOperator.GEQ.value or self.comparison_op.value == StlComparisonOperator.GREATER.value:\n                    out_val = i[1]\n                else:\n                    out_val = float('nan')\n\n\n            sample_result.append([i[0], out_val])\n            prev = out_val\n\n        return sample_result\n\n    def update_final")),
  ('X1 a new operation file', newfile(D_STL + '/foo_operation.py', 'class FooOperation:\n    pass\n')),
  ('X2 a pinned (hand-modelled) class changed: variable_operation.py', sub(D_STL + '/variable_operation.py', 'out = list()', 'out = []')),
  ('X6 an owned list escapes: once_timed_operation.py returns self.prev', sub(D_STL + '/once_timed_operation.py', '        return sample_result\n\n    def update_final', '        return self.prev\n\n    def update_final')),
  ('X7 comp_oper.py: two members of StlComparisonOperator get the same value', sub(D_EN + '/comp_oper.py', 'NEQ = 3', 'NEQ = 2')),
  ('X8 predicate_operation.py: sat_final (pinned) changed', sub(D_STL + '/predicate_operation.py', "input_list = self.sub.update_final(sample_left, sample_right)\n\n        prev = float('nan')\n        for i, in_sample", "input_list = self.sub.update(sample_left, sample_right)\n\n        prev = float('nan')\n        for i, in_sample")),
  ('X3 intersection() (hand-modelled) changed', sub(D_STL + '/intersection.py', 'out_samples = list()', 'out_samples = []')),
  ('X4 an unsupported construct (try/except) in abs_operation.py', sub(D_AR + '/abs_operation.py', '            out_value = abs(in_sample[1])',
      '            try:\n                out_value = abs(in_sample[1])\n            except TypeError:\n                out_value = in_sample[1]')),
  ('X5 a new method in exp_operation.py', sub(D_AR + '/exp_operation.py', '    def reset(self):', '    def peek(self):\n        return 0\n\n    def reset(self):')),
]

def lemma_at(path, line):
    name = '?'
    for k, l in enumerate(open(path).read().split('\n'), 1):
        m = re.match(r'\s*(Lemma|Theorem|Example|Definition|Fixpoint)\s+(\w+)', l)
        if m: name = m.group(2)
        if k >= line: break
    return name

def strip(t): return re.sub(r'\(\* [\w.]+:\d+ \*\)', '', t)

def run(name, mut):
    d = SCR + '/' + name.split()[0]
    shutil.rmtree(d, ignore_errors=True)
    for sd in (D_STL, D_AR, D_IA, D_EN):
        os.makedirs(d + '/root/' + sd)
        for p in glob.glob('%s/%s/*.py' % (REPO, sd)): shutil.copy(p, d + '/root/' + sd + '/')
    os.makedirs(d + '/coq')
    rel = mut(d + '/root')
    r = subprocess.run([sys.executable, ROOT + '/tools/py2coq_denseonline.py', d + '/root', d + '/coq/MutGen.v'], capture_output=True, text=True)
    if r.returncode != 0:
        msg = r.stderr.strip()
        return rel, 'translator fails closed (exit %d): %s [%s]' % (r.returncode, msg.split(': py2coq_denseonline: ')[-1],
                                                                    ':'.join(msg.split(': py2coq_denseonline')[0].split('/')[-1:]))
    same = strip(open(d + '/coq/MutGen.v').read()) == strip(open(TH + '/DenseOnlineGen.v').read())
    cor = open(TH + '/DenseOnlineGenCorrect.v').read()
    assert '\n  DenseOnlineGen.' in cor
    open(d + '/coq/MutCorrect.v', 'w').write(cor.replace('\n  DenseOnlineGen.', '.\nFrom Mut Require Import MutGen.', 1))
    win = open(TH + '/DenseOnlineGenWinCorrect.v').read()
    assert '\n  DenseOnlineGen DenseOnlineGenCorrect.' in win
    open(d + '/coq/MutWinCorrect.v', 'w').write(win.replace('\n  DenseOnlineGen DenseOnlineGenCorrect.', '.\nFrom Mut Require Import MutGen MutCorrect.', 1))
    for f in ['MutGen.v', 'MutCorrect.v', 'MutWinCorrect.v']:
        r = subprocess.run(['timeout', '600', 'coqc', '-Q', TH, 'RV', '-Q', '.', 'Mut', f], cwd=d + '/coq', capture_output=True, text=True)
        if r.returncode != 0:
            m = re.search(r'line (\d+)', r.stderr)
            err = ' '.join(r.stderr.split('Error:')[-1].split())[:110]
            what = lemma_at(d + '/coq/' + f, int(m.group(1))) if m else '?'
            return rel, 'translated; %s fails (%s...)' % (what if f != 'MutGen.v' else 'the generated file does not compile: ' + what, err)
    return rel, 'translated (generated text %s); all lemmas check' % ('identical' if same else 'changed')

def diff(name, rel):
    d = SCR + '/' + name.split()[0]
    if not os.path.exists(d + '/coq/MutGen.vo') or rel is None or not rel.endswith('_operation.py'): return None
    env = dict(os.environ, PYTHONDONTWRITEBYTECODE='1', PYTHONPATH=REPO)
    r = subprocess.run(['/venv/bin/python', ROOT + '/harness/denseonlinegen_check.py', '--n', '150', '--class-only', '--class-file', '%s=%s' % (rel, d + '/root/' + rel),
                        '--gen', d + '/coq/MutGen.v', d + '/coq/Cases.v'], capture_output=True, text=True, env=env)
    if r.returncode != 0: return 'harness error: ' + r.stderr[-300:]
    txt = open(d + '/coq/Cases.v').read().replace(' DenseOnlineGen.', '.\nFrom Mut Require Import MutGen.', 1)
    open(d + '/coq/Cases.v', 'w').write(txt)
    c = subprocess.run(['timeout', '1200', 'coqc', '-Q', TH, 'RV', '-Q', '.', 'Mut', 'Cases.v'], cwd=d + '/coq', capture_output=True, text=True)
    return '%s; %s' % (r.stdout.strip().split('\n')[-1], 'all agree' if c.returncode == 0 else 'DISAGREE: ' + ' '.join((c.stdout + c.stderr).split())[:200])

if __name__ == '__main__':
    out = []
    k0 = int(sys.argv[sys.argv.index('--from') + 1]) if '--from' in sys.argv else 0
    for name, mut in CHANGES[k0:]:
        rel, v = run(name, mut)
        out.append('%s\n    -> %s' % (name, v)); print(out[-1], flush=True)
        if '--diff' in sys.argv:
            dv = diff(name, rel)
            if dv: out.append('    -> modified Python vs its own translation: ' + dv); print(out[-1], flush=True)
    open(ROOT + '/build/denseonlinegen_mutants.txt', 'w').write('\n'.join(out) + '\n')
