#!/usr/bin/env python3
# tools/unitsgen_mutants.py — does the generated-model tie of C08 / C13 notice changes of the unit conversion and of the sampling counter?
# Each change is applied to a scratch COPY of the files the translator reads (never to the repository), tools/py2coq_units.py is run on
# the copy and UnitsGen.v / UnitsGenCorrect.v / Props/C08.v / Props/C13.v are compiled against the result in a scratch directory.
# Verdicts: "translator fails closed: <msg>" | "proof fails at <lemma>" | "all lemmas check (generated text changed/identical)".
import ast, glob, json, os, re, shutil, subprocess, sys
ROOT = os.path.dirname(os.path.dirname(os.path.abspath(__file__)))
REPO = os.environ.get('REPO', '/repo')
TH = ROOT + '/coq/theories'
SCR = ROOT + '/build/unitsgen_mutants'
DISC = 'rtamt/semantics/discrete_time_interpreter.py'
DENSE = 'rtamt/semantics/dense_time_interpreter.py'
ONL = 'rtamt/semantics/abstract_discrete_time_online_interpreter.py'
OFFL = 'rtamt/semantics/abstract_discrete_time_offline_interpreter.py'
ASTP = 'rtamt/syntax/ast/parser/abstract_ast_parser.py'
PARSERV = 'rtamt/syntax/ast/parser/stl/parser_visitor.py'
TIMEI = 'rtamt/semantics/time_interpreter.py'
COPY = [DISC, DENSE, ONL, OFFL, ASTP, PARSERV, TIMEI]

def in_method(src, cls, method, old, new, count=1):
    tree = ast.parse(src)
    cd = [n for n in tree.body if isinstance(n, ast.ClassDef) and n.name == cls][0]
    fd = [n for n in cd.body if isinstance(n, ast.FunctionDef) and n.name == method][-1]
    lines = src.split('\n')
    seg = '\n'.join(lines[fd.lineno - 1:fd.end_lineno])
    assert seg.count(old) >= 1, (cls, method, old)
    return '\n'.join(lines[:fd.lineno - 1] + seg.replace(old, new, count).split('\n') + lines[fd.end_lineno:])

def ch(path, *a): return (path, lambda s: in_method(s, *a))
D, N, ON, OF = 'DiscreteTimeInterpreter', 'DenseTimeInterpreter', 'AbstractDiscreteTimeOnlineInterpreter', 'AbstractDiscreteTimeOfflineInterpreter'
TUT, SVC = 'time_unit_transformer', 'update_sampling_violation_counter'

CHANGES = [
  ('M1 the unit dictionary of the interpreter: ms = 10^5', [ch(DISC, D, '__init__', 'self.MS_UNIT = int(1000000)', 'self.MS_UNIT = int(100000)')]),
  ('M2 the unit dictionary of the AST: us = 100', [ch(ASTP, 'AbstractAst', '__init__', 'self.US_UNIT = int(1000)', 'self.US_UNIT = int(100)')]),
  ('M3 a unit on the end only is not inherited by the begin (discrete)', [ch(DISC, D, TUT, 'b_unit = node.end_unit', 'b_unit = self.ast.unit')]),
  ('M4 a begin off the grid is truncated, not rejected', [ch(DISC, D, TUT, 'if b.numerator % b.denominator > 0:', 'if b.numerator % b.denominator > b.denominator:')]),
  ('M5 the period read in the default unit instead of its own', [ch(DISC, D, TUT, 'self.ast.U[self.sampling_period_unit]', 'self.ast.U[self.ast.unit]')]),
  ('M6 sys.maxsize periods accepted (>= -> >)', [ch(DISC, D, TUT, 'if e >= sys.maxsize:', 'if e > sys.maxsize:')]),
  ('M7 dense: the end converted with the unit of the begin', [ch(DENSE, N, TUT, 'e = e * self.ast.U[e_unit] / self.ast.U[self.ast.unit]', 'e = e * self.ast.U[b_unit] / self.ast.U[self.ast.unit]')]),
  ('M8 dense: a bound beyond the floats raises Exception, not RTAMTException', [ch(DENSE, N, TUT, "raise RTAMTException('The operator bound is too large for a time stamp')", "raise Exception('The operator bound is too large for a time stamp')")]),
  ('M9 dense: every bound becomes a float (the int branch never taken)', [ch(DENSE, N, TUT, 'b = int(b) if float(b) is not None and b == int(b) else float(b)', 'b = float(b) if float(b) is not None and b == int(b) else float(b)')]),
  ('M10 counter: the tolerance is absolute, not relative to the period', [ch(DISC, D, SVC, 'tolerance = period * Fraction(str(self.sampling_tolerance))', 'tolerance = Fraction(str(self.sampling_tolerance))')]),
  ('M11 counter: the period is not converted to time-stamp units', [ch(DISC, D, SVC, ' / self.ast.U[self.ast.unit]', '')]),
  ('M12 counter: only too long gaps count', [ch(DISC, D, SVC, 'if duration < period - tolerance or duration > period + tolerance:', 'if duration > period + tolerance:')]),
  ('M13 gap: earlier - later', [ch(DISC, D, 'gap', '(Fraction(str(later)) - Fraction(str(earlier)))', '(Fraction(str(earlier)) - Fraction(str(later)))')]),
  ('M14 online: the first update counts as a gap', [ch(ONL, ON, 'update', 'if self.update_counter > 0:', 'if self.update_counter >= 0:')]),
  ('M15 online: previous_time is not updated', [ch(ONL, ON, 'update', 'self.previous_time = timestamp', 'self.previous_time = self.previous_time')]),
  ('M16 online: reset() leaves the violation counter at 1', [ch(ONL, ON, 'reset', 'self.sampling_violation_counter = int(0)', 'self.sampling_violation_counter = int(1)')]),
  ('M17 offline: the counter accumulates over evaluate() calls', [ch(OFFL, OF, 'evaluate', 'self.sampling_violation_counter = 0', 'self.sampling_violation_counter = self.sampling_violation_counter + 0')]),
  ('M18 offline: the last gap is not checked', [ch(OFFL, OF, 'evaluate', 'range(len(ts) - 1)', 'range(len(ts) - 2)')]),
  ('M19 __init__: normalize = 1000.0', [ch(DISC, D, '__init__', 'self.normalize = float(1.0)', 'self.normalize = float(1000.0)')]),
  ('M20 set_sampling_period accepts a tolerance up to 2', [ch(DISC, D, 'set_sampling_period', 'tolerance > 1.0', 'tolerance > 2.0')]),
  ('R1 rename a local (sp -> period_ns) in time_unit_transformer', [ch(DISC, D, TUT, 'sp', 'period_ns', 99)]),
  ('R2 reorder two independent statements (b = node.begin / e = node.end)', [ch(DISC, D, TUT, 'b = node.begin\n        e = node.end', 'e = node.end\n        b = node.begin')]),
  ('R3 the lower end of the tolerance interval bound to a name first', [ch(DISC, D, SVC, 'if duration < period - tolerance or', 'lo = period - tolerance\n        if duration < lo or')]),
  ('R4 `e >= sys.maxsize` written `sys.maxsize <= e`', [ch(DISC, D, TUT, 'if e >= sys.maxsize:', 'if sys.maxsize <= e:')]),
  ('R5 online: duration not bound to a name', [ch(ONL, ON, 'update', 'duration = self.gap(self.previous_time, timestamp)\n            self.update_sampling_violation_counter(duration)', 'self.update_sampling_violation_counter(self.gap(self.previous_time, timestamp))')]),
  ('X1 a new method of DiscreteTimeInterpreter', [(DISC, lambda s: s.replace('    def gap(self, earlier, later):', '    def foo(self):\n        self.sampling_violation_counter = 7\n\n    def gap(self, earlier, later):'))]),
  ('X2 an unsupported construct (while) in gap', [ch(DISC, D, 'gap', 'try:', 'while False:\n            pass\n        try:')]),
  ('X3 time_bound (pinned, hand-modelled) changed', [ch(PARSERV, 'StlAstParserVisitor', 'time_bound', 'abs(d.adjusted()) > 1000', 'abs(d.adjusted()) > 100')]),
  ('X4 another statement of update() writes the counter', [ch(ONL, ON, 'update', '        self.exist_ast()', '        self.exist_ast()\n        self.sampling_violation_counter = 0')]),
  ('X5 the handler of gap (pinned) changed', [ch(DISC, D, 'gap', 'return (later - earlier) * self.normalize', 'return (later - earlier)')]),
  ('X6 the online interpreter overrides gap', [(ONL, lambda s: s.replace('    def reset(self):', '    def gap(self, earlier, later):\n        return later - earlier\n\n    def reset(self):'))]),
  ('X7 a property setter that does more than store', [(DISC, lambda s: s.replace('        self.__sampling_tolerance = sampling_tolerance', '        self.__sampling_tolerance = sampling_tolerance / 2'))]),
  ('X8 an early return in update() before the counter statements', [ch(ONL, ON, 'update', '        rob = rob[len(rob) - 1]', '        rob = rob[len(rob) - 1]\n        if rob is None:\n            return rob')]),
]

def lemma_at(path, line):
    name = '?'
    for k, l in enumerate(open(path).read().split('\n'), 1):
        m = re.match(r'\s*(Lemma|Theorem|Corollary|Example|Definition|Fixpoint)\s+(\w+)', l)
        if m: name = m.group(2)
        if k >= line: break
    return name

def strip(t): return re.sub(r'\(\* [\w.]+:\d+ \w+ \*\)', '', t)

def run(name, edits):
    d = SCR + '/' + name.split()[0]
    shutil.rmtree(d, ignore_errors=True)
    os.makedirs(d + '/coq/Props')
    os.makedirs(d + '/root')
    if os.path.isdir(REPO + '/.git') and not os.environ.get('MUTANTS_WORKTREE'):
        subprocess.run('git -C %s archive HEAD %s | tar -x -C %s/root' % (REPO, ' '.join(COPY), d), shell=True, check=True)
    else:
        for rel in COPY:
            os.makedirs(os.path.dirname(d + '/root/' + rel), exist_ok=True)
            shutil.copy(REPO + '/' + rel, d + '/root/' + rel)
    for rel, f in edits:
        src = open(d + '/root/' + rel).read()
        new = f(src)
        assert new != src, name
        ast.parse(new)
        open(d + '/root/' + rel, 'w').write(new)
    r = subprocess.run([sys.executable, ROOT + '/tools/py2coq_units.py', d + '/root', d + '/coq/UnitsGen.v'], capture_output=True, text=True)
    if r.returncode != 0:
        msg = r.stderr.strip().split(': py2coq_units: ')
        loc = msg[0].replace(d + '/root/', '')
        return 'translator fails closed (exit %d): %s [%s]' % (r.returncode, msg[-1], loc)
    same = strip(open(d + '/coq/UnitsGen.v').read()) == strip(open(TH + '/UnitsGen.v').read())
    for f in glob.glob(TH + '/*.vo'):
        b = os.path.basename(f)
        if b not in ('UnitsGen.vo', 'UnitsGenCorrect.vo', 'ParserTables.vo', 'Run.vo'): os.symlink(f, d + '/coq/' + b)
    shutil.copy(TH + '/UnitsGenCorrect.v', d + '/coq/')
    for p in ('C08', 'C13'): shutil.copy(TH + '/Props/%s.v' % p, d + '/coq/Props/%s.v' % p)
    for f in ['UnitsGen.v', 'UnitsGenCorrect.v', 'Props/C08.v', 'Props/C13.v']:
        r = subprocess.run(['timeout', '600', 'coqc', '-Q', '.', 'RV', f], cwd=d + '/coq', capture_output=True, text=True)
        if r.returncode != 0:
            m = re.search(r'File "\./([\w/]+\.v)", line (\d+)', r.stdout + r.stderr)
            where = lemma_at(d + '/coq/' + m.group(1), int(m.group(2))) if m else '?'
            err = [l for l in (r.stdout + r.stderr).split('\n') if l.startswith('Error') or l.startswith('Found no') or 'Unable' in l]
            return 'proof fails at %s (%s line %s): %s' % (where, m.group(1) if m else f, m.group(2) if m else '?', ' '.join(err)[:140])
    return 'all lemmas check (generated text %s)' % ('identical up to line numbers' if same else 'changed')

def main():
    only = sys.argv[1:]
    out = {}
    for name, edits in CHANGES:
        if only and name.split()[0] not in only: continue
        v = run(name, edits)
        out[name] = v
        print('%-80s %s' % (name, v), flush=True)
    os.makedirs(SCR, exist_ok=True)
    json.dump(out, open(SCR + '/RESULT.json', 'w'), indent=1)

if __name__ == '__main__':
    main()
