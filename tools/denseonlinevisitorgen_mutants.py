#!/usr/bin/env python3
# tools/denseonlinevisitorgen_mutants.py — does the generated-model tie of C05 (visitors of the dense-time online interpreter) notice changes of the source?
# Each change is applied to a scratch COPY of the files the translator reads (never to the repository), tools/py2coq_denseonlinevisitor.py is run
# on the copy and DenseOnlineVisitorGen.v / DenseOnlineVisitorGenCorrect.v / Props/C05.v are compiled against the result in a scratch directory.
# Verdicts: "translator fails closed: <msg>" | "proof fails at <lemma>" | "all lemmas check (generated text changed/identical)".
import ast, json, os, re, shutil, subprocess, sys
sys.path.insert(0, os.path.dirname(os.path.abspath(__file__)))
from pastifiergen_mutants import in_method, drop_method, lemma_at
ROOT = os.path.dirname(os.path.dirname(os.path.abspath(__file__)))
REPO = os.environ.get('REPO', '/repo')
TH = ROOT + '/coq/theories'
SCR = ROOT + '/build/denseonlinevisitorgen_mutants'
CON = 'rtamt/semantics/stl/dense_time/online/ast_visitor.py'
AOI = 'rtamt/semantics/abstract_online_interpreter.py'
ADI = 'rtamt/semantics/abstract_dense_time_online_interpreter.py'
AAV = 'rtamt/syntax/ast/visitor/abstract_ast_visitor.py'
COPY = ['rtamt/semantics', 'rtamt/syntax/ast/visitor', 'rtamt/syntax/node', 'rtamt/pastifier']
C, U, R = 'StlDenseTimeOnlineAstVisitor', 'AbstractOnlineUpdateVisitor', 'AbstractOnlineResetVisitor'
def ch(path, *a): return (path, lambda s: in_method(s, *a))

CHANGES = [
  ('M1 once builds a HistoricallyOperation', [ch(CON, C, 'visitOnce', 'OnceOperation()', 'HistoricallyOperation()')]),
  ('M2 once[a,b] built with the bounds swapped', [ch(CON, C, 'visitTimedOnce', 'OnceTimedOperation(begin, end)', 'OnceTimedOperation(end, begin)')]),
  ('M3 since[a,b] builds a SinceOperation', [ch(CON, C, 'visitTimedSince', 'SinceTimedOperation(begin, end)', 'SinceOperation()')]),
  ('M4 addition builds a SubtractionOperation', [ch(CON, C, 'visitAddition', 'AdditionOperation()', 'SubtractionOperation()')]),
  ('M5 the unsupported always is accepted (no raise, builds a HistoricallyOperation)', [ch(CON, C, 'visitAlways', "raise RTAMTException('Always operator is not implemented in the STL online monitor.')", 'self.visitChildren(node, *args, **kwargs)\n        self.online_operator_dict[node.name] = HistoricallyOperation()')]),
  ('M6 historically raises', [ch(CON, C, 'visitHistorically', 'self.online_operator_dict[node.name] = HistoricallyOperation()', "raise RTAMTException('no')")]),
  ('M7 visitNot removed (the default of LtlAstVisitor runs: no object is stored)', [(CON, lambda s: drop_method(s, C, 'visitNot'))]),
  ('M8 the binary update passes the samples swapped', [ch(AOI, U, 'visitBinary', 'operator.update(sample_left, sample_right)', 'operator.update(sample_right, sample_left)')]),
  ('M9 the unary update does not memoise its result', [ch(AOI, U, 'visitUnary', '        self.visited[node.name] = sample_return\n', '')]),
  ('M10 the binary update visits the right child twice', [ch(AOI, U, 'visitBinary', 'sample_left  = self.visit(node.children[0]', 'sample_left  = self.visit(node.children[1]')]),
  ('M11 the predicate is built with a fixed comparison', [ch(CON, C, 'visitPredicate', 'PredicateOperation(node.operator)', 'PredicateOperation(StlComparisonOperator.LEQ)')]),
  ('M12 the constant is stepped at every occurrence (memo test of visitConstant removed)', [ch(ADI, 'DenseTimeOnlineUpdateVisitor', 'visitConstant', '        if node.name in self.visited:\n            return self.visited[node.name]\n', '')]),
  ('M13 the second definition of visitNegate builds an AbsOperation (Python keeps the last one)', [(CON, lambda s: s[:s.rindex('NegateOperation()')] + 'AbsOperation()' + s[s.rindex('NegateOperation()') + len('NegateOperation()'):])]),
  ('M14 the constant operation is built without its value', [ch(CON, C, 'visitConstant', 'ConstantOperation(node.val)', 'ConstantOperation(0)')]),
  ('M15 the generic dispatch sends unary nodes to visitBinary', [(AAV, lambda s: s.replace('result = self.visitUnary(node, *args, **kwargs)', 'result = self.visitBinary(node, *args, **kwargs)', 1))]),
  ('R1 rename a local (sample_return -> out) in the update visitor visitUnary', [ch(AOI, U, 'visitUnary', 'sample_return', 'out', 99)]),
  ('R2 rename op -> operator in visitUnary', [ch(AOI, U, 'visitUnary', 'op = online_operator_dict[node.name]\n        sample_return = op.update(sample)', 'operator = online_operator_dict[node.name]\n        sample_return = operator.update(sample)')]),
  ('R3 reorder the two bookkeeping stores of visitBinary', [ch(AOI, U, 'visitBinary', 'self.results[node] = sample_return\n        self.visited[node.name] = sample_return', 'self.visited[node.name] = sample_return\n        self.results[node] = sample_return')]),
  ('R4 other names for the bounds in visitTimedOnce', [ch(CON, C, 'visitTimedOnce', 'begin, end = self.time_unit_transformer(node)\n        self.online_operator_dict[node.name] = OnceTimedOperation(begin, end)', 'b, e = self.time_unit_transformer(node)\n        self.online_operator_dict[node.name] = OnceTimedOperation(b, e)')]),
  ('R5 the first (shadowed) definition of visitNegate removed', [(CON, lambda s: s.replace('    def visitNegate(self, node, *args, **kwargs):\n        self.visitChildren(node, *args, **kwargs)\n        self.online_operator_dict[node.name] = NegateOperation()\n\n', '', 1))]),
  ('X1 reuse (pinned, hand-modelled) changed', [ch(AOI, U, 'reuse', 'return self.visited[node.name]', 'return self.results[node]')]),
  ('X2 an unsupported construct (try/except) in visitAbs', [ch(CON, C, 'visitAbs', 'self.online_operator_dict[node.name] = AbsOperation()', 'try:\n            self.online_operator_dict[node.name] = AbsOperation()\n        except ValueError:\n            pass')]),
  ('X3 the pinned VariableOperation changed', [('rtamt/semantics/stl/dense_time/online/variable_operation.py', lambda s: s.replace('return self.val', 'return []'))]),
  ('X4 update() of the interpreter (pinned) returns the first root', [ch(ADI, 'AbstractDenseTimeOnlineInterpreter', 'update', 'rob = rob[len(rob) - 1]', 'rob = rob[0]')]),
  ('X5 a new visit method in the construction visitor', [(CON, lambda s: s + '\n    def visitFoo(self, node, *args, **kwargs):\n        pass\n')]),
  ('X6 visitVariable of the update visitor (pinned) changed', [ch(ADI, 'DenseTimeOnlineUpdateVisitor', 'visitVariable', 'sample_return = vals', 'sample_return = list(vals)')]),
  ('X7 the dense interpreter reset (pinned) no longer rebuilds the operations', [ch(ADI, 'AbstractDenseTimeOnlineInterpreter', 'reset', '        self.set_ast(self.ast)\n', '')]),
  ('X8 visitConstant of the update visitor gets a statement the translator does not know', [ch(ADI, 'DenseTimeOnlineUpdateVisitor', 'visitConstant', 'return sample_return', 'self.results[node] = sample_return\n        return sample_return')]),
]

def strip(t): return re.sub(r'\(\* [\w.]+ \w+\.py:\d+ \*\)', '', t)

def run(name, edits):
    d = SCR + '/' + name.split()[0]
    shutil.rmtree(d, ignore_errors=True)
    os.makedirs(d + '/coq/Props'); os.makedirs(d + '/root')
    if os.path.isdir(REPO + '/.git') and not os.environ.get('MUTANTS_WORKTREE'):
        subprocess.run('git -C %s archive HEAD %s | tar -x -C %s/root' % (REPO, ' '.join(COPY), d), shell=True, check=True)
    else:
        for rel in COPY: shutil.copytree(REPO + '/' + rel, d + '/root/' + rel, ignore=shutil.ignore_patterns('__pycache__'))
    for rel, f in edits:
        src = open(d + '/root/' + rel).read()
        new = f(src)
        assert new != src, name
        ast.parse(new)
        open(d + '/root/' + rel, 'w').write(new)
    r = subprocess.run([sys.executable, ROOT + '/tools/py2coq_denseonlinevisitor.py', d + '/root', d + '/coq/DenseOnlineVisitorGen.v', TH + '/DenseOnlineGen.v'], capture_output=True, text=True)
    if r.returncode != 0:
        msg = re.split(r': py2coq_(?:denseonlinevisitor|onlinevisitor|pastifier): ', r.stderr.strip())
        return 'translator fails closed (exit %d): %s [%s]' % (r.returncode, msg[-1][:200], msg[0].replace(d + '/root/', ''))
    same = strip(open(d + '/coq/DenseOnlineVisitorGen.v').read()) == strip(open(TH + '/DenseOnlineVisitorGen.v').read())
    for f in os.listdir(TH):
        if f.endswith('.vo') and not f.startswith('DenseOnlineVisitorGen'): shutil.copy(TH + '/' + f, d + '/coq/')
    shutil.copy(TH + '/DenseOnlineVisitorGenCorrect.v', d + '/coq/')
    shutil.copy(TH + '/Props/C05.v', d + '/coq/Props/C05.v')
    for f in ['DenseOnlineVisitorGen.v', 'DenseOnlineVisitorGenCorrect.v', 'Props/C05.v']:
        r = subprocess.run(['timeout', '900', 'coqc', '-Q', '.', 'RV', f], cwd=d + '/coq', capture_output=True, text=True)
        if r.returncode != 0:
            m = re.search(r'File "\./([\w/]+\.v)", line (\d+)', r.stdout + r.stderr)
            where = lemma_at(d + '/coq/' + m.group(1), int(m.group(2))) if m else '?'
            err = [l for l in (r.stdout + r.stderr).split('\n') if l.startswith('Error') or l.startswith('Found no') or 'Unable' in l]
            return 'proof fails at %s (%s line %s): %s' % (where, m.group(1) if m else f, m.group(2) if m else '?', ' '.join(err)[:160])
    return 'all lemmas check (generated text %s)' % ('identical up to line numbers' if same else 'changed')

def main():
    only = sys.argv[1:]
    out = {}
    for name, edits in CHANGES:
        if only and name.split()[0] not in only: continue
        v = run(name, edits)
        out[name] = v
        print('%-90s %s' % (name, v), flush=True)
    os.makedirs(SCR, exist_ok=True)
    json.dump(out, open(SCR + '/verdicts.json', 'w'), indent=1)

if __name__ == '__main__':
    main()
