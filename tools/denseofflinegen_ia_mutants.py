#!/usr/bin/env python3
# tools/denseofflinegen_ia_mutants.py — does the generated-model tie of the IA-STL dense-time OFFLINE visitors notice changes?
# Each change is applied to a scratch COPY of the source files (never to the repository), tools/py2coq_denseoffline_ia.py is run on the copy and
# DenseOfflineIAGen.v / DenseOfflineIAGenCorrect.v are compiled against the result in a scratch directory.
# Verdicts: "translator fails closed: <msg>" | "<lemma> fails" | "all lemmas check (generated text changed/identical)".
import ast, os, re, shutil, subprocess, sys
ROOT = os.path.dirname(os.path.dirname(os.path.abspath(__file__)))
REPO = os.environ.get('REPO', '/repo')
VIS = 'rtamt/semantics/iastl/dense_time/offline/ast_visitor.py'
FILES = [VIS, 'rtamt/semantics/stl/dense_time/offline/ast_visitor.py', 'rtamt/semantics/enumerations/comp_oper.py']
TH = ROOT + '/coq/theories'
SCR = ROOT + '/build/denseofflinegen_ia_mutants'

def sub(rel, old, new, count=1):
    def f(root):
        p = root + '/' + rel
        src = open(p).read()
        assert src.count(old) >= 1, (rel, old)
        out = src.replace(old, new, count)
        assert out != src
        ast.parse(out)
        open(p, 'w').write(out)
    return f

CHANGES = [
  ('M1 EQ flag: in_sample[1] == 0 -> in_sample[1] >= 0', sub(VIS, 'sat_val = True if in_sample[1] == 0 else False', 'sat_val = True if in_sample[1] >= 0 else False')),
  ('M2 LEQ flag: <= 0 -> < 0', sub(VIS, 'sat_val = True if in_sample[1] <= 0 else False', 'sat_val = True if in_sample[1] < 0 else False')),
  ('M3 NEQ robustness: abs(x) -> - abs(x)', sub(VIS, '                out_val = abs(in_sample[1])', '                out_val = - abs(in_sample[1])')),
  ('M4 the last sample is not forced out (or i == len(input_list) - 1 dropped)', sub(VIS, 'if out_val != prev or i == len(input_list) - 1:', 'if out_val != prev:')),
  ('M5 OutputRobustness: inf and -inf swapped', sub(VIS, 'val = float("inf") if sample[1] == True else -float("inf")', 'val = -float("inf") if sample[1] == True else float("inf")')),
  ('M6 InputVacuity: 0.0 -> float("inf")', sub(VIS, "        if not node.in_vars:\n            for i, sample in enumerate(sat_samples):\n                out.append([out_sample[i][0], 0.0])", "        if not node.in_vars:\n            for i, sample in enumerate(sat_samples):\n                out.append([out_sample[i][0], float('inf')])")),
  ('M7 OutputVacuity: if not node.out_vars -> if node.out_vars', sub(VIS, "        if not node.out_vars:\n            for i, sample in enumerate(sat_samples):\n                out.append([out_sample[i][0], 0.0])", "        if node.out_vars:\n            for i, sample in enumerate(sat_samples):\n                out.append([out_sample[i][0], 0.0])")),
  ('M8 the flag of every sample is kept (sat_samples.append moved out of the if)', sub(VIS, "                out_samples.append([in_sample[0], out_val])\n                sat_samples.append([in_sample[0], sat_val])\n            prev = out_val", "                out_samples.append([in_sample[0], out_val])\n            sat_samples.append([in_sample[0], sat_val])\n            prev = out_val")),
  ('R1 rename a local (val -> v) in OutputRobustness', sub(VIS, '                val = float("inf") if sample[1] == True else -float("inf")\n                out.append([out_sample[i][0], val])', '                v = float("inf") if sample[1] == True else -float("inf")\n                out.append([out_sample[i][0], v])')),
  ('R2 the two assignments of the EQ branch swapped', sub(VIS, "                sat_val = True if in_sample[1] == 0 else False\n                out_val = - abs(in_sample[1])", "                out_val = - abs(in_sample[1])\n                sat_val = True if in_sample[1] == 0 else False")),
  ('X1 OutputRobustness reads node.in_vars', sub(VIS, '        if not node.out_vars:\n            for i, sample in enumerate(sat_samples):\n                val', '        if not node.in_vars:\n            for i, sample in enumerate(sat_samples):\n                val')),
  ('X2 an unsupported construct (try/except) in the base method', sub(VIS, "            prev = out_val\n", "            try:\n                prev = out_val\n            except ValueError:\n                pass\n")),
  ('X3 a new method in a subclass', sub(VIS, "class IAStlInputVacuityDenseTimeOfflineAstVisitor(IAStlDenseTimeOfflineAstVisitor):\n", "class IAStlInputVacuityDenseTimeOfflineAstVisitor(IAStlDenseTimeOfflineAstVisitor):\n\n    def visitNot(self, node, *args, **kwargs):\n        return []\n")),
]

def lemma_at(path, line):
    name = '?'
    for k, l in enumerate(open(path).read().split('\n'), 1):
        m = re.match(r'\s*(Lemma|Theorem|Example|Definition|Fixpoint)\s+(\w+)', l)
        if m: name = m.group(2)
        if k >= line: break
    return name

def strip(t): return re.sub(r'\(\* [\w. ]+:\d+[^*]*\*\)', '', t)

def run(name, mut):
    d = SCR + '/' + name.split()[0]
    shutil.rmtree(d, ignore_errors=True)
    for rel in FILES:
        os.makedirs(os.path.dirname(d + '/root/' + rel), exist_ok=True)
        shutil.copy(REPO + '/' + rel, d + '/root/' + rel)
    os.makedirs(d + '/coq')
    mut(d + '/root')
    r = subprocess.run([sys.executable, ROOT + '/tools/py2coq_denseoffline_ia.py', d + '/root', d + '/coq/MutGen.v'], capture_output=True, text=True)
    if r.returncode != 0:
        msg = r.stderr.strip().split('\n')[-1]
        return 'translator fails closed (exit %d): %s [%s]' % (r.returncode, msg.split(': py2coq_denseoffline: ')[-1],
                                                               ':'.join(msg.split(': py2coq_denseoffline')[0].split('/')[-1:]))
    same = strip(open(d + '/coq/MutGen.v').read()) == strip(open(TH + '/DenseOfflineIAGen.v').read())
    cor = open(TH + '/DenseOfflineIAGenCorrect.v').read()
    assert '\n  DenseOfflineIAGen.' in cor
    open(d + '/coq/MutCorrect.v', 'w').write(cor.replace('\n  DenseOfflineIAGen.', '.\nFrom Mut Require Import MutGen.', 1))
    for f in ['MutGen.v', 'MutCorrect.v']:
        r = subprocess.run(['timeout', '600', 'coqc', '-Q', TH, 'RV', '-Q', '.', 'Mut', f], cwd=d + '/coq', capture_output=True, text=True)
        if r.returncode != 0:
            m = re.search(r'line (\d+)', r.stderr)
            err = ' '.join(r.stderr.split('Error:')[-1].split())[:110]
            what = lemma_at(d + '/coq/' + f, int(m.group(1))) if m else '?'
            return 'translated; %s fails (%s...)' % (what if f == 'MutCorrect.v' else 'the generated file does not compile: ' + what, err)
    return 'translated (generated text %s); all lemmas check' % ('identical' if same else 'changed')

if __name__ == '__main__':
    out = []
    for name, mut in CHANGES:
        v = run(name, mut)
        out.append('%s\n    -> %s' % (name, v)); print(out[-1], flush=True)
    open(ROOT + '/build/denseofflinegen_ia_mutants.txt', 'w').write('\n'.join(out) + '\n')
