#!/usr/bin/env python3
# tools/static_check.py -- the development declares no axiom of its own and switches off no kernel check
import re, glob, sys, os
ROOT = os.path.dirname(os.path.dirname(os.path.abspath(__file__)))
bad = []
files = glob.glob(ROOT + '/coq/theories/*.v') + glob.glob(ROOT + '/coq/theories/Props/*.v') + glob.glob(ROOT + '/coq/extract/*.v')
for f in sorted(files):
    txt = re.sub(r'\(\*.*?\*\)', '', open(f).read(), flags=re.S)
    depth = 0
    for k, ln in enumerate(txt.splitlines(), 1):
        s = ln.strip()
        if re.search(r'\b(Admitted|admit|Axiom|Axioms|Parameter|Parameters|Conjecture|Admit Obligations|bypass_check)\b', s) or \
           re.search(r'Unset\s+(Guard Checking|Positivity Checking|Universe Checking)|type-in-type|impredicative-set', s):
            bad.append((f, k, s))
        if re.match(r'Section\s+\w+\s*\.', s):
            depth += 1
        elif re.match(r'End\s+\w+\s*\.', s):
            depth -= 1
        elif re.match(r'(Variables?|Hypothes[ie]s|Context)\b', s) and depth <= 0:
            bad.append((f, k, 'outside a Section: ' + s))
for b in bad:
    print('%s:%d: %s' % b)
print('%d files, %d problems' % (len(files), len(bad)))
sys.exit(1 if bad else 0)
