#!/usr/bin/env python3
# tools/pastifiergen_mutants.py — does the generated-model tie of C03 notice changes of the pastifier / horizon visitors?
# Each change is applied to a scratch COPY of the files the translator reads (never to the repository), tools/py2coq_pastifier.py is
# run on the copy and PastifyGen.v / PastifyGenCorrect.v / Props/C03.v are compiled against the result in a scratch directory.
# Verdicts: "translator fails closed: <msg>" | "proof fails at <lemma>" | "all lemmas check (generated text changed/identical)".
import ast, json, os, re, shutil, subprocess, sys
ROOT = os.path.dirname(os.path.dirname(os.path.abspath(__file__)))
REPO = os.environ.get('REPO', '/repo')
TH = ROOT + '/coq/theories'
SCR = ROOT + '/build/pastifiergen_mutants'
LH, SH = 'rtamt/pastifier/ltl/horizon.py', 'rtamt/pastifier/stl/horizon.py'
LP, SP = 'rtamt/pastifier/ltl/pastifier.py', 'rtamt/pastifier/stl/pastifier.py'
SV = 'rtamt/syntax/ast/visitor/stl/ast_visitor.py'
COPY = ['rtamt/pastifier', 'rtamt/syntax/ast/visitor', 'rtamt/syntax/node']

def in_method(src, cls, method, old, new, count=1):
    """replace inside the LAST definition of cls.method"""
    tree = ast.parse(src)
    cd = [n for n in tree.body if isinstance(n, ast.ClassDef) and n.name == cls][0]
    fd = [n for n in cd.body if isinstance(n, ast.FunctionDef) and n.name == method][-1]
    lines = src.split('\n')
    seg = '\n'.join(lines[fd.lineno - 1:fd.end_lineno])
    assert seg.count(old) >= 1, (cls, method, old)
    return '\n'.join(lines[:fd.lineno - 1] + seg.replace(old, new, count).split('\n') + lines[fd.end_lineno:])

def drop_method(src, cls, method):
    tree = ast.parse(src)
    cd = [n for n in tree.body if isinstance(n, ast.ClassDef) and n.name == cls][0]
    fds = [n for n in cd.body if isinstance(n, ast.FunctionDef) and n.name == method]
    lines = src.split('\n')
    for fd in reversed(fds): del lines[fd.lineno - 1:fd.end_lineno]
    return '\n'.join(lines)

def ch(path, *a): return (path, lambda s: in_method(s, *a))

CHANGES = [
  ('M1 horizon of until uses the begin bound', [ch(SH, 'StlHorizon', 'visitTimedUntil', '+ node.end', '+ node.begin')]),
  ('M2 a delay off by one (not: remaining - own horizon + one period)', [ch(SP, 'StlPastifier', 'visitNot', 'horizon = remaining_horizon - node_horizon', 'horizon = remaining_horizon - node_horizon + self.sample')]),
  ('M3 max -> min of two horizons (and)', [ch(LH, 'LtlHorizon', 'visitAnd', 'max(op1_horizon, op2_horizon)', 'min(op1_horizon, op2_horizon)')]),
  ('M4 the delay put on the wrong operand (until: left operand keeps the whole horizon)', [ch(SP, 'StlPastifier', 'visitTimedUntil', 'self.visit(node.children[0], horizon)', 'self.visit(node.children[0], args[0])')]),
  ('M5 once[h-1,h-1] for once[h,h] (or)', [ch(SP, 'StlPastifier', 'visitOr', 'Interval(horizon, horizon)', 'Interval(horizon - self.sample, horizon - self.sample)')]),
  ('M6a a missing case: StlPastifier.visitTimedSince removed', [(SP, lambda s: drop_method(s, 'StlPastifier', 'visitTimedSince'))]),
  ('M6b a missing case: StlPastifier.visitXor removed (the LTL method would run)', [(SP, lambda s: drop_method(s, 'StlPastifier', 'visitXor'))]),
  ('M7 next does not count in the horizon', [ch(SH, 'StlHorizon', 'visitNext', ' + self.sample', '')]),
  ('M8 historically[a,b] delayed inside its bounds like once[a,b]', [ch(SP, 'StlPastifier', 'visitTimedHistorically', 'Interval(node.begin, node.end)', 'Interval(node.begin + horizon, node.end + horizon)')]),
  ('M9 eventually[a,b] -> once[0,b] instead of once[0,b-a]', [ch(SP, 'StlPastifier', 'visitTimedEventually', 'Interval(0, end - begin)', 'Interval(0, end)')]),
  ('M10 LTL: one previous too many (since)', [ch(LP, 'LtlPastifier', 'visitSince', 'range(horizon)', 'range(horizon + 1)')]),
  ('M11 the visitor base dispatches TimedOnce to visitTimedHistorically and vice versa', [
      (SV, lambda s: s.replace('result = self.visitTimedOnce(node, *args, **kwargs)', 'result = self.visitTMP(node, *args, **kwargs)')
                      .replace('result = self.visitTimedHistorically(node, *args, **kwargs)', 'result = self.visitTimedOnce(node, *args, **kwargs)')
                      .replace('result = self.visitTMP(node, *args, **kwargs)', 'result = self.visitTimedHistorically(node, *args, **kwargs)'))]),
  ('M12 the horizon stored differs from the horizon returned (always[a,b])', [ch(SH, 'StlHorizon', 'visitTimedAlways', 'self.horizons[node] = op_horizon + node.end', 'self.horizons[node] = op_horizon')]),
  ('R1 rename a local (node_horizon -> nh) in visitAnd', [ch(SP, 'StlPastifier', 'visitAnd', 'node_horizon', 'nh', 99)]),
  ('R2 reorder two independent statements in visitTimedEventually', [ch(SP, 'StlPastifier', 'visitTimedEventually', 'begin = node.begin\n        end = node.end', 'end = node.end\n        begin = node.begin')]),
  ('R3 `if horizon > 0` written `if 0 < horizon` in visitOr', [ch(SP, 'StlPastifier', 'visitOr', 'if horizon > 0:', 'if 0 < horizon:')]),
  ('R4 the horizon of always[a,b] bound to a name first', [ch(SH, 'StlHorizon', 'visitTimedAlways',
      'self.horizons[node] = op_horizon + node.end\n        return op_horizon + node.end', 'out = op_horizon + node.end\n        self.horizons[node] = out\n        return out')]),
  ('R5 visitImplies without the intermediate names remaining_horizon / child nodes', [ch(SP, 'StlPastifier', 'visitImplies',
      '''remaining_horizon = args[0]
        horizon = remaining_horizon - node_horizon
        child1_node = self.visit(node.children[0], node_horizon)
        child2_node = self.visit(node.children[1], node_horizon)
        node = Implies(child1_node, child2_node)''',
      '''horizon = args[0] - node_horizon
        node = Implies(self.visit(node.children[0], node_horizon), self.visit(node.children[1], node_horizon))''')]),
  ('X1 a new visit method', [(SP, lambda s: s.replace('class StlDenseTimePastifier', '    def visitFoo(self, node, *args, **kwargs):\n        return node\n\n\nclass StlDenseTimePastifier'))]),
  ('X2 an unsupported construct (try/except) in visitAbs', [ch(SP, 'StlPastifier', 'visitAbs', 'node = Abs(child_node)', 'try:\n            node = Abs(child_node)\n        except ValueError:\n            pass')]),
  ('X3 to_default_unit (pinned, hand-modelled) changed', [ch(SP, 'StlPastifier', 'to_default_unit', "node.begin_unit = ''", "node.begin_unit = self.ast.unit")]),
  ('X4 a node class derives from another node class (TimedOnce(Once, Interval))', [
      ('rtamt/syntax/node/stl/timed_once.py', lambda s: s.replace('class TimedOnce(UnaryNode, Interval)', 'class TimedOnce(Once, Interval)').replace(
          'from rtamt.syntax.node.unary_node import UnaryNode', 'from rtamt.syntax.node.unary_node import UnaryNode\nfrom rtamt.syntax.node.ltl.once import Once'))]),
]

def lemma_at(path, line):
    name = '?'
    for k, l in enumerate(open(path).read().split('\n'), 1):
        m = re.match(r'\s*(Lemma|Theorem|Example|Definition|Fixpoint)\s+(\w+)', l)
        if m: name = m.group(2)
        if k >= line: break
    return name

def strip(t): return re.sub(r'\(\* \w+\.\w+ \w+\.py:\d+ \*\)', '', t)

def run(name, edits):
    d = SCR + '/' + name.split()[0]
    shutil.rmtree(d, ignore_errors=True)
    os.makedirs(d + '/coq/Props')
    # the committed sources (other tools patch the working tree of the repository for a moment while they run)
    os.makedirs(d + '/root')
    if os.path.isdir(REPO + '/.git') and not os.environ.get('MUTANTS_WORKTREE'):
        subprocess.run('git -C %s archive HEAD %s | tar -x -C %s/root' % (REPO, ' '.join(COPY), d), shell=True, check=True)
    else:
        for rel in COPY: shutil.copytree(REPO + '/' + rel, d + '/root/' + rel, ignore=shutil.ignore_patterns('__pycache__'))
    for rel, f in edits:
        src = open(d + '/root/' + rel).read()
        new = f(src)
        assert new != src, name
        ast.parse(new)
        open(d + '/root/' + rel, 'w').write(new)
    r = subprocess.run([sys.executable, ROOT + '/tools/py2coq_pastifier.py', d + '/root', d + '/coq/PastifyGen.v'], capture_output=True, text=True)
    if r.returncode != 0:
        msg = r.stderr.strip().split(': py2coq_pastifier: ')
        loc = msg[0].replace(d + '/root/', '')
        return 'translator fails closed (exit %d): %s [%s]' % (r.returncode, msg[-1], loc)
    same = strip(open(d + '/coq/PastifyGen.v').read()) == strip(open(TH + '/PastifyGen.v').read())
    for f in ['Val', 'Syntax', 'Rho', 'Offline', 'ListFacts', 'OfflineCorrect', 'PySem', 'PySemFacts', 'Units', 'Lexer', 'NodeName', 'PyNode', 'Pastify',
              'PastifyCorrect', 'Online', 'OnlineCorrect', 'Extend', 'Transfer', 'ExtZ', 'Laws', 'Sat', 'Lipschitz', 'IA']:
        if os.path.exists(TH + '/%s.vo' % f): shutil.copy(TH + '/%s.vo' % f, d + '/coq/')
    shutil.copy(TH + '/PastifyGenCorrect.v', d + '/coq/')
    shutil.copy(TH + '/Props/C03.v', d + '/coq/Props/C03.v')
    for f in ['PastifyGen.v', 'PastifyGenCorrect.v', 'Props/C03.v']:
        r = subprocess.run(['timeout', '900', 'coqc', '-Q', '.', 'RV', f], cwd=d + '/coq', capture_output=True, text=True)
        if r.returncode != 0:
            m = re.search(r'File "\./([\w/]+\.v)", line (\d+)', r.stdout + r.stderr)
            where = lemma_at(d + '/coq/' + m.group(1), int(m.group(2))) if m else '?'
            err = [l for l in (r.stdout + r.stderr).split('\n') if l.startswith('Error') or l.startswith('Found no') or 'Unable' in l]
            return 'proof fails at %s (%s line %s): %s' % (where, m.group(1) if m else f, m.group(2) if m else '?', ' '.join(err)[:160])
    return 'all lemmas check (generated text %s)' % ('identical up to line numbers' if same else 'changed')

def main():
    only = sys.argv[1:]
    out = {}
    for name, edits in CHANGES:
        if only and name.split()[0] not in only: continue
        v = run(name, edits)
        out[name] = v
        print('%-90s %s' % (name, v), flush=True)
    os.makedirs(SCR, exist_ok=True)
    json.dump(out, open(SCR + '/RESULT.json', 'w'), indent=1)

if __name__ == '__main__':
    main()
