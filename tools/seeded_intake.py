#!/venv/bin/python
# tools/seeded_intake.py <Cxx> <worktree> <name> — confirms a seeded change delivered by a sub-agent in its scratch worktree
# (<worktree>/_out/{patch.diff,demo.py,meta.json}): the patch applies to a clean tree, the pinned suite still passes with it, the
# demonstration exits 0 without it and non-zero with it; then files it as seeded/<name>/.  Used while building; no registered check.
import json, os, shutil, subprocess, sys
pid, wt, name = sys.argv[1:4]
def sh(cmd, **kw):
    p = subprocess.run(cmd, shell=True, stdout=subprocess.PIPE, stderr=subprocess.STDOUT, universal_newlines=True, **kw)
    return p.returncode, p.stdout
env = dict(os.environ, PYTHONPATH=wt, PYTHONHASHSEED='0')
out = wt + '/_out'
sh('git -C %s checkout -- .' % wt)
rc0, o0 = sh('/venv/bin/python %s/demo.py' % out, cwd=wt, env=env, timeout=900)
rc, o = sh('git -C %s apply %s/patch.diff' % (wt, out)); assert rc == 0, o
rc1, o1 = sh('/venv/bin/python %s/demo.py' % out, cwd=wt, env=env, timeout=900)
src, so = sh('/venv/bin/python /verif/tools/suite.py %s' % wt)
sh('git -C %s checkout -- .' % wt)
ok = rc0 == 0 and rc1 != 0 and src == 0
print(name, 'demo clean', rc0, 'demo patched', rc1, 'suite', so.strip().splitlines()[-1] if so.strip() else '?', 'CONFIRMED' if ok else 'REJECTED')
if not ok:
    print(o0[-500:]); print(o1[-500:]); sys.exit(1)
d = '/verif/seeded/' + name
os.makedirs(d, exist_ok=True)
shutil.copy(out + '/patch.diff', d); shutil.copy(out + '/demo.py', d)
m = json.load(open(out + '/meta.json'))
meta = {'id': name, 'property': pid, 'summary': m.get('summary'), 'needs': m.get('needs'), 'files': m.get('files'),
        'demo_exit_clean': rc0, 'demo_exit_patched': rc1, 'demo_output_patched': o1[-1500:], 'suite_tail': so.strip().splitlines()[-1],
        'suite_passes': True, 'what_was_run': 'tools/seeded_intake.py (demo both ways + pinned suite in the scratch worktree), then tools/seeded_recheck.py ' + name}
json.dump(meta, open(d + '/meta.json', 'w'), indent=1)
