#!/venv/bin/python
# tools/mutsweep.py [--seed N] [--per-file K] [--out FILE] [path-prefix ...]
#   Automated mutation sweep (complements the hand-made seeded changes of seeded/): single-token mutations
#   (relational operators, +-1, min/max, begin/end, sign of inf, and/or) are applied one at a time to a scratch
#   worktree of /repo; a mutant that still passes the 509-test baseline is run against the quick checks
#   (the ones that concern the mutated file first, then all others) with RTAMT_REPO pointing at the worktree and
#   VERIF_OUTDIR at a scratch directory, so that /repo, evidence/ and replays/ are not touched.
#   Result: for every mutant 'killed_by_suite', 'killed_by_check' (which one) or 'survived'.
# Used while building the machinery; not part of any registered check.
import json, os, random, re, subprocess, sys, time

WT = '/tmp/sweep'
OUT = '/tmp/sweep_out'
ALL = ['C%02d' % i for i in range(1, 21)]

TARGETS = [
    'rtamt/semantics/stl/discrete_time/online/', 'rtamt/semantics/stl/dense_time/online/', 'rtamt/semantics/arithmetic/',
    'rtamt/semantics/iastl/', 'rtamt/pastifier/', 'rtamt/explanation/', 'rtamt/semantics/stl/discrete_time/offline/',
    'rtamt/semantics/stl/dense_time/offline/', 'rtamt/semantics/discrete_time_interpreter.py', 'rtamt/semantics/dense_time_interpreter.py',
    'rtamt/semantics/abstract_online_interpreter.py', 'rtamt/semantics/abstract_discrete_time_offline_interpreter.py',
    'rtamt/semantics/abstract_discrete_time_online_interpreter.py', 'rtamt/semantics/abstract_dense_time_online_interpreter.py',
    'rtamt/semantics/abstract_dense_time_offline_interpreter.py', 'rtamt/syntax/ast/parser/', 'rtamt/syntax/node/', 'rtamt/spec/',
]

OPS = [
    (r'(?<![<>=!])<=(?!=)', '<'), (r'(?<![<>=!])<(?![<=])', '<='), (r'(?<![<>=!-])>=(?!=)', '>'), (r'(?<![<>=!-])>(?![>=])', '>='),
    (r'==', '!='), (r'!=', '=='), (r'\+ 1\b', '- 1'), (r'- 1\b', '+ 1'), (r'\bmin\(', 'max('), (r'\bmax\(', 'min('),
    (r'\bbegin\b', 'end'), (r'\bend\b', 'begin'), (r'(?<!-)float\((["\'])inf\1\)', '-float("inf")'), (r'-\s*float\((["\'])inf\1\)', 'float("inf")'),
    (r'\band\b', 'or'), (r'\bor\b', 'and'), (r'\[0\]', '[1]'), (r'\[1\]', '[0]'), (r'\bTrue\b', 'False'), (r'\bFalse\b', 'True'),
]


def relevant(path):
    m = [
        ('discrete_time/online', ['C02', 'C10', 'C18', 'C06', 'C12']), ('dense_time/online', ['C05', 'C10', 'C12', 'C18', 'C11']),
        ('dense_time/offline', ['C04', 'C16', 'C18', 'C19', 'C07']), ('discrete_time/offline', ['C01', 'C16', 'C18', 'C19', 'C07', 'C11']),
        ('arithmetic', ['C01', 'C02', 'C04', 'C05']), ('iastl', ['C06', 'C07', 'C02']), ('pastifier', ['C03', 'C08', 'C09', 'C06', 'C12']),
        ('explanation', ['C20']), ('discrete_time_interpreter', ['C08', 'C13', 'C01', 'C02', 'C19']), ('dense_time_interpreter', ['C08', 'C04', 'C05']),
        ('abstract_online', ['C02', 'C10', 'C12', 'C09']), ('abstract_discrete_time_offline', ['C13', 'C01', 'C17']),
        ('abstract_discrete_time_online', ['C13', 'C02', 'C10', 'C17']), ('abstract_dense', ['C05', 'C04', 'C17', 'C10']),
        ('parser', ['C14', 'C15', 'C09', 'C08']), ('syntax/node', ['C06', 'C12', 'C09']), ('spec/', ['C17', 'C11', 'C13', 'C10', 'C12']),
    ]
    for key, cs in m:
        if key in path:
            return cs
    return []


def sh(cmd, env=None, cwd=None, timeout=1800):
    p = subprocess.run(cmd, shell=True, cwd=cwd, env=env, stdout=subprocess.PIPE, stderr=subprocess.STDOUT, universal_newlines=True, timeout=timeout)
    return p.returncode, p.stdout


def candidates(path, text):
    out = []
    in_doc = False
    for ln, line in enumerate(text.split('\n')):
        st = line.strip()
        if st.count('"""') % 2 == 1 or st.count("'''") % 2 == 1:
            in_doc = not in_doc
            continue
        if in_doc or not st or st.startswith('#') or st.startswith(('import ', 'from ', 'def ', 'class ', 'raise ', '@', 'logging', 'print')):
            continue
        code = line.split('#')[0]
        if 'RTAMTException' in code or 'Exception(' in code:
            continue
        for k, (pat, rep) in enumerate(OPS):
            for m in re.finditer(pat, code):
                new = code[:m.start()] + rep + code[m.end():] + line[len(code):]
                out.append((ln, k, m.start(), new))
    return out


def run_checks(checks, env):
    """run the quick checks four at a time; returns the first check that reports a violation (exit 1 + VIOLATION line) or None"""
    todo = list(checks)
    running = []
    killed = None
    while (todo or running) and killed is None:
        while todo and len(running) < 4:
            c = todo.pop(0)
            running.append((c, subprocess.Popen('./check %s --tier quick' % c, shell=True, cwd='/verif', env=env, stdout=subprocess.PIPE, stderr=subprocess.STDOUT, universal_newlines=True)))
        time.sleep(0.5)
        for (c, p) in list(running):
            if p.poll() is not None:
                out = p.stdout.read()
                running.remove((c, p))
                if p.returncode != 0 and 'VIOLATION' in out:
                    killed = c
                elif p.returncode != 0:
                    killed = c + '(error)'
    for (c, p) in running:
        p.kill()
    return killed


def main():
    args = sys.argv[1:]
    seed, per_file, outf = 1, 4, '/verif/seeded/SWEEP.json'
    prefixes = []
    while args:
        a = args.pop(0)
        if a == '--seed':
            seed = int(args.pop(0))
        elif a == '--per-file':
            per_file = int(args.pop(0))
        elif a == '--out':
            outf = args.pop(0)
        else:
            prefixes.append(a)
    rng = random.Random(seed)
    sh('git -C /repo worktree remove --force %s' % WT)
    sh('git -C /repo worktree prune')
    rc, o = sh('git -C /repo worktree add -q --detach %s HEAD' % WT)
    assert rc == 0, o
    os.makedirs(OUT, exist_ok=True)
    rc, files = sh('git -C %s ls-files "rtamt/*.py"' % WT)
    order = prefixes or TARGETS
    files = [f for f in files.split() if any(f.startswith(t) for t in order) and not f.endswith('__init__.py') and '/antlr/' not in f]
    files.sort(key=lambda f: min(i for i, t in enumerate(order) if f.startswith(t)))
    env = dict(os.environ, RTAMT_REPO=WT, VERIF_OUTDIR=OUT, PYTHONPATH=WT)
    res = json.load(open(outf)) if os.path.exists(outf) else {'mutants': []}
    done = {(m['file'], m['line'], m['new'].strip()) for m in res['mutants']}
    for f in files:
        path = os.path.join(WT, f)
        text = open(path).read()
        cands = candidates(f, text)
        rng.shuffle(cands)
        picked, lines_used = [], set()
        for c in cands:
            if c[0] in lines_used:
                continue
            picked.append(c)
            lines_used.add(c[0])
            if len(picked) >= per_file:
                break
        for (ln, k, col, new) in picked:
            if (f, ln + 1, new.strip()) in done:
                continue
            lines = text.split('\n')
            old = lines[ln]
            lines[ln] = new
            open(path, 'w').write('\n'.join(lines))
            rec = {'file': f, 'line': ln + 1, 'old': old.strip(), 'new': new.strip()}
            t0 = time.time()
            rc, o = sh('/venv/bin/python -m py_compile %s' % path)
            if rc != 0:
                rec['result'] = 'does_not_compile'
            else:
                rc, o = sh('/venv/bin/python /verif/tools/suite.py %s' % WT, timeout=1200)
                if rc != 0:
                    rec['result'] = 'killed_by_suite'
                else:
                    rel = relevant(f)
                    k1 = run_checks(rel, env)
                    if k1 is None:
                        k1 = run_checks([c for c in ALL if c not in rel], env)
                    rec['result'] = 'killed_by_check' if k1 else 'survived'
                    rec['check'] = k1
            rec['seconds'] = round(time.time() - t0, 1)
            open(path, 'w').write(text)
            res['mutants'].append(rec)
            print(json.dumps(rec), flush=True)
            json.dump(res, open(outf, 'w'), indent=1)
    sh('git -C /repo worktree remove --force %s' % WT)
    sh('git -C /repo worktree prune')
    summ = {}
    for m in res['mutants']:
        summ[m['result']] = summ.get(m['result'], 0) + 1
    res['summary'] = summ
    json.dump(res, open(outf, 'w'), indent=1)
    print('SUMMARY', summ)


main()
