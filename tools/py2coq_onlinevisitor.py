#!/usr/bin/env python3
# tools/py2coq_onlinevisitor.py [REPO_ROOT] OUT.v [OnlineGen.v]
# FAIL-CLOSED translator of the three visitors of the discrete-time ONLINE interpreter  ->  coq/theories/OnlineVisitorGen.v
#
#   gen_construct : node -> sdict gop -> option (sdict gop)       StlDiscreteTimeOnlineAstVisitor (stl/discrete_time/online/ast_visitor.py):
#       which operation class is constructed for which node class, which node classes raise; one clause per node class, found through
#       the dispatch of StlAstVisitor.visit / LtlAstVisitor.visit (READ from the isinstance chains, as tools/py2coq_pastifier.py does) and
#       Python's method lookup (the class itself, StlAstVisitor, LtlAstVisitor)
#   gen_update    : vobj -> node -> sdict gop -> sdict V -> option (sdict gop * sdict V * V)
#       AbstractOnlineUpdateVisitor.visitUnary / visitBinary / visitLeaf (abstract_online_interpreter.py) with the `visited` memo, found
#       through AbstractAstVisitor.visit (isinstance BinaryNode / UnaryNode / LeafNode); DiscreteTimeOnlineUpdateVisitor.visitConstant
#   gen_reset     : node -> sdict gop -> option (sdict gop)       AbstractOnlineResetVisitor.visitUnary / visitBinary / visitLeaf
# plus the type `gop` of operation objects (one constructor per class the construction visitor instantiates) and the dynamic dispatch of
# operator.update(..) / operator.reset() on it (gop_update1 / gop_update2 / gop_reset), which call the GENERATED X_init / X_update /
# X_reset of OnlineGen.v (tools/py2coq_online.py); their signatures are read from that file.
# None = the Python code raises (RTAMTException of an unsupported node, KeyError of a dictionary, TypeError of update() called with
# the wrong number of samples, whatever the operation raises).  A mutable operation object lives in online_operator_dict only:
# `operator = online_operator_dict[node.name]; r = operator.update(..)` is read-modify-write of that entry.
# Hand-modelled and PINNED by the digest of their syntax tree (a change stops the translation): AbstractAstVisitor.visitChildren /
# visitAst, the update visitor's visitAst / reuse / visitSpec / __init__, DiscreteTimeOnlineUpdateVisitor.visitVariable (parameter vobj),
# set_ast / reset / update of the interpreters (the epilogue below), the arithmetic operation classes (a1 AR / a2 AR of Val.Arith).
# `self.results[node] = x` (what get_value() reads) is not modelled: the statement is recognised by its exact shape and dropped.
# Anything else outside the supported set: exit status 2 with file:line.
import ast, hashlib, os, re, sys
sys.path.insert(0, os.path.dirname(os.path.abspath(__file__)))
import py2coq_pastifier as P

F_AOI = 'rtamt/semantics/abstract_online_interpreter.py'
F_ADI = 'rtamt/semantics/abstract_discrete_time_online_interpreter.py'
F_CON = 'rtamt/semantics/stl/discrete_time/online/ast_visitor.py'
F_AAV = 'rtamt/syntax/ast/visitor/abstract_ast_visitor.py'
ARITH = 'rtamt/semantics/arithmetic/discrete_time/online'
STLOP = 'rtamt/semantics/stl/discrete_time/online'

# the arithmetic operation classes (outside OnlineGen.v): file, arity, the hand model of update(); the digests of the modules are in ARITH_PINS
ARITH_OPS = {
    'AbsOperation': ('abs_operation.py', 1, 'a1 AR Abs'), 'SqrtOperation': ('sqrt_operation.py', 1, 'a1 AR Sqrt'),
    'ExpOperation': ('exp_operation.py', 1, 'a1 AR Exp'), 'LnOperation': ('ln_operation.py', 1, 'a1 AR Ln'),
    'NegateOperation': ('negate_operation.py', 1, 'a1 AR Neg'),
    'AdditionOperation': ('addition_operation.py', 2, 'a2 AR Add'), 'SubtractionOperation': ('subtraction_operation.py', 2, 'a2 AR Sub'),
    'MultiplicationOperation': ('multiplication_operation.py', 2, 'a2 AR Mul'), 'DivisionOperation': ('division_operation.py', 2, 'a2 AR Div'),
    'PowOperation': ('pow_operation.py', 2, 'a2 AR Pow'), 'LogOperation': ('log_operation.py', 2, 'a2 AR Log'),
}

PATH = '?'
def fail(node, msg, path=None):
    sys.stderr.write('%s:%s: py2coq_onlinevisitor: %s\n' % (path or PATH, getattr(node, 'lineno', '?'), msg))
    sys.exit(2)
def digest(node): return hashlib.sha256(ast.unparse(node).encode()).hexdigest()[:12]
is_name, is_attr, is_self_attr = P.is_name, P.is_attr, P.is_self_attr

def parse(root, rel):
    global PATH
    PATH = root.rstrip('/') + '/' + rel
    if not os.path.exists(PATH): fail(None, 'file missing')
    return ast.parse(open(PATH).read(), PATH), PATH

def classes_of(mod, path):
    out = {}
    for s in mod.body:
        if isinstance(s, ast.ClassDef):
            if s.name in out or s.keywords or s.decorator_list: fail(s, 'class %s: defined twice / keywords / decorators' % s.name, path)
            out[s.name] = s
    return out
def imports_of(mod, path):
    out = {}
    for s in mod.body:
        if isinstance(s, ast.ImportFrom):
            for al in s.names:
                if al.asname or s.level: fail(s, 'from ... import ... as / relative import', path)
                out[al.name] = s.module
    return out
def methods_of(cd, path):
    out = {}
    for s in cd.body:
        if isinstance(s, ast.Expr) and isinstance(s.value, ast.Constant) and isinstance(s.value.value, str): continue
        if isinstance(s, ast.Assign) and ast.unparse(s) == '__metaclass__ = ABCMeta': continue
        if not isinstance(s, ast.FunctionDef): fail(s, 'unexpected class-level statement %s' % type(s).__name__, path)
        if s.name in out: fail(s, 'method %s defined twice' % s.name, path)
        out[s.name] = s
    return out
def body_of(fd):
    return [s for s in fd.body if not (isinstance(s, ast.Expr) and isinstance(s.value, ast.Constant) and isinstance(s.value.value, str))]

# ---------------------------------------------------------------- pins
PINNED = {
    (F_AAV, 'AbstractAstVisitor', 'visitChildren'): '3fb456096ffb', (F_AAV, 'AbstractAstVisitor', 'visitAst'): 'a56dc97fecae',
    (F_AOI, 'AbstractOnlineUpdateVisitor', '__init__'): 'b1382aef248a', (F_AOI, 'AbstractOnlineUpdateVisitor', 'visitAst'): '2d2cef102f62',
    (F_AOI, 'AbstractOnlineUpdateVisitor', 'reuse'): '472589a5a1f5', (F_AOI, 'AbstractOnlineUpdateVisitor', 'visitSpec'): '18d0800af7b1',
    (F_AOI, 'AbstractOnlineInterpreter', 'reset'): '29e17142aceb', (F_AOI, 'AbstractOnlineInterpreter', 'set_ast'): '0cb6ef8d19ea',
    (F_ADI, 'DiscreteTimeOnlineUpdateVisitor', 'visitVariable'): '06f87921de00', (F_ADI, 'AbstractDiscreteTimeOnlineInterpreter', 'update'): '540db94e064c',
    (F_ADI, 'AbstractDiscreteTimeOnlineInterpreter', 'reset'): '27fe4973371c', (F_ADI, 'AbstractDiscreteTimeOnlineInterpreter', 'set_ast'): '06eb1baac821',
    (F_ADI, 'AbstractDiscreteTimeOnlineInterpreter', '__init__'): '51c906587350',
}
ARITH_PINS = {'AbsOperation': '653a4db33618', 'SqrtOperation': '45d206fd47ae', 'ExpOperation': '1b1c51b326eb', 'LnOperation': '9697dc05e40b', 'NegateOperation': '41bbfc41a5f4',
              'AdditionOperation': 'ba0bf96bcaab', 'SubtractionOperation': '4ee4906f526e', 'MultiplicationOperation': 'd6dc647c4678', 'DivisionOperation': '3e9953ab3003',
              'PowOperation': 'c26711fc99ab', 'LogOperation': '62a7fd8727ad'}
PRINT = '--print-digests' in sys.argv
def pin(fd, key, path):
    d = digest(fd)
    if PRINT: print(key, d); return
    if d != PINNED[key]: fail(fd, 'the untranslated (hand-modelled) method %s.%s changed (digest %s)' % (key[1], key[2], d), path)

# ---------------------------------------------------------------- OnlineGen.v: the generated operation classes
def read_onlinegen(path):
    if not os.path.exists(path): fail(None, 'OnlineGen.v not found', path)
    txt = open(path).read()
    cls_file = dict((c, f) for f, c in re.findall(r'\(\* ===== (\S+): class (\w+) ===== \*\)', txt))
    chunks = re.split(r'\n(?=Definition |Record |\(\* =====|End )', txt)
    defs = {}
    for ch in chunks:
        m = re.match(r'Definition (\w+?)_(init|update|reset|sat)((?: \([^)]*\))*) : (.*?) :=', ch)
        if not m: continue
        params = re.findall(r'\((\w+) : ([^)]*)\)', m.group(3))
        defs[(m.group(1), m.group(2))] = dict(params=params, ret=m.group(4).strip(), body=ch, name='%s_%s' % (m.group(1), m.group(2)))
    # which definitions take the section variable AR after the section is closed: those that mention it, or mention one that does
    need = {k: bool(re.search(r'\bAR\b', d['body'].split(':=', 1)[1])) for k, d in defs.items()}
    changed = True
    while changed:
        changed = False
        for k, d in defs.items():
            if need[k]: continue
            for k2, d2 in defs.items():
                if need[k2] and re.search(r'\b%s\b' % d2['name'], d['body'].split(':=', 1)[1]): need[k] = True; changed = True
    for k in defs: defs[k]['AR'] = need[k]
    return cls_file, defs

class Ops:
    """the operation classes the construction visitor instantiates, in order of first use"""
    def __init__(self, root, gen_path, imports):
        self.root, self.imports = root, imports
        self.cls_file, self.defs = read_onlinegen(gen_path)
        self.used = []
    def use(self, cls, node, path):
        if cls in self.used: return
        mod = self.imports.get(cls)
        if mod is None: fail(node, 'operation class %s is not imported' % cls, path)
        if cls in ARITH_OPS:
            f = ARITH + '/' + ARITH_OPS[cls][0]
            if mod != f[:-3].replace('/', '.'): fail(node, '%s is imported from %s' % (cls, mod), path)
            m, p = parse(self.root, f)
            d = digest(m)
            if PRINT: print('ARITH', cls, d)
            elif d != ARITH_PINS[cls]: fail(m.body[0], 'the hand-modelled arithmetic operation %s changed (digest %s)' % (cls, d), p)
        else:
            if cls not in self.cls_file: fail(node, 'operation class %s is neither in OnlineGen.v nor a pinned arithmetic class' % cls, path)
            if mod != self.cls_file[cls][:-3].replace('/', '.'): fail(node, '%s is imported from %s, OnlineGen.v has it from %s' % (cls, mod, self.cls_file[cls]), path)
            for m in ('init', 'update', 'reset'):
                if (cls, m) not in self.defs: fail(node, 'OnlineGen.v has no %s_%s' % (cls, m), path)
        self.used.append(cls)
    def fn(self, cls, m):
        d = self.defs[(cls, m)]
        return '%s%s' % (d['name'], ' AR' if d['AR'] else '')
    def stateful(self, cls): return cls not in ARITH_OPS
    def arity(self, cls):
        if cls in ARITH_OPS: return ARITH_OPS[cls][1]
        ps = self.defs[(cls, 'update')]['params']
        if ps[0][1] != cls + '_state' or any(t != 'V' for _, t in ps[1:]): fail(None, 'signature of %s_update in OnlineGen.v' % cls)
        return len(ps) - 1
    def text(self):
        L = ['(* an operation object: one constructor per class that the construction visitor instantiates *)', 'Inductive gop :=']
        for c in self.used:
            L.append('| Op_%s%s' % (c, ' (s : %s_state)' % c if self.stateful(c) else ''))
        L[-1] += '.'
        for n in (1, 2):
            xs = ' '.join('x%d' % i for i in range(1, n + 1))
            L.append('(* operator.update(%s): dispatch on the class of the object; TypeError (None) when update() of that class takes another number of samples *)'
                     % ', '.join('sample%d' % i for i in range(1, n + 1)))
            L.append('Definition gop_update%d (o : gop) %s : option (gop * V) :=' % (n, ' '.join('(x%d : V)' % i for i in range(1, n + 1))))
            L.append('  match o with')
            for c in self.used:
                if self.arity(c) != n: continue
                if not self.stateful(c):
                    L.append('  | Op_%s => Some (Op_%s, %s %s)   (* %s/%s, pinned *)' % (c, c, ARITH_OPS[c][2], xs, ARITH, ARITH_OPS[c][0]))
                    continue
                ret = self.defs[(c, 'update')]['ret']
                if ret == '%s_state * V' % c:
                    L.append("  | Op_%s s => let '(s', r) := %s s %s in Some (Op_%s s', r)" % (c, self.fn(c, 'update'), xs, c))
                elif ret == 'option (%s_state * V)' % c:
                    L.append("  | Op_%s s => '(s', r) <- %s s %s ;; Some (Op_%s s', r)" % (c, self.fn(c, 'update'), xs, c))
                else: fail(None, 'result type of %s_update in OnlineGen.v: %s' % (c, ret))
            L.append('  | _ => None')
            L.append('  end.')
        L.append('(* operator.reset() *)')
        L.append('Definition gop_reset (o : gop) : gop :=')
        L.append('  match o with')
        for c in self.used:
            if not self.stateful(c): L.append('  | Op_%s => Op_%s' % (c, c)); continue
            d = self.defs[(c, 'reset')]
            if [t for _, t in d['params']] != [c + '_state'] or d['ret'] != c + '_state': fail(None, 'signature of %s_reset in OnlineGen.v' % c)
            L.append('  | Op_%s s => Op_%s (%s s)' % (c, c, self.fn(c, 'reset')))
        L.append('  end.')
        return '\n'.join(L) + '\n'

# ---------------------------------------------------------------- method translation
ARITY, PATTERN, CLASSES, ORDER = P.ARITY, P.PATTERN, P.CLASSES, P.ORDER
STAR = ', *args, **kwargs'

class M:
    """one method, translated for one node class; kind: construct / update / reset"""
    def __init__(self, fd, cls, kind, path, ops=None, ctx=None):
        self.fd, self.cls, self.kind, self.path, self.ops, self.ctx = fd, cls, kind, path, ops, ctx
        self.ctor, self.tag = CLASSES[cls]
        self.ntmp = 0
    def fail(self, n, msg): fail(n, '%s (as %s): %s' % (self.fd.name, self.cls, msg), self.path)
    def v(self, name): return 'v_' + name
    def key(self, e):
        if not is_attr(e, 'node', 'name'): self.fail(e, 'dictionary key %s is not node.name' % ast.unparse(e))
        return '(nname node)'
    def children(self, ind):
        return [ind + 'ood <- %s ch%d ood ;;' % ('gen_construct' if self.kind == 'construct' else 'gen_reset', k + 1) for k in range(ARITY[self.ctor])]
    def ret(self, ind, val=None):
        if self.kind == 'update': return [ind + 'Some (ood, visited, %s)' % val]
        return [ind + 'Some ood']
    def check_sig(self):
        a = self.fd.args
        names = [x.arg for x in a.args]
        want = {'construct': ['self', 'node'], 'update': ['self', 'node', 'online_operator_dict', 'var_object_dict'],
                'reset': ['self', 'node', 'online_operator_dict']}[self.kind]
        star = self.kind == 'construct'
        if (names != want or bool(a.vararg) != star or bool(a.kwarg) != star or (star and (a.vararg.arg, a.kwarg.arg) != ('args', 'kwargs'))
                or a.defaults or a.kwonlyargs or a.posonlyargs or self.fd.decorator_list): self.fail(self.fd, 'signature changed')
        for n in ast.walk(self.fd):
            if isinstance(n, (ast.Lambda, ast.ClassDef, ast.Global, ast.Nonlocal, ast.Try, ast.While, ast.With, ast.For, ast.Delete, ast.AugAssign)) \
               or (isinstance(n, ast.FunctionDef) and n is not self.fd): self.fail(n, 'unsupported construct %s' % type(n).__name__)

    def translate(self):
        self.check_sig()
        return self.block(body_of(self.fd), {}, '      ')

    def isinstance_static(self, t):
        if (isinstance(t, ast.Call) and is_name(t.func, 'isinstance') and len(t.args) == 2 and not t.keywords and is_name(t.args[0], 'node')
                and isinstance(t.args[1], ast.Name) and t.args[1].id in ('Constant', 'Variable')):
            imp = self.ctx['imports']
            if imp.get(t.args[1].id) != 'rtamt.syntax.node.ltl.' + t.args[1].id.lower(): self.fail(t, '%s is not the node class' % t.args[1].id)
            return self.cls == t.args[1].id
        return None

    def block(self, stmts, env, ind):
        if not stmts:
            if self.kind == 'update': self.fail(self.fd, 'the method can end without returning a sample')
            return self.ret(ind)
        s, rest = stmts[0], stmts[1:]
        env = dict(env)
        cont = lambda: self.block(rest, env, ind)
        src = ast.unparse(s)
        if isinstance(s, ast.Pass): return cont()
        if isinstance(s, ast.Raise):
            if not (isinstance(s.exc, ast.Call) and is_name(s.exc.func, 'RTAMTException')) or rest: self.fail(s, 'raise of something else / statements after raise')
            return [ind + 'None']
        if isinstance(s, ast.Return):
            if rest: self.fail(s, 'statements after return')
            if self.kind == 'update':
                if not (isinstance(s.value, ast.Name) and env.get(s.value.id) == 'V'): self.fail(s, 'must return a sample held in a local name')
                return self.ret(ind, self.v(s.value.id))
            if s.value is None: return self.ret(ind)
            if self.kind == 'construct' and src == 'return self.visitChildren(node%s)' % STAR: return self.children(ind) + self.ret(ind)
            self.fail(s, 'unsupported return value')
        if isinstance(s, ast.Expr):
            if self.kind == 'construct' and src == 'self.visitChildren(node%s)' % STAR: return self.children(ind) + cont()
            if self.kind == 'reset' and src == 'self.visitChildren(node, online_operator_dict)': return self.children(ind) + cont()
            c = s.value
            if (self.kind == 'reset' and isinstance(c, ast.Call) and isinstance(c.func, ast.Attribute) and c.func.attr == 'reset' and not c.args and not c.keywords
                    and isinstance(c.func.value, ast.Name) and env.get(c.func.value.id) == 'op'):
                o = self.v(c.func.value.id)
                return [ind + 'let %s := gop_reset %s in' % (o, o), ind + 'let ood := sd_set ood (nname node) %s in' % o] + cont()
            self.fail(s, 'unsupported expression statement')
        if isinstance(s, ast.If):
            st = self.isinstance_static(s.test)
            if st is not None and self.kind == 'update':      # the class of the node is known in this clause
                if st: return self.block(s.body + rest, env, ind)
                return self.block(s.orelse + rest, env, ind)
            if self.kind == 'update' and src == 'if node.name in self.visited:\n    return self.reuse(node)':
                t = 't_reuse'
                return [ind + 'if sd_mem visited (nname node) then (%s <- sd_get visited (nname node) ;; Some (ood, visited, %s)) (* reuse(node), pinned *) else' % (t, t)] + cont()
            self.fail(s, 'unsupported if')
        if isinstance(s, ast.Assign):
            if len(s.targets) != 1: self.fail(s, 'chained assignment')
            t, e = s.targets[0], s.value
            # begin, end = self.time_unit_transformer(node)
            if isinstance(t, ast.Tuple):
                if not (self.kind == 'construct' and self.ctor in ('NTUn', 'NTBin') and len(t.elts) == 2 and all(isinstance(x, ast.Name) for x in t.elts)
                        and ast.unparse(e) == 'self.time_unit_transformer(node)'): self.fail(s, 'unsupported tuple assignment')
                a, b = t.elts[0].id, t.elts[1].id
                if a == b: self.fail(s, 'the same name twice')
                env[a] = env[b] = 'Z'
                return [ind + "'(%s, %s) <- tut nbegin nend ;;" % (self.v(a), self.v(b))] + cont()
            if isinstance(t, ast.Subscript):
                if self.kind == 'construct' and is_self_attr(t.value, 'online_operator_dict'):
                    k = self.key(t.slice)
                    if not (isinstance(e, ast.Call) and isinstance(e.func, ast.Name) and not e.keywords): self.fail(s, 'the dictionary must receive a new operation object')
                    c = e.func.id
                    self.ops.use(c, s, self.path)
                    args = []
                    for x in e.args:
                        if isinstance(x, ast.Name) and env.get(x.id) == 'Z': args.append(('Z', self.v(x.id)))
                        elif is_attr(x, 'node', 'operator') and self.cls == 'Predicate': args.append(('cmp', 'nop'))
                        else: self.fail(x, 'unsupported constructor argument %s' % ast.unparse(x))
                    if not self.ops.stateful(c):
                        if args: self.fail(s, '%s takes no arguments' % c)
                        return [ind + 'let ood := sd_set ood %s Op_%s in' % (k, c)] + cont()
                    d = self.ops.defs[(c, 'init')]
                    if [ty for _, ty in d['params']] != [ty for ty, _ in args]: self.fail(s, 'arguments of %s(..): %s, OnlineGen.v has %s' % (c, args, d['params']))
                    call = ' '.join([self.ops.fn(c, 'init')] + [x for _, x in args])
                    if d['ret'] == '%s_state' % c: return [ind + 'let ood := sd_set ood %s (Op_%s (%s)) in' % (k, c, call)] + cont()
                    if d['ret'] == 'option (%s_state)' % c:
                        return [ind + 't_op <- %s ;;' % call, ind + 'let ood := sd_set ood %s (Op_%s t_op) in' % (k, c)] + cont()
                    self.fail(s, 'result type of %s_init in OnlineGen.v: %s' % (c, d['ret']))
                if self.kind == 'update' and is_self_attr(t.value, 'results') and is_name(t.slice, 'node'):
                    if not (isinstance(e, ast.Name) and env.get(e.id) == 'V'): self.fail(s, 'self.results[node] must receive a sample held in a local name')
                    return cont()          # not modelled (see the header)
                if self.kind == 'update' and is_self_attr(t.value, 'visited'):
                    k = self.key(t.slice)
                    if not (isinstance(e, ast.Name) and env.get(e.id) == 'V'): self.fail(s, 'self.visited[..] must receive a sample held in a local name')
                    return [ind + 'let visited := sd_set visited %s %s in' % (k, self.v(e.id))] + cont()
                self.fail(s, 'unsupported assignment target %s' % ast.unparse(t))
            if not isinstance(t, ast.Name) or t.id in ('self', 'node', 'online_operator_dict', 'var_object_dict', 'args', 'kwargs'):
                self.fail(s, 'unsupported assignment target %s' % ast.unparse(t))
            x = t.id
            if self.kind in ('update', 'reset') and isinstance(e, ast.Subscript) and is_name(e.value, 'online_operator_dict'):
                self.key(e.slice)
                if x in env: self.fail(s, '%s is assigned twice' % x)
                env[x] = 'op'
                return [ind + '%s <- sd_get ood (nname node) ;;' % self.v(x)] + cont()
            if self.kind == 'update' and isinstance(e, ast.Call) and not e.keywords:
                f, se = e.func, ast.unparse(e)
                m = re.fullmatch(r'self\.visit\(node\.children\[(\d+)\], online_operator_dict, var_object_dict\)', se)
                if m:
                    k = int(m.group(1))
                    if k >= ARITY[self.ctor]: self.fail(s, 'children[%d] of a node with %d children' % (k, ARITY[self.ctor]))
                    if env.get(x) == 'op': self.fail(s, '%s changes type' % x)
                    env[x] = 'V'
                    return [ind + "'(ood, visited, %s) <- gen_update vobj ch%d ood visited ;;" % (self.v(x), k + 1)] + cont()
                if isinstance(f, ast.Attribute) and f.attr == 'update' and isinstance(f.value, ast.Name) and env.get(f.value.id) == 'op':
                    args = []
                    for a in e.args:
                        if not (isinstance(a, ast.Name) and env.get(a.id) == 'V'): self.fail(a, 'update() must receive samples held in local names')
                        args.append(self.v(a.id))
                    if len(args) not in (1, 2): self.fail(s, 'update() with %d samples' % len(args))
                    if env.get(x) == 'op': self.fail(s, '%s changes type' % x)
                    o = self.v(f.value.id)
                    env[x] = 'V'
                    return [ind + "'(%s, %s) <- gop_update%d %s %s ;;" % (o, self.v(x), len(args), o, ' '.join(args)),
                            ind + 'let ood := sd_set ood (nname node) %s in' % o] + cont()
                if se == 'self.visitConstant(node, online_operator_dict, var_object_dict)' and self.cls == 'Constant':
                    b = body_of(self.ctx['visitConstant'])
                    if len(b) != 1 or ast.unparse(b[0]) != 'return node.val': self.fail(self.ctx['visitConstant'], 'visitConstant is no longer `return node.val`')
                    env[x] = 'V'
                    return [ind + 'let %s := cval nval in (* visitConstant: node.val *)' % self.v(x)] + cont()
                if se == 'self.visitVariable(node, online_operator_dict, var_object_dict)' and self.cls == 'Variable':
                    env[x] = 'V'
                    return [ind + '%s <- vobj nvar nfield ;; (* visitVariable, pinned *)' % self.v(x)] + cont()
            self.fail(s, 'unsupported assignment %s' % src)
        self.fail(s, 'unsupported statement %s' % type(s).__name__)

def fixpoint(name, params, ret, clause):
    L = ['Fixpoint %s %s {struct node} : option (%s) :=' % (name, params, ret), '  match node with']
    by = {}
    for cls, (ctor, tag) in CLASSES.items(): by.setdefault(ctor, {})[tag] = cls
    for ctor in ['NVar', 'NConst', 'NUn', 'NTUn', 'NFn2', 'NBin', 'NTBin']:
        L.append('  | %s =>' % PATTERN[ctor])
        r = clause(ctor, by[ctor])
        if r is not None: L += r; continue
        L.append('    match nop with')
        for tag in ORDER[ctor]:
            L.append('    | %s =>' % (tag if tag != 'b_pred' else 'b_pred nop'))
            L += clause(ctor, by[ctor], tag)
        L.append('    end')
    L.append('  end.')
    return '\n'.join(L) + '\n'

PRELUDE = '''(* GENERATED by tools/py2coq_onlinevisitor.py from rtamt/semantics/abstract_online_interpreter.py,
   rtamt/semantics/abstract_discrete_time_online_interpreter.py and rtamt/semantics/stl/discrete_time/online/ast_visitor.py — do not edit.
   The construction visitor, the update visitor (with the `visited` memo) and the reset visitor of the discrete-time online
   interpreter over the nodes of NodeName.v; the operation objects are the generated classes of OnlineGen.v.  None = Python raises. *)
From Coq Require Import List Bool ZArith String.
From RV Require Import Val Syntax Units NodeName OnlineGen.
Import ListNotations.

(* ---- fixed prelude ---- *)
Notation "x <- e ;; k" := (match e with Some x => k | None => None end)
  (at level 61, e at next level, right associativity, only parsing).
Notation "' p <- e ;; k" := (match e with Some p => k | None => None end)
  (at level 61, p pattern, e at next level, right associativity, only parsing).
(* a dict with str keys: d[k] (KeyError: None), k in d, d[k] = v, dict() *)
Definition sdict (A : Type) : Type := string -> option A.
Definition sd_empty {A : Type} : sdict A := fun _ => None.
Definition sd_get {A : Type} (d : sdict A) (k : string) : option A := d k.
Definition sd_mem {A : Type} (d : sdict A) (k : string) : bool := match d k with Some _ => true | None => false end.
Definition sd_set {A : Type} (d : sdict A) (k : string) (v : A) : sdict A := fun k' => if String.eqb k' k then Some v else d k'.
(* out[len(out) - 1] *)
Definition last_item {A : Type} (l : list A) : option A := match l with [] => None | _ => List.nth_error l (List.length l - 1) end.

Section OnlineVisitorGen.
Context {VS : Val} (AR : Arith VS).
Variable tut : bound -> bound -> option (Z * Z).   (* self.time_unit_transformer(node): (begin, end) in samples, None when it raises *)
Variable cval : string -> V.                       (* node.val of a Constant whose text is str(val) *)

'''

EPILOGUE = '''
(* ---- the interpreter methods around the visitors (hand-written here, pinned by digest in the translator) ----
   AbstractAstVisitor.visitAst: out = []; for spec in ast.specs: out.append(self.visit(spec, ..)); return out *)
(* AbstractOnlineInterpreter.set_ast: self.online_operator_dict = dict(); self.visitAst(self.ast) *)
Fixpoint gen_construct_forest (specs : list NodeName.node) (ood : sdict gop) : option (sdict gop) :=
  match specs with
  | [] => Some ood
  | spec :: rest => ood <- gen_construct spec ood ;; gen_construct_forest rest ood
  end.
Definition gen_set_ast (specs : list NodeName.node) : option (sdict gop) := gen_construct_forest specs sd_empty.
(* AbstractOnlineUpdateVisitor.visitAst: self.visited = dict(); then the loop of the base class *)
Fixpoint gen_update_forest (vobj : string -> string -> option V) (specs : list NodeName.node) (ood : sdict gop) (visited : sdict V)
  : option (sdict gop * list V) :=
  match specs with
  | [] => Some (ood, [])
  | spec :: rest =>
      '(ood, visited, v) <- gen_update vobj spec ood visited ;;
      '(ood, vs) <- gen_update_forest vobj rest ood visited ;;
      Some (ood, v :: vs)
  end.
(* AbstractDiscreteTimeOnlineInterpreter.update: rob = self.updateVisitor.visitAst(..); rob = rob[len(rob) - 1]; .. return rob
   (the bookkeeping of time stamps, of the sampling-violation counter and of the output variable object is not modelled here) *)
Definition gen_update_step (vobj : string -> string -> option V) (specs : list NodeName.node) (ood : sdict gop) : option (sdict gop * V) :=
  '(ood, rob) <- gen_update_forest vobj specs ood sd_empty ;;
  rob <- last_item rob ;;
  Some (ood, rob).
(* len successive calls of update(); the k-th call reads the variable objects vobjs k *)
Fixpoint gen_run (vobjs : nat -> string -> string -> option V) (specs : list NodeName.node) (ood : sdict gop) (k0 len : nat)
  : option (sdict gop * list V) :=
  match len with
  | O => Some (ood, [])
  | S len' =>
      '(ood, v) <- gen_update_step (vobjs k0) specs ood ;;
      '(ood, vs) <- gen_run vobjs specs ood (S k0) len' ;;
      Some (ood, v :: vs)
  end.
(* AbstractOnlineInterpreter.reset: self.resetVisitor.visitAst(self.ast, self.online_operator_dict)
   (the loop over var_subspec_dict before it resets nodes that the forest contains as well; the input values and results are not modelled) *)
Fixpoint gen_reset_forest (specs : list NodeName.node) (ood : sdict gop) : option (sdict gop) :=
  match specs with
  | [] => Some ood
  | spec :: rest => ood <- gen_reset spec ood ;; gen_reset_forest rest ood
  end.

End OnlineVisitorGen.
'''

def main():
    argv = [a for a in sys.argv[1:] if not a.startswith('--')]
    if len(argv) == 1: root, out = '/repo', argv[0]
    elif len(argv) in (2, 3): root, out = argv[0], argv[1]
    else: sys.exit('usage: py2coq_onlinevisitor.py [REPO_ROOT] OUT.v [OnlineGen.v]')
    gen_path = argv[2] if len(argv) == 3 else os.path.join(os.path.dirname(os.path.abspath(out)), 'OnlineGen.v')
    if not os.path.exists(gen_path): gen_path = os.path.join(os.path.dirname(os.path.dirname(os.path.abspath(__file__))), 'coq/theories/OnlineGen.v')
    tables = P.dispatch_tables(root)          # class -> visitX of LtlAstVisitor / StlAstVisitor; checks the node classes and their bases

    # ---- the generic dispatch of AbstractAstVisitor.visit
    m_aav, p_aav = parse(root, F_AAV)
    c_aav = classes_of(m_aav, p_aav)
    if list(c_aav) != ['AbstractAstVisitor'] or [ast.unparse(b) for b in c_aav['AbstractAstVisitor'].bases] != ['object']:
        fail(m_aav.body[0], 'expected exactly class AbstractAstVisitor(object)', p_aav)
    me_aav = methods_of(c_aav['AbstractAstVisitor'], p_aav)
    P.PATH = p_aav
    generic = P.isinstance_chain(me_aav['visit'], "raise RTAMTException('{} is not RTAMT AST node'.format(node.__class__.__name__))")
    if generic != [('BinaryNode', 'visitBinary'), ('UnaryNode', 'visitUnary'), ('LeafNode', 'visitLeaf')]: fail(me_aav['visit'], 'dispatch of AbstractAstVisitor.visit changed: %s' % generic, p_aav)
    imp = imports_of(m_aav, p_aav)
    for b in ('BinaryNode', 'UnaryNode', 'LeafNode'):
        if imp.get(b) != 'rtamt.syntax.node.' + {'BinaryNode': 'binary_node', 'UnaryNode': 'unary_node', 'LeafNode': 'leaf_node'}[b]: fail(m_aav.body[0], '%s is imported from %s' % (b, imp.get(b)), p_aav)
    base_method = {'NVar': 'visitLeaf', 'NConst': 'visitLeaf', 'NUn': 'visitUnary', 'NTUn': 'visitUnary', 'NFn2': 'visitBinary', 'NBin': 'visitBinary', 'NTBin': 'visitBinary'}
    for k in ('visitChildren', 'visitAst'): pin(me_aav[k], (F_AAV, 'AbstractAstVisitor', k), p_aav)
    for k in me_aav:
        if k not in ('visitChildren', 'visitAst', 'visit', 'visitSpec', 'visitBinary', 'visitUnary', 'visitLeaf'): fail(me_aav[k], 'new method AbstractAstVisitor.%s' % k, p_aav)

    # ---- update and reset visitors
    m_aoi, p_aoi = parse(root, F_AOI)
    c_aoi = classes_of(m_aoi, p_aoi)
    i_aoi = imports_of(m_aoi, p_aoi)
    if list(c_aoi) != ['AbstractOnlineInterpreter', 'AbstractOnlineResetVisitor', 'AbstractOnlineUpdateVisitor']: fail(m_aoi.body[0], 'classes of the module changed: %s' % list(c_aoi), p_aoi)
    for c in ('AbstractOnlineResetVisitor', 'AbstractOnlineUpdateVisitor'):
        if [ast.unparse(b) for b in c_aoi[c].bases] != ['AbstractAstVisitor']: fail(c_aoi[c], 'bases of %s changed' % c, p_aoi)
    if i_aoi.get('AbstractAstVisitor') != 'rtamt.syntax.ast.visitor.abstract_ast_visitor': fail(m_aoi.body[0], 'AbstractAstVisitor is imported from %s' % i_aoi.get('AbstractAstVisitor'), p_aoi)
    me_upd, me_rst, me_int = (methods_of(c_aoi[c], p_aoi) for c in ('AbstractOnlineUpdateVisitor', 'AbstractOnlineResetVisitor', 'AbstractOnlineInterpreter'))
    if set(me_upd) != {'__init__', 'visitAst', 'reuse', 'visitSpec', 'visitBinary', 'visitUnary', 'visitLeaf'}: fail(c_aoi['AbstractOnlineUpdateVisitor'], 'methods of the update visitor changed: %s' % sorted(me_upd), p_aoi)
    if set(me_rst) != {'visitBinary', 'visitUnary', 'visitLeaf'}: fail(c_aoi['AbstractOnlineResetVisitor'], 'methods of the reset visitor changed: %s' % sorted(me_rst), p_aoi)
    for k in ('__init__', 'visitAst', 'reuse', 'visitSpec'): pin(me_upd[k], (F_AOI, 'AbstractOnlineUpdateVisitor', k), p_aoi)
    for k in ('reset', 'set_ast'):
        if k not in me_int: fail(c_aoi['AbstractOnlineInterpreter'], 'AbstractOnlineInterpreter.%s removed' % k, p_aoi)
        pin(me_int[k], (F_AOI, 'AbstractOnlineInterpreter', k), p_aoi)
    m_adi, p_adi = parse(root, F_ADI)
    c_adi = classes_of(m_adi, p_adi)
    i_adi = imports_of(m_adi, p_adi)
    for c in ('AbstractDiscreteTimeOnlineInterpreter', 'DiscreteTimeOnlineUpdateVisitor'):
        if c not in c_adi: fail(m_adi.body[0], 'class %s removed' % c, p_adi)
    if [ast.unparse(b) for b in c_adi['DiscreteTimeOnlineUpdateVisitor'].bases] != ['AbstractOnlineUpdateVisitor']: fail(c_adi['DiscreteTimeOnlineUpdateVisitor'], 'bases changed', p_adi)
    for n in ('AbstractOnlineUpdateVisitor', 'AbstractOnlineResetVisitor', 'AbstractOnlineInterpreter'):
        if i_adi.get(n) != 'rtamt.semantics.abstract_online_interpreter': fail(m_adi.body[0], '%s is imported from %s' % (n, i_adi.get(n)), p_adi)
    me_dupd = methods_of(c_adi['DiscreteTimeOnlineUpdateVisitor'], p_adi)
    if set(me_dupd) != {'visitVariable', 'visitConstant'}: fail(c_adi['DiscreteTimeOnlineUpdateVisitor'], 'methods changed: %s' % sorted(me_dupd), p_adi)
    pin(me_dupd['visitVariable'], (F_ADI, 'DiscreteTimeOnlineUpdateVisitor', 'visitVariable'), p_adi)
    me_dint = methods_of_loose(c_adi['AbstractDiscreteTimeOnlineInterpreter'])
    for k in ('update', 'reset', 'set_ast', '__init__'):
        if k not in me_dint: fail(c_adi['AbstractDiscreteTimeOnlineInterpreter'], 'method %s removed' % k, p_adi)
        pin(me_dint[k], (F_ADI, 'AbstractDiscreteTimeOnlineInterpreter', k), p_adi)

    # ---- the construction visitor
    m_con, p_con = parse(root, F_CON)
    c_con = classes_of(m_con, p_con)
    i_con = imports_of(m_con, p_con)
    if list(c_con) != ['StlDiscreteTimeOnlineAstVisitor'] or [ast.unparse(b) for b in c_con['StlDiscreteTimeOnlineAstVisitor'].bases] != ['StlAstVisitor']:
        fail(m_con.body[0], 'expected exactly class StlDiscreteTimeOnlineAstVisitor(StlAstVisitor)', p_con)
    if i_con.get('StlAstVisitor') != 'rtamt.syntax.ast.visitor.stl.ast_visitor' or i_con.get('RTAMTException') != 'rtamt.exception.exception':
        fail(m_con.body[0], 'StlAstVisitor / RTAMTException imported from elsewhere', p_con)
    me_con = methods_of(c_con['StlDiscreteTimeOnlineAstVisitor'], p_con)
    table = tables['stl']
    for k in me_con:
        if k not in table.values(): fail(me_con[k], 'new method StlDiscreteTimeOnlineAstVisitor.%s: not reached by the dispatch' % k, p_con)
    # the bases, for the methods the class inherits
    base_methods = []
    for rel, cname in ((P.V_STL, 'StlAstVisitor'), (P.V_LTL, 'LtlAstVisitor')):
        mb, pb = parse(root, rel)
        base_methods.append((P.methods_of(classes_of(mb, pb)[cname]), pb, cname))
    ops = Ops(root, gen_path, i_con)
    ncl = [0, 0, 0]
    def con_clause(ctor, by, tag='-'):
        if ctor in ('NVar', 'NConst'): tag = None
        elif tag == '-': return None
        cls = by[tag]
        mname = table[cls]
        if mname in me_con: fd, path, owner = me_con[mname], p_con, 'StlDiscreteTimeOnlineAstVisitor'
        else:
            for ms, pb, cname in base_methods:
                if mname in ms: fd, path, owner = ms[mname], pb, cname; break
            else: fail(None, 'no class defines %s' % mname, p_con)
        ncl[0] += 1
        return ['      (* %s.%s %s:%d *)' % (owner, fd.name, os.path.basename(path), fd.lineno)] + M(fd, cls, 'construct', path, ops).translate()
    t_con = fixpoint('gen_construct', '(node : NodeName.node) (ood : sdict gop)', 'sdict gop', con_clause)
    ctx = dict(imports=i_aoi, visitConstant=me_dupd['visitConstant'])
    def generic_clause(kind, methods, counter):
        def clause(ctor, by, tag='-'):
            fd = methods[base_method[ctor]]
            cls = by[None] if ctor in ('NVar', 'NConst') else by[ORDER[ctor][0]]
            ncl[counter] += 1
            return ['      (* %s %s:%d *)' % (fd.name, os.path.basename(p_aoi), fd.lineno)] + M(fd, cls, kind, p_aoi, ops, ctx).translate()
        return clause
    t_upd = fixpoint_flat('gen_update', '(vobj : string -> string -> option V) (node : NodeName.node) (ood : sdict gop) (visited : sdict V)',
                          'sdict gop * sdict V * V', generic_clause('update', me_upd, 1))
    t_rst = fixpoint_flat('gen_reset', '(node : NodeName.node) (ood : sdict gop)', 'sdict gop', generic_clause('reset', me_rst, 2))
    text = PRELUDE + ops.text() + '\n(* ---- class StlDiscreteTimeOnlineAstVisitor(StlAstVisitor): the construction of online_operator_dict ---- *)\n' + t_con
    text += '\n(* ---- class AbstractOnlineUpdateVisitor(AbstractAstVisitor) / DiscreteTimeOnlineUpdateVisitor: one update ---- *)\n' + t_upd
    text += '\n(* ---- class AbstractOnlineResetVisitor(AbstractAstVisitor) ---- *)\n' + t_rst + EPILOGUE
    text += '\nDefinition gen_onlinevisitor_clause_count : nat := %d%%nat.\n' % sum(ncl)
    if not PRINT: open(out, 'w').write(text)

def methods_of_loose(cd):
    """the interpreter class has properties / setters: only the plain methods are of interest"""
    out = {}
    for s in cd.body:
        if isinstance(s, ast.FunctionDef) and not s.decorator_list: out[s.name] = s
    return out

def fixpoint_flat(name, params, ret, clause):
    """the update / reset visitors dispatch on the BASE of the node class only: one clause per constructor of NodeName.node"""
    L = ['Fixpoint %s %s {struct node} : option (%s) :=' % (name, params, ret), '  match node with']
    by = {}
    for cls, (ctor, tag) in CLASSES.items(): by.setdefault(ctor, {})[tag] = cls
    for ctor in ['NVar', 'NConst', 'NUn', 'NTUn', 'NFn2', 'NBin', 'NTBin']:
        L.append('  | %s =>' % PATTERN[ctor])
        L += clause(ctor, by[ctor])
    L.append('  end.')
    return '\n'.join(L) + '\n'

if __name__ == '__main__':
    main()
