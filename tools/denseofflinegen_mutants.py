#!/usr/bin/env python3
# tools/denseofflinegen_mutants.py — does the generated-model tie of the dense-time OFFLINE visitor notice changes?
# Each change is applied to a scratch COPY of the source files (never to the repository), the translator is run on the copy and
# DenseOfflineGen.v / DenseOfflineGenWinCorrect.v / DenseOfflineGenCorrect.v are compiled against the result in a scratch directory.
# Verdicts: "translator fails closed: <msg>" | "<lemma> fails" | "all lemmas check (generated text changed/identical)".
import ast, os, re, shutil, subprocess, sys
ROOT = os.path.dirname(os.path.dirname(os.path.abspath(__file__)))
REPO = os.environ.get('REPO', '/repo')
VIS = 'rtamt/semantics/stl/dense_time/offline/ast_visitor.py'
ISECT = 'rtamt/semantics/stl/dense_time/offline/intersection.py'
FILES = [VIS, ISECT, 'rtamt/syntax/ast/visitor/stl/ast_visitor.py', 'rtamt/syntax/ast/visitor/ltl/ast_visitor.py', 'rtamt/semantics/enumerations/comp_oper.py']
TH = ROOT + '/coq/theories'
SCR = ROOT + '/build/denseofflinegen_mutants'

def sub(rel, old, new, count=1):
    def f(root):
        p = root + '/' + rel
        src = open(p).read()
        assert src.count(old) >= 1, (rel, old)
        out = src.replace(old, new, count)
        assert out != src
        ast.parse(out)
        open(p, 'w').write(out)
    return f

def infunc(rel, fname, pairs):
    """replace old -> new (every occurrence, at least one each) inside the module-level function fname only"""
    def f(root):
        p = root + '/' + rel
        src = open(p).read()
        i = src.index('\ndef %s(' % fname) + 1
        j = src.find('\ndef ', i)
        k = src.find('\nclass ', i)
        j = min(x for x in (j, k, len(src)) if x >= 0)
        body = src[i:j]
        for old, new in pairs:
            assert body.count(old) >= 1, (fname, old)
            body = body.replace(old, new)
        out = src[:i] + body + src[j:]
        assert out != src
        ast.parse(out)
        open(p, 'w').write(out)
    return f

CHANGES = [
  ('M1 visitOnce: max -> min', sub(VIS, 'out_value = max(in_sample[1], self.prev)', 'out_value = min(in_sample[1], self.prev)')),
  ('M2 visitOnce: the last sample is not forced out (or i == len(sample) - 1 dropped)', sub(VIS, "            self.prev = out_value\n            if out_value != prev or i == len(sample) - 1:\n                sample_return.append([out_time, out_value])\n            prev = out_value\n        return sample_return\n\n\n    def visitHistorically",
       "            self.prev = out_value\n            if out_value != prev:\n                sample_return.append([out_time, out_value])\n            prev = out_value\n        return sample_return\n\n\n    def visitHistorically")),
  ('M3 visitEventually: i < len(sample) - 2 -> i < len(sample) - 1', sub(VIS, 'if out_value == next and i < len(sample) - 2:', 'if out_value == next and i < len(sample) - 1:')),
  ('M4 since_operation: min(o1_val, prev) -> min(o2_val, prev)', sub(VIS, 'result = max(min(o1_val, o2_val), min(o1_val, prev))', 'result = max(min(o1_val, o2_val), min(o2_val, prev))')),
  ('M5 until_operation: result == next -> result != next', sub(VIS, 'if result == next and i < len(iout) - 2:', 'if result != next and i < len(iout) - 2:')),
  ('M6 visitPredicate: LEQ branch returns in_sample[1] instead of - in_sample[1]', sub(VIS, 'out_val = - in_sample[1]', 'out_val = in_sample[1]')),
  ('M7 since_timed_operation: historically_timed_operation(out2, 0, begin) -> (out2, 0, end)', sub(VIS, 'out3 = historically_timed_operation(out2, 0, begin)', 'out3 = historically_timed_operation(out2, 0, end)')),
  ('M8 until_timed_operation: begin > 0 -> begin >= 0', sub(VIS, '    if begin > 0:\n        out1 = eventually_timed_operation', '    if begin >= 0:\n        out1 = eventually_timed_operation')),
  ('M9 visitOr: intersect.disjunction -> intersect.conjunction', sub(VIS, 'intersect.disjunction)', 'intersect.conjunction)')),
  ('M10 intersection.py: implication max(-a, b) -> max(a, -b)', sub(ISECT, 'return max(-a, b)', 'return max(a, -b)')),
  ('M11 visitSqrt: i[1] < 0 -> i[1] > 0', sub(VIS, "            if i[1] < 0:\n                raise Exception('sqrt", "            if i[1] > 0:\n                raise Exception('sqrt")),
  ('M12 visitImplies visits the right child first', sub(VIS, "    def visitImplies(self, node, *args, **kwargs):\n        sample_left  = self.visit(node.children[0], *args, **kwargs)\n        sample_right = self.visit(node.children[1], *args, **kwargs)",
       "    def visitImplies(self, node, *args, **kwargs):\n        sample_right = self.visit(node.children[1], *args, **kwargs)\n        sample_left  = self.visit(node.children[0], *args, **kwargs)")),
  ('M13 visitTimedAlways calls eventually_timed_operation', sub(VIS, 'sample_return = always_timed_operation(sample, begin, end)', 'sample_return = eventually_timed_operation(sample, begin, end)')),
  ('M14 visitNot: - i[1] -> i[1]', sub(VIS, "    def visitNot(self, node, *args, **kwargs):\n        sample = self.visit(node.children[0], *args, **kwargs)\n\n        sample_return = []\n        for i in sample:\n            out_time = i[0]\n            out_value = - i[1]",
       "    def visitNot(self, node, *args, **kwargs):\n        sample = self.visit(node.children[0], *args, **kwargs)\n\n        sample_return = []\n        for i in sample:\n            out_time = i[0]\n            out_value = i[1]")),
  ('R1 rename a local (out_value -> ov) in visitAlways', sub(VIS, "            out_value = min(in_sample[1], self.next)\n            self.next = out_value\n            if out_value == next and i < len(sample) - 2:\n                sample_return.pop(0)\n            sample_return.insert(0, [out_time, out_value])\n            next = out_value",
       "            ov = min(in_sample[1], self.next)\n            self.next = ov\n            if ov == next and i < len(sample) - 2:\n                sample_return.pop(0)\n            sample_return.insert(0, [out_time, ov])\n            next = ov")),
  ('R2 reorder two independent statements in since_operation', sub(VIS, "        o1_val = sample[1][0]\n        o2_val = sample[1][1]\n        result = max(min(o1_val, o2_val), min(o1_val, prev))", "        o2_val = sample[1][1]\n        o1_val = sample[1][0]\n        result = max(min(o1_val, o2_val), min(o1_val, prev))")),
  ('R3 visitAbs: the two temporaries inlined', sub(VIS, "            out_time = i[0]\n            out_value = abs(i[1])\n            sample_return.append([out_time, out_value])", "            sample_return.append([i[0], abs(i[1])])")),
  ('R4 since_timed_operation: the common first statements hoisted out of the if', sub(VIS, "    if (begin > 0):\n        out1 = once_timed_operation(sample_right, begin, end)\n        out2 = since_operation(sample_left, sample_right)\n        out3 = historically_timed_operation(out2, 0, begin)\n        sample_return = and_operation(out1, out3)\n    else:\n        out1 = once_timed_operation(sample_right, begin, end)\n        out2 = since_operation(sample_left, sample_right)\n        sample_return = and_operation(out1, out2)",
       "    out1 = once_timed_operation(sample_right, begin, end)\n    out2 = since_operation(sample_left, sample_right)\n    if (begin > 0):\n        out3 = historically_timed_operation(out2, 0, begin)\n        sample_return = and_operation(out1, out3)\n    else:\n        sample_return = and_operation(out1, out2)")),
  ('W1 once_timed_operation: a[2] >= b[2] -> a[2] > b[2]', sub(VIS, "                if a[2] >= b[2]:\n                    out.append((a[1], b[1], b[2]))", "                if a[2] > b[2]:\n                    out.append((a[1], b[1], b[2]))")),
  ('W2 once_timed_operation: popping loop b[0] < a[0] -> b[0] <= a[0]', sub(VIS, "            while (a[2] < b[2]) and (b[0] < a[0]):", "            while (a[2] < b[2]) and (b[0] <= a[0]):")),
  ('W3 historically_timed_operation: padding piece float(inf) -> -float(inf)', sub(VIS, "            out.append((0, input_list[0][0] + begin, float('inf')))", "            out.append((0, input_list[0][0] + begin, -float('inf')))")),
  ('W4 once_timed_operation: piece ends at input_list[i][0] + begin instead of + end', sub(VIS, "            b = (input_list[i - 1][0] + begin, input_list[i][0] + end, input_list[i - 1][1])", "            b = (input_list[i - 1][0] + begin, input_list[i][0] + begin, input_list[i - 1][1])")),
  ('W5 always_timed_operation: (a[1] > b[1]) -> (a[1] >= b[1]) before re-inserting the rest of a', sub(VIS, "                    if (a[1] > b[1]):\n                        out.insert(0, (b[1], a[1], a[2]))\n                    out.insert(0, (b[0], b[1], b[2]))\n\n        i = i - 1\n\n    for i, b in enumerate(out):\n        if b[0] <= 0 and b[1] > 0:\n            ans.append([0, b[2]])\n        elif b[0] > 0:\n            ans.append([b[0], b[2]])\n\n    return ans\n\ndef eventually",
       "                    if (a[1] >= b[1]):\n                        out.insert(0, (b[1], a[1], a[2]))\n                    out.insert(0, (b[0], b[1], b[2]))\n\n        i = i - 1\n\n    for i, b in enumerate(out):\n        if b[0] <= 0 and b[1] > 0:\n            ans.append([0, b[2]])\n        elif b[0] > 0:\n            ans.append([b[0], b[2]])\n\n    return ans\n\ndef eventually")),
  ('W6 eventually_timed_operation: the loop stops at i > 0 (the first segment is not pushed)', infunc(VIS, 'eventually_timed_operation', [("    while i >= 0:", "    while i > 0:")])),
  ('W7 always_timed_operation: clipping b[0] <= 0 and b[1] > 0 -> b[1] >= 0', infunc(VIS, 'always_timed_operation', [("        if b[0] <= 0 and b[1] > 0:", "        if b[0] <= 0 and b[1] >= 0:")])),
  ('W8 eventually_timed_operation: out.insert(0, (b[0], a[0], b[2])) -> (b[0], a[1], b[2])', infunc(VIS, 'eventually_timed_operation', [("out.insert(0, (b[0], a[0], b[2]))", "out.insert(0, (b[0], a[1], b[2]))")])),
  ('R5 once_timed_operation: rename the local a -> cur', infunc(VIS, 'once_timed_operation', [("a = out[len(out) - 1]", "cur = out[len(out) - 1]"), ("a[", "cur[")])),
  ('R8 once_timed_operation: rename the local a -> top_piece (the state tuple of the inner while is sorted by name: (a, out) becomes (out, top_piece); the tie gen_once_is_past is by conversion)', infunc(VIS, 'once_timed_operation', [("a = out[len(out) - 1]", "top_piece = out[len(out) - 1]"), ("a[", "top_piece[")])),
  ('R6 historically_timed_operation: the never-read assignments (residual_start, max, prev = []) removed', infunc(VIS, 'historically_timed_operation',
       [("    prev = []\n", ""), ('    residual_start = float("inf")\n', ""), ('    max = float("inf")\n', "")])),
  ('R7 historically_timed_operation: the dead `if input_list: domain_end = input_list[len - 1][0]` removed (the generated term changes: the tie gen_hist_is_past is by conversion)', infunc(VIS, 'historically_timed_operation',
       [("    domain_end = float('inf')\n    if input_list:\n        domain_end = input_list[len(input_list) - 1][0]\n", "")])),
  ('X2 intersection() (hand-modelled) changed', sub(ISECT, 'out_samples = list()', 'out_samples = []')),
  ('X3 visitConstant (hand-modelled) changed', sub(VIS, 'sample_return = [[0, node.val], [float("inf"), node.val]]', 'sample_return = [[0, node.val]]')),
  ('X4 an unsupported construct (try/except) in visitExp', sub(VIS, "            out_value = saturating.exp(i[1])", "            try:\n                out_value = saturating.exp(i[1])\n            except OverflowError:\n                out_value = float('inf')")),
  ('X5 a new visit method', sub(VIS, "    def visitRise(self, node, *args, **kwargs):", "    def visitFoo(self, node, *args, **kwargs):\n        return []\n\n    def visitRise(self, node, *args, **kwargs):")),
  ('X6 the dispatcher LtlAstVisitor.visit changed (Neg -> visitNegate)', sub('rtamt/syntax/ast/visitor/ltl/ast_visitor.py', 'result = self.visitNot(node, *args, **kwargs)', 'result = self.visitNegate(node, *args, **kwargs)')),
  ('X7 a result of intersection() other than the first is read', sub(VIS, "        sample_return, last, left, right = intersect.intersection(sample_left, sample_right, intersect.xor)\n        return sample_return", "        sample_return, last, left, right = intersect.intersection(sample_left, sample_right, intersect.xor)\n        return sample_return + left")),
]

def lemma_at(path, line):
    name = '?'
    for k, l in enumerate(open(path).read().split('\n'), 1):
        m = re.match(r'\s*(Lemma|Theorem|Example|Definition|Fixpoint)\s+(\w+)', l)
        if m: name = m.group(2)
        if k >= line: break
    return name

def strip(t): return re.sub(r'\(\* [\w.]+:\d+[^*]*\*\)', '', t)

def run(name, mut):
    d = SCR + '/' + name.split()[0]
    shutil.rmtree(d, ignore_errors=True)
    for rel in FILES:
        os.makedirs(os.path.dirname(d + '/root/' + rel), exist_ok=True)
        shutil.copy(REPO + '/' + rel, d + '/root/' + rel)
    os.makedirs(d + '/coq')
    mut(d + '/root')
    r = subprocess.run([sys.executable, ROOT + '/tools/py2coq_denseoffline.py', d + '/root', d + '/coq/MutGen.v'], capture_output=True, text=True)
    if r.returncode != 0:
        msg = r.stderr.strip()
        return 'translator fails closed (exit %d): %s [%s]' % (r.returncode, msg.split(': py2coq_denseoffline: ')[-1],
                                                               ':'.join(msg.split(': py2coq_denseoffline')[0].split('/')[-1:]))
    same = strip(open(d + '/coq/MutGen.v').read()) == strip(open(TH + '/DenseOfflineGen.v').read())
    win = open(TH + '/DenseOfflineGenWinCorrect.v').read()
    assert ' PyDenseOff DenseOfflineGen.\n' in win
    open(d + '/coq/MutWin.v', 'w').write(win.replace(' PyDenseOff DenseOfflineGen.\n', ' PyDenseOff.\nFrom Mut Require Import MutGen.\n', 1))
    cor = open(TH + '/DenseOfflineGenCorrect.v').read()
    assert '\n  DenseOfflineGen.\nFrom RV Require Import DenseOfflineGenWinCorrect.' in cor
    open(d + '/coq/MutCorrect.v', 'w').write(cor.replace('\n  DenseOfflineGen.\nFrom RV Require Import DenseOfflineGenWinCorrect.', '.\nFrom Mut Require Import MutGen MutWin.', 1))
    for f in ['MutGen.v', 'MutWin.v', 'MutCorrect.v']:
        r = subprocess.run(['timeout', '600', 'coqc', '-Q', TH, 'RV', '-Q', '.', 'Mut', f], cwd=d + '/coq', capture_output=True, text=True)
        if r.returncode != 0:
            m = re.search(r'line (\d+)', r.stderr)
            err = ' '.join(r.stderr.split('Error:')[-1].split())[:110]
            what = lemma_at(d + '/coq/' + f, int(m.group(1))) if m else '?'
            return 'translated; %s fails (%s...)' % (what if f != 'MutGen.v' else 'the generated file does not compile: ' + what, err)
    return 'translated (generated text %s); all lemmas check' % ('identical' if same else 'changed')

if __name__ == '__main__':
    out = []
    for name, mut in CHANGES:
        v = run(name, mut)
        out.append('%s\n    -> %s' % (name, v)); print(out[-1], flush=True)
    open(ROOT + '/build/denseofflinegen_mutants.txt', 'w').write('\n'.join(out) + '\n')
