#!/usr/bin/env python3
# tools/manifest_add.py <Cxx> "<level text>" "<level note>"  — registers a check in MANIFEST.json
import json, sys
pid, text, note = sys.argv[1], sys.argv[2], sys.argv[3]
m = json.load(open('/verif/MANIFEST.json'))
m['checks'] = [c for c in m['checks'] if c['property_id'] != pid]
m['checks'].append({"property_id": pid, "quick_cmd": "./check %s --tier quick" % pid, "thorough_cmd": "./check %s --tier thorough" % pid,
                    "evidence_file": "evidence/%s.json" % pid, "replay_cmd_template": "./check %s --replay {path}" % pid, "engine": "coq-model",
                    "level_claimed": {"category": "proof", "text": text, "design_ref": "DESIGN.md §6 " + pid}, "level_note": note,
                    "technique": "machine-checked proof in Coq + model/implementation correspondence check"})
m['checks'].sort(key=lambda c: c['property_id'])
m['not_applicable'] = [x for x in m.get('not_applicable', []) if x['property_id'] != pid]
for e in m['engines']:
    if pid not in e['serves_properties']:
        e['serves_properties'].append(pid)
        e['serves_properties'].sort()
json.dump(m, open('/verif/MANIFEST.json', 'w'), indent=1)
