#!/usr/bin/env python3
# tools/kf_fixed.py <property> <id> <commit> <replay-file> <what> <fixed-line-tail>
#   append a 'fixed' entry to known_findings.json (used while building; never at check time; a fixed entry suppresses nothing)
import json, sys
prop, did, commit, replay, what, tail = sys.argv[1:7]
p = '/verif/known_findings.json'
d = json.load(open(p))
e = {'property': prop, 'id': did, 'status': 'fixed: ' + commit, 'what': what, 'fixed_line': 'fixed: property=%s %s %s' % (prop, commit, tail),
     'replay': (json.loads(replay) if replay.lstrip().startswith('{') else json.load(open(replay))) if replay != '-' else None}
d['findings'] = [f for f in d['findings'] if f.get('id') != did] + [e]
json.dump(d, open(p, 'w'), indent=1)
print('added', did)
