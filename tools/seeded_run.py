#!/venv/bin/python
# tools/seeded_run.py <Cxx> <tag> [--from /tmp/mut] [--tier quick]
#   Confirms a seeded change (patch + demonstration) in its scratch worktree,
#   runs the property's check against /repo with the patch applied, undoes the
#   patch, and stores everything under /verif/seeded/<Cxx>_<tag>/.
# Used while building the machinery; not part of any registered check.
import json, os, shutil, subprocess, sys, time

def sh(cmd, cwd=None, env=None, timeout=3600):
    p = subprocess.run(cmd, shell=True, cwd=cwd, env=env, stdout=subprocess.PIPE, stderr=subprocess.STDOUT, universal_newlines=True, timeout=timeout)
    return p.returncode, p.stdout

def main():
    pid, tag = sys.argv[1], sys.argv[2]
    src = '/tmp/mut'
    tier = 'quick'
    extra_checks = []
    args = sys.argv[3:]
    while args:
        a = args.pop(0)
        if a == '--from':
            src = args.pop(0)
        elif a == '--tier':
            tier = args.pop(0)
        elif a == '--also':
            extra_checks.append(args.pop(0))
    name = '%s_%s' % (pid, tag)
    patch = os.path.join(src, name + '.diff')
    demo = os.path.join(src, name + '_demo.py')
    wt = os.path.join(src, pid)
    out = os.path.join('/verif/seeded', name)
    os.makedirs(out, exist_ok=True)
    meta = {'id': name, 'property': pid, 'tier': tier}
    env = dict(os.environ, PYTHONPATH=wt, PYTHONHASHSEED='0')
    # 1. confirm in the scratch worktree
    sh('git checkout -- .', cwd=wt)
    rc0, o0 = sh('/venv/bin/python %s' % demo, cwd=wt, env=env, timeout=600)
    rca, oa = sh('git apply %s' % patch, cwd=wt)
    if rca != 0:
        print('patch does not apply:', oa)
        sys.exit(2)
    rc1, o1 = sh('/venv/bin/python %s' % demo, cwd=wt, env=env, timeout=600)
    meta['demo_exit_clean'] = rc0
    meta['demo_exit_patched'] = rc1
    meta['demo_output_patched'] = o1[-1500:]
    rcs, os_ = sh('/venv/bin/python /verif/tools/suite.py %s' % wt, timeout=3000)
    meta['suite_tail'] = os_.strip()[-300:]
    meta['suite_passes'] = (rcs == 0)
    sh('git checkout -- .', cwd=wt)
    # 2. run the check(s) against /repo with the patch applied
    ev = {}
    for chk in [pid] + extra_checks:
        evf = '/verif/evidence/%s.json' % chk
        ev[chk] = open(evf).read() if os.path.exists(evf) else None
    rca, oa = sh('git -C /repo apply %s' % patch)
    results = {}
    try:
        if rca != 0:
            print('patch does not apply to /repo:', oa)
            sys.exit(2)
        for chk in [pid] + extra_checks:
            t = time.time()
            rc, o = sh('./check %s --tier %s' % (chk, tier), cwd='/verif', timeout=7200)
            viol = [l for l in o.splitlines() if l.startswith('VIOLATION')]
            results[chk] = {'exit': rc, 'violation_lines': viol[:6], 'seconds': round(time.time() - t, 1)}
            # keep the first replay as an illustration
            if viol and chk == pid:
                rp = viol[0].split('replay=')[1].split()[0]
                if os.path.exists(rp):
                    shutil.copy(rp, os.path.join(out, 'replay_found_by_check.json'))
    finally:
        sh('git -C /repo checkout -- .')
        for chk, txt in ev.items():
            if txt is not None:
                open('/verif/evidence/%s.json' % chk, 'w').write(txt)
    rcst, ost = sh('git -C /repo status --short')
    meta['repo_clean_after'] = (ost.strip() == '')
    meta['check_results'] = results
    meta['caught'] = any(r['exit'] != 0 and r['violation_lines'] for r in results.values())
    shutil.copy(patch, os.path.join(out, 'patch.diff'))
    shutil.copy(demo, os.path.join(out, 'demo.py'))
    json.dump(meta, open(os.path.join(out, 'meta.json'), 'w'), indent=1)
    print(json.dumps({k: meta[k] for k in ('id', 'demo_exit_clean', 'demo_exit_patched', 'suite_passes', 'caught', 'check_results', 'repo_clean_after')}, indent=1))

main()
