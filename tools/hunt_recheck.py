#!/venv/bin/python
# tools/hunt_recheck.py [repo] — re-run the reproducers of the independent defect hunt (hunt/Cxx_repro_n.py) against a tree
# and print their exit codes (1 = the reported behaviour still shows; 0 = it does not).  Used while building; not a registered check.
import glob, os, subprocess, sys
repo = sys.argv[1] if len(sys.argv) > 1 else '/repo'
env = dict(os.environ, PYTHONPATH=repo + ':/verif/hunt/C12_mod', PYTHONHASHSEED='0')
rows = []
for f in sorted(glob.glob('/verif/hunt/C*_repro_*.py')):
    try:
        p = subprocess.run(['/venv/bin/python', f], env=env, stdout=subprocess.PIPE, stderr=subprocess.STDOUT, timeout=180, cwd='/verif/hunt')
        rc = p.returncode
    except subprocess.TimeoutExpired:
        rc = 'timeout'
    rows.append((os.path.basename(f), rc))
    print('%-18s rc=%s' % rows[-1], flush=True)
