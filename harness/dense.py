# dense.py — shared helpers for the dense-time checks: signals in integer
# ticks (model) and scaled floats (implementation), denotation, comparison of
# sample lists as step functions.
import math
from harness import fml

SCALE = 0.25        # one tick = 0.25 s; all generated ticks are even so that mid-points are ticks too


def gen_signal(rng, maxn=6, start0=True, stair=None):
    t = 0 if start0 else rng.choice([0, 2, 4])
    out = []
    if stair or (stair is None and maxn >= 6 and rng.random() < 0.3):
        # staircase: many short plateaus in rising / falling runs, so that one window of a bounded operator covers several
        # segments and the sliding-window code has to discard more than one dominated entry at a time
        n = rng.randint(4, 2 * maxn)
        v = rng.randint(-4, 5)
        while len(out) < n:
            step = rng.choice([1, 2, -1, -2])
            for _ in range(rng.randint(1, 4)):
                if len(out) < n:
                    out.append([t, v])
                    t += rng.choice([1, 1, 2, 2, 4])
                    v = max(-9, min(9, v + step))
            if rng.random() < 0.4:
                v = rng.randint(-6, 7)
        return out
    n = rng.randint(1, maxn)
    for i in range(n):
        out.append([t, rng.randint(-4, 5)])
        t += rng.choice([2, 2, 4, 6, 8])
    return out


def fancy_cases(rng, k, past_only=False):
    """formulas over the arithmetic functions the random generators leave out in dense time (division, pow, sqrt, exp, ln, log),
    with signals chosen so that every intermediate value is an exact small integer: [(formula, signals)]"""
    X, Y = ('var', 0), ('var', 1)
    terms = [('a2', 'div', X, ('const', 2)), ('a2', 'div', X, Y), ('a2', 'pow', ('a2', 'div', X, ('const', 4)), ('const', 2)), ('a1', 'sqrt', ('a2', 'mul', Y, Y)),
             ('a2', 'add', ('a1', 'exp', ('a2', 'sub', X, X)), Y), ('a2', 'sub', X, ('a1', 'ln', ('const', 1))), ('a2', 'mul', Y, ('a2', 'log', ('const', 1), ('const', 2))),
             ('a2', 'div', ('a2', 'mul', X, Y), ('const', 4))]
    out = []
    for _ in range(k):
        t = rng.choice(terms)
        p = ('pred', rng.choice(['geq', 'leq', 'gt', 'lt']), t, ('const', rng.randint(-2, 3)))
        shapes = [p, ('once', p), ('oncet', 0, 2, p), ('histt', 2, 4, p), ('and', p, ('pred', 'geq', Y, ('const', 0))), ('since', p, ('pred', 'leq', X, ('const', 8)))]
        if not past_only:
            shapes += [('evt', 0, 4, p), ('alwt', 2, 4, p), ('until', p, ('pred', 'geq', Y, ('const', 2)))]
        f = rng.choice(shapes)
        sx, sy, tx, ty = [], [], 0, 0
        for _ in range(rng.randint(2, 6)):
            sx.append([tx, 4 * rng.randint(-3, 4)])
            tx += rng.choice([1, 2, 2, 4])
        for _ in range(rng.randint(2, 6)):
            sy.append([ty, rng.choice([1, 2, -1, -2, 4, 2, 1])])
            ty += rng.choice([1, 2, 2, 4])
        out.append((f, [sx, sy]))
    return out


def to_impl(sig):
    return [[t * SCALE, float(v)] for t, v in sig]


def bound_text(b, e):
    f = lambda x: repr(x * SCALE) if (x * SCALE) != int(x * SCALE) else str(int(x * SCALE))
    return '[%s,%s]' % (f(b), f(e))


def den(samples, t):
    v = None
    for (ti, vi) in samples:
        if ti <= t:
            v = vi
        else:
            break
    return v


def parse_dn(line):
    """'DN 0:-inf 1:2' -> [[0, -inf], [1, 2]]"""
    out = []
    for tok in line.split('|')[0].split()[1:]:
        t, v = tok.split(':')
        out.append([int(t), fml.parse_val(v)])
    return out


def dn_exact(line):
    return line.split('|')[-1].split() == ['EXACT', '1']


def from_impl(value):
    """implementation output (canonical JSON) -> [[tick, value]] with float ticks"""
    out = []
    for t, v in value:
        tt = math.inf if t == 'inf' else (-math.inf if t == '-inf' else t)
        vv = math.inf if v == 'inf' else (-math.inf if v == '-inf' else v)
        out.append([tt / SCALE if tt not in (math.inf, -math.inf) else tt, vv])
    return out


def compare_functions(ref, out, t0, end):
    """None if the two sample lists denote the same step function on [t0, end] (checked at every break-point and mid-point)"""
    pts = sorted({t for t, _ in ref if t0 <= t <= end} | {t for t, _ in out if t0 <= t <= end and t != math.inf} | {t0, end})
    mids = [(pts[i] + pts[i + 1]) / 2 for i in range(len(pts) - 1)]
    for p in sorted(pts + mids):
        a, b = den(ref, p), den(out, p)
        if a != b:
            return {'t': p * SCALE, 'expected': a, 'observed': b}
    return None


def dense_formula_text(f):
    return fml.to_text(f, bound_text)


def sig_sx(sig):
    return '(' + ' '.join('(%d %s)' % (t, fml.val_sx(v)) for t, v in sig) + ')'


def parse_rhoz(line, t0):
    """'RHOZ v v v | EXACT 1' -> {tick: value}"""
    vals = line.split('|')[0].split()[1:]
    return {t0 + i: fml.parse_val(v) for i, v in enumerate(vals)}


def compare_ticks(spec, out, lo, hi):
    """None if the sample list `out` denotes, at every integer tick of [lo, hi], the value of the tick semantics"""
    t = int(math.ceil(lo))
    while t <= hi:
        if t in spec:
            a, b = spec[t], den(out, t)
            if a != b:
                return {'t': t * SCALE, 'expected': a, 'observed': b}
        t += 1
    return None
