# onlinenamed_check.py — correspondence of OnlineNamed.v (the discrete-time online monitor keyed by node names)
# with rtamt:   /venv/bin/python -m harness.onlinenamed_check [--seed N] [--n CASES]    (cwd = the verif directory)
# Seeded random past-time specifications (1-3 assertions, named sub-specifications reused, duplicated stateful
# sub-terms, the same bound spelled in different units, constants spelled in different ways) are parsed by rtamt,
# the node forest is dumped (as in nodename_check), every update() of the real online monitor is compared with
# nmon_run of the extracted model.  Values: integers and +-inf (predicates over integer data under min / max / neg),
# so float arithmetic is exact.
import sys
import random
import logging
import argparse

from harness.common import Model, REPO
from harness.nodename_check import dump, hexs

sys.path.insert(0, REPO)
logging.disable(logging.CRITICAL)
import rtamt  # noqa: E402

VARS = ['x', 'y', 'z']
U = {'s': 10 ** 9, 'ms': 10 ** 6, 'us': 10 ** 3, 'ns': 1}


def spell_bound(rng, ticks, period_ns, du):
    """a text for ticks * period, in a random unit (or without unit: the default unit)"""
    ns = ticks * period_ns
    for attempt in range(10):
        u = rng.choice(['', 's', 'ms', 'us', 'ns'])
        scale = U[u if u else du]
        if ns % scale == 0:
            return '%d' % (ns // scale), u
        if (ns * 10) % scale == 0 and rng.random() < 0.7:
            return '%d.%d' % (ns * 10 // scale // 10, ns * 10 // scale % 10), u
    return '%d' % ns, 'ns'


def interval(rng, period_ns, du):
    b = rng.randint(0, 3)
    e = b + rng.randint(0, 4)
    while True:
        (tb, ub), (te, ue) = spell_bound(rng, b, period_ns, du), spell_bound(rng, e, period_ns, du)
        # a unit on one end only is inherited by the other end: keep the spelling only if both ends mean what they should
        rb = ub if ub else (ue if ue else du)
        re_ = ue if ue else rb
        from fractions import Fraction
        if Fraction(tb) * U[rb] == b * period_ns and Fraction(te) * U[re_] == e * period_ns:
            return '[%s%s%s%s%s]' % (tb, ub, rng.choice([',', ':']), te, ue)


def const(rng):
    k = rng.randint(-3, 6)
    if k < 0:
        return '(-%s)' % rng.choice(['%d', '%d.0', '%d.00'] ) % (-k)
    return rng.choice(['%d', '%d.0', '%de0', '%d.'] ) % k


def arith(rng, depth):
    if depth <= 0 or rng.random() < 0.5:
        return rng.choice(VARS) if rng.random() < 0.7 else const(rng)
    r = rng.random()
    if r < 0.2:
        return 'abs(%s)' % arith(rng, depth - 1)
    if r < 0.3:
        return '-(%s)' % arith(rng, depth - 1)
    return '(%s) %s (%s)' % (arith(rng, depth - 1), rng.choice(['+', '-']), arith(rng, depth - 1))


def pred(rng):
    return '(%s) %s (%s)' % (arith(rng, 2), rng.choice(['<=', '<', '>=', '>', '==', '!==']), arith(rng, 1))


def formula(rng, depth, period_ns, du, subs, pool):
    if depth <= 0 or rng.random() < 0.12:
        r = rng.random()
        if r < 0.2 and subs:
            return rng.choice(subs)
        if r < 0.45 and pool:
            return rng.choice(pool)         # a duplicated sub-term
        return pred(rng)
    r = rng.random()
    rec = lambda: formula(rng, depth - 1, period_ns, du, subs, pool)  # noqa: E731
    if r < 0.35:
        o = rng.choice(['not', 'rise', 'fall', 'prev', 's_prev', 'once', 'historically', 'once', 'historically', 'Y', 'O', 'H', '!'])
        iv = interval(rng, period_ns, du) if o in ('once', 'historically', 'O', 'H') and rng.random() < 0.6 else ''
        a = rec()
        out = '%s(%s)' % (o, a) if o in ('rise', 'fall') else '%s%s (%s)' % (o, iv, a)
    else:
        o = rng.choice(['and', 'or', 'implies', 'since', 'since', '&', '|', '->', 'S'])
        iv = interval(rng, period_ns, du) if o in ('since', 'S') and rng.random() < 0.6 else ''
        out = '(%s) %s%s (%s)' % (rec(), o, iv, rec())
    if rng.random() < 0.5:
        pool.append(out)
    return out


def main():
    ap = argparse.ArgumentParser()
    ap.add_argument('--seed', type=int, default=20260926)
    ap.add_argument('--n', type=int, default=2000)
    args = ap.parse_args()
    rng = random.Random(args.seed)
    lines, expected, texts = [], [], []
    rejected = 0
    dup_names = 0
    for i in range(args.n):
        du = rng.choice(['s', 'ms', 'us'])
        per, pu = rng.choice([(1, 's'), (500, 'ms'), (2, 'ms'), (100, 'us'), (1, 'ms'), (250, 'us')])
        period_ns = per * U[pu]
        subs, pool, ls = [], [], []
        for j in range(rng.randint(0, 2)):
            ls.append('sub%d = %s;' % (j, formula(rng, rng.randint(1, 3), period_ns, du, subs, pool)))
            subs.append('sub%d' % j)
        ls.append('out = %s;' % formula(rng, rng.randint(1, 5), period_ns, du, subs, pool))
        text = '\n'.join(ls)
        spec = rtamt.StlDiscreteTimeSpecification()
        for v in VARS:
            spec.declare_var(v, 'float')
        spec.unit = du
        spec.set_sampling_period(per, pu, 0.1)
        spec.spec = text
        n = rng.choice([1, 2, 3, 5, 8, 13, 20])
        cols = [[rng.randint(-4, 7) for _ in range(n)] for _ in VARS]
        try:
            spec.parse()
            outs = []
            for k in range(n):
                outs.append(spec.update(k * period_ns // U[du] if period_ns % U[du] == 0 else k, [(v, float(cols[a][k])) for a, v in enumerate(VARS)]))
        except rtamt.RTAMTException:
            rejected += 1
            continue
        roots = []
        allnames = []
        for s in spec.ast.specs:
            nm = []
            roots.append(dump(s, nm))
            allnames += nm
        comp = [x for x in allnames if '(' in x]
        dup_names += (len(set(comp)) < len(comp))
        lines.append('(nmon %s %d %s (%s) (%s) %d (%s))' % (
            du, per, pu, ' '.join('(%s %s)' % (hexs(v), hexs('')) for v in VARS), ' '.join(roots), n,
            ' '.join('(' + ' '.join(str(c) for c in col) + ')' for col in cols)))
        expected.append(' '.join('inf' if o == float('inf') else '-inf' if o == float('-inf') else str(int(o)) if o == int(o) else repr(o) for o in outs))
        texts.append(text)
    out = Model().batch(lines)
    bad = 0
    for line, exp, text in zip(out, expected, texts):
        if line != 'NMON ' + exp and line != ('NMON' if not exp else None):
            bad += 1
            if bad <= 5:
                print('MISMATCH\n', text, '\n  rtamt', exp, '\n  model', line)
    print('cases %d (rejected by rtamt %d), with a repeated compound name %d: mismatches %d' % (len(lines), rejected, dup_names, bad))
    sys.exit(1 if bad else 0)


if __name__ == '__main__':
    main()
