# c20.py — C20: the intervals explain() reports for the input variables are a
# sufficient cause of the violation at time 0; nothing is reported for a
# satisfied specification.
#
# Two ties to the code on every run:
#  (a) the property itself on the implementation: for every violated case the
#      positions explain() did NOT report are re-assigned (flip, +-large, 0,
#      random) and evaluate() must still be negative at time 0;
#  (b) correspondence: the table explain() returns equals the table of the
#      model Explain.explain, for which sufficiency is proved (Props/C20.v).
import json
import random
from fractions import Fraction
from harness import fml
from harness.common import parse_fields, run_impl
from harness.runner import Check, need_vars

UNSUPPORTED = {'since', 'until', 'sincet', 'untilt', 'precedes'}


def exact_ok(f):
    """sub-formulas whose value is reproduced exactly whatever the polarity flag"""
    op = f[0]
    if op in ('var', 'const'):
        return True
    if op in ('a1', 'a2', 'pred', 'not', 'iff', 'xor', 'prev', 'sprev', 'next', 'snext'):
        return all(exact_ok(c) for c in fml.children(f))
    return False


def shape(f):
    subs = list(fml.subformulas(f))
    if any(s[0] in ('iff', 'xor') and not all(exact_ok(c) for c in fml.children(s)) for s in subs):
        return 'iff_xor_composite'
    if any(s[0] in ('pred', 'a1', 'a2') and not all(exact_ok(c) for c in fml.children(s)) for s in subs):
        return 'temporal_under_arithmetic'
    return 'explainable'


def gen_formula(rng, nv, d, wild):
    g = fml.Gen(rng, nvars=nv, maxb=3, iffxor=wild, risefall=wild, fancy_arith=False, raw_leaf=0.1)

    def go(d):
        if d <= 0 or rng.random() < 0.15:
            if rng.random() < 0.1:
                return ('var', rng.randrange(nv))
            return g.pred(1)
        ch = ['not', 'and', 'or', 'implies'] * 3 + ['ev', 'alw', 'once', 'hist'] * 2 + ['evt', 'alwt', 'oncet', 'histt'] * 3 + ['prev', 'sprev', 'next', 'snext', 'rise', 'fall']
        if wild:
            ch += ['iff', 'xor', 'since', 'untilt', 'predT']
        op = rng.choice(ch)
        if op == 'predT':
            # a temporal operator used as a sliding minimum / maximum inside a comparison
            b, e = g.bounds()
            t = (rng.choice(['alwt', 'histt', 'oncet', 'evt']), b, e, ('var', rng.randrange(nv)))
            if rng.random() < 0.4:
                t = ('a2', rng.choice(['sub', 'add']), ('var', rng.randrange(nv)), t)
            return ('pred', rng.choice(['geq', 'leq', 'lt', 'gt']), t, ('const', rng.randint(-2, 3)))
        if op in fml.UN:
            return (op, go(d - 1))
        if op in fml.BIN:
            return (op, go(d - 1), go(d - 1))
        b, e = g.bounds()
        if op in fml.TUN:
            return (op, b, e, go(d - 1))
        return (op, b, e, go(d - 1), go(d - 1))
    return go(d)


UNIT_NS = {'s': 10 ** 9, 'ms': 10 ** 6, 'us': 10 ** 3, 'ns': 1}
BOUND_STYLES = ['plain', 'plain', 'plain', 's', 'us', 'ns', 'ms', 'plain_begin', 'plain_end', 'two', 'vary', 'vary']


def default_unit(c):
    return c.get('unit') or 's'


def bound_number(samples, period_ms, unit):
    """the number that denotes `samples` sampling periods of period_ms milliseconds in `unit` (a decimal literal when it is not whole)"""
    v = Fraction(samples * period_ms * 10 ** 6, UNIT_NS[unit])
    if v.denominator == 1:
        return str(v.numerator)
    whole, rest = divmod(v * 10 ** 6, 10 ** 6)
    return ('%d.%06d' % (whole, rest)).rstrip('0')


def bound_renderer(c):
    """how the bounds (sampling periods in the formula) are written in the text of the specification.
    No 'bstyle': both bounds in ms (the original stream).  'plain': no unit, the number counts default units of the specification
    (s, or spec.unit) - NOT sampling periods; 's' / 'ms' / 'us': that unit on both bounds, whatever the unit of the period;
    'plain_begin' / 'plain_end': one bound without a unit, which then takes the unit of the other one; 'vary': each interval of the
    text draws its own spelling (seeded by the case)."""
    pm = c.get('period_ms')
    if not pm:
        return None
    style = c.get('bstyle')
    if not style:
        return lambda b, e: '[%dms,%dms]' % (b * pm, e * pm)
    rng = random.Random(c.get('seed', 0))

    def one(st, u, b, e):
        du = default_unit(c)
        if st == 'plain':
            return '[%s,%s]' % (bound_number(b, pm, du), bound_number(e, pm, du))
        if st == 'plain_begin':
            return '[%s,%s%s]' % (bound_number(b, pm, u), bound_number(e, pm, u), u)
        if st == 'plain_end':
            return '[%s%s,%s]' % (bound_number(b, pm, u), u, bound_number(e, pm, u))
        if st == 'two':
            u2 = {'s': 'ms', 'ms': 'us', 'us': 'ns', 'ns': 's'}[u]
            return '[%s%s,%s%s]' % (bound_number(b, pm, u), u, bound_number(e, pm, u2), u2)
        return '[%s%s,%s%s]' % (bound_number(b, pm, st), st, bound_number(e, pm, st), st)

    def bound(b, e):
        u = c.get('bunit') or 's'
        if style == 'vary':
            return one(rng.choice(['plain', 'plain', 's', 'ms', 'us', 'ns', 'plain_begin', 'plain_end', 'two']), rng.choice(['s', 'ms', 'us', 'ns']), b, e)
        return one(style, u, b, e)
    return bound


def bounds_class(c):
    """the class of the case for the feature histogram"""
    if not c.get('period_ms'):
        return None
    if not any(s[0] in fml.TUN or s[0] in ('sincet', 'untilt') for f in c['fs'] for s in fml.subformulas(f)):
        return None
    st = c.get('bstyle')
    if not st:
        return 'bounds_in_ms_of_the_period'
    same = Fraction(c['period_ms'] * 10 ** 6, UNIT_NS[default_unit(c)]) == 1
    if st == 'plain':
        return 'bounds_without_unit_period_is_one_default_unit' if same else 'bounds_without_unit_period_differs_from_default_unit'
    if st == 'vary':
        return 'bounds_spelled_per_interval'
    if st in ('plain_begin', 'plain_end'):
        return 'bounds_one_unit_inherited'
    if st == 'two':
        return 'bounds_in_two_units'
    return 'bounds_in_unit_other_than_period' if st != 'ms' else 'bounds_in_ms_of_the_period'


def period_text(c):
    if not c.get('period_ms'):
        return {}
    case = C20.with_period(None, c, {})
    out = {'set_sampling_period': case.get('period') or case.get('late_period')}
    if c.get('late'):
        out['set_sampling_period_called'] = 'after parse()'
    if c.get('unit'):
        out['spec.unit'] = c['unit']
    return out


def spec_text(c):
    fs = c['fs']
    lines = []
    bound = bound_renderer(c)
    for k, f in enumerate(fs):
        name = 'out' if k == len(fs) - 1 else 'as%d' % (k + 1)
        t = fml.to_text(f, bound)
        if name == 'out' and c.get('ref') and len(fs) > 1:
            # the reported assertion refers to the first named sub-specification
            t = '((as1) %s (%s))' % (c['ref'], t)
        lines.append('%s = %s' % (name, t))
    # the specification is the last assertion (the one evaluate() reports); the earlier ones are named sub-specifications
    return ';\n'.join(lines) + (';' if len(fs) > 1 else ''), ['out']


def top(c):
    """the reported assertion with the reference to a sub-specification inlined"""
    fs = c['fs']
    if c.get('ref') and len(fs) > 1:
        return (c['ref'], fs[0], fs[-1])
    return fs[-1]


def dataset(c, cols):
    if c.get('period_ms') and default_unit(c) == 's':
        data = {'time': [k * c['period_ms'] / 1000.0 for k in range(c['n'])]}
    elif c.get('period_ms'):
        # the time stamps count default units of the specification
        step = Fraction(c['period_ms'] * 10 ** 6, UNIT_NS[default_unit(c)])
        data = {'time': [(k * step).numerator if (k * step).denominator == 1 else float(k * step) for k in range(c['n'])]}
    else:
        data = {'time': list(range(c['n']))}
    for i in range(c['nv']):
        data[fml.VARS[i]] = list(cols[i])
    return data


def parse_table(line):
    flds = parse_fields(line)
    if 'ERROR' in flds:
        return None
    t = flds['EXPL']
    if t == ['RAISE']:
        return 'RAISE'
    out = {}
    for item in t:
        k, v = item.split('=')
        out[int(k)] = [[int(x) for x in iv.split('-')] for iv in v.split(',') if iv]
    return out


def impl_table(val, nv):
    out = {}
    for i in range(nv):
        iv = (val or {}).get(fml.VARS[i])
        if iv:
            out[i] = [list(x) for x in iv]
    return out


def clean(tb):
    return {k: v for k, v in tb.items() if v}


def reported(tb, i, k):
    return any(b <= k <= e for b, e in tb.get(i, []))


def reassignments(rng, c, tb, count):
    """traces that coincide with the original on the reported positions"""
    free = [(i, k) for i in range(c['nv']) for k in range(c['n']) if not reported(tb, i, k)]
    if not free:
        return []
    out = []
    modes = ['flip', 'big', 'small', 'zero'] + ['rand'] * max(0, count - 4)
    for m in modes[:count]:
        cols = [list(col) for col in c['cols']]
        for (i, k) in free:
            v = cols[i][k]
            if m == 'flip':
                cols[i][k] = -v if v != 0 else rng.choice([-1, 1])
            elif m == 'big':
                cols[i][k] = 9
            elif m == 'small':
                cols[i][k] = -9
            elif m == 'zero':
                cols[i][k] = 0
            else:
                cols[i][k] = rng.choice([v, -v, 9, -9, 0, rng.randint(-4, 6)])
        if cols != c['cols'] and cols not in out:
            out.append(cols)
    return out


# sampling periods (in ms), the default unit of the specification (spec.unit) and the unit the period is given in
PERIODS = [{'period_ms': 100}, {'period_ms': 250}, {'period_ms': 500}, {'period_ms': 500}, {'period_ms': 1000}, {'period_ms': 2000}, {'period_ms': 2000, 'punit': 's'},
           {'period_ms': 2, 'unit': 'ms'}, {'period_ms': 5, 'unit': 'ms'}, {'period_ms': 2, 'unit': 'us'}, {'period_ms': 1, 'unit': 'us', 'punit': 'us'},
           {'period_ms': 3000, 'unit': 'ms', 'punit': 's'}]
PERIOD_CORNERS = [
    {'period_ms': 500, 'bstyle': 'plain'},                                  # [0,2] spans 4 sampling periods
    {'period_ms': 500, 'bstyle': 's'},                                      # the same with the unit written
    {'period_ms': 2000, 'bstyle': 'plain'},                                 # [2,6] spans samples 1..3
    {'period_ms': 2000, 'bstyle': 'plain', 'punit': 's'},
    {'period_ms': 100, 'bstyle': 'plain'},                                  # decimal bounds: [0.1,0.3]
    {'period_ms': 1000, 'bstyle': 'plain'},                                 # one default unit, written in ms
    {'period_ms': 2, 'bstyle': 'plain', 'unit': 'ms'},                      # default unit of the specification ms
    {'period_ms': 2, 'bstyle': 'plain', 'unit': 'us'},
    {'period_ms': 1, 'bstyle': 'plain', 'unit': 'us', 'punit': 'us'},
    {'period_ms': 500, 'bstyle': 'us'},
    {'period_ms': 500, 'bstyle': 'ns'},
    {'period_ms': 500, 'bstyle': 'plain_begin', 'bunit': 's'},              # [1,2s]: the begin takes the unit of the end
    {'period_ms': 500, 'bstyle': 'plain_end', 'bunit': 'ms'},
    {'period_ms': 500, 'bstyle': 'two', 'bunit': 's'},                      # [1s,2000ms]
    {'period_ms': 250, 'bstyle': 'vary'},
    {'period_ms': 500, 'bstyle': 'plain', 'late': True},                    # set_sampling_period() after parse()
]


class C20(Check):
    PID = 'C20'
    SHRINK_BUDGET = 120
    RULE = ('seeded random discrete-time offline specifications of the explainable fragment (Boolean/temporal structure over predicates: not/and/or/implies, '
            '(bounded) eventually/always/once/historically, prev/next, rise/fall; 1-2 assertions: the specification is the last one, which may refer to the first as a named sub-specification, or leave it unreferenced) plus a wild stream (iff/xor over composite operands, temporal operators below comparisons, unsupported since/until) '
            'x traces of 1-8 samples over -4..6 x sampling period: the default 1 s, or 1 ms .. 3 s given in ms / s / us before or after parse() with the bounds written in ms of the period, '
            'without a unit (they then count default units of the specification - s, or spec.unit = ms / us - not sampling periods: [0,2] at 500 ms spans 4 periods; decimal bounds), in a unit other than the one of the period (s / ms / us / ns), '
            'with one unit-less bound that takes the unit of the other, in two units, or spelled per interval; per violated case the positions explain() did not report are re-assigned (flip, +9, -9, 0, random) and '
            'evaluate() must stay negative at time 0; the reported table must equal the model Explain.explain (sufficiency proved in Props/C20.v); a satisfied '
            'specification must report nothing, also when the same object was violated on earlier data; non-trivial = violated with >= 1 unreported position; distinct by (spec, trace)')

    def gen_cases(self, rng, tier):
        cases = []
        nrand = 500 if tier == 'quick' else 9000
        P = ('pred', 'geq', ('var', 0), ('const', 1))
        Q = ('pred', 'leq', ('var', 1), ('const', 2))
        base = [('evt', 0, 1, ('var', 0)), ('alwt', 0, 3, Q), ('and', P, Q), ('or', P, Q), ('implies', ('and', P, ('not', Q)), ('not', P)),
                ('alwt', 0, 1, ('oncet', 1, 2, P)), ('not', ('alwt', 0, 1, ('oncet', 0, 1, P))), ('or', ('hist', P), ('next', ('next', ('hist', P)))),
                ('alw', ('implies', P, ('evt', 0, 2, Q))), ('not', ('ev', ('and', P, ('once', Q)))), ('alw', ('or', ('histt', 0, 1, P), ('alwt', 1, 2, Q))),
                ('hist', ('implies', ('once', P), ('ev', Q))), ('not', ('or', ('once', ('not', P)), ('evt', 1, 3, Q))), ('sprev', P), ('next', P)]
        items = [([f], 2, False) for f in base for _ in range(4)]
        R = ('pred', 'geq', ('var', 2), ('const', 0))
        X0 = ('pred', 'geq', ('var', 0), ('const', 0))
        Y0 = ('pred', 'geq', ('var', 1), ('const', 0))
        crafted = [
            # a needed interval list with two members reaches a sat-mode historically / unsat-mode once / bounded operators
            (('not', ('alw', ('or', Y0, ('and', R, ('hist', X0))))), [[1, 1, 1], [-1, 1, -1], [1, -1, 1]]),
            (('alw', ('and', Y0, ('or', R, ('not', ('once', ('not', X0)))))), [[1, 1, 1], [1, 1, 1], [-1, 1, -1]]),
            (('not', ('alw', ('or', Y0, ('and', R, ('alwt', 0, 1, X0))))), [[1, 1, 1, 1], [-1, 1, -1, 1], [1, -1, 1, 1]]),
            (('not', ('alw', ('or', Y0, ('and', R, ('histt', 0, 1, X0))))), [[1, 1, 1, 1], [-1, 1, -1, 1], [1, -1, 1, 1]]),
            (('not', ('alw', ('or', Y0, ('and', R, ('not', ('evt', 0, 1, ('not', X0))))))), [[1, 1, 1, 1], [-1, 1, -1, 1], [1, -1, 1, 1]]),
            (('not', ('alw', ('or', Y0, ('and', R, ('not', ('oncet', 0, 1, ('not', X0))))))), [[1, 1, 1, 1], [-1, 1, -1, 1], [1, -1, 1, 1]]),
            # bounded once in a violated context
            (('next', ('next', ('next', ('oncet', 1, 2, X0)))), [[1, -1, -1, -1, -1, -1], [0] * 6, [0] * 6]),
            # antecedent of an implication
            (('implies', ('and', X0, Y0), ('pred', 'leq', ('var', 0), ('a1', 'neg', ('const', 9)))), [[1, 1], [1, 1], [0, 0]]),
            (('not', ('implies', ('or', X0, Y0), R)), [[-1, 1], [1, 1], [-1, 0]]),
            # rise / fall: the previous sample counts with the opposite polarity (repair D42)
            (('next', ('rise', ('and', X0, Y0))), [[1, 1], [1, 1], [0, 0]]),
            (('next', ('not', ('fall', ('and', X0, Y0)))), [[1, 1], [1, 1], [0, 0]]),
            (('next', ('rise', ('var', 0))), [[1, 0], [0, 0], [0, 0]]),
            (('alw', ('not', ('fall', X0))), [[3, -1, 2], [0, 0, 0], [0, 0, 0]]),
            (('not', ('ev', ('rise', ('or', X0, Y0)))), [[-1, 2, 2], [-1, -1, 3], [0, 0, 0]]),
            # known finding: iff/xor over composite operands (the polarity of the operand is not what the explainer assumes)
            (('iff', ('and', X0, Y0), R), [[1], [1], [-1]]),
            (('not', ('xor', ('and', X0, Y0), R)), [[1], [1], [-1]]),
            # known finding: a temporal operator below a comparison / arithmetic (its samples are filtered by sign, which means nothing for a numeric operand)
            (('pred', 'geq', ('alwt', 0, 2, ('var', 0)), ('const', 1)), [[2, 0, 2], [0, 0, 0], [0, 0, 0]]),
            (('pred', 'leq', ('a2', 'sub', ('var', 0), ('alwt', 0, 2, ('var', 0))), ('const', 1)), [[5, 1, 3], [0, 0, 0], [0, 0, 0]]),
            (('pred', 'lt', ('var', 1), ('hist', ('var', 0))), [[1, 1, 1], [3, 0, 0], [0, 0, 0]]),
            # the same with a Boolean connective used as min / max below a comparison
            (('pred', 'geq', ('and', ('var', 0), ('var', 1)), ('const', 1)), [[5], [0], [0]]),
            (('alw', ('pred', 'geq', ('and', ('var', 0), ('var', 1)), ('const', 1))), [[5, 5], [3, 0], [0, 0]]),
            # two needed windows of one variable that overlap / are nested (union of interval lists), nested bounded always in a satisfied context
            (('or', ('evt', 0, 5, ('pred', 'geq', ('var', 0), ('const', 3))), ('evt', 2, 3, ('pred', 'geq', ('var', 0), ('const', 1)))), [[0] * 8, [0] * 8, [0] * 8]),
            (('implies', ('alwt', 0, 5, ('pred', 'lt', ('var', 0), ('const', 5))), ('evt', 2, 3, ('pred', 'gt', ('var', 0), ('const', 2)))), [[1, 1, 1, 0, 1, 1, 0, 0], [0] * 8, [0] * 8]),
            (('not', ('alwt', 0, 2, ('alwt', 1, 2, X0))), [[1] * 6, [0] * 6, [0] * 6]),
            (('not', ('histt', 0, 1, ('alwt', 1, 3, X0))), [[1] * 7, [0] * 7, [0] * 7]),
            (('and', ('alwt', 1, 4, X0), ('alwt', 2, 3, ('pred', 'geq', ('var', 0), ('const', 2)))), [[3, 3, 1, 3, -1, 3, 3], [0] * 7, [0] * 7]),
            # a variable that occurs twice
            (('and', ('var', 0), ('a2', 'mul', ('var', 0), ('var', 0))), [[-2], [0], [0]]),
        ]
        for (f, cols) in crafted:
            cases.append({'fs': [f], 'f': f, 'nv': 3, 'n': len(cols[0]), 'cols': cols, 'seed': 7})
            cases.append({'fs': [f], 'f': f, 'nv': 3, 'n': len(cols[0]), 'cols': cols, 'seed': 8, 'period_ms': 100})
        # the number written in a bound is not the number of samples: bounds without a unit count default units of the specification (s, or
        # spec.unit) while the sampling period is something else, bounds carry a unit other than the one of the period, one bound takes the
        # unit of the other one, decimal bounds; the period is given in ms / s / us, before or after parse()
        A0 = ('pred', 'geq', ('var', 0), ('const', 0))
        timed = [(f, cols) for (f, cols) in crafted if any(s[0] in fml.TUN for s in fml.subformulas(f)) and shape(f) == 'explainable'] + [
            (('alwt', 0, 4, A0), [[1, 1, 1, -1, 1, 1, 1, 1], [0] * 8, [0] * 8]),
            (('evt', 0, 4, A0), [[-1] * 8, [0] * 8, [0] * 8]),
            (('alwt', 2, 4, ('oncet', 0, 2, A0)), [[1, -1, -1, -1, -1, 1, 1, 1], [0] * 8, [0] * 8]),
            (('alwt', 1, 3, A0), [[-1, 1, 1, -1, -1, 1, 1, 1], [0] * 8, [0] * 8]),
            (('not', ('evt', 3, 5, ('not', A0))), [[1, 1, 1, 1, -1, 1, 1, 1], [0] * 8, [0] * 8]),
            (('next', ('next', ('next', ('next', ('histt', 1, 3, A0))))), [[1, -1, 1, 1, 1, 1, 1, 1], [0] * 8, [0] * 8]),
            (('implies', ('evt', 2, 2, A0), ('alwt', 4, 6, Y0)), [[-1, -1, 1, -1, -1, -1, -1, -1], [1, 1, 1, 1, 1, -1, 1, 1], [0] * 8]),
        ]
        for (f, cols) in timed:
            for j, cfg in enumerate(PERIOD_CORNERS):
                cases.append(dict(cfg, fs=[f], f=f, nv=3, n=len(cols[0]), cols=cols, seed=11 + j))
        for i in range(nrand):
            nv = rng.choice([1, 2, 2, 3])
            wild = rng.random() < 0.2
            k = 2 if rng.random() < 0.3 else 1
            items.append(([gen_formula(rng, nv, rng.choice([1, 2, 2, 3, 3, 4]), wild) for _ in range(k)], nv, wild))
        for (fs, nv, wild) in items:
            if any(fml.size(f) > 36 for f in fs):
                continue
            nv = max(need_vars(f, nv) for f in fs)
            n = rng.choice([1, 2, 3, 4, 5, 6, 8])
            c = {'fs': fs, 'f': fs[-1], 'nv': nv, 'n': n, 'cols': fml.gen_trace(rng, nv, n), 'seed': rng.randrange(1 << 30)}
            if rng.random() < 0.3:
                c['period_ms'] = rng.choice([100, 500, 2000])
                if rng.random() < 0.7:
                    c.update(rng.choice(PERIODS))
                    c['bstyle'] = rng.choice(BOUND_STYLES)
                    c['bunit'] = rng.choice(['s', 'ms', 'us', 'ns'])
                    if rng.random() < 0.15:
                        c['late'] = True
            if rng.random() < 0.2:
                c['cols2'] = fml.gen_trace(rng, nv, n)
            if len(fs) > 1 and rng.random() < 0.6:
                c['ref'] = rng.choice(['and', 'or', 'implies'])
            cases.append(c)
        return cases

    def load_case(self, c):
        c = Check.load_case(self, c)
        if 'fs' not in c:
            c['fs'] = [c['f']]
        return c

    def normalize(self, c):
        c = dict(c)
        if 'f' in c and (not c.get('fs') or c['fs'][-1] != c['f']):
            # the shrinker works on 'f' = the last assertion
            c['fs'] = list(c.get('fs', [c['f']]))[:-1] + [c['f']]
        if 'cols' in c:
            c['cols'] = [list(col)[:c['n']] for col in c['cols']]
        if 'cols2' in c:
            c['cols2'] = [list(col)[:c['n']] for col in c['cols2']]
            if any(len(col) < c['n'] for col in c['cols2']):
                c.pop('cols2')
        c['times'] = list(range(c['n']))
        return c

    def model_lines(self, c):
        fs = '(' + fml.to_sx(top(c)) + ')'
        out = ['(explain %s %d %s)' % (fs, c['n'], fml.trace_sx(c['cols']))]
        if 'cols2' in c:
            out.append('(explain %s %d %s)' % (fs, c['n'], fml.trace_sx(c['cols2'])))
        return out

    def impl_cases(self, c):
        text, names = spec_text(c)
        calls = [['evaluate', dataset(c, c['cols'])], ['explain']]
        if 'cols2' in c:
            calls += [['evaluate', dataset(c, c['cols2'])], ['explain']]
        return [self.with_period(c, {'monitor': 'discrete-offline', 'ctor': ('combined' if c['seed'] % 5 < 2 else 'split'), 'vars': fml.VARS[:c['nv']], 'spec': text, 'calls': calls})]

    def with_period(self, c, case):
        if c.get('period_ms'):
            pu = c.get('punit') or 'ms'
            v = Fraction(c['period_ms'] * 10 ** 6, UNIT_NS[pu])
            per = [v.numerator if v.denominator == 1 else float(v), pu, 0.1] if pu != 'ms' else [c['period_ms'], 'ms', 0.1]
            # 'late': the sampling period is set after parse() (the bounds are converted when evaluate() / explain() read them)
            case['late_period' if c.get('late') else 'period'] = per
            if c.get('unit'):
                case['unit'] = c['unit']
        return case

    def replay_cases(self, c):
        return self.impl_cases(c)

    # two phases: explain, then re-evaluate on the re-assigned traces
    def evaluate(self, model, cs, interactive=False):
        cs = [self.normalize(c) for c in cs]
        lines, spans = [], []
        for c in cs:
            ls = self.model_lines(c)
            spans.append((len(lines), len(ls)))
            lines.extend(ls)
        mres = [model.one(l) for l in lines] if interactive else model.batch(lines)
        ires = run_impl([self.impl_cases(c)[0] for c in cs])
        verdicts = [None] * len(cs)
        second, owners = [], []
        for k, (c, (a, m), i) in enumerate(zip(cs, spans, ires)):
            v = self.judge_table(c, mres[a:a + m], i)
            if v[0] != 'continue':
                verdicts[k] = v
                continue
            tb = v[1]
            fallback = v[3] if len(v) > 3 else ('ok', None)
            text, names = spec_text(c)
            rng = random.Random(c['seed'])
            ws = reassignments(rng, c, tb, 10)
            verdicts[k] = fallback
            for cols in ws:
                second.append(self.with_period(c, {'monitor': 'discrete-offline', 'ctor': 'split', 'vars': fml.VARS[:c['nv']], 'spec': text,
                                                   'calls': [['evaluate', dataset(c, cols)]] + [['get_value', nm] for nm in names]}))
                owners.append((k, cols, tb, v[2]))
        sres = run_impl(second) if second else []
        for (k, cols, tb, violated), r in zip(owners, sres):
            if verdicts[k][0] == 'violation' and verdicts[k][1].get('kind') == 'insufficient':
                continue
            c = cs[k]
            text, names = spec_text(c)
            bad = None
            if r['setup']['status'] != 'ok' or any(x['status'] != 'ok' for x in r['calls']):
                bad = {'status': 'evaluate on the re-assigned trace failed', 'detail': r}
            else:
                for j, nm in enumerate(names):
                    if violated[j]:
                        val = r['calls'][1 + j]['value']
                        v0 = val[0][1] if isinstance(val[0], list) else val[0]
                        f0 = {'inf': float('inf'), '-inf': -float('inf')}.get(v0, v0)
                        if not (isinstance(f0, (int, float)) and f0 < 0):
                            bad = {'assertion': nm, 'robustness_at_0_on_reassigned_trace': v0}
                            break
            if bad is not None:
                verdicts[k] = ('violation', {'spec': text, 'sampling': period_text(c), 'trace': dataset(c, c['cols']), 'reported': {fml.VARS[i]: iv for i, iv in tb.items()},
                                             'reassigned_trace': dataset(c, cols), 'expected': 'still violated at time 0 (the trace coincides with the original on every reported position)',
                                             'observed': bad, 'kind': 'insufficient',
                                             'replay_calls': [['evaluate', dataset(c, c['cols'])], ['explain'], ['evaluate', dataset(c, cols)], ['get_value', 'out']]})
        return verdicts

    def judge_table(self, c, mlines, i):
        text, names = spec_text(c)
        det = dict({'spec': text, 'trace': dataset(c, c['cols'])}, **period_text(c))
        flds = [parse_fields(l) for l in mlines]
        if any('ERROR' in f for f in flds):
            return 'model-error', mlines
        if any(f['EXACT'] != ['1'] for f in flds):
            return 'dropped', None
        if i['setup']['status'] != 'ok':
            return 'violation', dict(det, observed=i['setup'], kind='setup')
        if i['calls'][0]['status'] != 'ok':
            return 'violation', dict(det, observed=i['calls'][0], kind='evaluate')
        mt = [parse_table(l) for l in mlines]
        rho0 = [fml.parse_val(x) for x in flds[0]['RHO0']]
        violated = [x < 0 for x in rho0]
        steps = [(1, mt[0], c['cols'])] + ([(3, mt[1], c['cols2'])] if 'cols2' in c else [])
        first_tb = None
        mismatch = None
        for (ci, m, cols) in steps:
            r = i['calls'][ci]
            d2 = dict(det, trace=dataset(c, cols), call='explain() after evaluate() #%d' % ((ci + 1) // 2))
            if m == 'RAISE':
                if r['status'] == 'rtamt':
                    return 'ok', None
                return 'model-mismatch', dict(d2, expected='RTAMTException (operator without explanation)', observed=r)
            if r['status'] != 'ok':
                return 'violation', dict(d2, expected={'reported': m}, observed=r, kind='explain-raises')
            it = impl_table(r['value'], c['nv'])
            if first_tb is None:
                first_tb = clean(it)
            if clean(it) != clean(m) and mismatch is None:
                sat_now = not clean(m) and all(fml.parse_val(x) >= 0 for x in flds[(ci - 1) // 2]['RHO0'])
                mismatch = ('violation', dict(d2, expected={'source': 'Explain.explain (model, sufficiency proved)', 'reported': {fml.VARS[k]: v for k, v in clean(m).items()}},
                                              observed={'reported': {fml.VARS[k]: v for k, v in clean(it).items()}},
                                              kind='reported-for-satisfied' if sat_now else 'table'))
        if not any(violated):
            return mismatch if mismatch is not None else ('ok', None)
        return 'continue', first_tb, violated, (mismatch if mismatch is not None else ('ok', None))

    def judge(self, c, mlines, ires):
        raise RuntimeError('C20 uses its own evaluate()')

    def signature(self, c, detail):
        shapes = [shape(top(c))]
        sh = 'explainable'
        for s in ('iff_xor_composite', 'temporal_under_arithmetic'):
            if s in shapes:
                sh = s
        return {'shape': sh, 'kind': detail.get('kind') if isinstance(detail, dict) else None, 'ops': sorted(set().union(*[fml.ops(f) for f in c['fs']]))}

    def features(self, c):
        bc = bounds_class(c)
        return (sorted(set().union(*[fml.ops(f) for f in c['fs']])) + (['named_subspec_referenced'] if c.get('ref') else []) + (['unreferenced_assertion'] if len(c['fs']) > 1 and not c.get('ref') else [])
                + ([bc] if bc else []) + (['period_set_after_parse'] if c.get('late') and c.get('period_ms') else []))

    def nontrivial(self, c):
        return True

    def key(self, c):
        return json.dumps([[fml.to_sx(f) for f in c['fs']], c['cols'], c.get('cols2'), c.get('ref'), spec_text(c)[0] if c.get('bstyle') else None, period_text(c) if c.get('bstyle') else None])

    def describe(self, c):
        return dict({'spec': spec_text(c)[0], 'trace': dataset(c, c['cols'])}, **period_text(c))


def main(tier, seed, replay=None):
    return C20().main(tier, seed, replay)
