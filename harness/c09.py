# c09.py — C09: a modular specification (sub-specifications, declared
# constants) returns the same values as its inlined form, for every monitor.
import json
from harness import fml, shrink
from harness.common import parse_fields
from harness.runner import Check, offline_case, online_case, need_vars, expect_vals
from harness.modular import gen_modular, modular_spec, inlined_spec


class C09(Check):
    PID = 'C09'
    SHRINK = False
    RULE = ('seeded random formulas decomposed into 1-4 named sub-specifications (nested, referenced several times, stateful) and declared constants, '
            'given through add_sub_spec or as several assertions of one text (20% of the programs with bounded operators spell the bounds with explicit units); modular and inlined forms through the discrete offline monitor, the online monitor '
            '(past-time) and the pastified online monitor (bounded future); outputs must be identical and equal to the model; '
            'non-trivial = a stateful sub-specification is referenced at least twice or nested; distinct by (program, data)')

    def gen_cases(self, rng, tier):
        return gen_modular(rng, tier, 260, 4000)

    def load_case(self, c):
        c = Check.load_case(self, c)
        c['main'] = shrink.detuple(c['main'])
        c['subs'] = [[nm, shrink.detuple(b), shrink.detuple(s)] for nm, b, s in c['subs']]
        return c

    def model_lines(self, c):
        w = fml.trace_sx(c['cols'])
        F = ' '.join(fml.to_sx(shrink.detuple(s)) for (nm, b, s) in c['subs']) + ' ' + fml.to_sx(c['f'])
        lines = ['(off std %s %d %s)' % (fml.to_sx(c['f']), c['n'], w), '(info %s)' % fml.to_sx(c['f'])]
        if not fml.has_future(c['f']):
            lines.append('(on std (%s) %d %s)' % (F, c['n'], w))
        return lines

    def impl_cases(self, c):
        ms = modular_spec(c)
        data = {'time': c['times']}
        for i in range(c['nv']):
            data[fml.VARS[i]] = list(c['cols'][i])
        used = fml.fvars(c['f'])
        ups = [['update', k, [[fml.VARS[i], c['cols'][i][k]] for i in used]] for k in range(c['n'])]
        base = {'vars': fml.VARS[:c['nv']]}
        inl = inlined_spec(c)
        out = [dict(base, monitor='discrete-offline', calls=[['evaluate', data]], **ms),
               dict(base, monitor='discrete-offline', calls=[['evaluate', data]], **inl)]
        past = fml.has_future(c['f'])
        if not any(s[0] in fml.UNB_FUTURE for s in fml.subformulas(c['f'])):
            out += [dict(base, monitor='discrete-online', pastify=past, calls=ups, **ms),
                    dict(base, monitor='discrete-online', pastify=past, calls=ups, **inl)]
        return out

    def judge(self, c, mlines, ires):
        m = parse_fields(mlines[0])
        if 'ERROR' in m:
            return 'model-error', mlines
        if m['EXACT'] != ['1']:
            return 'dropped', None
        rho = json.loads(json.dumps(expect_vals([fml.parse_val(x) for x in m['RHO']])))
        det = {'modular': modular_spec(c), 'inlined': 'out = ' + fml.to_text(c['f'])}
        sigs = []
        for i in ires:
            if i['setup']['status'] != 'ok':
                return 'violation', dict(det, expected='both forms evaluate', observed=i['setup'])
            vals = []
            for r in i['calls']:
                if r['status'] != 'ok':
                    return 'violation', dict(det, expected='both forms evaluate', observed=r)
                vals.append(r['value'])
            sigs.append(vals)
        moff, ioff = [p[1] for p in sigs[0][0]], [p[1] for p in sigs[1][0]]
        if moff != ioff:
            return 'violation', dict(det, expected={'inlined offline': ioff}, observed={'modular offline': moff})
        if ioff != rho:
            return 'violation', dict(det, expected={'rho': rho}, observed={'inlined offline': ioff}, note='implementation differs from rho')
        if len(sigs) == 4:
            if sigs[2] != sigs[3]:
                return 'violation', dict(det, expected={'inlined online': sigs[3]}, observed={'modular online': sigs[2]})
            if not fml.has_future(c['f']):
                if sigs[3] != rho:
                    return 'violation', dict(det, expected={'rho': rho}, observed={'online': sigs[3]})
                mo = parse_fields(mlines[2])
                mon = json.loads(json.dumps(expect_vals([fml.parse_val(x) for x in mo['ON']])))
                if mon != rho:
                    return 'model-vs-spec', dict(det, model_forest=mon, rho=rho)
        return 'ok', None

    def nontrivial(self, c):
        stateful = {'prev', 'sprev', 'once', 'hist', 'since', 'oncet', 'histt', 'sincet', 'rise', 'fall', 'evt', 'alwt', 'untilt', 'until', 'ev', 'alw', 'next', 'snext'}
        for (nm, b, s) in c['subs']:
            if fml.ops(shrink.detuple(s)) & stateful:
                uses = json.dumps([c['main']] + [bb for (_, bb, _) in c['subs']]).count('"%s"' % nm)
                if uses >= 2 or len(c['subs']) >= 2:
                    return True
        return False

    def features(self, c):
        return ['nsubs_%d' % len(c['subs']), c.get('style', ''), 'consts' if c.get('consts') else 'noconsts', 'future' if fml.has_future(c['f']) else 'past']

    def key(self, c):
        return json.dumps([c['subs'], c['main'], c['cols']])

    def describe(self, c):
        return {'modular': modular_spec(c), 'inlined': 'out = ' + fml.to_text(c['f']), 'data': c['cols']}


def main(tier, seed, replay=None):
    return C09().main(tier, seed, replay)
