# a module whose import raises (used by the C14 stream of hostile imports)
raise RuntimeError("import refused")
