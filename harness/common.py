# common.py — shared machinery of the checks: build, obligations, model driver,
# implementation pool, evidence, violations, known findings.
import os
import re
import sys
import json
import time
import hashlib
import subprocess
import multiprocessing

VERIF = os.path.dirname(os.path.dirname(os.path.abspath(__file__)))
REPO = os.environ.get('RTAMT_REPO', '/repo')
# where evidence and replays are written: /verif unless a tool that exercises the checks against a scratch copy of the
# repository (tools/mutsweep.py) redirects them
OUTDIR = os.environ.get('VERIF_OUTDIR', VERIF)
DRIVER = os.path.join(VERIF, 'build', 'model_driver')
PY = '/venv/bin/python'
NPROC = int(os.environ.get('VERIF_PROCS', '14'))

TRUSTED_BASE = [
    'Coq 8.16.1 kernel and VM (vm_compute in closed Examples / refutation witnesses only); no native_compute',
    'hand-written Gallina model of the rtamt code paths named in DESIGN.md (faithfulness validated by the correspondence check of this run, not proved)',
    'extraction: Require Extraction + ExtrOcamlBasic only (bool, option, unit, list, prod, sumbool, sumor mapped; andb/orb inlined); nat, positive, Z stay Coq datatypes',
    'OCaml 4.13.1 ocamlfind ocamlopt; coq/extract/driver.ml (s-expression reader/printer)',
    'Python harness (generators, canonicalisation, comparison, shrinking)',
    'Python floats = IEEE binary64, round-to-nearest-even (validated by harness/float_check.py); that they form a Val up to the sign of zero and satisfy SubNeg / SignLaws / DiffLaws is proved in FloatVal.v / FloatLaws.v (Props/FloatInstance.v), which rest on the real-number axioms of the standard library (sig_forall_dec, sig_not_dec, functional_extensionality_dep, classic) through Flocq; the property files C01-C20 do not import them',
]


def sh(cmd, timeout=3600, cwd=None, env=None):
    p = subprocess.run(cmd, shell=True, cwd=cwd, env=env, stdout=subprocess.PIPE, stderr=subprocess.STDOUT,
                       timeout=timeout, universal_newlines=True)
    return p.returncode, p.stdout


# the generated parts of the model (rewritten from the source tree by `make gen`) and the properties whose theorems rest on them
GENERATORS = {'prectable': ['C14', 'C15'], 'offlinegen': ['C01'], 'onlinegen': ['C02'], 'denseonlinegen': ['C05', 'C06'], 'pastifiergen': ['C03', 'C18'], 'explainergen': ['C20'], 'denseofflinegen': ['C04', 'C06'], 'mergegen': ['C04', 'C05'], 'unitsgen': ['C08', 'C13'], 'parservisitorgen': ['C14', 'C15'], 'onlinevisitorgen': ['C02', 'C09', 'C10', 'C12'], 'shellgen': ['C12', 'C01'], 'denseonlinevisitorgen': ['C05']}


def ensure_build():
    """Full (incremental) build of the Coq development, extraction and driver.  The build does not stop at the first failure
    (Makefile: every step records its outcome under build/status); whether a PROPERTY is affected is decided by obligations()."""
    t0 = time.time()
    # (checks may run in parallel: the build step is serialised by a lock, so that no two of them write the generated files, the
    # extraction or the driver at the same time; with nothing to rebuild it takes a second)
    os.makedirs(os.path.join(VERIF, 'build'), exist_ok=True)
    rc, out = sh('flock -w 3000 %s make -C %s all' % (os.path.join(VERIF, 'build', '.lock'), VERIF), timeout=6100)
    return rc == 0, out, time.time() - t0


def generator_failures(pid):
    """the generators this property depends on that refused the current source: [(name, log tail)]"""
    bad = []
    for g, pids in GENERATORS.items():
        if pid in pids:
            path = os.path.join(VERIF, 'build', 'status', g)
            txt = open(path).read() if os.path.exists(path) else 'no status file'
            if not txt.startswith('ok'):
                bad.append((g, txt[-1500:]))
    return bad


def obligations(pid):
    """Compile Props/<pid>.v on its own and collect theorem names and their
    Print Assumptions output.  Returns dict."""
    src = os.path.join(VERIF, 'coq', 'theories', 'Props', pid + '.v')
    res = {'file': src, 'theorems': [], 'axioms': {}, 'ok': False, 'log': ''}
    if not os.path.exists(src):
        res['log'] = 'missing ' + src
        return res
    text = open(src).read()
    names = re.findall(r'^\s*(?:Theorem|Corollary)\s+([A-Za-z0-9_\']+)', text, re.M)
    res['theorems'] = names
    bad = re.findall(r'\b(Admitted|admit|Axiom|Parameter|Conjecture|Abort)\b', re.sub(r'\(\*.*?\*\)', '', text, flags=re.S))
    if bad:
        res['log'] = 'forbidden token in property file: %s' % bad
        return res
    tmp = os.path.join(VERIF, 'build', 'props')
    os.makedirs(tmp, exist_ok=True)
    dst = os.path.join(tmp, pid + '.v')
    open(dst, 'w').write(text)
    rc, out = sh('timeout 900 coqc -Q %s RV %s' % (os.path.join(VERIF, 'coq', 'theories'), pid + '.v'), cwd=tmp, timeout=1000)
    res['log'] = out[-4000:]
    if rc != 0:
        return res
    # parse Print Assumptions output: blocks following each command, in order
    blocks = re.split(r'(?m)^(?=Closed under the global context|Axioms:)', out)
    blocks = [b for b in blocks if b.startswith('Closed under') or b.startswith('Axioms:')]
    printed = re.findall(r'Print Assumptions\s+([A-Za-z0-9_\']+)', text)
    for name, blk in zip(printed, blocks):
        if blk.startswith('Closed under'):
            res['axioms'][name] = []
        else:
            ax = [l.strip() for l in blk.splitlines()[1:] if l.strip() and not l.startswith(' ' * 4)]
            res['axioms'][name] = ax
    res['ok'] = all(n in res['axioms'] for n in names) and len(names) > 0
    if not res['ok']:
        res['log'] += '\nnot every theorem has a Print Assumptions line'
    return res


class Model(object):
    """The extracted model behind a line protocol."""

    def __init__(self):
        self.p = None

    def batch(self, lines, timeout=1800):
        if not lines:
            return []
        env = dict(os.environ)
        p = subprocess.run(['/bin/bash', '-c', 'ulimit -s unlimited 2>/dev/null; exec ' + DRIVER], input='\n'.join(lines) + '\n',
                           stdout=subprocess.PIPE, stderr=subprocess.PIPE, timeout=timeout, universal_newlines=True, env=env)
        out = p.stdout.splitlines()
        if len(out) != len(lines):
            raise RuntimeError('model driver returned %d lines for %d commands: %s' % (len(out), len(lines), p.stderr[-500:]))
        return out

    def one(self, line):
        if self.p is None or self.p.poll() is not None:
            self.p = subprocess.Popen(['/bin/bash', '-c', 'ulimit -s unlimited 2>/dev/null; exec ' + DRIVER], stdin=subprocess.PIPE, stdout=subprocess.PIPE,
                                      universal_newlines=True, bufsize=1)
        self.p.stdin.write(line + '\n')
        self.p.stdin.flush()
        return self.p.stdout.readline().rstrip('\n')

    def close(self):
        if self.p is not None:
            try:
                self.p.stdin.close()
                self.p.wait(timeout=5)
            except Exception:
                self.p.kill()
            self.p = None


def parse_fields(line):
    """'OFF a b | RHO c d | EXACT 1' -> {'OFF': ['a','b'], ...}"""
    out = {}
    if line.startswith('ERROR'):
        return {'ERROR': [line]}
    for part in line.split('|'):
        toks = part.split()
        if toks:
            out[toks[0]] = toks[1:]
    return out


CASE_TIMEOUT = int(os.environ.get('VERIF_CASE_TIMEOUT', '20'))
MEM_LIMIT = int(os.environ.get('VERIF_MEM_LIMIT', str(3 * 1024 ** 3)))


class _Timeout(Exception):
    pass


def _alarm(signum, frame):
    raise _Timeout()


def _limit_memory():
    try:
        import resource
        resource.setrlimit(resource.RLIMIT_AS, (MEM_LIMIT, MEM_LIMIT))
    except Exception:
        pass


def _impl_worker(case):
    """one case against the real rtamt, under a wall-clock and an address-space limit"""
    from harness import impl
    import io, contextlib, signal
    old = signal.signal(signal.SIGALRM, _alarm)
    signal.alarm(CASE_TIMEOUT)
    try:
        with contextlib.redirect_stdout(io.StringIO()):
            return impl.run_multi(case) if 'objects' in case else impl.run_case(case)
    except _Timeout:
        return {'setup': {'status': 'crash', 'kind': 'Timeout', 'msg': 'no result within %d s' % CASE_TIMEOUT}, 'calls': []}
    except MemoryError:
        return {'setup': {'status': 'crash', 'kind': 'MemoryError', 'msg': 'address-space limit'}, 'calls': []}
    except Exception as exc:  # harness-level failure
        return {'setup': {'status': 'harness-error', 'msg': repr(exc)}, 'calls': []}
    finally:
        signal.alarm(0)
        signal.signal(signal.SIGALRM, old)


_pool = None


def pool():
    global _pool
    if _pool is None:
        ctx = multiprocessing.get_context('fork')
        _pool = ctx.Pool(NPROC, initializer=_limit_memory, maxtasksperchild=400)
    return _pool


def run_impl(cases, chunksize=8):
    return pool().map(_impl_worker, cases, chunksize if len(cases) > 64 else 1)


def close_pool():
    global _pool
    if _pool is not None:
        _pool.terminate()
        _pool = None


def case_hash(obj):
    return hashlib.sha1(json.dumps(obj, sort_keys=True).encode()).hexdigest()[:16]


def load_known(pid):
    path = os.path.join(VERIF, 'known_findings.json')
    if not os.path.exists(path):
        return []
    data = json.load(open(path))
    return [e for e in data.get('findings', []) if e.get('property') == pid and e.get('status') == 'open']


class Report(object):
    """Collects the outcome of one check run and writes evidence / replays."""

    def __init__(self, pid, tier, seed):
        self.pid = pid
        self.tier = tier
        self.seed = seed
        self.t0 = time.time()
        self.violations = []       # replay dicts
        self.known_hits = {}       # id -> text
        self.coverage = {}
        self.assumptions = []
        self.notes = []
        d = os.path.join(OUTDIR, 'replays', pid)
        if os.path.isdir(d):
            for fn in os.listdir(d):
                if fn.endswith('.json'):
                    os.unlink(os.path.join(d, fn))

    def violation(self, replay, suffix=''):
        replay = dict(replay)
        replay['property'] = self.pid
        replay['seed'] = self.seed
        d = os.path.join(OUTDIR, 'replays', self.pid)
        os.makedirs(d, exist_ok=True)
        path = os.path.join(d, case_hash(replay) + '.json')
        json.dump(replay, open(path, 'w'), indent=1, sort_keys=True)
        self.violations.append(path)
        line = 'VIOLATION property=%s replay=%s' % (self.pid, path)
        if suffix:
            line += ' ' + suffix
        print(line)
        sys.stdout.flush()

    def known(self, entry):
        if entry['id'] not in self.known_hits:
            self.known_hits[entry['id']] = entry['what']
            print('KNOWN-FINDING: property=%s %s (%s)' % (self.pid, entry['what'], entry['id']))
            sys.stdout.flush()

    def finish(self, obl, coverage, level='proof'):
        cov = dict(coverage)
        cov['obligations'] = len(obl['theorems'])
        cov['discharged'] = len(obl['theorems']) if obl['ok'] else 0
        cov['checker_cmd'] = 'make -C /verif all (coq_makefile full .vo build) ; coqc -Q coq/theories RV Props/%s.v (Print Assumptions)' % self.pid
        tb = list(TRUSTED_BASE)
        ax = sorted({a for l in obl['axioms'].values() for a in l})
        tb.append('axioms reported by Print Assumptions under the property theorems: ' + ('none (Closed under the global context)' if not ax else '; '.join(ax)))
        cov['trusted_base'] = tb
        cov['theorems'] = obl['theorems']
        cov['known_findings_printed'] = sorted(self.known_hits)
        ev = {
            'property_id': self.pid, 'tier': self.tier, 'seed': self.seed, 'level': level,
            'coverage': cov, 'assumptions': self.assumptions, 'wall_s': round(time.time() - self.t0, 2),
            'violations': len(self.violations),
        }
        os.makedirs(os.path.join(OUTDIR, 'evidence'), exist_ok=True)
        json.dump(ev, open(os.path.join(OUTDIR, 'evidence', self.pid + '.json'), 'w'), indent=1, sort_keys=True)
        close_pool()
        return 1 if self.violations else 0


def broken_obligation(rep, obl):
    rep.violation({'kind': 'broken-obligation', 'theorem_file': obl['file'], 'theorems': obl['theorems'],
                   'log': obl['log'][-3000:]}, suffix='no-failing-input-found')
