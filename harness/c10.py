# c10.py — C10: reset() returns an online monitor to its initial state.
import json
from harness import fml
from harness.common import parse_fields
from harness.runner import Check, need_vars, expect_vals


def updates(f, cols, times, lo, hi, omit=None):
    used = fml.fvars(f)
    calls = []
    for k in range(lo, hi):
        row = [[fml.VARS[i], cols[i][k]] for i in used if not (omit and (k, i) in omit)]
        calls.append(['update', times[k], row])
    return calls


class C10(Check):
    PID = 'C10'
    RULE = ('seeded random past-time (and pastified bounded-future) specifications, with and without sub-specifications; a history of 0..40 updates '
            '(jittered time-stamps), reset(), then a continuation; every post-reset output and the sampling-violation counter are compared with a freshly '
            'constructed monitor fed the continuation only, and with the model; reset() before the first update; further reset() calls inside the history (35% of the cases); updates that omit a variable; the sampling period configured after the reset (bounds in seconds); '
            'non-trivial = stateful formula and history length >= 1; distinct by (formula, history, continuation)')

    def gen_cases(self, rng, tier):
        cases = []
        nrand = 300 if tier == 'quick' else 5000
        P = ('pred', 'geq', ('var', 0), ('const', 1))
        base = [P, ('prev', P), ('sprev', ('var', 0)), ('once', P), ('hist', P), ('since', P, ('not', P)), ('oncet', 0, 2, P), ('histt', 1, 3, P),
                ('sincet', 0, 2, P, ('not', P)), ('rise', P), ('fall', P), ('a2', 'add', ('prev', ('var', 0)), ('var', 1))]
        items = [(f, 2) for f in base for _ in range(2)]
        for i in range(nrand):
            nv = rng.choice([1, 2, 2, 3])
            g = fml.Gen(rng, nvars=nv, future=False, maxb=rng.choice([1, 2, 4]))
            f = g.formula(rng.choice([1, 2, 2, 3, 4]))
            if fml.size(f) > 40:
                continue
            items.append((f, nv))
        # bounded-future specifications, pastified (with the first operand named as a sub-specification in half of the cases)
        FUT = ('evt', 0, 2, P)
        pitems = [(('alwt', 0, 1, FUT), 2), (('and', FUT, ('once', P)), 2), (('sincet', 0, 2, FUT, P), 2), (('next', P), 2), (('untilt', 1, 2, P, ('not', P)), 2)]
        for i in range(nrand // 3):
            nv = rng.choice([1, 2, 2])
            g = fml.Gen(rng, nvars=nv, unbounded_future=False, maxb=2, fancy_arith=False)
            f = g.formula(rng.choice([1, 2, 2, 3]))
            if fml.size(f) > 25 or not fml.has_future(f) or any(x[0] in fml.UNB_FUTURE for x in fml.subformulas(f)):
                continue
            pitems.append((f, nv))
        npast = len(pitems)
        items = [(f, nv, True) for (f, nv) in pitems] + [(f, nv, False) for (f, nv) in items]
        for (f, nv, past) in items:
            nv = need_vars(f, nv)
            h = rng.choice([0, 0, 1, 2, 3, 5, 9, 20, 40])
            k = rng.choice([1, 2, 3, 5, 9, 20])
            n = h + k
            cols = fml.gen_trace(rng, nv, n)
            t, times = 0, []
            for _ in range(n):
                times.append(t)
                t += rng.choice([1, 1, 1, 2, 0.5, 1.25])
            omit = []
            if rng.random() < 0.25 and len(fml.fvars(f)) >= 1:
                # the continuation omits one variable in some updates (never in its first update of the history part)
                v = rng.choice(fml.fvars(f))
                omit = [[kk, v] for kk in range(h, n) if rng.random() < 0.5]
            sub = rng.random() < (0.5 if past else 0.3)
            # earlier reset() calls inside the history (a monitor can be reset any number of times)
            resets = sorted(rng.sample(range(0, h + 1), min(h + 1, rng.choice([1, 1, 2])))) if rng.random() < 0.35 else []
            cases.append({'f': f, 'n': n, 'h': h, 'nv': nv, 'cols': cols, 'times': times, 'omit': omit, 'sub': sub, 'resets': resets, 'past': past})
            if (past or (fml.ops(f) & (fml.TUN | fml.TBIN))) and rng.random() < 0.4:
                # reset() before the first update and before pastify(): harmless (the fresh monitor is parsed and pastified)
                cases.append(dict(cases[-1], reset_before_pastify=1, h=0, resets=[], omit=[], cols=[col[h:] for col in cols], times=times[h:], n=n - h, sub=False))
            if not past and (fml.ops(f) & (fml.TUN | fml.TBIN)) and rng.random() < 0.5:
                # the sampling period is configured after the reset (before the first update of the fresh monitor): bounds are written in seconds,
                # the history runs with the default period of 1 s, the continuation with 500 ms
                c2 = dict(cases[-1], reperiod=[500, 'ms', 0.1], omit=[], sub=False)
                c2['times'] = c2['times'][:h] + [0.5 * i for i in range(n - h)]
                cases.append(c2)
        return cases

    def _spec(self, c):
        f = c['f']
        if c.get('sub') and fml.children(f):
            kid = fml.children(f)[0]
            # name the first child as a sub-specification
            text = fml.to_text(fml.rebuild(f, [('ref', 'sub1')] + fml.children(f)[1:]))
            return {'subspecs': ['sub1 = ' + fml.to_text(kid) + ';'], 'spec': 'out = ' + text}
        if c.get('reperiod'):
            return {'spec': 'out = ' + fml.to_text(f, lambda b, e: '[%ds,%ds]' % (b, e))}
        if c.get('reset_before_pastify'):
            # bounds written in milliseconds: pastify() rewrites them in the default unit, which changes the printed names of the nodes
            return {'spec': 'out = ' + fml.to_text(f, lambda b, e: '[%dms,%dms]' % (b * 1000, e * 1000))}
        return {'spec': 'out = ' + fml.to_text(f)}

    def impl_cases(self, c):
        om = {(a, b) for a, b in c.get('omit', [])}
        h, n = c['h'], c['n']
        base = {'monitor': 'discrete-online', 'vars': fml.VARS[:c['nv']]}
        base.update(self._spec(c))
        if c.get('past') or c.get('reset_before_pastify'):
            base['pastify'] = True
        a = dict(base)
        if c.get('reset_before_pastify'):
            a['pastify'] = False
        hist, lo = [], 0
        for r in [x for x in c.get('resets', []) if x <= h]:
            hist += updates(c['f'], c['cols'], c['times'], lo, r) + [['reset']]
            lo = r
        hist += updates(c['f'], c['cols'], c['times'], lo, h)
        rp = [['set_period'] + c['reperiod']] if c.get('reperiod') else []
        a['calls'] = hist + [['reset']] + rp + ([['pastify']] if c.get('reset_before_pastify') else []) + updates(c['f'], c['cols'], c['times'], h, n, om) + [['counter']]
        b = dict(base)
        b['calls'] = rp + updates(c['f'], c['cols'], c['times'], h, n, om) + [['counter']]
        if c.get('reset_before_pastify'):
            return [a, b]
        # what get_value() returns between the reset and the next update: as for a fresh monitor (the stored inputs and the buffered outputs are gone)
        probes = self.probes(c)
        return [a, b, dict(a, calls=hist + [['reset']] + probes), dict(b, calls=probes)]

    def probes(self, c):
        names = ['out'] + (['sub1'] if c.get('sub') and fml.children(c['f']) else []) + fml.VARS[:c['nv']]
        return [['get_value', nm] for nm in names]

    def model_lines(self, c):
        if c.get('past'):
            return ['(past stl %s %d %s)' % (fml.to_sx(c['f']), c['n'] - c['h'], fml.trace_sx([col[c['h']:] for col in c['cols']]))]
        return ['(onreset std (%s) %d %d %s)' % (fml.to_sx(c['f']), c['h'], c['n'] - c['h'], fml.trace_sx(c['cols'])),
                '(on std (%s) %d %s)' % (fml.to_sx(c['f']), c['n'] - c['h'], fml.trace_sx([col[c['h']:] for col in c['cols']]))]

    def judge(self, c, mlines, ires):
        if c.get('past'):
            # pastified monitors: the monitor after reset() against a freshly constructed, parsed and pastified one (what the
            # pastified monitor computes is C03's subject); the model of the pastified monitor is compared from sample h on
            m1 = m2 = parse_fields(mlines[0])
            if 'ERROR' in m2:
                return 'model-error', mlines
        else:
            m1, m2 = parse_fields(mlines[0]), parse_fields(mlines[1])
        if 'ERROR' in m1 or 'ERROR' in m2:
            return 'model-error', mlines
        if m2['EXACT'] != ['1']:
            return 'dropped', None
        a, b = ires[:2]
        h, n = c['h'], c['n']
        det = {'history': h, 'continuation': n - h}
        if len(ires) == 4 and ires[2]['setup']['status'] == 'ok' and ires[3]['setup']['status'] == 'ok':
            np_ = len(self.probes(c))
            oc = lambda r: [r['status'], r.get('value') if r['status'] == 'ok' else r.get('kind')]
            if all(r['status'] == 'ok' for r in ires[2]['calls'][:-np_]):
                got, exp = [oc(r) for r in ires[2]['calls'][-np_:]], [oc(r) for r in ires[3]['calls']]
                if got != exp:
                    return 'violation', dict(det, shape='get_value-after-reset', names=[p_[1] for p_ in self.probes(c)],
                                             expected={'fresh monitor, get_value before the first update': exp}, observed={'get_value after reset()': got})
        for i in (a, b):
            if i['setup']['status'] != 'ok':
                return 'violation', dict(det, expected='specification parses', observed=i['setup'])
        for k_, r in enumerate(a['calls']):
            if r['status'] != 'ok':
                if c.get('reset_before_pastify') and k_ == 0 and r['status'] == 'rtamt':
                    continue        # reset() of a specification that still has future operators is refused cleanly; the monitor must work once it is pastified
                return 'violation', dict(det, expected='every call returns', observed=r)
        for r in b['calls']:
            if r['status'] != 'ok':
                return 'dropped', None        # the fresh monitor itself fails: not a reset question
        nres = len([x for x in c.get('resets', []) if x <= h])
        post = [r['value'] for r in a['calls'][h + nres + 1 + (1 if c.get('reset_before_pastify') else 0):]]
        fresh = [r['value'] for r in b['calls']]
        if c.get('reperiod'):
            det['sampling_period_set_after_reset'] = c['reperiod']
        if post != fresh:
            return 'violation', dict(det, expected={'fresh monitor (outputs..., counter)': fresh}, observed={'after reset': post})
        if not c.get('omit') and not c.get('past') and not c.get('reperiod') and not c.get('reset_before_pastify'):
            mo = json.loads(json.dumps(expect_vals([fml.parse_val(x) for x in m1['ON']])))
            mf = json.loads(json.dumps(expect_vals([fml.parse_val(x) for x in m2['ON']])))
            if mo != mf:
                return 'model-vs-spec', dict(det, model_after_reset=mo, model_fresh=mf)
            if mf != fresh[:-1]:
                return 'model-differs', dict(det, expected={'model': mf}, observed={'fresh': fresh[:-1]}, note='the reset monitor behaves like a fresh one, but both differ from the online model on which C10_reset is proved (C02 is the property that is violated)')
        return 'ok', None

    def nontrivial(self, c):
        return c['h'] >= 1 and bool(fml.ops(c['f']) & {'evt', 'alwt', 'untilt', 'next', 'snext', 'prev', 'sprev', 'once', 'hist', 'since', 'oncet', 'histt', 'sincet', 'rise', 'fall'})

    def key(self, c):
        return json.dumps([fml.to_sx(c['f']), c['cols'], c['h'], c.get('omit'), c.get('sub'), c.get('resets'), c.get('past'), c.get('reperiod'), c.get('reset_before_pastify')])

    def features(self, c):
        return Check.features(self, c) + (['pastified'] if c.get('past') else []) + (['sub-specification'] if c.get('sub') else []) + (['period_set_after_reset'] if c.get('reperiod') else []) + (['reset_before_pastify'] if c.get('reset_before_pastify') else [])

    def describe(self, c):
        return {'spec': self._spec(c), 'history': c['h'], 'continuation': c['n'] - c['h'], 'data': c['cols'], 'time': c['times'], 'omitted': c.get('omit')}

    def normalize(self, c):
        c = dict(c)
        n = len(c['cols'][0])
        if c['n'] != n or len(c['times']) != n or c['h'] >= max(n, 1):
            c['n'] = n
            c['h'] = min(c['h'], max(n - 1, 0))
            c['omit'] = [[a, b] for a, b in c.get('omit', []) if a < n]
            c['resets'] = [x for x in c.get('resets', []) if x <= c['h']]
            if len(c['times']) != n:
                c['times'] = list(range(n))
        return c


def main(tier, seed, replay=None):
    from harness import densex
    return densex.extend(C10, densex.D10())().main(tier, seed, replay)
