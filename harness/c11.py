# c11.py — C11: evaluation is pure — caller data untouched, repeatable,
# isolated between specification objects, independent of the hash seed.
import os
import json
import subprocess
import tempfile
from harness import fml
from harness.common import parse_fields, PY, VERIF, REPO
from harness.runner import Check, need_vars, expect_vals
from harness.c17 import dense_samples

KINDS = ['discrete-offline', 'discrete-online', 'dense-offline', 'dense-online']


def calls_for(kind, f, cols, times, n, rng=None):
    used = fml.fvars(f)
    if kind == 'discrete-offline':
        data = {'time': list(times)}
        for i in used:
            data[fml.VARS[i]] = list(cols[i])
        return [['evaluate', data], ['evaluate', data]]          # twice: repeatability
    if kind == 'discrete-online':
        return [['update', times[k], [[fml.VARS[i], cols[i][k]] for i in used]] for k in range(n)]
    if kind == 'dense-offline':
        d = [[fml.VARS[i], dense_samples(cols[i], times)] for i in used]
        return [['evaluate', d], ['evaluate', d]]
    d = [[fml.VARS[i], dense_samples(cols[i], times)] for i in used]
    if rng is None or n < 2 or rng.random() < 0.4:
        return [['update', d]]
    # several batches; half of the time the next batch starts with the last sample of the previous one (same time stamp, same value)
    k = rng.randint(1, n - 1)
    overlap = rng.random() < 0.5
    first = [[name, smp[:k]] for name, smp in d]
    second = [[name, smp[(k - 1 if overlap else k):]] for name, smp in d]
    return [['update', first], ['update', second]]


class C11(Check):
    PID = 'C11'
    SHRINK = False
    RULE = ('seeded random supported specifications for each of the four monitor kinds (bounded future operators whose window exceeds the trace, variables used '
            'several times); (a) the arguments of every evaluate()/update() are deep-compared before/after; (b) offline objects evaluate the same data twice; '
            '(c) two or three objects (discrete ones with unary bounded operators often get a twin that has the same text under another default time unit, or under another sampling period); objects that declare the same constant name with different values (or use it as a signal name) next to each other, each compared with an alpha-renamed copy run alone; dense online objects get their signal in one or two update() batches, the second one often starting with the last sample of the first; are driven with interleaved calls and compared with each object driven alone; (d) every case is re-run in separate '
            'interpreters under PYTHONHASHSEED 0..3 and the results compared byte for byte; non-trivial = formula with a temporal operator; distinct by (programs, schedule)')

    def gen_cases(self, rng, tier):
        cases = []
        nrand = 160 if tier == 'quick' else 2500
        P = ('pred', 'geq', ('var', 0), ('const', 1))
        aliasing = [('and', ('alwt', 0, 9, ('var', 0)), ('pred', 'geq', ('a2', 'add', ('var', 0), ('var', 1)), ('const', 0))),
                    ('or', ('evt', 1, 9, ('var', 0)), ('evt', 0, 7, ('var', 0))), ('alwt', 0, 5, ('var', 0)), ('next', ('var', 0)), ('rise', ('var', 0)),
                    ('untilt', 0, 9, ('var', 0), ('var', 1)), ('oncet', 0, 9, ('var', 0))]
        # twins, deterministically: the same text under another default unit / another sampling period, first object evaluated first
        for kind in ('discrete-offline', 'discrete-online'):
            for f in (('oncet', 1, 2, P), ('histt', 0, 2, P), ('evt', 1, 3, P) if kind.endswith('offline') else ('oncet', 2, 3, P)):
                n = 6
                cols = fml.gen_trace(rng, 1, n)
                base_o = {'monitor': kind, 'vars': fml.VARS[:1], '_f': fml.to_sx(f)}
                ms = 'out = ' + fml.to_text(f, lambda b, e: '[%d:%d]' % (b * 1000, e * 1000))
                o1 = dict(base_o, spec=ms, unit='ms', period=[1, 's', 0.1], calls=calls_for(kind, f, cols, list(range(n)), n))
                o2 = dict(o1, unit='s', calls=calls_for(kind, f, fml.gen_trace(rng, 1, n), list(range(n)), n))
                ps = 'out = ' + fml.to_text(f, lambda b, e: '[%d:%d]' % (b * 2, e * 2))
                o3 = dict(base_o, spec=ps, unit='s', period=[2, 's', 0.1], calls=calls_for(kind, f, cols, [2 * k for k in range(n)], n))
                o4 = dict(o3, period=[1, 's', 0.1], calls=calls_for(kind, f, fml.gen_trace(rng, 1, n), list(range(n)), n))
                for pair in ([o1, o2], [o2, o1], [o3, o4], [o4, o3]):
                    order = [[0, ci] for ci in range(len(pair[0]['calls']))] + [[1, ci] for ci in range(len(pair[1]['calls']))]
                    cases.append({'objects': pair, 'schedule': order})
        # objects that declare the same constant name with different values, and one that uses that name for a signal; the reference
        # run of each object alone renames the identifier to a fresh one (a specification does not depend on the names it uses)
        for kind in ('discrete-offline', 'discrete-online', 'dense-offline', 'dense-online'):
            fk = lambda k: ('once', ('pred', 'geq', ('a2', 'sub', ('var', 0), ('const', k)), ('const', 0)))
            n = 5
            mk = lambda k: {'monitor': kind, 'vars': fml.VARS[:1], 'consts': [['kc', 'float', str(k)]], 'spec': 'out = once((xa - kc) >= 0)',
                            'calls': calls_for(kind, fk(k), fml.gen_trace(rng, 1, n), list(range(n)), n), '_f': fml.to_sx(fk(k)), 'rename': ['kc']}
            fs = ('once', ('pred', 'geq', ('a2', 'sub', ('var', 0), ('var', 1)), ('const', 0)))
            oc = {'monitor': kind, 'vars': ['xa', 'kc'], 'spec': 'out = once((xa - kc) >= 0)', '_f': fml.to_sx(fs), 'rename': ['kc']}
            calls = calls_for(kind, fs, fml.gen_trace(rng, 2, n), list(range(n)), n)
            oc['calls'] = json.loads(json.dumps(calls).replace('"xb"', '"kc"'))
            for trio in ([mk(3), mk(10), oc], [oc, mk(7)], [mk(2), oc, mk(5)]):
                order = []
                for oi, o in enumerate(trio):
                    order += [[oi, ci] for ci in range(len(o['calls']))]
                cases.append({'objects': trio, 'schedule': order})
        for i in range(nrand):
            objs = []
            for j in range(rng.choice([1, 2, 2, 3])):
                kind = rng.choice(KINDS)
                nv = rng.choice([1, 2, 2])
                if kind.startswith('dense'):
                    g = fml.Gen(rng, nvars=nv, maxb=2, risefall=False, prevnext=False, future=(kind == 'dense-offline'), fancy_arith=False)
                else:
                    g = fml.Gen(rng, nvars=nv, maxb=3, future=(kind == 'discrete-offline'), fancy_arith=False)
                f = g.formula(rng.choice([1, 2, 2, 3]))
                if kind == 'discrete-offline' and rng.random() < 0.4:
                    f = rng.choice(aliasing)
                if fml.size(f) > 25 or not fml.fvars(f):
                    f = P
                nv = need_vars(f, nv)
                n = rng.choice([1, 2, 3, 5])
                cols = fml.gen_trace(rng, nv, n)
                objs.append({'monitor': kind, 'vars': fml.VARS[:nv], 'spec': 'out = ' + fml.to_text(f), 'calls': calls_for(kind, f, cols, list(range(n)), n, rng),
                             '_f': fml.to_sx(f)})
                if kind.startswith('discrete') and (fml.ops(f) & fml.TUN) and not (fml.ops(f) & fml.TBIN) and rng.random() < 0.5:
                    # a twin object: the same text (unit-less bounds) under another default unit, i.e. other bounds in samples
                    txt = 'out = ' + fml.to_text(f, lambda b, e: '[%d:%d]' % (b * 1000, e * 1000))
                    objs[-1].update({'spec': txt, 'unit': 'ms', 'period': [1, 's', 0.1]})
                    objs.append(dict(objs[-1], unit='s', calls=calls_for(kind, f, fml.gen_trace(rng, nv, n), list(range(n)), n)))
                elif kind.startswith('discrete') and (fml.ops(f) & fml.TUN) and not (fml.ops(f) & fml.TBIN) and rng.random() < 0.5:
                    # a twin object: the same text and unit under another sampling period (1 s / 2 s), i.e. other bounds in samples
                    txt = 'out = ' + fml.to_text(f, lambda b, e: '[%d:%d]' % (b * 2, e * 2))
                    objs[-1].update({'spec': txt, 'unit': 's', 'period': [2, 's', 0.1], 'calls': calls_for(kind, f, cols, [2 * k for k in range(n)], n)})
                    objs.append(dict(objs[-1], period=[1, 's', 0.1], calls=calls_for(kind, f, fml.gen_trace(rng, nv, n), list(range(n)), n)))
            sched = [(oi, ci) for oi, o in enumerate(objs) for ci in range(len(o['calls']))]
            # random interleaving that keeps each object's own call order
            order, ptr = [], [0] * len(objs)
            while any(ptr[i] < len(objs[i]['calls']) for i in range(len(objs))):
                oi = rng.choice([i for i in range(len(objs)) if ptr[i] < len(objs[i]['calls'])])
                order.append([oi, ptr[oi]])
                ptr[oi] += 1
            cases.append({'objects': objs, 'schedule': order})
        # object-typed variables: the formula reads one field of the object it writes its result to; the caller's objects must stay as they were
        for kind in ('discrete-online', 'dense-online', 'discrete-offline', 'dense-offline'):
            for body in ('once(xa.value >= 1)', 'xa.value >= 1', 'historically[0,1](xa.value >= 1)'):
                n = 3
                cols = fml.gen_trace(rng, 1, n)
                o = {'monitor': kind, 'vars': ['xa'], 'objvars': ['xa'], 'spec': 'xa.other = ' + body, '_f': 'objects', 'calls': calls_for(kind, ('var', 0), cols, list(range(n)), n)}
                cases.append({'objects': [o], 'schedule': [[0, ci] for ci in range(len(o['calls']))]})
        # an offline object that has evaluated a complete data set is handed one that lacks a column / a signal: the outcome must be
        # that of a fresh object (an exception), not values computed with the data of the earlier call
        X, Y = ('pred', 'geq', ('var', 0), ('const', 1)), ('pred', 'leq', ('var', 1), ('const', 2))
        for k in range(6 if tier == 'quick' else 40):
            f = [('and', X, Y), ('alw', ('or', X, Y)), ('since', X, Y)][k % 3]
            n = rng.choice([3, 5])
            c1, c2 = fml.gen_trace(rng, 2, n), fml.gen_trace(rng, 2, n)
            for kind in ('discrete-offline', 'dense-offline'):
                if kind == 'dense-offline' and f[0] == 'alw':
                    continue
                full = calls_for(kind, f, c1, list(range(n)), n)[0]
                part = calls_for(kind, f, c2, list(range(n)), n)[0]
                if kind == 'discrete-offline':
                    part = ['evaluate', {k_: v_ for k_, v_ in part[1].items() if k_ != 'xb'}]
                else:
                    part = ['evaluate', [x for x in part[1] if x[0] != 'xb']]
                first = full
                if k % 2 == 1:
                    # the earlier call itself failed half-way (a division by zero in the last operand)
                    o = {'monitor': kind, 'vars': ['xa', 'xb', 'xc'], 'spec': 'out = (%s) and ((1 / xc) >= 0)' % fml.to_text(f), '_f': fml.to_sx(f)}
                    zero = [0] * n
                    if kind == 'discrete-offline':
                        first = ['evaluate', dict(full[1], xc=zero)]
                        part = ['evaluate', dict(part[1], xc=[1] * n)]
                    else:
                        first = ['evaluate', full[1] + [['xc', [[float(t), 0.0] for t in range(n)]]]]
                        part = ['evaluate', part[1] + [['xc', [[float(t), 1.0] for t in range(n)]]]]
                else:
                    o = {'monitor': kind, 'vars': ['xa', 'xb'], 'spec': 'out = ' + fml.to_text(f), '_f': fml.to_sx(f)}
                cases.append({'objects': [dict(o, calls=[first, part])], 'schedule': [[0, 0], [0, 1]], 'fresh_tail': 1})
        return cases

    def model_lines(self, c):
        return []

    def impl_cases(self, c):
        out = [{'objects': c['objects'], 'schedule': c['schedule']}]
        for oi, o in enumerate(c['objects']):
            out.append({'objects': [self.renamed(o, oi)], 'schedule': [[0, ci] for ci in range(len(o['calls']))]})
        if c.get('fresh_tail'):
            o = c['objects'][0]
            out.append({'objects': [dict(o, calls=o['calls'][-1:])], 'schedule': [[0, 0]]})
        return out

    @staticmethod
    def renamed(o, oi):
        """the object with the identifiers listed under 'rename' replaced by fresh ones (in the text, the declarations and the data)"""
        if not o.get('rename'):
            return o
        import re, hashlib
        txt = json.dumps(o, sort_keys=True)
        tag = hashlib.sha1(txt.encode()).hexdigest()[:6]
        for nm in o['rename']:
            txt = re.sub(r'\b%s\b' % re.escape(nm), '%s_%d_%s' % (nm, oi, tag), txt)
        return json.loads(txt)

    def judge(self, c, mlines, ires):
        inter = ires[0]
        if any(isinstance(r.get('setup'), dict) and r['setup'].get('kind') == 'Timeout' for r in ires):
            return 'dropped', None
        det = {'programs': [(o['monitor'], o['spec']) for o in c['objects']], 'schedule': c['schedule']}
        for k, r in enumerate(inter['calls']):
            if r.get('status') == 'ok' and r.get('args_unchanged') is False:
                return 'violation', dict(det, expected='arguments of evaluate()/update() unchanged', observed={'call': c['schedule'][k], 'args_unchanged': False})
        if c.get('fresh_tail'):
            strip = lambda r: {x: r.get(x) for x in ('status', 'value', 'kind')}
            used, fresh = strip(inter['calls'][-1]), strip(ires[-1]['calls'][0])
            if used != fresh:
                return 'violation', dict(det, expected={'a fresh object on the last data set': fresh}, observed={'the object that evaluated another data set before': used},
                                         calls=c['objects'][0]['calls'])
            return 'ok', None
        # interleaved vs alone
        for oi, o in enumerate(c['objects']):
            alone = ires[1 + oi]['calls']
            mine = [inter['calls'][k] for k, (a, b) in enumerate(c['schedule']) if a == oi]
            strip = lambda r: {x: r.get(x) for x in ('status', 'value', 'kind')}
            if [strip(r) for r in mine] != [strip(r) for r in alone]:
                return 'violation', dict(det, expected={'object %d driven alone' % oi: [strip(r) for r in alone]}, observed={'interleaved': [strip(r) for r in mine]})
            if o['monitor'].endswith('offline') and len(alone) == 2:
                if strip(alone[0]) != strip(alone[1]):
                    return 'violation', dict(det, expected='second evaluate() of the same data returns the same result', observed=[strip(alone[0]), strip(alone[1])])
        return 'ok', None

    def nontrivial(self, c):
        return len(c['objects']) >= 1 and any(('always' in o['spec'] or 'once' in o['spec'] or 'since' in o['spec'] or 'eventually' in o['spec'] or 'until' in o['spec'] or 'prev' in o['spec']) for o in c['objects'])

    def features(self, c):
        return sorted({o['monitor'] for o in c['objects']}) + ['objects_%d' % len(c['objects'])]

    def key(self, c):
        return json.dumps([[o['monitor'], o['spec'], o['calls']] for o in c['objects']] + [c['schedule']])

    def describe(self, c):
        return {'programs': [(o['monitor'], o['spec']) for o in c['objects']], 'schedule': c['schedule']}

    # ---- hash seeds: separate interpreters ----
    def evaluate(self, model, cs, interactive=False):
        verdicts = Check.evaluate(self, model, cs, interactive)
        if interactive or not cs:
            return verdicts
        sample = cs[:120]
        payload = [{'objects': c['objects'], 'schedule': c['schedule']} for c in sample]
        with tempfile.NamedTemporaryFile('w', suffix='.json', delete=False, dir=os.path.join(VERIF, 'build')) as fh:
            json.dump(payload, fh)
            path = fh.name
        outs = []
        procs = []
        for seed in (0, 1, 2, 3):
            env = dict(os.environ, PYTHONHASHSEED=str(seed), PYTHONPATH=REPO + ':' + VERIF)
            procs.append(subprocess.Popen([PY, '-m', 'harness.impl', '--batch', path], cwd=VERIF, env=env, stdout=subprocess.PIPE, stderr=subprocess.DEVNULL))
        for p in procs:
            o, _ = p.communicate(timeout=1200)
            try:
                outs.append(json.loads(o.decode()))
            except Exception:
                outs.append(None)
        os.unlink(path)
        self.hash_seed_runs = sum(1 for o in outs if o is not None) * len(sample)
        for idx in range(len(sample)):
            got = [json.dumps(o[idx], sort_keys=True) if o is not None else None for o in outs]
            if any(g is None for g in got) or len(set(got)) != 1:
                if verdicts[idx][0] == 'ok':
                    verdicts[idx] = ('violation', {'expected': 'identical results under PYTHONHASHSEED 0..3',
                                                   'observed': [json.loads(g) if g else None for g in got],
                                                   'programs': [(o['monitor'], o['spec']) for o in sample[idx]['objects']]})
        return verdicts

    def extra_evidence(self):
        return {'hash_seed_case_runs': getattr(self, 'hash_seed_runs', 0)}


def main(tier, seed, replay=None):
    return C11().main(tier, seed, replay)
