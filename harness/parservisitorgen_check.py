# harness/parservisitorgen_check.py [--n N] [--seed S] [--judge COQ_OUTPUT] OUT.v
# Differential check of the GENERATED parser visitors (coq/theories/ElabGen.v, written by tools/py2coq_parservisitor.py) against
# the Python classes they were translated from.  One seeded PRNG makes specification texts (the streams of harness/c14.py inside the
# fragment of the model: valid texts in every spelling, intervals with units / constants / begin > end / undeclared or negative bound
# constants, sub-specifications, undeclared identifiers, `unless`, token soup, bounds replaced by identifiers), each with a default unit;
# rtamt parses them (StlDiscreteTimeSpecification, and LtlAst for the texts without '['), every root of ast.specs is dumped (impl.ast_dump).
# The model side: OUT.v runs Parser.parse_text and then gen_visit_stl / gen_visit_ltl assertion by assertion and PRINTS the dumps
# (Eval vm_compute); `--judge` reads that output and compares node by node (numbers as exact rationals, units as written).
# run:  PYTHONDONTWRITEBYTECODE=1 PYTHONPATH=/repo /venv/bin/python harness/parservisitorgen_check.py build/ElabGenCases.v
#       (cd coq && coqc -Q theories RV ../build/ElabGenCases.v > ../build/ElabGenCases.out)
#       PYTHONDONTWRITEBYTECODE=1 PYTHONPATH=/repo /venv/bin/python harness/parservisitorgen_check.py --judge build/ElabGenCases.out build/ElabGenCases.v
import sys, os, random, logging, json, re
from fractions import Fraction
from decimal import Decimal

sys.path.insert(0, os.path.dirname(os.path.dirname(os.path.abspath(__file__))))
sys.setrecursionlimit(20000)
logging.disable(logging.CRITICAL)


def opt(k, d):
    return sys.argv[sys.argv.index(k) + 1] if k in sys.argv else d


N, SEED = int(opt('--n', '3000')), int(opt('--seed', '20260926'))
JUDGE = opt('--judge', None)
OUT = [a for a in sys.argv[1:] if a.endswith('.v')][0]
UNITS = {'s': 'KS', 'ms': 'KMs', 'us': 'KUs', 'ns': 'KNs'}


def texts():
    from harness.c14 import C14
    rng = random.Random(SEED)
    chk = C14.__new__(C14)
    cases, seen, out = [], set(), []
    while len(cases) < N * 3:
        more = C14.gen_cases(chk, rng, 'thorough')
        cases += [c for c in more if c['stream'] in ('fixed', 'valid', 'soup', 'bound-ident', 'pollution')]
    # named sub-specifications: an earlier assertion used as an operand (and as a bound) of a later one
    val = [c['text'] for c in cases if c['stream'] == 'valid' and c['text'].startswith('out = ') and c['text'].rstrip().endswith(';')]
    for i in range(0, min(len(val) - 1, N), 2):
        cases.insert(rng.randrange(len(cases)), {'stream': 'valid', 'text': 'sa' + val[i][3:] + '\n' + re.sub(r'\bxb\b', 'sa', val[i + 1])})
    for c in cases:
        t = c['text']
        if t in seen or len(t) > 400 or not all(32 <= ord(ch) < 127 or ch == '\n' for ch in t) or '"' in t:
            continue
        if C14.out_of_fragment(chk, c) or 'const ' in t or 'import' in t or '@' in t:
            continue
        seen.add(t)
        out.append({'text': t, 'unit': rng.choice(['s', 's', 'ms', 'us', 'ns']), 'ltl': '[' not in t and rng.random() < 0.5})
        if len(out) >= N:
            break
    return out


def run_rtamt(c):
    import rtamt
    from rtamt.exception.exception import RTAMTException
    from harness.impl import ast_dump
    if c['ltl']:
        from rtamt.syntax.ast.parser.ltl.specification_parser import LtlAst
        from rtamt.spec.abstract_specification import AbstractOfflineOnlineSpecification
        from rtamt.semantics.stl.discrete_time.offline.interpreter import StlDiscreteTimeOfflineInterpreter
        from rtamt.semantics.stl.discrete_time.online.interpreter import StlDiscreteTimeOnlineInterpreter
        spec = AbstractOfflineOnlineSpecification(LtlAst(), StlDiscreteTimeOfflineInterpreter(), StlDiscreteTimeOnlineInterpreter())
    else:
        spec = rtamt.StlDiscreteTimeSpecification()
        spec.unit = c['unit']
    for v in ('xa', 'xb', 'xc'):
        spec.declare_var(v, 'float')
    spec.declare_const('k1', 'float', '2')
    spec.declare_const('kn', 'float', '-1')
    spec.spec = c['text']
    try:
        spec.parse()
    except RTAMTException as e:
        return ['RTAMT', str(e)[:120]]
    except Exception as e:
        return ['CRASH', repr(e)[:120]]
    return ['OK'] + [ast_dump(n) for n in spec.ast.specs]


def sexp(s):
    toks = s.replace('(', ' ( ').replace(')', ' ) ').split()
    pos = [0]

    def item():
        t = toks[pos[0]]
        pos[0] += 1
        if t == '(':
            out = []
            while toks[pos[0]] != ')':
                out.append(item())
            pos[0] += 1
            return out
        return t
    return item()


def num(t):
    try:
        return Fraction(t)
    except Exception:
        return Fraction(Decimal(t))


def canon(x):
    if not isinstance(x, list):
        return x
    if x[0] == 'const':
        return ['const', Fraction(float(num(x[1])))]         # constants are Python floats in rtamt
    if x[0].endswith('_t'):
        return [x[0], num(x[1]), x[2], num(x[3]), x[4]] + [canon(y) for y in x[5:]]
    return [x[0]] + [canon(y) for y in x[1:]]


def main():
    cs = texts()
    if JUDGE is None:
        with open(OUT, 'w') as f:
            f.write('(* generated by harness/parservisitorgen_check.py --n %d --seed %d *)\n' % (N, SEED))
            f.write('From Coq Require Import List String.\nFrom RV Require Import Lexer Parser Elab Offline ParserDecl PyParse ElabGen.\nImport ListNotations.\nLocal Open Scope string_scope.\n')
            f.write('''Definition st0 : dstate :=
  {| d_name := None; d_mods := []; d_vars := ["xa"; "xb"; "xc"; "k1"; "kn"]; d_types := [("xa", "float"); ("xb", "float"); ("xc", "float")];
     d_io := [("xa", "output"); ("xb", "output"); ("xc", "output")]; d_consts := [("k1", "2"); ("kn", "-1")]; d_topics := [];
     d_free := ["xa"; "xb"; "xc"]; d_subs := []; d_reads := []; d_out := None; d_asts := [] |}.
Fixpoint forest (gv : dstate -> sexpr -> outcome (dstate * string)) (st : dstate) (P : list (option string * sexpr)) : string :=
  match P with
  | [] => ""
  | (nm, e) :: P' =>
      match gv st e with
      | Ok (st1, d) =>
          let name := match nm with Some s => s | None => "out" end in
          " ; " ++ d ++ forest gv {| d_name := d_name st1; d_mods := d_mods st1; d_vars := d_vars st1; d_types := d_types st1; d_io := d_io st1;
                          d_consts := d_consts st1; d_topics := d_topics st1; d_free := d_free st1; d_subs := (name, d) :: d_subs st1;
                          d_reads := d_reads st1; d_out := d_out st1; d_asts := d_asts st1 |} P'
      | Rtamt => " ; RTAMT"
      | Crash => " ; CRASH"
      end
  end.
Definition run (stl : bool) (du : kw) (text : string) : string :=
  match parse_text stl text with
  | None => "NOPARSE"
  | Some P => "OK" ++ forest (if stl then gen_visit_stl [] du else gen_visit_ltl []) st0 P
  end.
''')
            for i in range(0, len(cs), 200):
                f.write('Eval vm_compute in [\n')
                f.write(';\n'.join('  run %s %s "%s"' % ('false' if c['ltl'] else 'true', UNITS[c['unit']], c['text']) for c in cs[i:i + 200]))
                f.write('].\n')
        json.dump(cs, open(OUT + '.json', 'w'))
        print('%d cases written to %s' % (len(cs), OUT))
        return
    cs = json.load(open(OUT + '.json'))
    got = re.findall(r'"((?:[^"]|"")*)"', open(JUDGE).read())
    if len(got) != len(cs):
        print('FAIL: %d model answers for %d cases' % (len(got), len(cs)))
        sys.exit(1)
    stats = {'both-ok': 0, 'both-reject': 0, 'noparse/reject': 0, 'noparse/ok': 0, 'parser-only': 0, 'ltl': 0, 'timed': 0, 'unless': 0, 'subspec': 0, 'visitor-reject': 0}
    bad = []
    for c, m in zip(cs, got):
        m = ' '.join(m.split())
        r = run_rtamt(c)
        stats['ltl'] += c['ltl']
        if m == 'NOPARSE':
            # the hand model of the ANTLR parser rejects: nothing is asked of the generated visitor
            stats['noparse/reject' if r[0] == 'RTAMT' else 'noparse/ok'] += 1
            continue
        parts = m.split(' ; ')
        if r[0] == 'CRASH':
            bad.append((c, m, r))
        elif parts[-1] in ('RTAMT', 'CRASH'):
            if r[0] == 'RTAMT' and parts[-1] == 'RTAMT':
                stats['both-reject'] += 1
                stats['visitor-reject'] += 1
            else:
                bad.append((c, m, r))
        elif r[0] == 'RTAMT':
            if 'Ambiguity' in r[1] or 'nested too deeply' in r[1]:
                stats['parser-only'] += 1        # derivable, rejected by the ambiguity listener / recursion limit (not the visitor)
            else:
                bad.append((c, m, r))
        else:
            if [canon(sexp(x)) for x in parts[1:]] == [canon(sexp(x)) for x in r[1:]]:
                stats['both-ok'] += 1
                stats['timed'] += '_t ' in m
                stats['unless'] += bool(re.search(r'unless|\bW\b', c['text']))
                stats['subspec'] += len(parts) > 2
            else:
                bad.append((c, m, r))
    print(json.dumps(stats))
    for c, m, r in bad[:20]:
        print('MISMATCH', json.dumps(c), '\n   model:', m, '\n   rtamt:', r)
    print('%d cases, %d mismatches' % (len(cs), len(bad)))
    sys.exit(1 if bad else 0)


main()
