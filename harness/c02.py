# c02.py — C02: discrete-time online update() = offline robustness at every step,
# also when the same sub-formula text occurs more than once.
import json
import math
from harness import fml, names
from harness.common import parse_fields, run_impl
from harness.runner import Check, online_case, offline_case, time_column, need_vars, expect_vals


def past_cover():
    P = ('pred', 'geq', ('var', 0), ('const', 1))
    Q = ('pred', 'leq', ('var', 1), ('const', 2))
    out = []
    for n in (1, 2, 5, 9):
        for op in ('not', 'rise', 'fall', 'prev', 'sprev', 'once', 'hist'):
            out.append(((op, P), n))
            out.append((('and', (op, P), (op, P)), n))           # duplicate stateful text
            out.append((('a2', 'add', (op, ('var', 0)), (op, ('var', 0))), n))
            out.append(((op, (op, P)), n))
        for op in ('and', 'or', 'implies', 'iff', 'xor', 'since'):
            out.append(((op, P, Q), n))
            out.append((('or', (op, P, Q), ('not', (op, P, Q))), n))
        for op in ('oncet', 'histt'):
            for (b, e) in ((0, 0), (0, 2), (1, 1), (1, 3), (2, 2), (0, n), (n, n + 1), (3, 9), (0, 12)):
                out.append(((op, b, e, P), n))
                out.append((('and', (op, b, e, P), ('prev', (op, b, e, P))), n))
        for (b, e) in ((0, 0), (0, 2), (1, 1), (1, 3), (0, n), (n, n + 1), (2, 5)):
            out.append((('sincet', b, e, P, Q), n))
            out.append((('xor', ('sincet', b, e, P, Q), ('sincet', b, e, P, Q)), n))
        for c in ('leq', 'lt', 'geq', 'gt', 'eq', 'neq'):
            out.append((('pred', c, ('var', 0), ('var', 1)), n))
        for o in ('abs', 'neg'):
            out.append((('pred', 'geq', ('a1', o, ('var', 0)), ('const', 2)), n))
        for o in ('add', 'sub', 'mul'):
            out.append((('pred', 'geq', ('a2', o, ('var', 0), ('var', 1)), ('const', 2)), n))
    return out


def dup_inject(rng, f):
    """force a duplicated sub-term: replace a random sub-formula by a copy of another stateful one"""
    subs = [s for s in fml.subformulas(f) if s[0] in ('prev', 'sprev', 'once', 'hist', 'since', 'oncet', 'histt', 'sincet', 'rise', 'fall')]
    if not subs:
        return f
    s = rng.choice(subs)
    return rng.choice([('and', f, s), ('or', s, f), ('implies', s, ('not', s)), ('since', f, s)])


class C02(Check):
    PID = 'C02'
    RULE = ('feature cover (every past operator x boundary bounds x duplicated stateful text x n in {1,2,5,9}) then seeded random past formulas '
            '(30% with a forced duplicate stateful sub-term); every update() output compared with the model and with rho at that sample; '
            '15% of the cases with bounded operators written with explicit units / another default unit / period unit; plus specifications with 1-4 named sub-specifications (nested, repeated); plus the four IA-STL semantics with random input/output assignments (values on the thresholds of strict comparisons included); '
            'non-trivial = formula with >= 3 nodes containing a stateful operator; distinct by (formula, data); '
            'stream names: random specification texts (all operators, aliases, unless, odd identifiers, object fields, literals of every form, declared constants nan/inf/-0, '
            'intervals with units / fractions / constants, 0-2 named sub-specifications; STL discrete, dense and the LTL front end), parsed and (60%) pastified: every node of every '
            'assertion dumped by the impl call [names]; node.name = nname of the dump (NodeName.v), nwf holds, no two different dumps of one specification share a name; '
            'stream named-monitor: random past-time forests (sub-specifications, duplicated stateful sub-terms, one bound in several unit spellings) with integer data: '
            'every update() = nmon_run of the monitor keyed by node names (OnlineNamed.v) on the dumped forest')

    def gen_cases(self, rng, tier):
        items = [(f, n, 2) for (f, n) in past_cover()]
        nrand = 500 if tier == 'quick' else 8000
        for i in range(nrand):
            nv = rng.choice([1, 2, 2, 3])
            d = rng.choice([1, 2, 2, 3, 3, 4] if tier == 'quick' else [1, 2, 3, 3, 4, 4, 5, 6])
            g = fml.Gen(rng, nvars=nv, future=False, maxb=rng.choice([2, 3, 5, 12]), fancy_arith=(rng.random() < 0.2))
            f = g.formula(d)
            if rng.random() < 0.3:
                f = dup_inject(rng, f)
            if fml.size(f) > 60:
                continue
            n = rng.choice([1, 2, 3, 4, 5, 6, 8, 10, 15, 25, 40, 60])
            items.append((f, n, nv))
        cases = []
        for (f, n, nv) in items:
            nv = need_vars(f, nv)
            c = {'f': f, 'n': n, 'nv': nv, 'cols': fml.gen_trace(rng, nv, n), 'times': list(range(n))}
            if rng.random() < 0.15:
                from harness.c08 import spelling
                sp = spelling(rng, f)
                if sp:
                    c['spell'] = sp
            cases.append(c)
        for (f, cols) in fml.arith_boundary_cases():
            cases.append({'f': f, 'n': len(cols[0]), 'nv': 2, 'cols': cols, 'times': list(range(len(cols[0])))})
        # signals whose names read like values (inf, nan) next to infinite literals: node names must not be confused
        INF = ('const', math.inf)
        X0 = ('var', 0)
        for f in [('and', ('pred', 'geq', X0, ('const', 0)), ('not', ('pred', 'geq', INF, ('const', 0)))), ('or', ('pred', 'geq', X0, ('const', 3)), ('pred', 'geq', INF, ('const', 3))),
                  ('once', ('and', ('pred', 'leq', X0, ('const', 3)), ('pred', 'leq', INF, ('const', 3)))), ('since', ('pred', 'geq', X0, INF), ('pred', 'geq', ('var', 1), X0))]:
            for nm in ('inf', 'nan'):
                n = rng.choice([3, 5])
                cases.append({'f': f, 'n': n, 'nv': 2, 'cols': fml.gen_trace(rng, 2, n), 'times': list(range(n)), 'rename': {'xa': nm}})
        # the IA-STL online classes (predicates over 'insensitive' variables report +-inf / 0): same statement, semantics of IA.v
        Pg = lambda c, k: ('pred', c, ('var', 0), ('const', k))
        ia_base = [Pg('gt', 1), Pg('lt', 1), Pg('geq', 1), Pg('leq', 1), Pg('eq', 1), Pg('neq', 1), ('implies', Pg('gt', 1), ('pred', 'geq', ('var', 1), ('const', 0))),
                   ('hist', ('or', ('not', Pg('lt', 1)), ('pred', 'geq', ('var', 1), ('const', 1)))), ('and', Pg('geq', 1), ('once', ('pred', 'gt', ('var', 1), ('const', 2)))),
                   ('histt', 0, 2, ('or', ('oncet', 0, 1, Pg('lt', 1)), ('pred', 'geq', ('var', 1), ('const', 1))))]
        ia_items = [(f, 2) for f in ia_base for _ in range(3)]
        for i in range(nrand // 4):
            nv = rng.choice([1, 2, 2, 3])
            g = fml.Gen(rng, nvars=nv, future=False, maxb=rng.choice([2, 3]), fancy_arith=False, raw_leaf=0.0)
            f = g.formula(rng.choice([1, 2, 2, 3]))
            if fml.size(f) > 40:
                continue
            ia_items.append((f, nv))
        for (f, nv) in ia_items:
            nv = need_vars(f, nv)
            n = rng.choice([2, 4, 7, 10])
            cases.append({'f': f, 'n': n, 'nv': nv, 'cols': fml.gen_trace(rng, nv, n), 'times': list(range(n)),
                          'sem': rng.choice(['output-robustness', 'input-robustness', 'output-vacuity', 'input-vacuity']),
                          'io': [rng.randrange(2) for _ in range(nv)], 'ctor': rng.choice(['combined', 'split'])})
        # every comparison with a sample exactly on the threshold, the compared variable insensitive under every semantics (deterministic)
        for cmp_ in ('gt', 'lt', 'geq', 'leq', 'eq', 'neq'):
            for sem in ('output-robustness', 'input-robustness', 'output-vacuity', 'input-vacuity'):
                for io in ([0, 0], [1, 1], [0, 1], [1, 0]):
                    f = ('and', ('pred', cmp_, ('var', 0), ('const', 1)), ('once', ('pred', cmp_, ('var', 1), ('const', 2))))
                    cases.append({'f': f, 'n': 4, 'nv': 2, 'cols': [[1, 0, 1, 2], [3, 2, 2, 1]], 'times': [0, 1, 2, 3], 'sem': sem, 'io': io, 'ctor': 'combined' if io[0] else 'split'})
        # specifications with named sub-specifications (a sub-formula is then reachable from several roots)
        from harness.modular import gen_modular
        for c in gen_modular(rng, tier, 120, 1500, gen_kwargs={'future': False}, base=False):
            c['fkey'] = fml.to_sx(c['f'])
            cases.append(c)
        # node names: the printer model, and the monitor keyed by names (generated last: the streams above keep their cases)
        nn = 150 if tier == 'quick' else 3000
        cases.extend(names.gen_names_case(rng) for _ in range(nn))
        cases.extend(names.gen_named_case(rng) for _ in range(nn))
        return cases

    def load_case(self, c):
        from harness import shrink
        c = Check.load_case(self, c)
        if 'subs' in c:
            c['main'] = shrink.detuple(c['main'])
            c['subs'] = [[nm, shrink.detuple(b), shrink.detuple(s)] for nm, b, s in c['subs']]
        return c

    def normalize(self, c):
        # a shrunk formula no longer matches its decomposition into sub-specifications: continue with the plain formula
        if 'subs' in c and fml.to_sx(c['f']) != c.get('fkey'):
            c = {k: v for k, v in c.items() if k not in ('subs', 'main', 'consts', 'style', 'fkey')}
        if 'spell' in c and fml.to_sx(c['f']) != c.get('spell', {}).get('fkey', fml.to_sx(c['f'])):
            c = {k: v for k, v in c.items() if k != 'spell'}
        return c

    def model_lines(self, c):
        if 'stream' in c:
            return []          # built from the dumps rtamt returns: evaluate() below
        pk = 'std'
        if c.get('sem'):
            pk = '(iaspec %s (%s))' % (c['sem'], ' '.join(str(b) for b in c['io']))
        return ['(on %s (%s) %d %s)' % (pk, fml.to_sx(c['f']), c['n'], fml.trace_sx(c['cols']))]

    def impl_cases(self, c):
        if c.get('stream') == 'names':
            return [names.names_impl_case(c)]
        if c.get('stream') == 'named':
            return [names.named_impl_case(c)]
        kw = dict(c.get('spell', {}))
        if c.get('sem'):
            kw.update({'io': {fml.VARS[i]: ('input' if c['io'][i] else 'output') for i in range(c['nv'])}, 'semantics': c['sem'], 'ctor': c.get('ctor', 'combined')})
        if 'subs' in c:
            from harness.modular import modular_spec
            kw.update(modular_spec(c))
        out = [online_case(c['f'], c['cols'], c['times'], c['nv'], **kw),
               offline_case(c['f'], c['cols'], c['times'], c['nv'], **kw)]
        if c.get('rename'):
            import re
            txt = json.dumps(out)
            for a, b in c['rename'].items():
                txt = re.sub(r'\b%s\b' % re.escape(a), b, txt)
            out = json.loads(txt)
        return out

    def nontrivial(self, c):
        if 'stream' in c:
            return True
        return fml.size(c['f']) >= 3 and bool(fml.ops(c['f']) & {'prev', 'sprev', 'once', 'hist', 'since', 'oncet', 'histt', 'sincet', 'rise', 'fall'})

    def judge(self, c, mlines, ires):
        m = parse_fields(mlines[0])
        if 'ERROR' in m:
            return 'model-error', m['ERROR']
        if m['EXACT'] != ['1']:
            return 'dropped', None
        rho = expect_vals([fml.parse_val(x) for x in m['RHO']])
        on = expect_vals([fml.parse_val(x) for x in m['ON']])
        det = {'expected': {'source': 'rho(phi,w,i) at the i-th update (Rho.v) = offline evaluate() at sample i', 'values': rho}, 'model': on}
        i = ires[0]
        if i['setup']['status'] != 'ok':
            return 'violation', dict(det, observed=i['setup'])
        obs = []
        for r in i['calls']:
            if r['status'] != 'ok':
                return 'violation', dict(det, observed=r)
            obs.append(r['value'])
        obs = json.loads(json.dumps(obs))
        if obs != json.loads(json.dumps(rho)):
            return 'violation', dict(det, observed=obs)
        off = ires[1]
        if off['setup']['status'] == 'ok' and off['calls'][0]['status'] == 'ok':
            offv = [p[1] for p in off['calls'][0]['value']]
            if offv != obs:
                return 'violation', dict(det, observed=obs, offline=offv)
        if on != rho:
            return 'model-vs-spec', {'rho': rho, 'on': on}
        return 'ok', None

    def describe(self, c):
        if 'stream' in c:
            return {k: c[k] for k in ('stream', 'monitor', 'unit', 'period', 'spec', 'n', 'cols') if k in c}
        d = {'spec': 'out = ' + fml.to_text(c['f']), 'n': c['n'], 'data': c['cols']}
        if c.get('sem'):
            d.update({'semantics': c['sem'], 'inputs': [fml.VARS[i] for i in range(c['nv']) if c['io'][i]]})
        return d

    def features(self, c):
        if 'stream' in c:
            return ['stream:' + c['stream']]
        return Check.features(self, c) + ([c['sem']] if c.get('sem') else [])

    # the two streams about node names are two-phase: the model commands are built from what rtamt returns
    def evaluate(self, model, cs, interactive=False):
        cs = [self.normalize(c) for c in cs]
        verdicts = [None] * len(cs)
        plain = [k for k, c in enumerate(cs) if 'stream' not in c]
        for k, v in zip(plain, Check.evaluate(self, model, [cs[k] for k in plain], interactive) if plain else []):
            verdicts[k] = v
        late = [k for k, c in enumerate(cs) if 'stream' in c]
        if not late:
            return verdicts
        ires = run_impl([self.impl_cases(cs[k])[0] for k in late])
        lines, plans = [], []
        for k, i in zip(late, ires):
            c = cs[k]
            plan = {'verdict': None, 'spans': []}
            plans.append(plan)
            if i['setup']['status'] != 'ok':
                # a random text the parser rejects is no case; anything else than RTAMTException is reported
                plan['verdict'] = ('dropped', None) if i['setup']['status'] == 'rtamt' else ('violation', {'expected': 'parse() returns or raises RTAMTException', 'observed': i['setup']})
                continue
            try:
                if c['stream'] == 'names':
                    calls = i['calls']
                    forests = [calls[0]] + ([calls[2]] if len(calls) == 3 and calls[1]['status'] == 'ok' else [])
                    for f in forests:
                        if f['status'] != 'ok':
                            plan['verdict'] = ('violation', {'expected': 'the nodes of the specification', 'observed': f})
                            break
                        ls = ['(nname %s)' % names.dump_sx(d, []) for d in f['value']]
                        plan['spans'].append((len(lines), len(ls), f['value']))
                        lines.extend(ls)
                else:
                    f = i['calls'][0]
                    if f['status'] != 'ok':
                        plan['verdict'] = ('violation', {'expected': 'the nodes of the specification', 'observed': f})
                    else:
                        plan['spans'].append((len(lines), 1, f['value']))
                        lines.append(names.nmon_line(c, f['value']))
            except Exception as exc:
                plan['verdict'] = ('violation', {'expected': 'a node tree of the form NodeName.node (non-negative bounds, known classes)', 'observed': repr(exc)})
        mres = ([model.one(l) for l in lines] if interactive else model.batch(lines))
        for k, i, plan in zip(late, ires, plans):
            c = cs[k]
            if plan['verdict'] is not None:
                verdicts[k] = plan['verdict']
                continue
            if c['stream'] == 'names':
                v = ('ok', None)
                for (a, m, forest) in plan['spans']:
                    v = names.judge_names_call(forest, mres[a:a + m])
                    if v[0] != 'ok':
                        break
                    self.names_nodes = getattr(self, 'names_nodes', 0) + v[1]
                if v[0] == 'ok':
                    self.stream_names = getattr(self, 'stream_names', 0) + 1
                    self.names_pastified = getattr(self, 'names_pastified', 0) + (len(plan['spans']) == 2)
                    v = ('ok', None)
                verdicts[k] = v
            else:
                (a, m, forest) = plan['spans'][0]
                line = mres[a]
                obs = []
                bad = None
                for r in i['calls'][1:]:
                    if r['status'] != 'ok':
                        bad = r
                        break
                    obs.append(str(r['value']))
                det = {'expected': {'source': 'nmon_run on the dumped forest (OnlineNamed.v; = rho by C02_online_named)', 'values': line}, 'observed': bad if bad else obs}
                if not line.startswith('NMON') or line == 'NMON NONE':
                    verdicts[k] = ('model-error', line[:300])
                elif bad is not None or line.split()[1:] != obs:
                    verdicts[k] = ('violation', det)
                else:
                    self.stream_named = getattr(self, 'stream_named', 0) + 1
                    verdicts[k] = ('ok', None)
        return verdicts

    def extra_evidence(self):
        return {'stream_names': getattr(self, 'stream_names', 0), 'stream_names_pastified': getattr(self, 'names_pastified', 0),
                'stream_names_nodes': getattr(self, 'names_nodes', 0), 'stream_named': getattr(self, 'stream_named', 0)}


def main(tier, seed, replay=None):
    return C02().main(tier, seed, replay)
