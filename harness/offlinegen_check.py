#!/usr/bin/env python3
# harness/offlinegen_check.py [--n N] [--seed S] [--gen OfflineGen.v] OUT.v
# Method-level differential check of the GENERATED definitions against the Python methods they were generated from.
# Each visitX of the real StlDiscreteTimeOfflineAstVisitor is called on a stub node whose operands are preset lists
# (self.visit and self.time_unit_transformer are replaced on the instance), on structured random inputs from one seeded PRNG:
# lengths 0..7, values small ints and +-inf, bounds 0..4 (also begin > end), operand lists of different lengths.
# Any Python exception corresponds to None.  The expected results go into OUT.v as Booleans decided by vm_compute on the ExtZ instance.
# run: PYTHONDONTWRITEBYTECODE=1 PYTHONPATH=/repo /venv/bin/python harness/offlinegen_check.py build/OfflineGenCases.v
import importlib.util, math, random, re, sys
from rtamt.semantics.enumerations.comp_oper import StlComparisonOperator as Op

argv = sys.argv[1:]
def opt(name, default):
    if name in argv:
        i = argv.index(name); v = argv[i + 1]; del argv[i:i + 2]; return v
    return default
N, SEED, GEN = int(opt('--n', '90')), int(opt('--seed', '20260926')), opt('--gen', 'coq/theories/OfflineGen.v')
VISFILE = opt('--visitor-file', None)   # a (scratch, modified) copy of ast_visitor.py instead of the installed one
OUT = argv[0]
if VISFILE:
    spec = importlib.util.spec_from_file_location('scratch_offline_ast_visitor', VISFILE)
    mod = importlib.util.module_from_spec(spec); spec.loader.exec_module(mod)
    Vis = mod.StlDiscreteTimeOfflineAstVisitor
else:
    from rtamt.semantics.stl.discrete_time.offline.ast_visitor import StlDiscreteTimeOfflineAstVisitor as Vis
rnd = random.Random(SEED)
INF = float('inf')
gen_text = open(GEN).read()
defs = dict(re.findall(r'Definition gen_(visit\w+) ([^\n]*?) : option \(list V\) :=', gen_text))
bodies = {m.group(1): m.group(2) for m in re.finditer(r'Definition gen_(visit\w+) .*?:=\n(.*?)\n\n', gen_text, re.S)}

class Node:
    children = [0, 1]
class O:  # node.operator
    def __init__(self, v): self.value = v

def call(name, lists, b=None, e=None, op=None, val=None, length=None):
    v = Vis.__new__(Vis)
    v.visit = lambda child, *a, **k: list(lists[child])
    v.time_unit_transformer = lambda node: (b, e)
    n = Node()
    if op is not None: n.operator = O(op.value)
    if val is not None: n.val = val
    try:
        r = getattr(Vis, name)(v, n, *([length] if length is not None else []))
    except Exception as ex:
        return None
    return list(r)

def value(kind):
    if kind == 'fin': return rnd.randint(-6, 6)
    x = rnd.random()
    return INF if x < 0.08 else -INF if x < 0.16 else rnd.randint(-6, 6)
def lst(n, kind='any'): return [value(kind) for _ in range(n)]
def length():
    x = rnd.random()
    return 0 if x < 0.07 else 1 if x < 0.2 else rnd.randint(2, 7)

def cz(x):
    if x == INF: return 'PosInf'
    if x == -INF: return 'NegInf'
    if isinstance(x, float):
        if x != x or not x.is_integer(): raise ValueError
        x = int(x)
    return 'Fin (%d)' % x
def cl(l): return '[' + '; '.join(cz(x) for x in l) + ']'
CMPS = {Op.EQ: 'CEq', Op.NEQ: 'CNeq', Op.LEQ: 'CLeq', Op.LESS: 'CLt', Op.GEQ: 'CGeq', Op.GREATER: 'CGt'}

UNARY_SPECIAL = {'visitSqrt': [0, 1, 4, 9, 16, INF], 'visitExp': [0, INF, -INF], 'visitLn': [1, INF]}
cases, dropped, none_count, per = [], 0, 0, {}
for name, params in defs.items():
    nlists = params.count(': list V')
    timed = '(begin : nat)' in params
    ar = ' AR' in bodies[name]
    for _ in range(N):
        kw, coqargs = {}, []
        n1 = length()
        n2 = n1 if rnd.random() < 0.85 else length()
        kind = 'fin' if name in ('visitPredicate', 'visitAddition', 'visitSubtraction', 'visitMultiplication', 'visitIff', 'visitXor',
                                 'visitAbs', 'visitNegate') and rnd.random() < 0.8 else 'any'
        lists = [lst(n1, kind), lst(n2, kind)][:nlists]
        if name in UNARY_SPECIAL: lists = [[rnd.choice(UNARY_SPECIAL[name]) for _ in range(n1)]]
        if name == 'visitDivision': lists = [[2 * rnd.randint(-4, 4) for _ in range(n1)], [rnd.choice([1, -1, 2, -2]) for _ in range(n2)]]
        if name == 'visitPow': lists = [[rnd.randint(-3, 3) for _ in range(n1)], [rnd.randint(0, 3) for _ in range(n2)]]
        if name == 'visitLog': lists = [[1] * n1, [rnd.randint(2, 5) for _ in range(n2)]]
        if timed:
            b, e = rnd.randint(0, 4), rnd.randint(0, 4)
            if b > e and rnd.random() < 0.8: b, e = e, b
            kw.update(b=b, e=e); coqargs += [str(b), str(e)]
        if name == 'visitConstant':
            kw.update(length=rnd.randint(0, 6), val=value('any')); coqargs += [str(kw['length']), '(%s)' % cz(kw['val'])]
        if name == 'visitPredicate':
            op = rnd.choice(list(CMPS)); kw['op'] = op; coqargs.append(CMPS[op])
        res = call(name, lists, **kw)
        try:
            exp = 'None' if res is None else 'Some ' + cl(res)
        except ValueError:
            dropped += 1; continue     # NaN or a non-integer float: outside the exact domain of ExtZ
        none_count += res is None
        per[name] = per.get(name, 0) + 1
        coqargs += [cl(l) for l in lists]
        cases.append((name, '(@gen_%s ExtZVal%s %s)' % (name, ' ExtZArith' if ar else '', ' '.join(coqargs)), exp))

with open(OUT, 'w') as f:
    f.write('(* GENERATED by harness/offlinegen_check.py: %d cases (seed %d), %d expect None, %d dropped (NaN / inexact) *)\n'
            % (len(cases), SEED, none_count, dropped))
    f.write('From Coq Require Import List Bool ZArith.\nFrom RV Require Import Val Syntax PySem ExtZ OfflineGen.\nImport ListNotations.\n'
            'Local Open Scope Z_scope.\n'
            'Definition ez_eqb (a b : extz) : bool := match a, b with NegInf, NegInf | PosInf, PosInf => true | Fin x, Fin y => x =? y | _, _ => false end.\n'
            'Fixpoint l_eqb (a b : list extz) : bool := match a, b with [], [] => true | x :: a, y :: b => ez_eqb x y && l_eqb a b | _, _ => false end.\n'
            'Definition o_eqb (a b : option (list extz)) : bool := match a, b with None, None => true | Some x, Some y => l_eqb x y | _, _ => false end.\n'
            )
    CH = 60
    nch = (len(cases) + CH - 1) // CH
    for c in range(nch):
        part = list(enumerate(cases))[c * CH:(c + 1) * CH]
        f.write('Definition checks%d : list (nat * bool) := [\n' % c)
        f.write(';\n'.join('  (%d%%nat, o_eqb %s (%s))' % (k, cs[1], cs[2]) for k, cs in part))
        f.write('\n].\n')
    f.write('Definition failing : list nat := map fst (filter (fun c => negb (snd c)) (%s)).\n' % ' ++ '.join('checks%d' % c for c in range(nch)))
    f.write('Eval vm_compute in failing.\n'
            'Lemma offlinegen_cases_agree : failing = []. Proof. vm_compute. reflexivity. Qed.\n')
with open(OUT + '.index', 'w') as f:
    for k, c in enumerate(cases): f.write('%d\t%s\t%s\n' % (k, c[1], c[2]))
print('cases %d none %d dropped %d per-method min %d' % (len(cases), none_count, dropped, min(per.values())))
