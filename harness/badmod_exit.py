# a module whose import exits (used by the C14 stream of hostile imports)
raise SystemExit(3)
