# c07.py — C07: a strictly positive (negative) robustness implies Boolean
# satisfaction (violation); perturbations smaller than |rho| keep the verdict.
import json
from harness import fml
from harness.common import parse_fields
from harness.runner import Check, offline_case, online_case, need_vars, expect_vals
import random


# ---- bounds written with explicit time units (the notations of harness/c08.py) ----

def spell(f, sp):
    """the case options {'spec', 'period', 'unit'} of the formula f under the spelling sp, or {} when f has no bounded operator.
    sp = {'seed': s}: the random equivalent spelling c08.spelling(Random(s), f) (explicit units on both ends / one end / none, another
    default unit, a sampling period given in another unit);
    sp = {'seed': s, 'fixed': [period, period unit, default unit, style, unit of begin, unit of end]}: every bound in that one notation.
    The text is rebuilt from (f, sp) whenever it is needed, so that a shrunk formula keeps its notation."""
    from harness import c08
    if not sp or not (fml.ops(f) & (fml.TUN | fml.TBIN)):
        return {}
    rng = random.Random(sp['seed'])
    if not sp.get('fixed'):
        r = c08.spelling(rng, f)
        return {'spec': r['spec'], 'period': r['period'], 'unit': r['unit']}
    p, pu, du, style, ub, ue = sp['fixed']
    pns = p * c08.U[pu]

    def bound(b, e):
        sb = c08.dec(b * pns, ub if style != 'end' else ue)
        se = c08.dec(e * pns, ue if style != 'begin' else ub)
        return '[%s%s:%s%s]' % (sb, ub if style != 'end' else '', se, ue if style != 'begin' else '')
    return {'spec': 'out = ' + fml.to_text(f, bound), 'period': [p, pu, 0.1], 'unit': du}


def unit_corners():
    """the sugar unless[a,b] (= always[0,b] or until[a,b]: TWO windows made from one written interval) and the other bounded operators with
    their bounds written in a unit that is not the default unit, in every one-sided notation; the data make the windows matter:
    the left operand holds exactly on the window and fails right after it (or holds at the first sample only), the right operand never / late"""
    X, Y = ('pred', 'geq', ('var', 0), ('const', 0)), ('pred', 'geq', ('var', 1), ('const', 0))
    fs = [('unlesst', 0, 2, X, Y), ('unlesst', 1, 2, X, Y), ('unlesst', 2, 3, X, Y), ('not', ('unlesst', 0, 2, X, Y)), ('alwt', 0, 1, ('unlesst', 0, 2, X, Y)),
          ('unlesst', 0, 1, ('unlesst', 0, 1, X, Y), Y), ('and', ('unlesst', 1, 3, X, Y), X), ('untilt', 1, 2, X, Y), ('alwt', 0, 2, X), ('evt', 1, 3, Y),
          ('sincet', 0, 2, X, Y), ('histt', 0, 2, X), ('oncet', 1, 2, Y)]
    data = [[[1, 1, 1, -1, -1, -1, -1, -1], [-1] * 8], [[2, -1, -1, -1, -1, -1, -1, -1], [-1] * 8], [[3, 3, 3, 3, -2, -2, 1, 1], [-1, -1, -1, 2, -1, -1, -1, -1]],
            [[1, 1, 1, 1, 1, 1, 1, 1], [-2] * 8], [[-1, 1, 1, 1, -1, 1, 1, 1], [-1, -1, 2, -1, -1, -1, -1, 3]]]
    # (period, its unit, default unit, style, unit of begin, unit of end): written unit finer / coarser than the default unit, unit on one end only
    # (units next to the default unit only: a reading of the number in the wrong one of the two is off by 1000, which stays cheap to evaluate)
    notations = [(1, 's', 's', 'both', 'ms', 'ms'), (1, 's', 's', 'end', 'ms', 'ms'), (1, 's', 's', 'begin', 'ms', 'ms'), (1, 's', 's', 'both', 's', 'ms'),
                 (1, 'ms', 'ms', 'end', 's', 's'), (500, 'ms', 'ms', 'both', 's', 's'), (1, 'ms', 'ms', 'both', 'us', 'us'), (100, 'us', 'us', 'begin', 'ms', 'ms'),
                 (1000, 'ms', 'us', 'end', 'ms', 'ms'), (250, 'us', 'us', 'both', 'ns', 'us')]
    out = []
    for i, f in enumerate(fs):
        for j, nt in enumerate(notations):
            if i >= 7 and j % 3 != i % 3:
                continue        # the operators that are no sugar: a third of the notations each
            for cols in (data if i < 3 else data[(i + j) % 5:][:2] or data[:1]):
                out.append((f, [list(c) for c in cols], {'seed': 0, 'fixed': list(nt)}))
    # the sugar without bounds (nothing to write units on)
    for f in (('unless', X, Y), ('not', ('unless', X, Y)), ('alwt', 0, 1, ('unless', X, Y)), ('unless', ('unlesst', 0, 1, X, Y), Y)):
        for k, cols in enumerate(data):
            out.append((f, [list(c) for c in cols], {'seed': 0, 'fixed': list(notations[k])}))
    # a written interval of 2 s with default unit ms and a period of 1 ms: 2000 samples; read in the default unit it would be 2 samples
    out.append((('unlesst', 0, 2000, X, Y), [list(c) for c in data[0]], {'seed': 0, 'fixed': [1, 'ms', 'ms', 'end', 's', 's']}))
    out.append((('unlesst', 0, 2000, X, Y), [list(c) for c in data[3]], {'seed': 0, 'fixed': [1, 'ms', 'ms', 'both', 's', 's']}))
    return out


def simple_preds(f):
    for s in fml.subformulas(f):
        if s[0] == 'pred':
            ok = (s[2][0] == 'var' and s[3][0] == 'const') or (s[2][0] == 'const' and s[3][0] == 'var')
            if not ok or s[1] in ('eq', 'neq'):
                return False
    return True


class C07(Check):
    PID = 'C07'
    RULE = ('seeded random typed iff/xor-free formulas (predicates over arithmetic terms, Boolean/temporal above); offline values (and online for '
            'past-time formulas) compared with the Boolean semantics sat of Sat.v: v > 0 => sat, v < 0 => not sat, at every sample; '
            'for formulas whose predicates compare one variable with a constant, a perturbed trace with sup-distance < |rho(t)| must keep the sign at t; '
            '30% of the random formulas have some until / until[a,b] turned into the sugar unless / unless[a,b]; 25% of the cases with bounded operators (60% of those with unless[a,b]) are written '
            'with explicit time units on both ends / one end of the bounds, another default unit and a sampling period given in another unit (the notations of C08), every monitor of the case '
            'reading that text while sat is computed on the bounds in samples; deterministic corners: unless[a,b] (alone, negated, nested, below always) and the other bounded operators with bounds '
            'in a unit finer / coarser than the default unit in every one-sided notation, on data whose left operand holds exactly on the window; a stream of unless[a,b] below random contexts with '
            'explicit units; '
            '35% of the cases are also run under one of the four interface-aware semantics with a random input/output assignment (sign soundness for every predicate kind, C07_ia); non-trivial = some sample has non-zero finite or infinite robustness and formula has >= 3 nodes; distinct by (formula, data)')

    def gen_cases(self, rng, tier):
        cases = []
        nrand = 600 if tier == 'quick' else 8000
        for i in range(nrand):
            nv = rng.choice([1, 2, 2, 3])
            d = rng.choice([1, 2, 2, 3, 3, 4])
            simple = rng.random() < 0.5
            g = fml.Gen(rng, nvars=nv, iffxor=False, raw_leaf=0.0, maxb=rng.choice([1, 2, 3]), arith=not simple)
            f = g.formula(d)
            if simple:
                def fix(s):
                    if s[0] == 'pred':
                        c = s[1] if s[1] not in ('eq', 'neq') else 'geq'
                        return ('pred', c, ('var', rng.randrange(nv)), ('const', rng.randint(0, 4)))
                    return fml.rebuild(s, [fix(k) for k in fml.children(s)])
                f = fix(f)
            if rng.random() < 0.3:
                f = fml.add_unless(rng, f)       # the sugar unless / unless[a,b]
            if fml.size(f) > 50:
                continue
            n = rng.choice([1, 2, 3, 5, 8, 12, 20])
            nv = need_vars(f, nv)
            cols = fml.gen_trace(rng, nv, n)
            # perturbation: every sample moves by at most 1/2 (values are integers, robustness too)
            pert = [[v + rng.choice([-0.5, -0.25, 0, 0.25, 0.5]) for v in col] for col in cols]
            c = {'f': f, 'n': n, 'nv': nv, 'cols': cols, 'pert': pert, 'times': list(range(n)), 'simple': simple_preds(f)}
            if (fml.ops(f) & (fml.TUN | fml.TBIN)) and rng.random() < (0.6 if 'unlesst' in fml.ops(f) else 0.25):
                c['spell'] = {'seed': rng.randrange(10 ** 9)}
            if rng.random() < 0.35:
                # the same under an interface-aware semantics: predicates become +-inf / 0, the sign must stay sound (C07_ia)
                c['ia'] = {'sem': rng.choice(['output-robustness', 'input-robustness', 'output-vacuity', 'input-vacuity']), 'io': [rng.randint(0, 1) for _ in range(nv)]}
            cases.append(c)
        # bounds with explicit units: deterministic corners, then unless[a,b] below random contexts
        for (f, cols, sp) in unit_corners():
            n = len(cols[0])
            pert = [[v + (0.5 if (k + j) % 2 else -0.5) for k, v in enumerate(col)] for j, col in enumerate(cols)]
            cases.append({'f': f, 'n': n, 'nv': 2, 'cols': cols, 'pert': pert, 'times': list(range(n)), 'simple': True, 'spell': sp})
        units = ['s', 'ms', 'us', 'ns']
        for i in range(60 if tier == 'quick' else 800):
            X = ('pred', rng.choice(['geq', 'gt']), ('var', 0), ('const', rng.randint(0, 2)))
            Y = ('pred', rng.choice(['geq', 'gt', 'leq']), ('var', 1), ('const', rng.randint(0, 4)))
            b = rng.randint(0, 3)
            f = ('unlesst', rng.randint(0, b), b, X, Y)
            for _ in range(rng.choice([0, 0, 1, 1, 2])):
                k = rng.random()
                e = rng.randint(0, 2)
                f = (('not', f) if k < 0.25 else ('alwt', 0, e, f) if k < 0.4 else ('evt', rng.randint(0, e), e, f) if k < 0.5 else (rng.choice(['and', 'or', 'implies']), f, rng.choice([X, Y]))
                     if k < 0.7 else ('unlesst', 0, e, f, Y) if k < 0.8 else ('untilt', 0, e, X, f) if k < 0.9 else ('implies', Y, f))
            n = rng.choice([3, 5, 8, 12])
            # the left operand holds on a prefix and fails after it, the right one rarely holds
            k = rng.randint(0, n)
            cols = [[rng.randint(1, 5) if t < k else rng.randint(-4, 0) for t in range(n)], [rng.choice([-3, -2, -1, -1, 5]) for _ in range(n)]]
            if rng.random() < 0.3:
                cols = fml.gen_trace(rng, 2, n)
            pert = [[v + rng.choice([-0.5, -0.25, 0, 0.25, 0.5]) for v in col] for col in cols]
            du = rng.choice(units)
            near = [u for u in units if abs(units.index(u) - units.index(du)) == 1]        # (off by 1000 when read in the wrong unit: still cheap)
            ub, ue = rng.choice(near), rng.choice(near)
            p, pu = rng.choice([(1, 's'), (1, 'ms'), (500, 'ms'), (250, 'us'), (2, 's'), (1000, 'us'), (100, 'ns')])
            cases.append({'f': f, 'n': n, 'nv': 2, 'cols': cols, 'pert': pert, 'times': list(range(n)), 'simple': True,
                          'spell': {'seed': 0, 'fixed': [p, pu, du, rng.choice(['both', 'both', 'end', 'begin']), ub, ue]}})
        # the robustness of a predicate is a ROUNDED difference: a sample far from the threshold (beyond 2^53 ulps of it) gets a robustness
        # that is larger than the exact margin, and a perturbation below it (in exact arithmetic) flips the verdict (FloatLip.float_sub_l_refuted,
        # Props/FloatInstance.C07_robust_float_refuted); deterministic cases, judged with exact rationals
        for (cmp_, thr, x, x2) in [('geq', -1, 2.0 ** 53 + 2, -1.5), ('leq', 1, -(2.0 ** 53 + 2), 1.5), ('geq', -3, 2.0 ** 54 + 4, -3.5), ('geq', 1, 3.0, 2.5), ('leq', 1, 5.0, 1.5)]:
            cases.append({'f': ('pred', cmp_, ('var', 0), ('const', thr)), 'n': 1, 'nv': 1, 'cols': [[x]], 'pert': [[x2]], 'times': [0], 'simple': True, 'round': 1})
        # an int sample and the float of the same value must get the same robustness (exp of a huge negative int is 0, not +inf)
        X = ('var', 0)
        # (no float constant next to the exact product: an int beyond the floats cannot be mixed with one, a limitation noted in DESIGN)
        for f, v in [(('pred', 'leq', ('a1', 'exp', ('a1', 'neg', ('a2', 'mul', X, X))), ('const', 1)), 10 ** 200),
                     (('pred', 'geq', ('a1', 'exp', ('a1', 'neg', ('a2', 'mul', X, X))), ('const', 0)), 10 ** 160),
                     (('pred', 'geq', ('a1', 'exp', ('a2', 'mul', X, X)), ('const', 1)), 10 ** 200)]:
            cases.append({'f': f, 'n': 1, 'nv': 1, 'cols': [[v]], 'pert': [[float(v)]], 'times': [0], 'simple': True, 'round': 'twin'})
        return cases

    def model_lines(self, c):
        if c.get('round'):
            return []
        return ['(sat %s %d %s)' % (fml.to_sx(c['f']), c['n'], fml.trace_sx(c['cols']))]

    def impl_cases(self, c):
        sp = spell(c['f'], c.get('spell'))       # (the specification text with explicit units, the period and the default unit, for every monitor of the case)
        out = [offline_case(c['f'], c['cols'], c['times'], c['nv'], **sp)]
        if c.get('simple') and 'pert' in c and len(c['pert'][0]) == c['n']:
            out.append(offline_case(c['f'], c['pert'], c['times'], c['nv'], **sp))
        else:
            out.append(offline_case(c['f'], c['cols'], c['times'], c['nv'], **sp))
        if not fml.has_future(c['f']):
            out.append(online_case(c['f'], c['cols'], c['times'], c['nv'], **sp))
        if c.get('ia'):
            kw = dict(sp, semantics=c['ia']['sem'], io={fml.VARS[i]: ('input' if (c['ia']['io'] + [0] * c['nv'])[i] else 'output') for i in range(c['nv'])})
            out.append(offline_case(c['f'], c['cols'], c['times'], c['nv'], **kw))
            if not fml.has_future(c['f']):
                out.append(online_case(c['f'], c['cols'], c['times'], c['nv'], **kw))
        return out

    def judge(self, c, mlines, ires):
        if c.get('round'):
            from fractions import Fraction
            a, b = ires[0], ires[1]
            for i in (a, b):
                if i['setup']['status'] != 'ok' or i['calls'][0]['status'] != 'ok':
                    return 'violation', {'expected': 'evaluates', 'observed': i['setup'] if i['setup']['status'] != 'ok' else i['calls'][0]}
            rho, rho2 = float(a['calls'][0]['value'][0][1]), float(b['calls'][0]['value'][0][1])
            x, x2 = c['cols'][0][0], c['pert'][0][0]
            if c['round'] == 'twin':
                if rho != rho2:
                    return 'violation', {'shape': 'int_and_float_sample_differ', 'spec': 'out = ' + fml.to_text(c['f']), 'expected': {'sample %r (float)' % x2: rho2},
                                         'observed': {'sample %d (int, the same value)' % x: rho}}
                return 'ok', None
            dist = abs(Fraction(x) - Fraction(x2))
            if dist < abs(Fraction(rho)) and (rho > 0) != (rho2 > 0):
                return 'violation', {'shape': 'rounded_robustness', 'spec': 'out = ' + fml.to_text(c['f']), 'sample': x, 'perturbed_sample': x2,
                                     'expected': 'a sample at exact distance %s < |rho| = %s from the original keeps the verdict' % (dist, Fraction(rho)),
                                     'observed': {'rho': rho, 'rho_of_the_perturbed_trace': rho2, 'exact_margin': str(abs(Fraction(x) - Fraction(c['f'][3][1])))}}
            return 'ok', None
        m = parse_fields(mlines[0])
        if 'ERROR' in m:
            return 'model-error', mlines
        if m['EXACT'] != ['1'] or m['ISBOOL'] != ['1']:
            return 'dropped', None
        sat = [x == '1' for x in m['SAT']]
        sigs = []
        for i in ires:
            if i['setup'].get('kind') == 'Timeout' or any(r.get('kind') == 'Timeout' for r in i['calls']):
                c['_timeout'] = 1
            if i['setup']['status'] != 'ok':
                return 'violation', {'expected': 'evaluates', 'observed': i['setup']}
            vals = []
            for r in i['calls']:
                if r['status'] != 'ok':
                    return 'violation', {'expected': 'evaluates', 'observed': r}
                vals.append(r['value'])
            sigs.append(vals)
        off = [p[1] for p in sigs[0][0]]
        pert = [p[1] for p in sigs[1][0]]
        num = lambda v: float(v) if not isinstance(v, str) else float(v)
        det = {'sat': sat, 'offline': off}
        if c.get('spell'):
            det['specification'] = spell(c['f'], c['spell'])
        nstd = 2 if fml.has_future(c['f']) else 3
        streams = [('offline', off)] + ([('online', sigs[2])] if nstd == 3 else [])
        if c.get('ia') and len(sigs) > nstd:
            streams.append(('offline ' + c['ia']['sem'], [p[1] for p in sigs[nstd][0]]))
            if len(sigs) > nstd + 1:
                streams.append(('online ' + c['ia']['sem'], sigs[nstd + 1]))
        nz = 0
        for name, vs in streams:
            for t, v in enumerate(vs):
                x = num(v)
                if x > 0 and not sat[t]:
                    return 'violation', dict(det, expected='positive robustness only where the formula is satisfied', observed={'monitor': name, 't': t, 'value': v})
                if x < 0 and sat[t]:
                    return 'violation', dict(det, expected='negative robustness only where the formula is violated', observed={'monitor': name, 't': t, 'value': v})
                if x != 0:
                    nz += 1
        if c.get('simple') and 'pert' in c and len(c['pert'][0]) == c['n']:
            for t in range(c['n']):
                x, y = num(off[t]), num(pert[t])
                # distance <= 1/2 < |x| for every non-zero integer robustness
                if x >= 1 and not y > 0:
                    return 'violation', dict(det, expected='same verdict for perturbations below |rho|', observed={'t': t, 'rho': off[t], 'perturbed': pert[t]})
                if x <= -1 and not y < 0:
                    return 'violation', dict(det, expected='same verdict for perturbations below |rho|', observed={'t': t, 'rho': off[t], 'perturbed': pert[t]})
        rho = json.loads(json.dumps(expect_vals([fml.parse_val(x) for x in m['RHO']])))
        if rho != off:
            # (that evaluate() returns rho is C01's subject; for C07 it is the tie of the model on which C07_offline is stated)
            return 'model-differs', dict(det, expected={'rho': rho}, observed=off, note='implementation differs from rho')
        c['_nz'] = nz
        return 'ok', None

    def still_fails(self, model, c, shape=None):
        if c.get('round'):
            return False, None        # crafted pairs of samples: shrinking one of the two makes another case of it
        if c.get('_timeout'):
            return False, None        # a case that ran into the time limit is reported as it is (every candidate would use the limit up again)
        return Check.still_fails(self, model, c, shape)

    def signature(self, c, detail):
        sig = Check.signature(self, c, detail)
        if isinstance(detail, dict) and detail.get('shape'):
            sig['shape'] = detail['shape']
        return sig

    def nontrivial(self, c):
        return fml.size(c['f']) >= 3 and c.get('_nz', 0) > 0

    def features(self, c):
        fs = Check.features(self, c)
        sp = spell(c['f'], c.get('spell')) if 'f' in c else {}
        if sp:
            import re
            us = set(re.findall(r'[0-9](s|ms|us|ns)\b', sp['spec']))
            fs = fs + ['bounds_with_explicit_units'] + (['bounds_in_another_unit_than_the_default'] if us - {sp['unit']} else [])
            if 'unlesst' in fs:
                fs.append('unlesst_with_explicit_units')
                if us - {sp['unit']}:
                    fs.append('unlesst_in_another_unit_than_the_default')
        return sorted(fs)

    def key(self, c):
        return json.dumps([fml.to_sx(c['f']), c['cols'], spell(c['f'], c.get('spell'))])

    def describe(self, c):
        d = {'spec': 'out = ' + fml.to_text(c['f']), 'data': c['cols'], 'perturbed': c.get('pert')}
        if c.get('spell'):
            d['written_as'] = spell(c['f'], c['spell'])
        return d


def main(tier, seed, replay=None):
    from harness import densex
    return densex.extend(C07, densex.D07())().main(tier, seed, replay)
