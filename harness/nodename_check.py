# nodename_check.py — correspondence of NodeName.v with rtamt's node names.
#   /venv/bin/python -m harness.nodename_check [--seed N] [--n CASES]     (cwd = the verif directory)
# Structured random specifications (one seeded PRNG) are parsed by rtamt (and pastified when possible); every node of
# every resulting tree is dumped as the tree of NodeName.node (class, var/field, str(val), Fraction bounds, unit texts),
# the extracted model prints nname of every sub-node and the well-formedness flag nwf, and the texts are compared with
# node.name exactly.  A second stream builds trees through the node constructors directly (fields, pastifier-style
# intervals, arbitrary floats).  Over everything generated: two nodes with the same name have the same dump
# (rtamt's printer itself, injectivity observed), str(float) has the assumed form and float(str(v)) == v.
import os
import sys
import math
import random
import struct
import logging
import argparse
from fractions import Fraction

from harness.common import Model, REPO

sys.path.insert(0, REPO)
sys.setrecursionlimit(20000)
logging.disable(logging.CRITICAL)
import rtamt  # noqa: E402
from rtamt.semantics.interval.interval import Interval  # noqa: E402
from rtamt.semantics.enumerations.comp_op import StlComparisonOperator as Op  # noqa: E402
import importlib  # noqa: E402


def cls(path, name):
    return getattr(importlib.import_module('rtamt.syntax.node.' + path), name)


UN = {k: cls(p, k) for k, p in [
    ('Neg', 'ltl.neg'), ('Once', 'ltl.once'), ('Historically', 'ltl.historically'), ('Eventually', 'ltl.eventually'),
    ('Always', 'ltl.always'), ('Previous', 'ltl.previous'), ('StrongPrevious', 'ltl.strong_previous'), ('Next', 'ltl.next'),
    ('StrongNext', 'ltl.strong_next'), ('Rise', 'ltl.rise'), ('Fall', 'ltl.fall'), ('Abs', 'arithmetic.abs'),
    ('Sqrt', 'arithmetic.sqrt'), ('Exp', 'arithmetic.exp'), ('Ln', 'arithmetic.ln'), ('Negate', 'arithmetic.negate')]}
TUN = {k: cls(p, k) for k, p in [('TimedOnce', 'stl.timed_once'), ('TimedHistorically', 'stl.timed_historically'),
                                 ('TimedEventually', 'stl.timed_eventually'), ('TimedAlways', 'stl.timed_always')]}
FN2 = {k: cls(p, k) for k, p in [('Pow', 'arithmetic.pow'), ('Log', 'arithmetic.log')]}
BIN = {k: cls(p, k) for k, p in [
    ('Conjunction', 'ltl.conjunction'), ('Disjunction', 'ltl.disjunction'), ('Implies', 'ltl.implies'), ('Iff', 'ltl.iff'),
    ('Xor', 'ltl.xor'), ('Since', 'ltl.since'), ('Until', 'ltl.until'), ('Addition', 'arithmetic.addition'),
    ('Subtraction', 'arithmetic.subtraction'), ('Multiplication', 'arithmetic.multiplication'), ('Division', 'arithmetic.division')]}
TBIN = {k: cls(p, k) for k, p in [('TimedSince', 'stl.timed_since'), ('TimedUntil', 'stl.timed_until'),
                                  ('TimedPrecedes', 'stl.timed_precedes')]}
Variable = cls('ltl.variable', 'Variable')
Constant = cls('ltl.constant', 'Constant')
Predicate = cls('ltl.predicate', 'Predicate')
CMP = {Op.LEQ: 'leq', Op.LESS: 'lt', Op.GEQ: 'geq', Op.GREATER: 'gt', Op.EQUAL: 'eq', Op.NEQ: 'neq'}


def hexs(s):
    return 'x' + s.encode().hex()


def bound(v, u):
    f = Fraction(v)
    if f < 0:
        raise ValueError('negative bound')
    return '(%x %x %s)' % (f.numerator, f.denominator, u if u else '_')


def dump(n, names):
    """the s-expression of the tree under n; appends the names of its nodes, the root first"""
    k = type(n).__name__
    names.append(n.name)
    if k == 'Variable':
        return '(Variable %s %s)' % (hexs(n.var), hexs(n.field if n.field else ''))
    if k == 'Constant':
        return '(Constant %s)' % hexs(str(n.val))
    kids = list(n.children)
    if k == 'Predicate':
        return '(Predicate %s %s %s)' % (CMP[n.operator], dump(kids[0], names), dump(kids[1], names))
    if k in TUN:
        return '(%s %s %s %s)' % (k, bound(n.begin, n.begin_unit), bound(n.end, n.end_unit), dump(kids[0], names))
    if k in TBIN:
        return '(%s %s %s %s %s)' % (k, bound(n.begin, n.begin_unit), bound(n.end, n.end_unit), dump(kids[0], names), dump(kids[1], names))
    if k in UN:
        return '(%s %s)' % (k, dump(kids[0], names))
    if k in FN2 or k in BIN:
        return '(%s %s %s)' % (k, dump(kids[0], names), dump(kids[1], names))
    raise ValueError('unknown node class ' + k)


# ---------------------------------------------------------------- random specification texts
KEYWORDS = set('abs sqrt exp pow log ln s ms us ns ps topic import input output internal const real float long complex int bool '
               'assertion specification from not or and iff implies xor rise fall always G eventually F until U unless W '
               'historically H once O since S next X prev Y s_next sX s_prev sY true TRUE false FALSE out'.split())
ID_POOL = ['x', 'y', 'z', 'x.', '$s', '_u', 'a/b', 'x/2', 'once1', 'inf', 'nan', 'infinity', 'e5', 'sqrtx', 'G1', 'not_', 's_prevx',
           'pre', 'x1', 'X_', 'always_', 'e', 'E1', 'i', 'n', 'f', 'a', 'in', 'na', 'nf', 'inf1', 'nan_', 'xe10', 'x/y/z', 'm.value',
           'm.other', 'm.inner.v', 'w.value', 'w.inner.v']
UNITS = ['', 's', 'ms', 'us', 'ns']
U = {'s': 10 ** 9, 'ms': 10 ** 6, 'us': 10 ** 3, 'ns': 1}


def rand_ident(rng):
    if rng.random() < 0.7:
        return rng.choice(ID_POOL)
    while True:
        s = rng.choice('abcxyzEIFN_$ens') + ''.join(rng.choice('abefinxyzEINF_$0123456789/') for _ in range(rng.randint(0, 5)))
        if s not in KEYWORDS and '//' not in s and '/*' not in s and not s.startswith('m') and not s.startswith('w'):
            return s


def rand_literal(rng):
    r = rng.random()
    if r < 0.25:
        return rng.choice(['0', '1', '2', '7', '10', '1_000', '0x1F', '0b101', '0X0', '123456789012345678901234567890', '9007199254740993'])
    if r < 0.5:
        return rng.choice(['1.5', '.25', '3.', '1e3', '1E+22', '2.5e-7', '1e400', '0.1', '1e16', '1e15', '123456.789e3', '0.0', '1e-320', '4.9e-324', '0e0', '1.0e-5', '.1e-3', '1_0.2_5'])
    if r < 0.75:
        return repr(abs(struct.unpack('<d', struct.pack('<Q', rng.getrandbits(64)))[0])).replace('nan', '7').replace('inf', '1e999')
    return '%d.%d' % (rng.randint(0, 999), rng.randint(0, 999))


def rand_bound_text(rng):
    r = rng.random()
    if r < 0.5:
        return str(rng.randint(0, 12))
    if r < 0.7:
        return rng.choice(['0.5', '1.25', '2.', '.75', '1e1', '15e-1', '0x3', '0b10', '1_0', '0.001', '1e3', '2.5e2', '0.1', '0.3'])
    if r < 0.8:
        return rng.choice(['kb', 'kc'])     # declared constants
    return '%d.%d' % (rng.randint(0, 20), rng.randint(0, 99))


def bound_value(t, u, du):
    t = t.replace('_', '')
    try:
        v = Fraction(t)
    except ValueError:
        try:
            v = Fraction(int(t, 0))
        except ValueError:
            return None         # a declared constant
    return v * U[u if u else du]


def rand_interval(rng):
    # mostly intervals that the parser accepts (lower bound <= upper bound as durations)
    for attempt in range(20):
        sep = rng.choice([',', ':', ' , ', ' :'])
        b, bu, e, eu = rand_bound_text(rng), rng.choice(UNITS), rand_bound_text(rng), rng.choice(UNITS)
        rb = bu if bu else (eu if eu else 's')
        re_ = eu if eu else rb
        vb, ve = bound_value(b, rb, 's'), bound_value(e, re_, 's')
        if vb is None or ve is None or vb <= ve or rng.random() < 0.03:
            break
    return '[%s %s%s%s %s]' % (b, bu, sep, e, eu)


UNOPS = ['not', '!', 'always', 'G', 'eventually', 'F', 'historically', 'H', 'once', 'O', 'next', 'X', 'prev', 'Y', 's_next', 'sX', 's_prev', 'sY', '-']
TEMP1 = {'always', 'G', 'eventually', 'F', 'historically', 'H', 'once', 'O'}
FUN1 = ['abs', 'sqrt', 'exp', 'ln', 'rise', 'fall']
BINOPS = ['and', '&', 'or', '|', 'implies', '->', 'iff', '<->', 'xor', 'until', 'U', 'unless', 'W', 'since', 'S', '+', '-', '*', '/',
          '<=', '<', '>=', '>', '==', '!==']
TEMP2 = {'until', 'U', 'unless', 'W', 'since', 'S'}


def rand_expr(rng, depth, stl, subs):
    if depth <= 0 or rng.random() < 0.15:
        r = rng.random()
        if r < 0.55:
            return rand_ident(rng)
        if r < 0.8:
            return rand_literal(rng)
        if r < 0.9 and subs:
            return rng.choice(subs)
        return rng.choice(['kb', 'kc', 'kn', 'ki', 'kz'])
    r = rng.random()
    if r < 0.25:
        o = rng.choice(UNOPS)
        iv = rand_interval(rng) if (stl and o in TEMP1 and rng.random() < 0.7) else ''
        return '%s%s (%s)' % (o, iv, rand_expr(rng, depth - 1, stl, subs))
    if r < 0.35:
        return '%s(%s)' % (rng.choice(FUN1), rand_expr(rng, depth - 1, stl, subs))
    if r < 0.42:
        return '%s(%s, %s)' % (rng.choice(['pow', 'log']), rand_expr(rng, depth - 1, stl, subs), rand_expr(rng, depth - 1, stl, subs))
    o = rng.choice(BINOPS)
    iv = rand_interval(rng) if (stl and o in TEMP2 and rng.random() < 0.7) else ''
    a, b = rand_expr(rng, depth - 1, stl, subs), rand_expr(rng, depth - 1, stl, subs)
    if rng.random() < 0.5 and rng.random() < 0.5:
        b = a       # duplicate sub-terms
    return '(%s) %s%s (%s)' % (a, o, iv, b)


def make_spec(rng):
    kind = rng.choice(['disc', 'disc', 'dense', 'ltl', 'iadisc'])
    C = {'disc': rtamt.StlDiscreteTimeSpecification, 'dense': rtamt.StlDenseTimeSpecification,
         'ltl': getattr(rtamt, 'LtlDiscreteTimeSpecification', rtamt.StlDiscreteTimeSpecification),
         'iadisc': getattr(rtamt, 'StlDiscreteTimeSpecification')}[kind]
    spec = C()
    stl = kind != 'ltl' or C is rtamt.StlDiscreteTimeSpecification
    spec.import_module('harness.msgs', 'Msg')
    spec.declare_var('m', 'Msg')
    spec.declare_var('w', 'Msg')
    spec.declare_const('kb', 'float', rng.choice(['1', '2', '0.5', '3']))
    spec.declare_const('kc', 'float', rng.choice(['4', '8.5', '12']))
    spec.declare_const('kn', 'float', rng.choice(['nan', '-1.5', '1e-7']))
    spec.declare_const('ki', 'float', rng.choice(['inf', '-inf', 'Infinity']))
    spec.declare_const('kz', 'float', rng.choice(['-0', '-0.0', '0', '1e22', '1e21', '123456789.123456789']))
    if stl:
        spec.unit = rng.choice(['s', 'ms', 'us', 'ns'])
    subs, lines = [], []
    for i in range(rng.randint(0, 2)):
        name = 'sub%d' % i
        lines.append('%s = %s;' % (name, rand_expr(rng, rng.randint(1, 3), stl, subs)))
        subs.append(name)
    lines.append('out = %s;' % rand_expr(rng, rng.randint(1, 5), stl, subs))
    spec.spec = '\n'.join(lines)
    return spec, stl, spec.spec


# ---------------------------------------------------------------- random trees through the constructors
def rand_float(rng):
    r = rng.random()
    if r < 0.3:
        return rng.choice([0.0, -0.0, 1.0, -1.0, float('inf'), float('-inf'), float('nan'), 1e22, 1e21, 1e16, 1e-5, 1e-4, 5e-324, 1.7976931348623157e308, 0.1, 1 / 3.0, 123456789012345678.0])
    if r < 0.8:
        return struct.unpack('<d', struct.pack('<Q', rng.getrandbits(64)))[0]
    return float(rng.randint(-1000, 1000)) / rng.choice([1, 2, 4, 10, 100])


def rand_var(rng):
    head = rng.choice('abcxyz_$EINFenisf') + ''.join(rng.choice('abefinxyzEINF_$0123456789/') for _ in range(rng.randint(0, 4)))
    r = rng.random()
    if r < 0.5:
        field = rng.choice(['', None])
    else:
        field = ''.join(rng.choice('abinfe_$019/.') for _ in range(rng.randint(1, 6)))
    return Variable(head, field, rng.choice(['input', 'output']))


def rand_frac(rng):
    r = rng.random()
    if r < 0.4:
        return rng.randint(0, 20)
    if r < 0.6:
        return Fraction(rng.randint(0, 50))
    if r < 0.9:
        return Fraction(rng.randint(0, 10 ** rng.randint(1, 30)), rng.randint(1, 10 ** rng.randint(1, 30)))
    return Fraction(rng.getrandbits(rng.randint(1, 400)), 1 + rng.getrandbits(rng.randint(1, 400)))


def rand_tree(rng, depth):
    if depth <= 0 or rng.random() < 0.15:
        return rand_var(rng) if rng.random() < 0.5 else Constant(rand_float(rng))
    r = rng.random()
    sub = lambda: rand_tree(rng, depth - 1)  # noqa: E731
    iv = lambda: Interval(rand_frac(rng), rand_frac(rng), rng.choice(UNITS), rng.choice(UNITS))  # noqa: E731
    if r < 0.25:
        return UN[rng.choice(sorted(UN))](sub())
    if r < 0.4:
        return TUN[rng.choice(sorted(TUN))](sub(), iv())
    if r < 0.5:
        return FN2[rng.choice(sorted(FN2))](sub(), sub())
    if r < 0.7:
        return BIN[rng.choice(sorted(BIN))](sub(), sub())
    if r < 0.85:
        return Predicate(sub(), sub(), rng.choice(sorted(CMP, key=lambda o: o.value)))
    return TBIN[rng.choice(sorted(TBIN))](sub(), sub(), iv())


def const_ok(t):
    return all(c in '0123456789.e+-infa' for c in t) and (t in ('inf', 'nan') or (t != '' and (t[0].isdigit() or t[0] == '-')))


def main():
    ap = argparse.ArgumentParser()
    ap.add_argument('--seed', type=int, default=20260926)
    ap.add_argument('--n', type=int, default=4000)
    args = ap.parse_args()
    rng = random.Random(args.seed)
    trees = []          # (origin, command line for the model, names of the nodes, dumps of the nodes); dumped at once:
    # pastify() rewrites the bounds of the nodes it replaces in place (their names stay)
    by_name = {}

    def walk(n):
        nm = []
        d = dump(n, nm)
        classes[type(n).__name__] = classes.get(type(n).__name__, 0) + 1
        prev = by_name.setdefault(n.name, d)
        if prev != d:
            raise SystemExit('COLLISION: %r is the name of %s and of %s' % (n.name, prev, d))
        for c in n.children:
            walk(c)

    def add(origin, root):
        names = []
        trees.append((origin, '(nname %s)' % dump(root, names), names))
        walk(root)

    stats = {'parsed': 0, 'rejected': 0, 'pastified': 0, 'built': 0}
    classes = {}
    for i in range(args.n):
        spec, stl, text = make_spec(rng)
        try:
            spec.parse()
        except rtamt.RTAMTException:
            stats['rejected'] += 1
            continue
        stats['parsed'] += 1
        for s in spec.ast.specs:
            add('parse: ' + text, s)
        if stl and rng.random() < 0.6:
            try:
                spec.pastify()
            except rtamt.RTAMTException:
                continue
            stats['pastified'] += 1
            for s in spec.ast.specs:
                add('pastify: ' + text, s)
    for i in range(args.n):
        add('built', rand_tree(rng, rng.randint(0, 5)))
        stats['built'] += 1
    lines = [t[1] for t in trees]
    expected = [t[2] for t in trees]
    out = Model().batch(lines)
    bad = 0
    nodes = 0
    for (origin, _, _), line, names, cmd in zip(trees, out, expected, lines):
        toks = line.split()
        got = [bytes.fromhex(t[1:]).decode() for t in toks[2:]] if toks[:1] == ['NNAME'] else None
        if got != names or toks[1] != '1':
            bad += 1
            if bad <= 5:
                print('MISMATCH', origin, '\n  rtamt', names[:3], '\n  model', line[:300])
        nodes += len(names)
    # identifiers: the Variable node visitExprId makes of an Identifier token = var_of_ident, and the token is ident_ok
    idents = sorted(set(ID_POOL) | {rand_ident(rng) for _ in range(1500)} | {'x..y', 'x.y.', 'm.inner.', 'm..value', 'a.b', 'q.', 'q..', '$', '_', '$.', 'a/.b', 'm.value.'})
    nid, idbad = 0, 0
    m = Model()
    for ident in idents:
        spec = rtamt.StlDiscreteTimeSpecification()
        spec.import_module('harness.msgs', 'Msg')
        spec.declare_var('m', 'Msg')
        spec.declare_var('w', 'Msg')
        spec.spec = 'out = %s;' % ident
        try:
            spec.parse()
        except rtamt.RTAMTException:
            continue        # a field that does not exist
        root = spec.ast.specs[0]
        if type(root).__name__ != 'Variable':
            raise SystemExit('%r is not read as a variable' % ident)
        nid += 1
        got = m.one('(ident %s)' % hexs(ident)).split()
        want = ['IDENT', '1', hexs(root.var), hexs(root.field if root.field else '')]
        if got != want:
            idbad += 1
            print('IDENT MISMATCH', ident, got, want)
    m.close()
    # str(float)
    nf = 0
    for i in range(200000):
        v = rand_float(rng)
        t = str(v)
        nf += 1
        if not const_ok(t) or not (float(t) == v or (math.isnan(v) and t == 'nan')) or (v == 0 and math.copysign(1, v) != math.copysign(1, float(t))):
            raise SystemExit('str(float) is not of the assumed form: %r' % t)
    print('cases: %(parsed)d parsed (%(rejected)d rejected by rtamt), %(pastified)d pastified, %(built)d built directly' % stats)
    print('trees %d, nodes %d, distinct names %d, classes %d/39: mismatches %d; identifiers %d: mismatches %d; floats checked %d' % (len(trees), nodes, len(by_name), len(classes), bad, nid, idbad, nf))
    missing = sorted((set(UN) | set(TUN) | set(FN2) | set(BIN) | set(TBIN) | {'Variable', 'Constant', 'Predicate'}) - set(classes))
    if missing:
        print('classes never generated:', missing)
    sys.exit(1 if bad or idbad else 0)


if __name__ == '__main__':
    main()
