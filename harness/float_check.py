# float_check.py — correspondence check of the float instance (FloatVal.v / FloatArith.v) against CPython floats.
#
# Seeded random pairs of non-NaN binary64 data (uniform bit patterns, close pairs, same-binade pairs, halfway cases,
# subnormals, powers of two, huge values, both zeros, both infinities, and the full cross product of an edge list).
# For every pair CPython computes  x <= y, -x, x + y, x - y, x * y, x / y (ZeroDivisionError recorded), abs(x),
# math.sqrt(x) (ValueError recorded); the data are written as (sign, mantissa, exponent) triples read off the bit
# pattern (struct.pack) into generated files build/float_cases/cases_K.v, where vm_compute evaluates
# FloatCheck.bad_cases: Flocq's IEEE operations (raw level: sign of zero and NaN included) and the carrier-level
# operations of FloatArith on the canonical representatives (the normalised Python result inside the ok-domain,
# +0 outside; the ok-domain itself = "Python returns a non-NaN value and does not raise").  Expected output: [].
#
# usage: python harness/float_check.py [N] [SEED] [JOBS]
import math
import os
import random
import struct
import subprocess
import sys
from concurrent.futures import ThreadPoolExecutor

HERE = os.path.dirname(os.path.abspath(__file__))
ROOT = os.path.dirname(HERE)
OUT = os.path.join(ROOT, 'build', 'float_cases')
CHUNK = 5000
INF = float('inf')


def bits(x):
    return struct.unpack('<Q', struct.pack('<d', x))[0]


def of_bits(b):
    return struct.unpack('<d', struct.pack('<Q', b & (2**64 - 1)))[0]


def datum(x):
    if x != x:
        return 'DNan'
    b = bits(x)
    s = 'true' if b >> 63 else 'false'
    ex = (b >> 52) & 0x7ff
    fr = b & (2**52 - 1)
    if ex == 0x7ff:
        return '(DInf %s)' % s
    if ex == 0:
        if fr == 0:
            return '(DZero %s)' % s
        return '(DFin %s %d (%d))' % (s, fr, -1074)
    return '(DFin %s %d (%d))' % (s, fr | 2**52, ex - 1075)


def b(v):
    return 'true' if v else 'false'


EDGE = [0.0, -0.0, INF, -INF, 1.0, -1.0, 2.0, 0.5, 3.0, 0.1, -0.1, 1e308, -1e308, 1.7976931348623157e308,
        -1.7976931348623157e308, 5e-324, -5e-324, 2.2250738585072014e-308, 2.225073858507201e-308, -2.2250738585072014e-308,
        2.0**53, 2.0**53 + 2, 2.0**53 - 1, -2.0**53, 2.0**52 + 0.5, 1.0 + 2.0**-52, 1.0 - 2.0**-53, 0.25, 0.125,
        2.0**-537, 2.0**-538, 2.0**512, 2.0**511, 1.5 * 2.0**511, 4.0, 9.0, 2.0**1023, 2.0**-1022, 2.0**-1074 * 3, 1e-320, 1e16, 1e16 + 2]


def rnd_float(R):
    k = R.randrange(12)
    if k < 4:                      # uniform bit pattern
        while True:
            x = of_bits(R.getrandbits(64))
            if x == x:
                return x
    if k == 4:
        return R.choice(EDGE)
    if k == 5:                     # integer-valued, around 2^53
        return float(R.choice([-1, 1]) * (2**R.randrange(48, 56) + R.randrange(-4, 5)))
    if k == 6:                     # subnormal or tiny normal
        return of_bits((R.getrandbits(1) << 63) | (R.randrange(0, 3) << 52) | R.getrandbits(52))
    if k == 7:                     # huge
        return of_bits((R.getrandbits(1) << 63) | (R.randrange(0x7fc, 0x7ff) << 52) | R.getrandbits(52))
    if k == 8:                     # moderate magnitude
        return of_bits((R.getrandbits(1) << 63) | (R.randrange(1023 - 60, 1023 + 60) << 52) | R.getrandbits(52))
    if k == 9:                     # few significant bits
        return math.ldexp(R.randrange(-2**12, 2**12), R.randrange(-1080, 1010))
    if k == 10:                    # decimal literal
        return R.choice([-1, 1]) * R.randrange(0, 10**6) / 10**R.randrange(0, 8)
    return math.ldexp(R.choice([-1, 1]) * (2**52 + R.getrandbits(52)), R.randrange(-1100, 960))


def rnd_pair(R):
    x = rnd_float(R)
    k = R.randrange(10)
    if k < 4:
        return x, rnd_float(R)
    if x in (INF, -INF):
        return x, R.choice([x, -x, 0.0, 1.0])
    if k == 4:                     # neighbours
        y = of_bits(bits(x) + R.choice([-3, -2, -1, 0, 1, 2, 3]))
        return (x, y) if y == y else (x, x)
    if k == 5:                     # same binade, same or opposite sign
        y = of_bits((bits(x) & ~(2**52 - 1)) | R.getrandbits(52))
        return x, R.choice([y, -y])
    if k == 6:                     # exponents a few apart: alignment / halfway cases of + and -
        bx = bits(x)
        ex = (bx >> 52) & 0x7ff
        ey = min(0x7fe, max(0, ex + R.randrange(-56, 57)))
        fr = R.choice([0, 1, 2**51, 2**51 + 1, 2**52 - 1, R.getrandbits(52)])
        return x, of_bits((R.getrandbits(1) << 63) | (ey << 52) | fr)
    if k == 7:
        return x, R.choice([x, -x])
    if k == 8:                     # product / quotient near the overflow and underflow thresholds
        if x == 0.0:
            return x, rnd_float(R)
        t = R.choice([2.0**1023, 2.0**-1074, 2.0**-1022, 1.7976931348623157e308, 1.0])
        try:
            y = t / x * R.choice([1.0, 1.0 + 2.0**-52, 1.0 - 2.0**-53, 2.0, 0.5])
        except (OverflowError, ZeroDivisionError):
            y = 1.0
        return (x, y) if y == y else (x, 1.0)
    return x, R.choice(EDGE)


def obs(x, y, do_sqrt):
    try:
        q, qr = x / y, False
    except ZeroDivisionError:
        q, qr = float('nan'), True
    try:
        r, rr = math.sqrt(x), False
    except ValueError:
        r, rr = float('nan'), True
    return ('{| ox := %s; oy := %s; o_le := %s; o_neg := %s; o_add := %s; o_sub := %s; o_mul := %s; o_div := %s; '
            'o_div_raised := %s; o_abs := %s; o_sqrt := %s; o_sqrt_raised := %s; o_do_sqrt := %s |}'
            % (datum(x), datum(y), b(x <= y), datum(-x), datum(x + y), datum(x - y), datum(x * y), datum(q), b(qr),
               datum(abs(x)), datum(r), b(rr), b(do_sqrt)))


def run_chunk(k, cases):
    path = os.path.join(OUT, 'cases_%d.v' % k)
    with open(path, 'w') as f:
        f.write('From Coq Require Import ZArith List.\nFrom RV Require Import FloatArith FloatCheck.\nImport ListNotations.\n'
                'Local Open Scope Z_scope.\nDefinition cases : list obs := [\n')
        f.write(';\n'.join(cases))
        f.write('\n].\nEval vm_compute in (length cases, bad_cases cases).\n')
    p = subprocess.run(['coqc', '-Q', os.path.join(ROOT, 'coq', 'theories'), 'RV', path], cwd=OUT,
                       capture_output=True, text=True, timeout=3000)
    out = ' '.join((p.stdout + p.stderr).split())
    return k, p.returncode, out


def main():
    n = int(sys.argv[1]) if len(sys.argv) > 1 else 100000
    seed = int(sys.argv[2]) if len(sys.argv) > 2 else 20260926
    jobs = int(sys.argv[3]) if len(sys.argv) > 3 else 8
    R = random.Random(seed)
    os.makedirs(OUT, exist_ok=True)
    pairs = [(x, y) for x in EDGE for y in EDGE]
    while len(pairs) < n:
        pairs.append(rnd_pair(R))
    cases = [obs(x, y, i % 4 == 0 or i < len(EDGE) ** 2) for i, (x, y) in enumerate(pairs)]
    chunks = [cases[i:i + CHUNK] for i in range(0, len(cases), CHUNK)]
    fails = 0
    with ThreadPoolExecutor(max_workers=jobs) as ex:
        for k, rc, out in ex.map(lambda kc: run_chunk(*kc), list(enumerate(chunks))):
            want = '= (%d%%nat, [])' % len(chunks[k])
            ok = rc == 0 and ('= (%d, [])' % len(chunks[k]) in out or want in out)
            if not ok:
                fails += 1
                print('chunk %d: rc=%d %s' % (k, rc, out[:600]))
    zeros = sum(1 for x, y in pairs if x == 0.0 or y == 0.0)
    infs = sum(1 for x, y in pairs if x in (INF, -INF) or y in (INF, -INF))
    sub = sum(1 for x, y in pairs if 0 < abs(x) < 2.0**-1022 or 0 < abs(y) < 2.0**-1022)
    print('float_check: %d pairs (seed %d; %d with a zero, %d with an infinity, %d with a subnormal), %d chunks, %d failing chunks'
          % (len(pairs), seed, zeros, infs, sub, len(chunks), fails))
    sys.exit(1 if fails else 0)


if __name__ == '__main__':
    main()
