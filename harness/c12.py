# c12.py — C12: get_value(name) = robustness of the formula bound to that name
# evaluated as a stand-alone specification; get_value(variable) = supplied data.
import json
from harness import fml, shrink
from harness.common import parse_fields
from harness.runner import Check, need_vars, expect_vals
from harness.modular import gen_modular, modular_spec, inlined_spec


class C12(Check):
    PID = 'C12'
    SHRINK = False
    RULE = ('the modular programs of C09 (1-4 named sub-specifications, nested, repeated, with constants) plus a named sub-specification / variable directly below every bounded operator with a window longer than the trace; after offline evaluate() and after every online '
            'update() (pastified when the program has bounded-future operators) get_value of every assertion / sub-specification name is compared with a '
            'stand-alone specification of the inlined formula bound to that name (pastified too), and get_value of every declared variable, read by the formula or not, with the supplied data; '
            'also against rho; non-trivial = >= 2 names and a stateful named formula; distinct by (program, data)')

    def gen_cases(self, rng, tier):
        cases = gen_modular(rng, tier, 200, 3000)
        # a named sub-specification / a variable directly below every bounded operator whose window is longer than the trace (the evaluators pad
        # the operand there: the padding must not show in the value of the name or in the caller's data)
        P = ('pred', 'geq', ('var', 0), ('const', 1))
        for op in ('evt', 'alwt', 'oncet', 'histt', 'untilt', 'sincet'):
            for sub in (P, ('var', 0), ('a1', 'neg', ('var', 0))):
                for (b, e, n) in ((0, 6, 3), (2, 9, 4), (1, 1, 1)):
                    mk = (lambda r: (op, b, e, r)) if op in fml.TUN else (lambda r: (op, b, e, r, ('var', 1)))
                    cases.append({'f': mk(sub), 'n': n, 'nv': 2, 'cols': fml.gen_trace(rng, 2, n), 'times': list(range(n)),
                                  'subs': [['sp1', sub, sub]], 'main': mk(('ref', 'sp1')), 'consts': [], 'style': rng.choice(['add_sub_spec', 'one_text'])})
        return cases

    def load_case(self, c):
        c = Check.load_case(self, c)
        c['main'] = shrink.detuple(c['main'])
        c['subs'] = [[nm, shrink.detuple(b), shrink.detuple(s)] for nm, b, s in c['subs']]
        return c

    def names(self, c):
        return [(nm, shrink.detuple(s)) for (nm, b, s) in c['subs']] + [('out', c['f'])]

    def model_lines(self, c):
        w = fml.trace_sx(c['cols'])
        return ['(off std %s %d %s)' % (fml.to_sx(s), c['n'], w) for (nm, s) in self.names(c)]

    def online_ok(self, c):
        return not any(s[0] in fml.UNB_FUTURE for s in fml.subformulas(c['f']))

    def impl_cases(self, c):
        ms = modular_spec(c)
        data = {'time': c['times']}
        for i in range(c['nv']):
            data[fml.VARS[i]] = list(c['cols'][i])
        used = list(range(c['nv']))        # every declared variable is supplied, also those the formula does not read
        names = self.names(c)
        gv = [['get_value', nm] for (nm, s) in names] + [['get_value', fml.VARS[i]] for i in used]
        base = {'vars': fml.VARS[:c['nv']]}
        out = [dict(base, monitor='discrete-offline', calls=[['evaluate', data]] + gv, **ms)]
        past = fml.has_future(c['f'])
        if self.online_ok(c):
            calls = []
            for k in range(c['n']):
                calls.append(['update', k, [[fml.VARS[i], c['cols'][i][k]] for i in used]])
                calls += gv
            out.append(dict(base, monitor='discrete-online', pastify=past, calls=calls, **ms))
        # stand-alone specifications of every named formula
        for (nm, s) in names:
            su = fml.fvars(s)
            out.append(dict(base, monitor='discrete-offline', calls=[['evaluate', data]], **inlined_spec(c, s)))
            if self.online_ok(c):
                out.append(dict(base, monitor='discrete-online', pastify=past,
                                calls=[['update', k, [[fml.VARS[i], c['cols'][i][k]] for i in su]] for k in range(c['n'])], **inlined_spec(c, s)))
        return out

    def judge(self, c, mlines, ires):
        names = self.names(c)
        ms_ = [parse_fields(l) for l in mlines]
        if any('ERROR' in m for m in ms_):
            return 'model-error', mlines
        if any(m['EXACT'] != ['1'] for m in ms_):
            return 'dropped', None
        det = {'modular': modular_spec(c)}
        for i in ires:
            if i['setup']['status'] != 'ok':
                return 'violation', dict(det, expected='every specification evaluates', observed=i['setup'])
            for r in i['calls']:
                if r['status'] != 'ok':
                    return 'violation', dict(det, expected='every call returns', observed=r)
        used = list(range(c['nv']))
        on = self.online_ok(c)
        step = 2 if on else 1
        first_sa = 2 if on else 1
        off = ires[0]['calls']
        nn = len(names)
        for j, (nm, s) in enumerate(names):
            sa = ires[first_sa + step * j]
            want = [p[1] for p in sa['calls'][0]['value']]
            got = off[1 + j]['value']
            rho = json.loads(json.dumps(expect_vals([fml.parse_val(x) for x in ms_[j]['RHO']])))
            if got != want:
                return 'violation', dict(det, name=nm, expected={'stand-alone offline': want}, observed={'get_value offline': got})
            if want != rho:
                return 'violation', dict(det, name=nm, expected={'rho': rho}, observed={'stand-alone offline': want}, note='implementation differs from rho')
        for jj, i in enumerate(used):
            got = off[1 + nn + jj]['value']
            if got != c['cols'][i]:
                return 'violation', dict(det, name=fml.VARS[i], expected={'supplied data': c['cols'][i]}, observed={'get_value offline': got})
        if on:
            calls = ires[1]['calls']
            per = 1 + nn + len(used)
            for k in range(c['n']):
                blk = calls[k * per:(k + 1) * per]
                for j, (nm, s) in enumerate(names):
                    sa = ires[first_sa + step * j + 1]
                    want = sa['calls'][k]['value']
                    got = blk[1 + j]['value']
                    if got != want:
                        return 'violation', dict(det, name=nm, step=k, expected={'stand-alone online': want}, observed={'get_value online': got})
                for jj, i in enumerate(used):
                    got = blk[1 + nn + jj]['value']
                    if got != c['cols'][i][k]:
                        return 'violation', dict(det, name=fml.VARS[i], step=k, expected={'supplied value': c['cols'][i][k]}, observed={'get_value online': got})
        return 'ok', None

    def nontrivial(self, c):
        stateful = {'prev', 'sprev', 'once', 'hist', 'since', 'oncet', 'histt', 'sincet', 'rise', 'fall', 'evt', 'alwt', 'untilt', 'until', 'ev', 'alw', 'next', 'snext'}
        return len(c['subs']) >= 1 and any(fml.ops(shrink.detuple(s)) & stateful for (nm, b, s) in c['subs'])

    def features(self, c):
        return ['nsubs_%d' % len(c['subs']), c.get('style', ''), 'future' if fml.has_future(c['f']) else 'past']

    def key(self, c):
        return json.dumps([c['subs'], c['main'], c['cols']])

    def describe(self, c):
        return {'modular': modular_spec(c), 'names': [nm for nm, s in self.names(c)], 'data': c['cols']}


def main(tier, seed, replay=None):
    from harness import densex, forest
    return densex.extend(densex.extend(C12, densex.D12()), forest.DForest(), tag='forest')().main(tier, seed, replay)
