#!/usr/bin/env python3
# harness/denseofflinegen_ia_check.py [--n N] [--seed S] [--gen DenseOfflineIAGen.v] [--visitor PATH] [--module Lib.Mod] OUT.v
# Differential check of the GENERATED definitions (DenseOfflineIAGen.v) against the Python methods they were generated from: visitPredicate of
# the five classes of rtamt/semantics/iastl/dense_time/offline/ast_visitor.py, called on a visitor object whose visit() hands back prepared
# child results, with node objects that carry .operator, .out_vars, .in_vars (independently empty or not).
# Inputs from one seeded PRNG: signals of 0..12 samples with increasing integer stamps (mostly starting at 0, sometimes late, now and then
# equal / decreasing stamps), staircases with repeated values (so that the de-duplication and the flags matter), small ints, +-inf on the
# left operand only (the difference stays exact and is never NaN).
# Expected: the returned list (base class: the pair of lists), or None when the call raises or the result has a stamp inf / a NaN.
# The cases go into OUT.v as Booleans decided by vm_compute on the instance ExtZ.
import copy, importlib, importlib.util, random, re, sys, types

argv = sys.argv[1:]
def opt(name, default):
    if name in argv:
        i = argv.index(name); v = argv[i + 1]; del argv[i:i + 2]; return v
    return default
N, SEED, GEN = int(opt('--n', '800')), int(opt('--seed', '20260926')), opt('--gen', 'coq/theories/DenseOfflineIAGen.v')
MODULE = opt('--module', None)
VISITOR = opt('--visitor', None)
OUT = argv[0]
rnd = random.Random(SEED)
INF = float('inf')
gen_text = open(GEN).read()

if VISITOR:
    spec = importlib.util.spec_from_file_location('scratch_ia_visitor', VISITOR)
    mod = importlib.util.module_from_spec(spec); spec.loader.exec_module(mod)
else:
    mod = importlib.import_module('rtamt.semantics.iastl.dense_time.offline.ast_visitor')
from rtamt.semantics.enumerations.comp_oper import StlComparisonOperator as OP

CLASSES = {'gen_ia_visitPredicate': ('IAStlDenseTimeOfflineAstVisitor', None),
           'gen_ia_OutputRobustness_visitPredicate': ('IAStlOutputRobustnessDenseTimeOfflineAstVisitor', 'out_vars'),
           'gen_ia_InputRobustness_visitPredicate': ('IAStlInputRobustnessDenseTimeOfflineAstVisitor', 'in_vars'),
           'gen_ia_InputVacuity_visitPredicate': ('IAStlInputVacuityDenseTimeOfflineAstVisitor', 'in_vars'),
           'gen_ia_OutputVacuity_visitPredicate': ('IAStlOutputVacuityDenseTimeOfflineAstVisitor', 'out_vars')}
defs = re.findall(r'Definition (gen_ia_\w+) \{VS : Val\} \(AR : Arith VS\)', gen_text)
if sorted(defs) != sorted(CLASSES): sys.exit('unexpected definitions in %s: %s' % (GEN, defs))

def vis(cls):
    class Vis(getattr(mod, cls)):
        def __init__(self): pass
        def visit(self, node, *a, **k): return copy.deepcopy(node)
    return Vis()

def cz(x):
    if x == INF: return 'PosInf'
    if x == -INF: return 'NegInf'
    if isinstance(x, bool): raise ValueError
    if isinstance(x, float):
        if x != x or not x.is_integer(): raise ValueError
        x = int(x)
    return 'Fin (%d)' % x
def csig(l): return '[' + '; '.join('(%d, %s)' % (s[0], cz(s[1])) for s in l) + ']'
def cbsig(l):
    for s in l:
        if type(s[1]) is not bool: raise ValueError
    return '[' + '; '.join('(%d, %s)' % (s[0], 'true' if s[1] else 'false') for s in l) + ']'

def signal(side):
    x = rnd.random()
    n = 0 if x < 0.05 else 1 if x < 0.13 else rnd.randint(2, 6) if x < 0.8 else rnd.randint(6, 12)
    t = 0 if rnd.random() < 0.75 else rnd.randint(1, 4)
    st, vs = [], []
    cur = rnd.randint(-3, 3)
    for q in range(n):
        st.append(t)
        y = rnd.random()
        t += 0 if y < 0.03 else -1 if (y < 0.05 and t > 0) else rnd.randint(1, 4)
        if rnd.random() < 0.55: cur = rnd.randint(-3, 3)
        z = rnd.random()
        vs.append(INF if (side == 0 and z < 0.04) else -INF if (side == 0 and z < 0.08) else cur)
    return [[a, b] for a, b in zip(st, vs)]

CMP = {'LESS': 'CLt', 'LEQ': 'CLeq', 'EQ': 'CEq', 'NEQ': 'CNeq', 'GREATER': 'CGt', 'GEQ': 'CGeq'}
cases, none_count, outside, dropped, per, novars = [], 0, 0, 0, {}, 0
for name in defs:
    cls, attr = CLASSES[name]
    for _ in range(N):
        sigs = [signal(0), signal(1)]
        if rnd.random() < 0.3: sigs[1] = [[s[0], rnd.choice([s[1], s[1], 0])] if abs(s[1]) != INF else [s[0], 0] for s in sigs[0]]   # differences 0
        op = rnd.choice(list(OP))
        ov = rnd.choice([[], ['x'], ['x', 'y']]); iv = rnd.choice([[], ['u']])
        try:
            node = types.SimpleNamespace(children=copy.deepcopy(sigs), operator=op, out_vars=ov, in_vars=iv)
            r = copy.deepcopy(vis(cls).visitPredicate(node))
            bad = False
        except Exception:
            bad = True
        try:
            if bad: exp = 'None'; none_count += 1
            elif attr is None:
                if type(r) is not tuple or len(r) != 2: raise ValueError
                if any(s[0] == INF or s[1] != s[1] for s in r[0]) or any(s[0] == INF for s in r[1]): exp = 'None'; outside += 1
                else: exp = 'Some (%s, %s)' % (csig(r[0]), cbsig(r[1]))
            elif any(s[0] == INF or s[1] != s[1] for s in r): exp = 'None'; outside += 1
            else: exp = 'Some %s' % csig(r)
            args = [CMP[op.name]]
            if attr is not None:
                nv = not getattr(node, attr); novars += nv
                args.append('true' if nv else 'false')
            args += [csig(sigs[0]), csig(sigs[1])]
        except ValueError:
            dropped += 1; continue
        per[name] = per.get(name, 0) + 1
        cases.append((name, '%s (@%s ExtZVal ExtZArith %s) (%s)' % ('p_eqb' if attr is None else 'r_eqb', name, ' '.join(args), exp), exp))

with open(OUT, 'w') as f:
    f.write('(* GENERATED by harness/denseofflinegen_ia_check.py: %d cases (seed %d), %d expect None because the call raises, %d because the result\n'
            '   has a stamp inf / a NaN (outside the model), %d dropped (inexact) *)\n' % (len(cases), SEED, none_count, outside, dropped))
    f.write('From Coq Require Import List Bool ZArith.\nFrom RV Require Import Val Syntax PySem PyDense ExtZ Dense DenseMerge.\n'
            + ('From %s Require Import %s.\n' % tuple(MODULE.split('.')) if MODULE else 'From RV Require Import DenseOfflineIAGen.\n') + 'Import ListNotations.\n'
            'Local Open Scope Z_scope.\n'
            'Definition ez_eqb (a b : extz) : bool := match a, b with NegInf, NegInf | PosInf, PosInf => true | Fin x, Fin y => x =? y | _, _ => false end.\n'
            'Definition s_eqb (a b : Z * extz) : bool := (fst a =? fst b) && ez_eqb (snd a) (snd b).\n'
            'Definition b_eqb (a b : Z * bool) : bool := (fst a =? fst b) && Bool.eqb (snd a) (snd b).\n'
            'Fixpoint l_eqb {A} (e : A -> A -> bool) (a b : list A) : bool := match a, b with [], [] => true | x :: a, y :: b => e x y && l_eqb e a b | _, _ => false end.\n'
            'Definition r_eqb (a b : option (list (Z * extz))) : bool := match a, b with None, None => true | Some x, Some y => l_eqb s_eqb x y | _, _ => false end.\n'
            'Definition p_eqb (a b : option (list (Z * extz) * list (Z * bool))) : bool :=\n'
            '  match a, b with None, None => true | Some x, Some y => l_eqb s_eqb (fst x) (fst y) && l_eqb b_eqb (snd x) (snd y) | _, _ => false end.\n')
    CH = 60
    nch = (len(cases) + CH - 1) // CH
    for c in range(nch):
        part = list(enumerate(cases))[c * CH:(c + 1) * CH]
        f.write('Definition checks%d : list (nat * bool) := [\n' % c)
        f.write(';\n'.join('  (%d%%nat, %s)' % (k, cs_[1]) for k, cs_ in part))
        f.write('\n].\n')
    f.write('Definition failing : list nat := map fst (filter (fun c => negb (snd c)) (%s)).\n' % ' ++ '.join('checks%d' % c for c in range(nch)))
    f.write('Eval vm_compute in failing.\n'
            'Lemma denseofflinegen_ia_cases_agree : failing = []. Proof. vm_compute. reflexivity. Qed.\n')
with open(OUT + '.index', 'w') as f:
    for k, c in enumerate(cases): f.write('%d\t%s\n' % (k, c[1]))
print('cases %d raise %d outside %d dropped %d no_vars=true %d per-definition min %d (%d definitions)' % (len(cases), none_count, outside, dropped, novars, min(per.values()), len(per)))
