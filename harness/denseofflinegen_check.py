#!/usr/bin/env python3
# harness/denseofflinegen_check.py [--n N] [--seed S] [--gen DenseOfflineGen.v] [--visitor PATH] [--only REGEX] OUT.v
# Differential check of the GENERATED definitions (DenseOfflineGen.v) against the Python functions they were generated from:
# every module-level function of rtamt/semantics/stl/dense_time/offline/ast_visitor.py and every translated visitX method (called on a
# visitor object whose visit() hands back prepared child results and whose time_unit_transformer() hands back prepared bounds).
# Inputs from one seeded PRNG: signals of 0..6 samples with increasing integer stamps (mostly starting at 0, sometimes late), staircases,
# now and then equal / decreasing stamps; values small ints and +-inf where the arithmetic stays exact; bounds 0 <= b <= e (sometimes b > e).
# Expected: the returned list, or None when the call raises or when the returned list contains a stamp inf or a NaN (outside the model).
# The cases go into OUT.v as Booleans decided by vm_compute on the instance ExtZ.
import copy, importlib, importlib.util, random, re, sys, types, math

argv = sys.argv[1:]
def opt(name, default):
    if name in argv:
        i = argv.index(name); v = argv[i + 1]; del argv[i:i + 2]; return v
    return default
N, SEED, GEN = int(opt('--n', '140')), int(opt('--seed', '20260926')), opt('--gen', 'coq/theories/DenseOfflineGen.v')
MODULE = opt('--module', None)        # logical name of the compiled --gen file when it is not RV.DenseOfflineGen
ONLY = opt('--only', None)               # only the generated functions whose Python name matches the regular expression
VISITOR = opt('--visitor', None)          # a (scratch, modified) copy of ast_visitor.py instead of the installed module
OUT = argv[0]
rnd = random.Random(SEED)
INF = float('inf')
gen_text = open(GEN).read()

if VISITOR:
    spec = importlib.util.spec_from_file_location('scratch_visitor', VISITOR)
    mod = importlib.util.module_from_spec(spec); spec.loader.exec_module(mod)
else:
    mod = importlib.import_module('rtamt.semantics.stl.dense_time.offline.ast_visitor')
from rtamt.semantics.enumerations.comp_oper import StlComparisonOperator as OP

class Vis(mod.StlDenseTimeOfflineAstVisitor):
    def __init__(self): pass
    def visit(self, node, *a, **k): return copy.deepcopy(node)
    def time_unit_transformer(self, node): return node.b, node.e

# the generated definitions and their argument lists
defs = []
for m in re.finditer(r'Definition (gen_(?!m_)\w+) \{VS : Val\} \(AR : Arith VS\)((?: \(\w+ : \w+\))*) : option dsig', gen_text):
    args = re.findall(r'\((\w+) : (\w+)\)', m.group(2))
    defs.append((m.group(1), [a[1] for a in args]))

def cz(x):
    if x == INF: return 'PosInf'
    if x == -INF: return 'NegInf'
    if isinstance(x, bool): raise ValueError
    if isinstance(x, float):
        if x != x or not x.is_integer(): raise ValueError
        x = int(x)
    return 'Fin (%d)' % x
def csig(l): return '[' + '; '.join('(%d, %s)' % (s[0], cz(s[1])) for s in l) + ']'

FIN = {'visitIff', 'visitXor', 'visitAddition', 'visitSubtraction', 'visitMultiplication', 'visitAbs', 'visitNegate', 'visitPredicate', 'subtraction_operation'}
def values(X, side, n):
    if X == 'visitDivision': return [2 * rnd.randint(-4, 4) for _ in range(n)] if side == 0 else [rnd.choice([1, -1, 2, -2]) for _ in range(n)]
    if X == 'visitPow': return [rnd.randint(-3, 3) for _ in range(n)] if side == 0 else [rnd.randint(0, 3) for _ in range(n)]
    if X == 'visitLog': return [1] * n if side == 0 else [rnd.randint(2, 5) for _ in range(n)]
    if X == 'visitSqrt': return [rnd.choice([0, 1, 4, 9, 16, INF, 1, 4] + ([-1] if rnd.random() < 0.2 else [])) for _ in range(n)]
    if X == 'visitExp': return [rnd.choice([0, INF, -INF]) for _ in range(n)]
    if X == 'visitLn': return [rnd.choice([1, INF, 1, 1, 1] + ([0, -2, -INF] if rnd.random() < 0.2 else [])) for _ in range(n)]
    def v():
        x = rnd.random()
        if X in FIN: return rnd.randint(-3, 3)
        return INF if x < 0.06 else -INF if x < 0.12 else rnd.randint(-3, 3)
    return [v() for _ in range(n)]

def signal(X, side):
    x = rnd.random()
    n = 0 if x < 0.06 else 1 if x < 0.16 else rnd.randint(2, 6) if x < 0.8 else rnd.randint(6, 12)
    t = 0 if rnd.random() < 0.75 else rnd.randint(1, 4)
    st = []
    for q in range(n):
        st.append(t)
        y = rnd.random()
        t += 0 if y < 0.03 else -1 if (y < 0.05 and t > 0) else rnd.randint(1, 4)
    return [[a, b] for a, b in zip(st, values(X, side, n))]

def bounds():
    b = rnd.choice([0, 0, 1, 2, 3, 5]); e = b + rnd.choice([0, 1, 2, 4, 9])
    if rnd.random() < 0.04: b, e = e + 1, b
    return b, e

cases, none_count, outside, dropped, per = [], 0, 0, 0, {}
for name, tys in defs:
    X = name[4:]
    if ONLY and not re.search(ONLY, X): continue
    if not tys: continue                        # visitRise ... : None, by reflexivity in the Coq proof
    for _ in range(N):
        sigs = [signal(X, k) for k in range(tys.count('dsig'))]
        b, e = bounds()
        op = rnd.choice(list(OP))
        try:
            if X.startswith('visit'):
                node = types.SimpleNamespace(children=copy.deepcopy(sigs), b=b, e=e, operator=op)
                r = getattr(Vis(), X)(node)
            else:
                r = getattr(mod, X)(*(copy.deepcopy(sigs) + ([b, e] if 'Z' in tys else [])))
            r = copy.deepcopy(r)
            bad = False
        except Exception:
            bad = True
        try:
            if bad: exp = 'None'; none_count += 1
            elif any(s[0] == INF or s[1] != s[1] for s in r): exp = 'None'; outside += 1
            else: exp = 'Some %s' % csig(r)
            args = []
            k = 0
            for ty in tys:
                if ty == 'cmp': args.append({'LESS': 'CLt', 'LEQ': 'CLeq', 'EQ': 'CEq', 'NEQ': 'CNeq', 'GREATER': 'CGt', 'GEQ': 'CGeq'}[op.name])
                elif ty == 'dsig': args.append(csig(sigs[k])); k += 1
            if 'Z' in tys: args += ['(%d)' % b, '(%d)' % e]
        except ValueError:
            dropped += 1; continue
        per[X] = per.get(X, 0) + 1
        cases.append((X, '@%s ExtZVal ExtZArith %s' % (name, ' '.join(args)), exp))

with open(OUT, 'w') as f:
    f.write('(* GENERATED by harness/denseofflinegen_check.py: %d cases (seed %d), %d expect None because the call raises, %d because the result\n'
            '   has a stamp inf / a NaN (outside the model), %d dropped (inexact) *)\n' % (len(cases), SEED, none_count, outside, dropped))
    f.write('From Coq Require Import List Bool ZArith.\nFrom RV Require Import Val Syntax PySem PyDense ExtZ Dense DenseMerge.\n' + ('From %s Require Import %s.\n' % tuple(MODULE.split('.')) if MODULE else 'From RV Require Import DenseOfflineGen.\n') + 'Import ListNotations.\n'
            'Local Open Scope Z_scope.\n'
            'Definition ez_eqb (a b : extz) : bool := match a, b with NegInf, NegInf | PosInf, PosInf => true | Fin x, Fin y => x =? y | _, _ => false end.\n'
            'Definition s_eqb (a b : Z * extz) : bool := (fst a =? fst b) && ez_eqb (snd a) (snd b).\n'
            'Fixpoint l_eqb {A} (e : A -> A -> bool) (a b : list A) : bool := match a, b with [], [] => true | x :: a, y :: b => e x y && l_eqb e a b | _, _ => false end.\n'
            'Definition r_eqb (a b : option (list (Z * extz))) : bool := match a, b with None, None => true | Some x, Some y => l_eqb s_eqb x y | _, _ => false end.\n')
    CH = 60
    nch = (len(cases) + CH - 1) // CH
    for c in range(nch):
        part = list(enumerate(cases))[c * CH:(c + 1) * CH]
        f.write('Definition checks%d : list (nat * bool) := [\n' % c)
        f.write(';\n'.join('  (%d%%nat, r_eqb (%s) (%s))' % (k, cs_[1], cs_[2]) for k, cs_ in part))
        f.write('\n].\n')
    f.write('Definition failing : list nat := map fst (filter (fun c => negb (snd c)) (%s)).\n' % ' ++ '.join('checks%d' % c for c in range(nch)))
    f.write('Eval vm_compute in failing.\n'
            'Lemma denseofflinegen_cases_agree : failing = []. Proof. vm_compute. reflexivity. Qed.\n')
with open(OUT + '.index', 'w') as f:
    for k, c in enumerate(cases): f.write('%d\t%s\t%s\n' % (k, c[1], c[2]))
print('cases %d raise %d outside %d dropped %d per-function min %d (%d functions)' % (len(cases), none_count, outside, dropped, min(per.values()), len(per)))
