# c13.py — C13: sampling_violation_counter = number of consecutive gaps outside
# [P(1-tol), P(1+tol)], P in the unit of the time-stamps (the default unit);
# robustness values are not affected by the jitter.
import json
from fractions import Fraction
from harness import fml
from harness.common import parse_fields
from harness.runner import Check, need_vars, expect_vals

U = {'s': 10**9, 'ms': 10**6, 'us': 10**3, 'ns': 1}


def count_bad(P, tol, ts):
    n = 0
    for a, b in zip(ts, ts[1:]):
        g = Fraction(b) - Fraction(a)
        if g < P - P * tol or g > P + P * tol:
            n += 1
    return n


class C13(Check):
    PID = 'C13'
    SHRINK = False
    RULE = ('time-stamp sequences of length 1..60 with dyadic jitter around the period (gaps exactly at both tolerance ends included), periods and units '
            'from {1s, 500ms, 250ms, 2s, 4000us, ...}, default unit s/ms/us, dyadic tolerances in [0,1]; online (one update per stamp) and offline (time column), '
            'decimal periods / tolerances with the period in a larger unit than the integer time-stamps and gaps exactly on the tolerance interval; dedicated and combined specification objects, offline objects that already evaluated another badly sampled data set; objects used once under another default unit whose spec.unit is then changed (no new set_sampling_period); counter compared with the count of out-of-tolerance gaps computed exactly; values compared with a '
            'run on perfectly periodic stamps; non-trivial = at least one gap out of tolerance and one inside; distinct by (stamps, period, unit, tolerance)')

    def gen_cases(self, rng, tier):
        cases = []
        nrand = 400 if tier == 'quick' else 6000
        periods = [(1, 's'), (500, 'ms'), (250, 'ms'), (2, 's'), (4000, 'us'), (1, 'ms'), (2000000, 'ns'), (8, 's')]
        tols = [Fraction(0), Fraction(1, 8), Fraction(1, 4), Fraction(1, 2), Fraction(1), Fraction(1, 16)]
        f = ('once', ('pred', 'geq', ('var', 0), ('const', 1)))
        for i in range(nrand):
            p, pu = rng.choice(periods)
            du = rng.choice(['s', 'ms', 'us', 's'])
            tol = rng.choice(tols)
            P = Fraction(p * U[pu], U[du])          # the period in time-stamp (default) units
            n = rng.choice([1, 1, 2, 3, 5, 8, 13, 25, 60])
            t = Fraction(rng.choice([0, 0, 3, 100]))
            ts = [t]
            for k in range(n - 1):
                r = rng.random()
                if r < 0.45:
                    g = P
                elif r < 0.6:
                    g = P * (1 + tol * rng.choice([-1, 1]))                  # exactly at the end of the tolerance interval
                elif r < 0.8:
                    g = P * (1 + tol * rng.choice([-1, 1]) + rng.choice([-1, 1]) * Fraction(1, 64))   # just outside / inside
                else:
                    g = P * rng.choice([Fraction(1, 2), 2, Fraction(3, 2), 3, Fraction(1, 4)])
                if g <= 0:
                    g = P
                ts.append(ts[-1] + g)
            # keep everything exactly representable as a float
            ok = all((x.denominator & (x.denominator - 1)) == 0 and x.denominator < 2**20 and abs(x.numerator) < 2**40 for x in ts)
            ok = ok and (Fraction(p * float(tol)) == p * tol)
            if not ok:
                continue
            cols = fml.gen_trace(rng, 1, n)
            mon = rng.choice(['online', 'offline'])
            # an offline object that has already evaluated another (badly sampled) data set: the counter reports on the data set just supplied
            prior = None
            if mon == 'offline' and rng.random() < 0.4:
                m = rng.choice([2, 3, 4])
                prior = {'time': [float(k * P * rng.choice([1, 2, 4])) if (k * P * 4).denominator == 1 else float(k) for k in range(m)], 'xa': fml.gen_trace(rng, 1, m)[0]}
            cases.append({'f': f, 'n': n, 'nv': 1, 'cols': cols, 'ts': [float(x) for x in ts], 'period': [p, pu, float(tol)], 'unit': du, 'prior': prior,
                          'expected': count_bad(P, tol, ts), 'ngaps': n - 1, 'mon': mon, 'ctor': rng.choice(['split', 'combined'])})
        # decimal periods and tolerances with the period written in a larger unit than the time-stamps: integer time-stamps whose gaps lie
        # exactly on the closed tolerance interval (inside) or one time-stamp unit beyond it (outside)
        dec = [((0.01, 's'), 'ms', 0.1), ((7, 's'), 'ms', 0.9), ((3, 's'), 'ms', 0.78), ((0.5, 'ms'), 'us', 0.2), ((0.02, 's'), 'ms', 0.15), ((2, 'ms'), 'us', 0.3), ((0.1, 's'), 'ms', 0.05)]
        for k in range(len(dec) * (3 if tier == 'quick' else 40)):
            (p, pu), du, tol = dec[k % len(dec)]
            P = Fraction(str(p)) * U[pu] / U[du]
            T = Fraction(str(tol))
            lo, hi = P - P * T, P + P * T
            if lo.denominator != 1 or hi.denominator != 1:
                continue
            n = rng.choice([3, 4, 6, 9])
            ts = [Fraction(rng.choice([0, 5, 1000]))]
            for _ in range(n - 1):
                ts.append(ts[-1] + rng.choice([lo, hi, lo, hi, P, lo - 1, hi + 1, lo + 1, hi - 1]))
            cols = fml.gen_trace(rng, 1, n)
            cases.append({'f': f, 'n': n, 'nv': 1, 'cols': cols, 'ts': [int(x) for x in ts], 'period': [p, pu, tol], 'unit': du, 'prior': None, 'decimal': 1,
                          'expected': count_bad(P, T, ts), 'ngaps': n - 1, 'mon': rng.choice(['online', 'offline']), 'ctor': rng.choice(['split', 'combined'])})
        # decimal time-stamps (seconds with two decimals) whose gaps lie exactly on the tolerance interval: 0.52 - 0.41 is not 0.11 in floats
        for k in range(12 if tier == 'quick' else 200):
            p, pu, du, tol = rng.choice([(100, 'ms', 's', 0.1), (0.1, 's', 's', 0.1), (200, 'ms', 's', 0.05), (50, 'ms', 's', 0.2)])
            P = Fraction(str(p)) * U[pu] / U[du]
            T = Fraction(str(tol))
            lo, hi = P - P * T, P + P * T
            n = rng.choice([4, 6, 9])
            ts = [Fraction(rng.choice([0, 0, 3]))]
            for _ in range(n - 1):
                ts.append(ts[-1] + rng.choice([lo, hi, lo, hi, P, lo - Fraction(1, 100), hi + Fraction(1, 100)]))
            cols = fml.gen_trace(rng, 1, n)
            cases.append({'f': f, 'n': n, 'nv': 1, 'cols': cols, 'ts': [float(x) for x in ts], 'period': [p, pu, tol], 'unit': du, 'prior': None, 'decimal': 2,
                          'expected': count_bad(P, T, ts), 'ngaps': n - 1, 'mon': rng.choice(['online', 'offline']), 'ctor': rng.choice(['split', 'combined'])})
        # an object that is used once under another default unit (an evaluate() / two update()s and a reset(), so that a gap has been judged), whose
        # default unit is then changed (spec.unit = ..) without set_sampling_period being called again: "the period in the unit of the time-stamps"
        # is the unit the object has when the time-stamps are supplied (seeded change C13_A5: a period converted once and cached)
        extra = []
        for c in cases:
            if c['n'] >= 2 and not c.get('prior') and rng.random() < 0.3:
                u0 = rng.choice([u for u in ['s', 'ms', 'us'] if u != c['unit']])
                extra.append(dict(c, unit0=u0))
        return cases + extra

    def model_lines(self, c):
        P = Fraction(str(c['period'][0])) * U[c['period'][1]] / U[c['unit']]
        q = lambda x: '%d %d' % (Fraction(x).numerator, Fraction(x).denominator)
        tol = Fraction(str(c['period'][2])) if c.get('decimal') else Fraction(c['period'][2])
        stamp = (lambda x: Fraction(str(x))) if c.get('decimal') == 2 else Fraction
        return ['(jitter (%s) (%s) (%s))' % (q(P), q(tol), ' '.join('(%s)' % q(stamp(x)) for x in c['ts']))]

    def impl_cases(self, c):
        base = {'vars': ['xa'], 'spec': 'out = ' + fml.to_text(c['f']), 'unit': c['unit'], 'period': c['period'], 'ctor': c['ctor']}
        n = c['n']
        sw = [['set_unit', c['unit']]] if c.get('unit0') else []
        if c['mon'] == 'online':
            pre = [['update', 0.0, [['xa', 0.0]]], ['update', 3.0, [['xa', 1.0]]], ['reset']] if sw else []
            a = dict(base, monitor='discrete-online', calls=pre + sw + [['update', c['ts'][k], [['xa', c['cols'][0][k]]]] for k in range(n)] + [['counter']])
            b = dict(base, monitor='discrete-online', calls=[['update', k * 1.0, [['xa', c['cols'][0][k]]]] for k in range(n)] + [['counter']])
        else:
            pre = [['evaluate', c['prior']]] if c.get('prior') else []
            if sw:
                pre = [['evaluate', {'time': [0.0, 3.0, 4.0], 'xa': [0.0, 1.0, 0.0]}]] + sw
            a = dict(base, monitor='discrete-offline', calls=pre + [['evaluate', {'time': c['ts'], 'xa': c['cols'][0]}], ['counter']])
            b = dict(base, monitor='discrete-offline', calls=[['evaluate', {'time': [k * 1.0 for k in range(n)], 'xa': c['cols'][0]}], ['counter']])
        if sw:
            a['unit'] = c['unit0']
        return [a, b]

    def judge(self, c, mlines, ires):
        m = parse_fields(mlines[0])
        if 'ERROR' in m:
            return 'model-error', mlines
        model_cnt = int(m['COUNT'][0])
        spec_cnt = int(m['SPEC'][0])
        det = {'period': c['period'], 'unit': c['unit'], 'monitor': c['mon'], 'ctor': c['ctor'], 'stamps': c['ts'], 'evaluated_before': c.get('prior'), 'default_unit_during_an_earlier_use': c.get('unit0'),
               'expected': {'source': 'number of gaps outside [P(1-tol), P(1+tol)], P in time-stamp units', 'counter': c['expected']}}
        a, b = ires
        for i in (a, b):
            if i['setup']['status'] != 'ok':
                return 'violation', dict(det, observed=i['setup'])
            for r in i['calls']:
                if r['status'] != 'ok':
                    return 'violation', dict(det, observed=r)
        cnt = a['calls'][-1]['value']
        if cnt != c['expected']:
            return 'violation', dict(det, observed={'counter': cnt})
        va = [r['value'] for r in a['calls'][:-1]]
        if c.get('unit0') and c['mon'] == 'online':
            va = va[4:]      # the two updates, the reset and the unit change that precede the run
        vb = [r['value'] for r in b['calls'][:-1]]
        if c['mon'] == 'offline':
            va = [p[1] for p in va[-1]]
            vb = [p[1] for p in vb[0]]
        if va != vb:
            return 'violation', dict(det, expected='values independent of the time-stamps', observed={'jittered': va, 'periodic': vb})
        if spec_cnt != c['expected'] or model_cnt != c['expected']:
            return 'model-vs-spec', dict(det, model=model_cnt, spec=spec_cnt)
        return 'ok', None

    def nontrivial(self, c):
        return 0 < c['expected'] < c['ngaps']

    def features(self, c):
        return ['unit_' + c['unit'], 'punit_' + c['period'][1], c['mon'], c['ctor'], 'tol_%s' % c['period'][2], 'n1' if c['n'] == 1 else 'n>1'] + (['second_evaluate'] if c.get('prior') else []) + (['unit_changed_between_uses'] if c.get('unit0') else []) + (['decimal_boundary'] if c.get('decimal') == 1 else []) + (['decimal_stamps'] if c.get('decimal') == 2 else [])

    def key(self, c):
        return json.dumps([c['ts'], c['period'], c['unit'], c['mon'], c['ctor'], c.get('prior'), c.get('unit0')])

    def describe(self, c):
        return {'stamps': c['ts'], 'period': c['period'], 'unit': c['unit'], 'monitor': c['mon'], 'expected_counter': c['expected']}

    def signature(self, c, detail):
        return {'mon': c['mon'], 'ctor': c['ctor'], 'unit_eq': c['unit'] == c['period'][1], 'ops': [], 'second_evaluate': bool(c.get('prior')), 'unit_changed': bool(c.get('unit0'))}


def main(tier, seed, replay=None):
    return C13().main(tier, seed, replay)
