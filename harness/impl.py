# impl.py — drives the real rtamt (from /repo's working tree) through its public
# API on a "case" and returns canonical outcomes.  A case is a JSON-able dict; it
# is also the replay format.
import os
import sys
import math
import copy
import logging

REPO = os.environ.get('RTAMT_REPO', '/repo')
sys.path.insert(0, os.path.join(os.path.dirname(os.path.abspath(__file__)), 'pdmods'))      # the modules the import oracle describes
if REPO not in sys.path:
    sys.path.insert(0, REPO)
logging.disable(logging.CRITICAL)

import rtamt  # noqa: E402
from rtamt.exception.exception import RTAMTException  # noqa: E402

assert os.path.realpath(rtamt.__file__).startswith(os.path.realpath(REPO)), rtamt.__file__


def _semantics(name):
    S = rtamt.Semantics
    return {'standard': S.STANDARD, 'output-robustness': S.OUTPUT_ROBUSTNESS,
            'input-robustness': S.INPUT_ROBUSTNESS, 'output-vacuity': S.OUTPUT_VACUITY,
            'input-vacuity': S.INPUT_VACUITY}[name]


def make_spec(case):
    mon = case['monitor']
    sem = case.get('semantics', 'standard')
    if mon in ('discrete-offline', 'discrete-online', 'discrete'):
        if case.get('ctor') == 'split':
            if sem != 'standard':
                import rtamt.spec.iastl.discrete_time.specification as ia
                nm = {'output-robustness': 'OutputRobustness', 'input-robustness': 'InputRobustness',
                      'output-vacuity': 'OutputVacuity', 'input-vacuity': 'InputVacuity'}[sem]
                kind = 'Offline' if mon == 'discrete-offline' else 'Online'
                spec = getattr(ia, 'IAStl%sDiscreteTime%sSpecification' % (nm, kind))()
            elif mon == 'discrete-offline':
                spec = rtamt.StlDiscreteTimeOfflineSpecification()
            else:
                spec = rtamt.StlDiscreteTimeOnlineSpecification()
        else:
            spec = rtamt.StlDiscreteTimeSpecification(semantics=_semantics(sem))
    elif mon in ('dense-offline', 'dense-online', 'dense'):
        if case.get('ctor') == 'split':
            if sem != 'standard':
                import rtamt.spec.iastl.dense_time.specification as ia
                nm = {'output-robustness': 'OutputRobustness', 'input-robustness': 'InputRobustness',
                      'output-vacuity': 'OutputVacuity', 'input-vacuity': 'InputVacuity'}[sem]
                kind = 'Offline' if mon == 'dense-offline' else 'Online'
                spec = getattr(ia, 'IAStl%sDenseTime%sSpecification' % (nm, kind))()
            elif mon == 'dense-offline':
                spec = rtamt.StlDenseTimeOfflineSpecification()
            else:
                spec = rtamt.StlDenseTimeOnlineSpecification()
        else:
            spec = rtamt.StlDenseTimeSpecification(semantics=_semantics(sem))
    elif mon == 'ltl-discrete':
        # the LTL front end (parser + pastifier) behind the generic specification class
        from rtamt.syntax.ast.parser.ltl.specification_parser import LtlAst
        from rtamt.pastifier.ltl.pastifier import LtlPastifier
        from rtamt.spec.abstract_specification import AbstractOfflineOnlineSpecification
        from rtamt.semantics.stl.discrete_time.offline.interpreter import StlDiscreteTimeOfflineInterpreter
        from rtamt.semantics.stl.discrete_time.online.interpreter import StlDiscreteTimeOnlineInterpreter
        spec = AbstractOfflineOnlineSpecification(LtlAst(), StlDiscreteTimeOfflineInterpreter(), StlDiscreteTimeOnlineInterpreter(),
                                                  pastifier=LtlPastifier())
    else:
        raise ValueError(mon)
    return spec


def canon_val(v):
    """floats -> JSON-able exact representation"""
    if isinstance(v, bool):
        return v
    if isinstance(v, int):
        return v        # (exact whatever its size: integer time-stamps beyond 2**53)
    if isinstance(v, (int, float)):
        if v != v:
            return 'nan'
        if v == math.inf:
            return 'inf'
        if v == -math.inf:
            return '-inf'
        if float(v) == int(v):
            return int(v)
        return float(v)
    if isinstance(v, (list, tuple)):
        return [canon_val(x) for x in v]
    if v is None:
        return None
    if isinstance(v, dict):
        return {str(k): canon_val(x) for k, x in v.items()}
    return repr(v)


def classify(exc):
    if type(exc).__name__ == '_Timeout':
        raise exc
    if isinstance(exc, RTAMTException):
        return {'status': 'rtamt', 'msg': str(exc)[:200]}
    return {'status': 'crash', 'kind': type(exc).__name__, 'msg': str(exc)[:200]}


def wrap_objects(case, call):
    """the values supplied for object-typed variables become Msg objects (field 'value')"""
    from harness.msgs import Msg
    ov = set(case['objvars'])
    kind = call[0]
    dense = case['monitor'].startswith('dense')
    if kind in ('evaluate', 'update') and dense:
        return [kind, [[nm, [[t, Msg(float(v), float(v))] for t, v in smp] if nm in ov else smp] for nm, smp in call[1]]]
    if kind == 'evaluate':
        return [kind, {k: ([Msg(float(v), float(v)) for v in col] if k in ov else col) for k, col in call[1].items()}]
    if kind == 'update':
        return [kind, call[1], [[nm, Msg(float(v), float(v)) if nm in ov else v] for nm, v in call[2]]]
    return call



def _timed_nodes(node, out):
    """the temporal nodes with an interval, in the order the visitors convert their bounds (operands first)"""
    from rtamt.syntax.node.binary_node import BinaryNode
    name = type(node).__name__
    n = 2 if isinstance(node, BinaryNode) else (0 if name in ('Variable', 'Constant') else 1)
    for ch in node.children[:n]:
        _timed_nodes(ch, out)
    if name.startswith('Timed'):
        out.append(node)


def bounds_log(spec, case, call):
    """['bounds_log']: the first use wraps time_unit_transformer of the interpreter object(s) of THIS specification by a logger
    (an instance attribute: nothing global, nothing in the repository changes); a later use returns what the following calls
    made it return: {'log': [[begin, end, type(begin), type(end)] ...] with the numbers as exact texts, 'fail': class of the first
    exception it raised, or None}.  ['bounds_log', 'direct']: the (wrapped) method is called on the temporal nodes of the first
    assertion in visiting order instead (bounds of ~2**63 samples, whose operators cannot be allocated)."""
    from fractions import Fraction
    st = getattr(spec, '_verif_bounds_log', None)
    if st is None:
        st = {'log': [], 'fail': None}
        spec._verif_bounds_log = st
        for nm in ('offline_interpreter', 'online_interpreter'):
            interp = getattr(spec, nm, None)
            if interp is None or not hasattr(interp, 'time_unit_transformer'):
                continue

            def wrap(node, orig=interp.time_unit_transformer, st=st):
                try:
                    r = orig(node)
                except BaseException as exc:  # noqa
                    if st['fail'] is None:
                        c = classify(exc)
                        st['fail'] = 'rtamt' if c['status'] == 'rtamt' else 'crash:' + c.get('kind', '?')
                    raise
                if st['fail'] is None:
                    b, e = r
                    st['log'].append([str(Fraction(b)), str(Fraction(e)), type(b).__name__, type(e).__name__])
                return r
            interp.time_unit_transformer = wrap
        if len(call) < 2:
            return {'status': 'ok', 'value': None}
    if len(call) > 1 and call[1] == 'direct':
        from rtamt.semantics.abstract_interpreter import AbstractInterpreter
        nm = 'offline_interpreter' if case['monitor'].endswith('offline') and hasattr(spec, 'offline_interpreter') else 'online_interpreter'
        interp = getattr(spec, nm)
        AbstractInterpreter.set_ast(interp, spec.ast)        # (only records the AST: no operator is built)
        nodes = []
        _timed_nodes(spec.ast.specs[0], nodes)
        try:
            for n in nodes:
                interp.time_unit_transformer(n)
        except Exception:  # noqa
            pass
    return {'status': 'ok', 'value': {'log': [list(x) for x in st['log']], 'fail': st['fail']}}


def run_case(case):
    """Returns {'setup': outcome, 'calls': [outcome...], 'args_after': [...]}.
    An outcome is {'status':'ok','value':...} | {'status':'rtamt'} | {'status':'crash','kind':...}."""
    out = {'setup': None, 'calls': []}
    if case['monitor'] == 'dense-merge':
        # the 13-case merge called directly: intersection(a, b, method)
        import rtamt.semantics.stl.dense_time.offline.intersection as isect
        method = {'and': isect.conjunction, 'or': isect.disjunction, 'sub': isect.subtraction, 'add': isect.addition}[case['op']]
        out['setup'] = {'status': 'ok', 'value': None}
        try:
            a = [list(x) for x in case['a']]
            b = [list(x) for x in case['b']]
            res = isect.intersection(a, b, method)
            out['calls'].append({'status': 'ok', 'value': canon_val(res[0])})
        except BaseException as exc:  # noqa
            out['calls'].append(classify(exc))
        return out
    if case['monitor'] == 'dense-online-op':
        # update() of a unary / fold / since / bounded-window online operation fed batch by batch
        import importlib
        inf = float('inf')
        conv = lambda l: [[inf if t == 'inf' else t, inf if v == 'inf' else (-inf if v == '-inf' else v)] for t, v in l]
        out['setup'] = {'status': 'ok', 'value': None}
        try:
            modname, cls = {'once': ('stl.dense_time.online.once_operation', 'OnceOperation'), 'hist': ('stl.dense_time.online.historically_operation', 'HistoricallyOperation'),
                            'not': ('stl.dense_time.online.not_operation', 'NotOperation'), 'abs': ('arithmetic.dense_time.online.abs_operation', 'AbsOperation'),
                            'neg': ('arithmetic.dense_time.online.negate_operation', 'NegateOperation'), 'sqrt': ('arithmetic.dense_time.online.sqrt_operation', 'SqrtOperation'),
                            'since': ('stl.dense_time.online.since_operation', 'SinceOperation'), 'once_timed': ('stl.dense_time.online.once_timed_operation', 'OnceTimedOperation'),
                            'hist_timed': ('stl.dense_time.online.historically_timed_operation', 'HistoricallyTimedOperation')}[case['op']]
            klass = getattr(importlib.import_module('rtamt.semantics.' + modname), cls)
            op = klass(case['a'], case['b']) if case['op'].endswith('_timed') else klass()
            for b in case['batches']:
                if case['op'] == 'since':
                    r = op.update(conv(b[0]), conv(b[1]))
                else:
                    r = op.update(conv(b))
                out['calls'].append({'status': 'ok', 'value': canon_val(r)})
            if case['op'] in ('once', 'hist'):
                fin = [op.prev]
            elif case['op'] == 'since':
                fin = [op.sample_left_buf, op.sample_right_buf, op.prev, op.last]
            elif case['op'].endswith('_timed'):
                fin = [[list(x) for x in op.prev], op.residual_start, bool(op.started)]
            else:
                fin = []
            out['calls'].append({'status': 'ok', 'value': canon_val(fin)})
        except Exception as exc:  # noqa
            out['calls'].append(classify(exc))
        return out
    if case['monitor'] in ('dense-online-merge', 'dense-online-binop'):
        # the online merge called directly, and the update() wrapper of a binary online operation fed batch by batch
        import rtamt.semantics.stl.dense_time.online.intersection as oi
        inf = float('inf')
        conv = lambda l: [[inf if t == 'inf' else t, inf if v == 'inf' else (-inf if v == '-inf' else v)] for t, v in l]
        out['setup'] = {'status': 'ok', 'value': None}
        try:
            if case['monitor'] == 'dense-online-merge':
                method = {'and': oi.conjunction, 'or': oi.disjunction, 'implies': oi.implication, 'iff': oi.iff, 'xor': oi.xor,
                          'add': oi.addition, 'sub': oi.subtraction, 'mul': oi.multiplication, 'div': oi.division, 'pow': oi.power}[case['op']]
                r = oi.intersection(conv(case['a']), conv(case['b']), method)
                out['calls'].append({'status': 'ok', 'value': canon_val([r[0], r[1], r[2], r[3]])})
            else:
                import importlib
                modname, cls = {'and': ('stl.dense_time.online.and_operation', 'AndOperation'), 'or': ('stl.dense_time.online.or_operation', 'OrOperation'),
                                'implies': ('stl.dense_time.online.implies_operation', 'ImpliesOperation'), 'iff': ('stl.dense_time.online.iff_operation', 'IffOperation'),
                                'xor': ('stl.dense_time.online.xor_operation', 'XorOperation'), 'add': ('arithmetic.dense_time.online.addition_operation', 'AdditionOperation'),
                                'sub': ('arithmetic.dense_time.online.subtraction_operation', 'SubtractionOperation'),
                                'mul': ('arithmetic.dense_time.online.multiplication_operation', 'MultiplicationOperation'),
                                'div': ('arithmetic.dense_time.online.division_operation', 'DivisionOperation'),
                                'pow': ('arithmetic.dense_time.online.pow_operation', 'PowOperation')}[case['op']]
                op = getattr(importlib.import_module('rtamt.semantics.' + modname), cls)()
                for (b1, b2) in case['batches']:
                    a1, a2 = conv(b1), conv(b2)
                    k1, k2 = copy.deepcopy(a1), copy.deepcopy(a2)
                    r = op.update(a1, a2)
                    out['calls'].append({'status': 'ok', 'value': canon_val(r), 'args_unchanged': (a1, a2) == (k1, k2)})
                out['calls'].append({'status': 'ok', 'value': canon_val([op.sample_left_buf, op.sample_right_buf, op.last_output])})
        except Exception as exc:  # noqa
            out['calls'].append(classify(exc))
        return out
    try:
        spec = make_spec(case)
        if case.get('unit'):
            spec.unit = case['unit']
        if case.get('period') is not None:
            p = case['period']
            spec.set_sampling_period(p[0], p[1], p[2])
        if case.get('objvars'):
            spec.import_module('harness.msgs', 'Msg')
        for v in case.get('vars', []):
            spec.declare_var(v, 'Msg' if v in case.get('objvars', []) else 'float')
        for v in case.get('objvars', []):
            if v not in case.get('vars', []):
                spec.declare_var(v, 'Msg')
        for (cn, ct, cv) in case.get('consts', []):
            spec.declare_const(cn, ct, cv)
        for v, io in sorted(case.get('io', {}).items()):
            spec.set_var_io_type(v, io)
        for s in case.get('subspecs', []):
            spec.add_sub_spec(s)
        spec.spec = case['spec']
        spec.parse()
        if case.get('pastify'):
            spec.pastify()
        if case.get('late_period') is not None:
            p = case['late_period']
            spec.set_sampling_period(p[0], p[1], p[2])
        out['setup'] = {'status': 'ok', 'value': None}
    except BaseException as exc:  # noqa
        out['setup'] = classify(exc)
        return out
    for call in case.get('calls', []):
        kind = call[0]
        if case.get('objvars'):
            call = wrap_objects(case, call)
        try:
            if kind == 'evaluate':
                if case['monitor'].startswith('dense'):
                    args = copy.deepcopy(call[1])
                    keep = copy.deepcopy(args)
                    r = spec.evaluate(*args)
                    res = {'status': 'ok', 'value': canon_val(r), 'args_unchanged': args == keep}
                else:
                    data = copy.deepcopy(call[1])
                    keep = copy.deepcopy(data)
                    r = spec.evaluate(data)
                    res = {'status': 'ok', 'value': canon_val(r), 'args_unchanged': data == keep}
            elif kind == 'update':
                if case['monitor'].startswith('dense'):
                    args = copy.deepcopy(call[1])
                    if case.get('reuse_buffers'):
                        # the caller keeps ONE list of [t, v] pairs per variable and refills it in place for every update()
                        bufs = case.setdefault('_bufs', {})
                        for a in args:
                            buf = bufs.setdefault(a[0], [])
                            for k, pr in enumerate(a[1]):
                                if k < len(buf):
                                    buf[k][0], buf[k][1] = pr[0], pr[1]
                                else:
                                    buf.append(list(pr))
                            del buf[len(a[1]):]
                            a[1] = buf
                    keep = copy.deepcopy(args)
                    r = spec.update(*args)
                    res = {'status': 'ok', 'value': copy.deepcopy(canon_val(r)), 'args_unchanged': args == keep}
                else:
                    t = call[1]
                    data = [[k, v] for k, v in call[2]]
                    keep = copy.deepcopy(data)
                    r = spec.update(t, data)
                    res = {'status': 'ok', 'value': canon_val(r), 'args_unchanged': data == keep}
            elif kind == 'reset':
                spec.reset()
                res = {'status': 'ok', 'value': None}
            elif kind == 'set_period':
                spec.set_sampling_period(call[1], call[2], call[3])
                res = {'status': 'ok', 'value': None}
            elif kind == 'set_unit':
                spec.unit = call[1]
                res = {'status': 'ok', 'value': None}
            elif kind == 'pastify':
                spec.pastify()
                res = {'status': 'ok', 'value': None}
            elif kind == 'get_value':
                res = {'status': 'ok', 'value': canon_val(spec.get_value(call[1]))}
            elif kind == 'get_node':
                # get_value(printed name) of the node reached from the call[1]-th assertion through .children[i] for i in call[2]
                node = spec.ast.specs[call[1]]
                for i in call[2]:
                    node = node.children[i]
                res = {'status': 'ok', 'value': canon_val(spec.get_value(node.name))}
            elif kind == 'counter':
                res = {'status': 'ok', 'value': canon_val(spec.sampling_violation_counter)}
            elif kind == 'print':
                res = {'status': 'ok', 'value': spec.spec_print()}
            elif kind == 'ast':
                res = {'status': 'ok', 'value': [ast_dump(n) for n in spec.ast.specs]}
            elif kind == 'names':
                res = {'status': 'ok', 'value': [names_dump(n) for n in spec.ast.specs]}
            elif kind == 'tables':
                a = spec.ast
                res = {'status': 'ok', 'value': {
                    'name': '-' if a.name == 'Abstract Specification' else a.name, 'mods': [[k, v.__name__] for k, v in a.modules.items()],
                    'vars': sorted(a.vars), 'types': [list(x) for x in a.var_type_dict.items()], 'io': [list(x) for x in a.var_io_dict.items()],
                    'consts': [list(x) for x in a.const_val_dict.items()], 'topics': [list(x) for x in a.var_topic_dict.items()],
                    'free': sorted(a.free_vars), 'out': [a.out_var, a.out_var_field], 'asts': [ast_dump(n) for n in a.specs]}}
            elif kind == 'bounds_log':
                res = bounds_log(spec, case, call)
            elif kind == 'explain':
                spec.explain()
                ex = spec.explainer.explanations if hasattr(spec.explainer, 'explanations') else None
                res = {'status': 'ok', 'value': canon_val(ex)}
            else:
                raise ValueError('unknown call ' + kind)
        except BaseException as exc:  # noqa
            res = classify(exc)
        out['calls'].append(res)
    return out


_LABEL = {'Neg': 'not', 'Conjunction': 'and', 'Disjunction': 'or', 'Implies': 'implies', 'Iff': 'iff', 'Xor': 'xor',
          'Rise': 'rise', 'Fall': 'fall', 'Always': 'always', 'Eventually': 'eventually', 'Historically': 'historically', 'Once': 'once',
          'Previous': 'prev', 'Next': 'next', 'StrongPrevious': 'sprev', 'StrongNext': 'snext', 'Until': 'until', 'Since': 'since',
          'Abs': 'abs', 'Sqrt': 'sqrt', 'Exp': 'exp', 'Ln': 'ln', 'Negate': 'neg', 'Pow': 'pow', 'Log': 'log',
          'Addition': 'add', 'Subtraction': 'sub', 'Multiplication': 'mul', 'Division': 'div',
          'TimedAlways': 'always_t', 'TimedEventually': 'eventually_t', 'TimedHistorically': 'historically_t', 'TimedOnce': 'once_t',
          'TimedUntil': 'until_t', 'TimedSince': 'since_t', 'TimedPrecedes': 'precedes_t'}


def ast_dump(node):
    """canonical s-expression of an rtamt AST node (same format as Elab.dump of the model)"""
    from fractions import Fraction
    cls = type(node).__name__
    if cls == 'Variable':
        return '(var %s)' % (node.var if not node.field else node.var + '.' + node.field)
    if cls == 'Constant':
        return '(const %s)' % Fraction(node.val)
    from rtamt.syntax.node.binary_node import BinaryNode
    arity = 2 if isinstance(node, BinaryNode) else 1
    kids = ' '.join(ast_dump(c) for c in node.children[:arity])
    if cls == 'Predicate':
        op = {'<': 'lt', '<=': 'leq', '==': 'eq', '!=': 'neq', '>': 'gt', '>=': 'geq'}[str(node.operator)]
        return '(pred %s %s)' % (op, kids)
    lab = _LABEL[cls]
    if cls.startswith('Timed'):
        return '(%s %s %s %s %s %s)' % (lab, Fraction(node.begin), node.begin_unit or '_', Fraction(node.end), node.end_unit or '_', kids)
    return '(%s %s)' % (lab, kids)


def names_dump(node):
    """every node of a tree as the Python object holds it, with its .name: [class, name, ...] where ... is
    var, field (Variable) | str(val) (Constant) | str(operator), children (Predicate) | ['bound', numerator, denominator, unit] x 2,
    children (Timed*) | children; the bounds are exact decimal strings (NodeName.node of the model)"""
    from fractions import Fraction
    cls = type(node).__name__
    if cls == 'Variable':
        return [cls, node.name, node.var, node.field if node.field else '']
    if cls == 'Constant':
        return [cls, node.name, str(node.val)]
    from rtamt.syntax.node.binary_node import BinaryNode
    arity = 2 if isinstance(node, BinaryNode) else 1
    kids = [names_dump(c) for c in node.children[:arity]]
    if cls == 'Predicate':
        return [cls, node.name, str(node.operator)] + kids
    if cls.startswith('Timed'):
        b, e = Fraction(node.begin), Fraction(node.end)
        return [cls, node.name, ['bound', str(b.numerator), str(b.denominator), str(node.begin_unit)],
                ['bound', str(e.numerator), str(e.denominator), str(node.end_unit)]] + kids
    return [cls, node.name] + kids


def setup_spec(case):
    spec = make_spec(case)
    if case.get('unit'):
        spec.unit = case['unit']
    if case.get('period') is not None:
        p = case['period']
        spec.set_sampling_period(p[0], p[1], p[2])
    if case.get('objvars'):
        spec.import_module('harness.msgs', 'Msg')
    for v in case.get('vars', []):
        spec.declare_var(v, 'Msg' if v in case.get('objvars', []) else 'float')
    for v in case.get('objvars', []):
        if v not in case.get('vars', []):
            spec.declare_var(v, 'Msg')
    for (cn, ct, cv) in case.get('consts', []):
        spec.declare_const(cn, ct, cv)
    for v, io in sorted(case.get('io', {}).items()):
        spec.set_var_io_type(v, io)
    for s in case.get('subspecs', []):
        spec.add_sub_spec(s)
    spec.spec = case['spec']
    spec.parse()
    if case.get('pastify'):
        spec.pastify()
    if case.get('late_period') is not None:
        p = case['late_period']
        spec.set_sampling_period(p[0], p[1], p[2])
    return spec


def do_call(spec, case, call):
    if case.get('objvars'):
        call = wrap_objects(case, call)
    kind = call[0]
    dense = case['monitor'].startswith('dense')
    if kind == 'evaluate':
        args = copy.deepcopy(call[1])
        keep = copy.deepcopy(args)
        r = spec.evaluate(*args) if dense else spec.evaluate(args)
        return {'status': 'ok', 'value': canon_val(r), 'args_unchanged': args == keep}
    if kind == 'update':
        if dense:
            args = copy.deepcopy(call[1])
            keep = copy.deepcopy(args)
            r = spec.update(*args)
            return {'status': 'ok', 'value': canon_val(r), 'args_unchanged': args == keep}
        data = [[k, v] for k, v in call[2]]
        keep = copy.deepcopy(data)
        r = spec.update(call[1], data)
        return {'status': 'ok', 'value': canon_val(r), 'args_unchanged': data == keep}
    if kind == 'reset':
        spec.reset()
        return {'status': 'ok', 'value': None}
    if kind == 'set_period':
        spec.set_sampling_period(call[1], call[2], call[3])
        return {'status': 'ok', 'value': None}
    if kind == 'set_unit':
        spec.unit = call[1]
        return {'status': 'ok', 'value': None}
    if kind == 'pastify':
        spec.pastify()
        return {'status': 'ok', 'value': None}
    if kind == 'get_value':
        return {'status': 'ok', 'value': canon_val(spec.get_value(call[1]))}
    if kind == 'get_node':
        node = spec.ast.specs[call[1]]
        for i in call[2]:
            node = node.children[i]
        return {'status': 'ok', 'value': canon_val(spec.get_value(node.name))}
    if kind == 'counter':
        return {'status': 'ok', 'value': canon_val(spec.sampling_violation_counter)}
    if kind == 'print':
        return {'status': 'ok', 'value': spec.spec_print()}
    if kind == 'names':
        return {'status': 'ok', 'value': [names_dump(n) for n in spec.ast.specs]}
    if kind == 'bounds_log':
        return bounds_log(spec, case, call)
    raise ValueError('unknown call ' + kind)


def run_multi(mcase):
    """several specification objects, calls interleaved by a schedule [(object, call index)...]"""
    objs, out = [], {'setup': [], 'calls': []}
    for case in mcase['objects']:
        try:
            objs.append(setup_spec(case))
            out['setup'].append({'status': 'ok'})
        except BaseException as exc:  # noqa
            objs.append(None)
            out['setup'].append(classify(exc))
    for (oi, ci) in mcase['schedule']:
        case = mcase['objects'][oi]
        if objs[oi] is None:
            out['calls'].append({'status': 'skipped'})
            continue
        try:
            out['calls'].append(do_call(objs[oi], case, case['calls'][ci]))
        except BaseException as exc:  # noqa
            out['calls'].append(classify(exc))
    return out


if __name__ == '__main__':
    import json
    if len(sys.argv) > 2 and sys.argv[1] == '--batch':
        # batch mode for the hash-seed runs: a JSON list of cases in, a JSON list of results out
        import io, contextlib
        cases = json.load(open(sys.argv[2]))
        res = []
        for c in cases:
            with contextlib.redirect_stdout(io.StringIO()):
                res.append(run_multi(c) if 'objects' in c else run_case(c))
        json.dump(res, sys.stdout)
    else:
        case = json.load(open(sys.argv[1])) if len(sys.argv) > 1 else json.load(sys.stdin)
        if 'case' in case:
            case = case['case']
        print(json.dumps(run_case(case), indent=1))
