# c03.py — C03: the pastified bounded-future monitor reports the original
# robustness with delay h; pastify() keeps the meaning of past-time formulas.
import json
from harness import fml
from harness.common import parse_fields
from harness.runner import Check, online_case, need_vars, expect_vals


class C03(Check):
    PID = 'C03'
    RULE = ('seeded random bounded-future STL formulas (nested future/past/Boolean/arithmetic, next chains, siblings of different horizons, horizons up to ~15) '
            'and past-time formulas; pastify() then one update() per sample; for every i >= h the output must equal rho(phi, w[0..i], i-h) (Rho.v); '
            'all outputs are also compared with the model of the pastified monitor; LTL front end on untimed next-formulas; partial arithmetic functions (sqrt) above a delayed operand; next-formulas whose sampling period is configured after pastify(); cases outside the guard '
            'future_above_past are judged too (a mismatch there is the known finding); non-trivial = horizon >= 1 and n > h; distinct by (formula, data)')

    def gen_cases(self, rng, tier):
        cases = []
        nrand = 450 if tier == 'quick' else 7000
        P = ('pred', 'geq', ('var', 0), ('const', 1))
        Q = ('pred', 'leq', ('var', 1), ('const', 2))
        base = [('evt', 0, 1, P), ('alwt', 1, 2, P), ('untilt', 0, 2, P, Q), ('untilt', 1, 3, P, Q), ('next', P), ('snext', ('next', P)),
                ('a2', 'add', ('next', ('var', 0)), ('var', 1)), ('and', ('evt', 0, 2, P), Q), ('or', ('alwt', 1, 1, P), ('histt', 0, 1, Q)),
                ('pred', 'geq', ('a1', 'neg', ('evt', 0, 1, ('var', 0))), ('const', 0)), ('and', ('evt', 1, 3, P), ('histt', 0, 1, Q)),
                ('and', ('evt', 1, 3, P), ('oncet', 1, 2, Q)), ('and', ('next', P), ('since', P, Q)), ('evt', 0, 1, ('alwt', 0, 2, P)),
                ('histt', 1, 2, ('evt', 1, 1, ('var', 0))), ('sprev', ('a1', 'neg', ('snext', ('var', 1)))), ('once', ('next', P)),
                ('implies', P, ('evt', 1, 2, Q)), ('not', ('untilt', 0, 1, Q, P)), ('hist', Q), ('sincet', 0, 2, P, Q),
                # a bounded since / once / historically next to a sibling with a larger look-ahead: the past operator itself is delayed
                ('and', ('sincet', 1, 2, P, Q), ('evt', 0, 3, P)), ('or', ('next', Q), ('sincet', 0, 2, P, Q)), ('and', ('since', P, Q), ('alwt', 1, 2, Q)),
                ('or', ('sincet', 2, 3, Q, P), ('snext', ('next', P))), ('and', ('oncet', 1, 2, P), ('evt', 2, 3, Q)), ('or', ('histt', 0, 2, P), ('evt', 1, 2, Q))]
        # prev / s_prev / rise / fall directly above a future operator (outside the guard: the output must be what the delay scheme computes)
        base += [('prev', ('evt', 0, 2, P)), ('and', ('prev', ('next', P)), Q), ('prev', ('prev', ('alwt', 1, 2, P))), ('sprev', ('evt', 1, 2, P)),
                 ('or', ('prev', ('untilt', 0, 2, P, Q)), ('next', Q)), ('rise', ('evt', 0, 1, P)), ('once', ('prev', ('next', P)))]
        items = [(f, 2, 'stl') for f in base for _ in range(3)]
        items += [(f, 2, 'ltl') for f in [('and', ('next', P), Q), ('or', ('snext', ('next', P)), ('prev', Q)), ('a2', 'add', ('next', ('var', 0)), ('var', 1)),
                                         ('implies', Q, ('next', ('not', P))), ('pred', 'geq', ('a1', 'neg', ('next', ('var', 0))), ('var', 1))]]
        for i in range(nrand):
            nv = rng.choice([1, 2, 2, 3])
            k = rng.random()
            g = fml.Gen(rng, nvars=nv, unbounded_future=False, maxb=rng.choice([1, 2, 3]), fancy_arith=False)
            f = g.formula(rng.choice([1, 2, 2, 3, 3, 4]))
            if k < 0.5:
                # keep future operators above past ones (inside the guard) most of the time
                def lift(s):
                    if s[0] in ('rise', 'fall', 'prev', 'sprev', 'once', 'hist', 'since', 'oncet', 'histt', 'sincet'):
                        kids = [strip(x) for x in fml.children(s)]
                        return fml.rebuild(s, kids)
                    return fml.rebuild(s, [lift(x) for x in fml.children(s)])

                def strip(s):
                    if s[0] in fml.FUTURE:
                        return strip(fml.children(s)[-1])
                    return fml.rebuild(s, [strip(x) for x in fml.children(s)])
                f = lift(f)
            if fml.size(f) > 40:
                continue
            items.append((f, nv, 'stl'))
        for i in range(nrand // 8):
            g = fml.Gen(rng, nvars=2, timed=False, unbounded_future=False, fancy_arith=False)
            f = g.formula(rng.choice([1, 2, 3]))
            items.append((f, 2, 'ltl'))
        for (f, nv, fe) in items:
            nv = need_vars(f, nv)
            n = rng.choice([1, 2, 3, 5, 8, 12, 20, 30])
            c = {'f': f, 'n': n, 'nv': nv, 'cols': fml.gen_trace(rng, nv, n), 'times': list(range(n)), 'fe': fe}
            if fe == 'stl' and rng.random() < 0.15:
                from harness.c08 import spelling
                sp = spelling(rng, f)
                if sp:
                    c['spell'] = sp
            cases.append(c)
        # specifications with named sub-specifications: a sub-specification is referenced from a specification with a larger
        # horizon (its pastified form needs an extra delay there), possibly twice with different remaining horizons
        from harness.modular import gen_modular
        X, Y = ('pred', 'geq', ('var', 0), ('const', 1)), ('pred', 'leq', ('var', 1), ('const', 2))
        crafted = []
        for (sub, mainf) in [(('evt', 0, 2, X), lambda r: ('and', r, ('alwt', 0, 3, Y))), (('next', X), lambda r: ('or', r, ('evt', 1, 3, Y))),
                             (('alwt', 0, 1, X), lambda r: ('and', ('evt', 0, 2, r), ('implies', r, ('evt', 2, 4, Y)))),
                             (('untilt', 0, 1, X, Y), lambda r: ('and', r, ('next', ('next', ('next', Y))))), (('oncet', 0, 2, X), lambda r: ('or', r, ('evt', 1, 2, r)))]:
            for _ in range(2):
                n = rng.choice([6, 9, 14])
                f = mainf(sub)
                crafted.append({'f': f, 'n': n, 'nv': 2, 'cols': fml.gen_trace(rng, 2, n), 'times': list(range(n)), 'fe': 'stl',
                                'subs': [['sp1', sub, sub]], 'main': mainf(('ref', 'sp1')), 'consts': [], 'style': rng.choice(['add_sub_spec', 'one_text'])})
        mods = [c for c in gen_modular(rng, tier, 80, 1200, gen_kwargs={'unbounded_future': False}, base=False)
                if fml.has_future(c['f']) and not any(x[0] in fml.UNB_FUTURE for x in fml.subformulas(c['f'])) and 'units' not in c]
        for c in crafted + mods:
            c['fe'] = 'stl'
            cases.append(c)
        # the sampling period is configured only after pastify() (next / s_next have been turned into delays of one period by then)
        for k in range(3 if tier == 'quick' else 20):
            n = rng.choice([5, 8])
            f = [('and', ('next', X), Y), ('or', ('snext', ('next', X)), Y), ('and', ('next', X), ('evt', 0, 2, Y))][k % 3]
            cases.append({'f': f, 'n': n, 'nv': 2, 'cols': fml.gen_trace(rng, 2, n), 'times': [i * 0.5 for i in range(n)], 'fe': 'stl', 'late_period': [500, 'ms', 0.1]})
        # a partial arithmetic function (sqrt, ln, log) above a delayed operand: the original specification is well defined on the whole
        # trace (perfect squares / powers), the delays of the pastified one hold their -inf padding during the first h updates
        for k in range(4 if tier == 'quick' else 30):
            n = rng.choice([4, 6, 9])
            x = [rng.randint(0, 3) for _ in range(n)]
            sq = [rng.choice([1, 4, 9, 16]) for _ in range(n)]
            y = [rng.randint(1, 9)] + [sq[i] - x[i] for i in range(n - 1)]          # x[i] + y[i+1] is a perfect square
            term = ('a2', 'add', ('var', 0), ('next', ('var', 1)))
            f = [('pred', 'geq', ('a1', 'sqrt', term), ('const', 1)), ('pred', 'geq', ('a1', 'sqrt', ('a2', 'add', ('var', 0), ('evt', 1, 1, ('var', 1)))), ('const', 2))][k % 2]
            cases.append({'f': f, 'n': n, 'nv': 2, 'cols': [x, y], 'times': list(range(n)), 'fe': 'stl', 'partial_warmup': 1})
        # every binary arithmetic node with a delayed operand on either side (the pastifier rebuilds the node from its visited children)
        Xv, Yv = ('var', 0), ('var', 1)
        for op in ('add', 'sub', 'mul', 'div', 'pow'):
            for (l, r) in ((('next', Xv), Yv), (Xv, ('next', Yv)), (('evt', 1, 1, Xv), ('next', Yv))):
                n = 6
                xs = [rng.choice([2, 4, 6]) for _ in range(n)]
                ys = [rng.choice([1, 2]) for _ in range(n)]
                cases.append({'f': ('pred', 'geq', ('a2', op, l, r), ('const', 1)), 'n': n, 'nv': 2, 'cols': [xs, ys], 'times': list(range(n)), 'fe': 'stl', 'spec_only': 1})
                if not fml.ops(('a2', op, l, r)) & {'evt'}:
                    # (the LTL front end has its own pastifier class)
                    cases.append({'f': ('pred', 'geq', ('a2', op, l, r), ('const', 1)), 'n': n, 'nv': 2, 'cols': [xs, ys], 'times': list(range(n)), 'fe': 'ltl', 'spec_only': 1})
        # the delay statement under the interface-aware semantics (the pastifier has to carry the io type of every variable over)
        for f in [('implies', P, ('evt', 0, 2, Q)), ('alwt', 0, 1, ('or', P, ('next', Q))), ('and', ('evt', 1, 2, P), Q), ('untilt', 0, 2, P, Q), ('implies', P, ('next', Q))]:
            for sem in ('output-robustness', 'input-robustness', 'output-vacuity', 'input-vacuity'):
                for io in ([1, 0], [0, 1]):
                    n = 7
                    cases.append({'f': f, 'n': n, 'nv': 2, 'cols': fml.gen_trace(rng, 2, n), 'times': list(range(n)), 'ia': {'sem': sem, 'io': io}})
        return cases

    def normalize(self, c):
        if 'spell' in c and fml.to_sx(c['f']) != c['spell'].get('fkey'):
            c = {k: v for k, v in c.items() if k != 'spell'}
        if c.get('subs'):
            # a shrunk formula no longer matches its decomposition: fall back to the plain (inlined) specification
            from harness import shrink
            defs = {nm: shrink.detuple(s_) for nm, b, s_ in c['subs']}

            def inline(f):
                if f[0] == 'ref':
                    return defs.get(f[1], f)
                return fml.rebuild(f, [inline(x) for x in fml.children(f)])
            try:
                same = fml.to_sx(inline(shrink.detuple(c['main']))) == fml.to_sx(c['f'])
            except Exception:
                same = False
            if not same:
                c = {k: v for k, v in c.items() if k not in ('subs', 'main', 'consts', 'style')}
        return c

    def load_case(self, c):
        c = Check.load_case(self, c)
        if c.get('subs'):
            from harness import shrink
            c['main'] = shrink.detuple(c['main'])
            c['subs'] = [[nm, shrink.detuple(b), shrink.detuple(s_)] for nm, b, s_ in c['subs']]
        return c

    def model_lines(self, c):
        if c.get('ia'):
            return ['(pastpk (iaspec %s (%s)) %s %d %s)' % (c['ia']['sem'], ' '.join(str(b) for b in c['ia']['io']), fml.to_sx(c['f']), c['n'], fml.trace_sx(c['cols']))]
        return ['(past %s %s %d %s)' % (c.get('fe', 'stl'), fml.to_sx(c['f']), c['n'], fml.trace_sx(c['cols']))]

    def impl_cases(self, c):
        case = online_case(c['f'], c['cols'], c['times'], c['nv'], pastify=True, **c.get('spell', {}))
        if c.get('ia'):
            case.update({'semantics': c['ia']['sem'], 'io': {fml.VARS[k]: ('input' if b else 'output') for k, b in enumerate(c['ia']['io'])}})
        if c.get('subs'):
            from harness.modular import modular_spec
            case.update(modular_spec(c))
        if c.get('fe') == 'ltl':
            case['monitor'] = 'ltl-discrete'
        if c.get('late_period'):
            # bounds in seconds: b periods of 500 ms
            case['spec'] = 'out = ' + fml.to_text(c['f'], lambda b, e: '[%s,%s]' % (repr(b * 0.5), repr(e * 0.5)))
            case['late_period'] = c['late_period']
        case['calls'] = case['calls'] + [['print']]
        return [case]

    def judge(self, c, mlines, ires):
        m = parse_fields(mlines[0])
        if 'ERROR' in m:
            return 'model-error', mlines
        if c.get('ia'):
            if m['GUARD'] != ['1'] or m['EXACT'] != ['1']:
                return 'dropped', None
            spec = json.loads(json.dumps([None if x == '_' else expect_vals([fml.parse_val(x)])[0] for x in m['SPEC']]))
            i = ires[0]
            det = {'semantics': c['ia']['sem'], 'io': c['ia']['io'], 'guard_future_above_past': True,
                   'expected': {'source': 'rho under the interface-aware semantics of the original formula on the samples seen so far, at i - horizon; _ = unspecified', 'values': spec}}
            if i['setup']['status'] != 'ok':
                return 'violation', dict(det, observed=i['setup'])
            obs = []
            for r in i['calls'][:-1]:
                if r['status'] != 'ok':
                    return 'violation', dict(det, observed=r)
                obs.append(r['value'])
            obs = json.loads(json.dumps(obs))
            bad = [k for k in range(len(obs)) if spec[k] is not None and obs[k] != spec[k]]
            if bad:
                return 'violation', dict(det, observed=obs, differs_at=bad)
            return 'ok', None
        # (spec_only: the values of the original formula are exact small integers; the warm-up of the pastified monitor, which the property
        # leaves unspecified, applies the arithmetic to the infinite initial values of the delays, which the executable instance calls inexact)
        if m['EXACT'] != ['1'] and not c.get('partial_warmup') and not c.get('spec_only'):
            return 'dropped', None
        h = int(m['HOR'][0])
        spec = [None if x == '_' else expect_vals([fml.parse_val(x)])[0] for x in m['SPEC']]
        on = expect_vals([fml.parse_val(x) for x in m['ON']])
        c['_h'] = h
        c['_guard'] = m['GUARD'] == ['1']
        det = {'horizon': h, 'guard_future_above_past': c['_guard'],
               'expected': {'source': 'rho(phi, w[0..i], i-h) for i >= h (Rho.v); _ = unspecified', 'values': spec}, 'model': on}
        i = ires[0]
        if i['setup']['status'] != 'ok':
            return 'violation', dict(det, observed=i['setup'])
        obs = []
        for r in i['calls'][:-1]:
            if r['status'] != 'ok':
                return 'violation', dict(det, observed=r)
            obs.append(r['value'])
        det['pastified'] = i['calls'][-1].get('value')
        obs = json.loads(json.dumps(obs))
        spec = json.loads(json.dumps(spec))
        bad = [k for k in range(len(obs)) if spec[k] is not None and obs[k] != spec[k]]
        if bad:
            # outside the guard the delay scheme itself is wrong (known finding); the model of the pastifier + online
            # monitor reproduces exactly what that scheme computes, so anything else is a different defect
            c['_as_model'] = (json.loads(json.dumps(on)) == obs)
            return 'violation', dict(det, observed=obs, differs_at=bad, same_as_model_of_delay_scheme=c['_as_model'])
        mbad = [k for k in range(len(obs)) if spec[k] is not None and json.loads(json.dumps(on))[k] != spec[k]]
        if mbad and c['_guard']:
            return 'model-vs-spec', dict(det, differs_at=mbad)
        if json.loads(json.dumps(on)) != obs:
            # the property says nothing about i < h; a difference there is only counted
            c['_pre_h_diff'] = True
        return 'ok', None

    def signature(self, c, detail):
        sig = Check.signature(self, c, detail)
        guard = detail.get('guard_future_above_past', c.get('_guard')) if isinstance(detail, dict) else c.get('_guard')
        as_model = detail.get('same_as_model_of_delay_scheme', c.get('_as_model')) if isinstance(detail, dict) else c.get('_as_model')
        sig['shape'] = 'inside_guard' if guard else ('past_over_future' if as_model else 'past_over_future_not_as_modelled')
        if c.get('partial_warmup'):
            sig['shape'] = 'partial_function_over_delay'
        if c.get('late_period'):
            sig['shape'] = 'sampling_period_set_after_pastify'
        sig['fe'] = c.get('fe', 'stl')
        return sig

    def still_fails(self, model, c, shape=None):
        if c.get('partial_warmup') or c.get('late_period'):
            return False, None      # the data are built for the formula / a fixed configuration: not shrunk
        return Check.still_fails(self, model, c, shape)

    def nontrivial(self, c):
        return c.get('_h', 0) >= 1 and c['n'] > c.get('_h', 0)

    def key(self, c):
        return json.dumps([fml.to_sx(c['f']), c['cols'], c.get('fe'), c.get('subs'), c.get('main')], default=str)

    def describe(self, c):
        d = {'spec': 'out = ' + fml.to_text(c['f']), 'front_end': c.get('fe', 'stl'), 'data': c['cols']}
        if c.get('subs'):
            from harness.modular import modular_spec
            d['modular'] = modular_spec(c)
        return d


def main(tier, seed, replay=None):
    return C03().main(tier, seed, replay)
