#!/usr/bin/env python3
# harness/shellgen_check.py [--n N] [--seed S] OUT.v
# Differential check of the GENERATED shell glue (ShellGen.gen_evaluate, gen_spec_get_value) against rtamt's public API:
# random modular specifications (sub-specifications that reference earlier ones, aliases `b = a`), random integer data,
# data sets without 'time', with a used variable missing, with undeclared extra columns, with declared variables no formula reads;
# evaluate() and get_value(name) of every assertion / unread variable / an unknown name.  Every case is an Example closed by
# vm_compute on the ExtZ instance.   run: PYTHONDONTWRITEBYTECODE=1 PYTHONPATH=/repo /venv/bin/python harness/shellgen_check.py build/ShellGenCases.v
import random, sys
import rtamt
argv = sys.argv[1:]
def opt(name, default):
    if name in argv:
        i = argv.index(name); v = argv[i + 1]; del argv[i:i + 2]; return v
    return default
N, SEED = int(opt('--n', '1500')), int(opt('--seed', '20260926'))
OUT = argv[0]
rnd = random.Random(SEED)
NV = 3

def term(d):
    x = rnd.random()
    if d == 0 or x < 0.4: return ('var', rnd.randrange(NV)) if rnd.random() < 0.75 else ('const', rnd.randint(-3, 3))
    if x < 0.6: return ('abs', term(d - 1))
    return ('add', term(d - 1), term(d - 1))
def form(d, nrefs):
    x = rnd.random()
    if nrefs and x < 0.25: return ('ref', rnd.randrange(nrefs))
    if d == 0 or x < 0.4: return ('geq', term(1), ('const', rnd.randint(-3, 3)))
    k = rnd.choice(['not', 'and', 'or', 'once', 'hist', 'prev', 'oncet', 'since', 'ev'])
    if k in ('and', 'or', 'since'): return (k, form(d - 1, nrefs), form(d - 1, nrefs))
    if k == 'oncet':
        b = rnd.randint(0, 2); return (k, b, b + rnd.randint(0, 2), form(d - 1, nrefs))
    return (k, form(d - 1, nrefs))
def text(f, names):
    k = f[0]
    if k == 'var': return 'x%d' % f[1]
    if k == 'const': return '%d' % f[1] if f[1] >= 0 else '(0 - %d)' % -f[1]
    if k == 'ref': return names[f[1]]
    if k == 'abs': return 'abs(%s)' % text(f[1], names)
    if k == 'add': return '(%s + %s)' % (text(f[1], names), text(f[2], names))
    if k == 'geq': return '(%s >= %s)' % (text(f[1], names), text(f[2], names))
    if k in ('and', 'or', 'since'): return '((%s) %s (%s))' % (text(f[1], names), k, text(f[2], names))
    if k == 'oncet': return '(once[%d:%d](%s))' % (f[1], f[2], text(f[3], names))
    return '(%s(%s))' % ({'not': 'not', 'once': 'once', 'hist': 'historically', 'prev': 'prev', 'ev': 'eventually'}[k], text(f[1], names))
def coq(f, env):
    k = f[0]
    if k == 'var': return '(Var %d)' % f[1]
    if k == 'const': return '(Const (Fin (%d)))' % f[1] if f[1] >= 0 else '(A2 Sub (Const (Fin 0)) (Const (Fin %d)))' % -f[1]
    if k == 'ref': return env[f[1]]
    if k == 'abs': return '(A1 Abs %s)' % coq(f[1], env)
    if k == 'add': return '(A2 Add %s %s)' % (coq(f[1], env), coq(f[2], env))
    if k == 'geq': return '(Pred CGeq %s %s)' % (coq(f[1], env), coq(f[2], env))
    if k == 'oncet': return '(OnceT %d %d %s)' % (f[1], f[2], coq(f[3], env))
    c = {'not': 'Not', 'and': 'And', 'or': 'Or', 'once': 'Once', 'hist': 'Hist', 'prev': 'Prev', 'since': 'Since', 'ev': 'Ev'}[k]
    return '(%s %s)' % (c, ' '.join(coq(x, env) for x in f[1:]))
def vars_of(f):
    if f[0] == 'var': return {f[1]}
    out = set()
    for x in f[1:]:
        if isinstance(x, tuple): out |= vars_of(x)
    return out
def cz(x):
    if x == float('inf'): return 'PosInf'
    if x == -float('inf'): return 'NegInf'
    assert float(x) == int(x), x
    return 'Fin (%d)' % int(x)
def col(l): return '[' + '; '.join(cz(x) for x in l) + ']'

lines = ['From Coq Require Import List ZArith.', 'From RV Require Import Val Syntax Rho Offline ExtZ PySem PyShell ShellGen.', 'Import ListNotations.', 'Open Scope Z_scope.',
         'Definition run (fv : list nat) (specs : list (nat * formula)) (names : list (nat * nat)) (tm : option (list Z)) (cols : list (nat * list V)) (q : list nat) :=',
         '  let s0 := mkSt (T:=Z) (C:=nat) fv [] [] None [] specs names 7%nat in',
         '  match gen_evaluate ExtZArith (fun _ _ => Ok tt) (fun (_ : unit) c => Ok (S c)) 0%nat (fun _ => Ok VDefault) s0 (mkDs tm cols) with',
         '  | Ok (r, s) => (Some r, map (fun nm => match gen_spec_get_value s nm with Ok (VCol l) => Some l | _ => None end) q)',
         '  | _ => (None, []) end.']
stats = {'ok': 0, 'raise': 0, 'alias': 0, 'getv': 0, 'getv_raise': 0}
for case in range(N):
    nsub = rnd.randint(0, 3)
    prog, names = [], []
    for i in range(nsub + 1):
        nm = 'sp%d' % (i + 1) if i < nsub else 'out'
        body = ('ref', rnd.randrange(i)) if i and rnd.random() < 0.12 else form(rnd.randint(0, 3), i)
        prog.append(body); names.append(nm)
    n = rnd.randint(1, 6)
    declared = list(range(NV))
    data = {v: [rnd.randint(-4, 6) for _ in range(n)] for v in declared}
    extra = rnd.random() < 0.1            # an undeclared column in the data set
    mode = rnd.random()
    no_time = mode < 0.04
    if 0.04 <= mode < 0.14: del data[rnd.randrange(NV)]   # a (maybe used) variable without data
    order = list(data); rnd.shuffle(order)
    spec = rtamt.StlDiscreteTimeSpecification()
    for v in declared: spec.declare_var('x%d' % v, 'float')
    for i in range(nsub): spec.add_sub_spec('%s = %s' % (names[i], text(prog[i], names)))
    spec.spec = 'out = %s' % text(prog[-1], names)
    spec.parse()
    ds = {}
    if not no_time: ds['time'] = list(range(n))
    for v in order: ds['x%d' % v] = data[v]
    if extra: ds['zz'] = [1] * n
    env, ids, forest = [], [], []
    for i, b in enumerate(prog):
        env.append(coq(b, env))
        ids.append(ids[b[1]] if b[0] == 'ref' else i)
        if b[0] == 'ref': stats['alias'] += 1
        forest.append('(%d%%nat, %s)' % (ids[i], env[i]))
    used = set()
    def inl(f): return inl(prog[f[1]]) if f[0] == 'ref' else set().union(*([{f[1]}] if f[0] == 'var' else [inl(x) for x in f[1:] if isinstance(x, tuple)] or [set()]))
    for b in prog: used |= inl(b)
    qn = [(100 + i, names[i]) for i in range(len(prog))] + [(v, 'x%d' % v) for v in declared if v not in used] + [(999, 'nosuch')]
    try:
        r = spec.evaluate(ds)
        exp_r = 'Some [' + '; '.join('(%d, %s)' % (t, cz(v)) for t, v in r) + ']'
        gv = []
        for (k, nm) in qn:
            try:
                x = spec.get_value(nm); gv.append('Some ' + col(x)); stats['getv'] += 1
            except Exception: gv.append('None'); stats['getv_raise'] += 1
        exp = '(%s, [%s])' % (exp_r, '; '.join(gv)); stats['ok'] += 1
    except Exception as ex:
        exp = '(None, [])'; stats['raise'] += 1
    cols = '[' + '; '.join('(%d%%nat, %s)' % (v, col(data[v])) for v in order) + (('; (50%%nat, %s)' % col([1] * n)) if extra else '') + ']'
    lines.append('Example case_%d : run [%s] [%s] [%s] %s %s [%s] = %s.' % (
        case, '; '.join('%d%%nat' % v for v in declared), '; '.join(forest),
        '; '.join('(%d%%nat, %d%%nat)' % (100 + i, ids[i]) for i in range(len(prog))),
        'None' if no_time else '(Some [%s])' % '; '.join(str(t) for t in range(n)), cols, '; '.join('%d%%nat' % k for k, _ in qn), exp))
    lines.append('Proof. vm_compute. reflexivity. Qed.')
open(OUT, 'w').write('\n'.join(lines) + '\n')
print('shellgen_check: %d cases written to %s: %s' % (N, OUT, stats))
