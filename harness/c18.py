# c18.py — C18: dualities and expansion laws, both sides through the same
# implementation monitor.
import json
from harness import fml
from harness.common import parse_fields
from harness.runner import Check, offline_case, online_case, need_vars, expect_vals

LAWS = ['not_ev', 'not_alw', 'not_once_t', 'not_once', 'not_hist', 'not_ev_u', 'implies', 'ev_ev', 'once_once', 'since_exp', 'until_exp']


def instantiate(law, p, q, a, b, c, d):
    if law == 'not_ev':
        return ('not', ('evt', a, b, p)), ('alwt', a, b, ('not', p))
    if law == 'not_alw':
        return ('not', ('alwt', a, b, p)), ('evt', a, b, ('not', p))
    if law == 'not_once_t':
        return ('not', ('oncet', a, b, p)), ('histt', a, b, ('not', p))
    if law == 'not_once':
        return ('not', ('once', p)), ('hist', ('not', p))
    if law == 'not_hist':
        return ('not', ('hist', p)), ('once', ('not', p))
    if law == 'not_ev_u':
        return ('not', ('ev', p)), ('alw', ('not', p))
    if law == 'implies':
        return ('implies', p, q), ('or', ('not', p), q)
    if law == 'ev_ev':
        return ('evt', a, b, ('evt', c, d, p)), ('evt', a + c, b + d, p)
    if law == 'once_once':
        return ('oncet', a, b, ('oncet', c, d, p)), ('oncet', a + c, b + d, p)
    if law == 'since_exp':
        return ('since', p, q), ('or', q, ('and', p, ('sprev', ('since', p, q))))
    if law == 'until_exp':
        return ('until', p, q), ('or', q, ('and', p, ('snext', ('until', p, q))))
    raise ValueError(law)


class C18(Check):
    PID = 'C18'
    RULE = ('every law x seeded random operand formulas (depth <= 3) x bounds (incl. 0, equal ends, windows beyond the trace) x traces; '
            'both sides evaluated by the discrete offline monitor and, when both are past-time, by the online monitor, half of those also beside a bounded-future operand in the pastified online monitor; signals must be identical; '
            'also impl = rho on both sides; non-trivial = operand with >= 2 nodes; distinct by (law, operands, bounds, data)')

    def gen_cases(self, rng, tier):
        cases = []
        per = 45 if tier == 'quick' else 600
        for law in LAWS:
            for i in range(per):
                nv = rng.choice([1, 2, 2, 3])
                dpt = rng.choice([0, 1, 1, 2, 2, 3])
                past_only = law in ('not_once_t', 'not_once', 'not_hist', 'once_once', 'since_exp') and rng.random() < 0.6
                g = fml.Gen(rng, nvars=nv, future=not past_only, maxb=2)
                p, q = g.formula(dpt), g.formula(max(dpt - 1, 0))
                a = rng.choice([0, 0, 1, 2, 3])
                b = a + rng.choice([0, 1, 2, 5])
                c = rng.choice([0, 1, 2])
                d = c + rng.choice([0, 1, 3])
                n = rng.choice([1, 2, 3, 4, 6, 9, 14])
                l, r = instantiate(law, p, q, a, b, c, d)
                nv = max(need_vars(l, nv), need_vars(r, nv))
                cases.append({'law': law, 'p': p, 'q': q, 'bounds': [a, b, c, d], 'f': l, 'g': r, 'n': n, 'nv': nv,
                              'cols': fml.gen_trace(rng, nv, n), 'times': list(range(n))})
                # a past-time law beside a bounded-future operand, in the pastified online monitor: both sides are delayed by the same
                # horizon h, each in the way the pastifier delays its top operator (seeded change C18_A5: a delay folded into the bounds
                # of historically); the two monitors must return the same outputs at every update
                if not fml.has_future(l) and not fml.has_future(r) and rng.random() < 0.5:
                    cases[-1]['ctx'] = [rng.choice([1, 2, 3]), rng.choice(['and', 'or'])]
        return cases

    def load_case(self, c):
        c = Check.load_case(self, c)
        for k in ('p', 'q'):
            from harness import shrink
            c[k] = shrink.detuple(c[k])
        return c

    def model_lines(self, c):
        w = fml.trace_sx(c['cols'])
        return ['(off std %s %d %s)' % (fml.to_sx(c['f']), c['n'], w), '(off std %s %d %s)' % (fml.to_sx(c['g']), c['n'], w),
                '(info %s)' % fml.to_sx(c['f']), '(info %s)' % fml.to_sx(c['g'])]

    def impl_cases(self, c):
        out = [offline_case(c['f'], c['cols'], c['times'], c['nv']), offline_case(c['g'], c['cols'], c['times'], c['nv'])]
        if not fml.has_future(c['f']) and not fml.has_future(c['g']):
            out += [online_case(c['f'], c['cols'], c['times'], c['nv']), online_case(c['g'], c['cols'], c['times'], c['nv'])]
            if c.get('ctx'):
                fut = ('evt', 0, c['ctx'][0], ('pred', 'geq', ('var', 0), ('const', 0)))
                out += [online_case((c['ctx'][1], side, fut), c['cols'], c['times'], c['nv'], pastify=True) for side in (c['f'], c['g'])]
        return out

    def judge(self, c, mlines, ires):
        m1, m2 = parse_fields(mlines[0]), parse_fields(mlines[1])
        if 'ERROR' in m1 or 'ERROR' in m2:
            return 'model-error', mlines
        if m1['EXACT'] != ['1'] or m2['EXACT'] != ['1']:
            return 'dropped', None
        sig = []
        for i in ires:
            if i['setup']['status'] != 'ok':
                return 'violation', {'expected': 'both sides evaluate', 'observed': i['setup']}
            vals = []
            for r in i['calls']:
                if r['status'] != 'ok':
                    return 'violation', {'expected': 'both sides evaluate', 'observed': r}
                vals.append(r['value'])
            sig.append(vals)
        lhs, rhs = [p[1] for p in sig[0][0]], [p[1] for p in sig[1][0]]
        det = {'law': c['law'], 'lhs': 'out = ' + fml.to_text(c['f']), 'rhs': 'out = ' + fml.to_text(c['g'])}
        if lhs != rhs:
            return 'violation', dict(det, expected='identical offline signals', observed={'lhs': lhs, 'rhs': rhs})
        if len(sig) >= 4 and sig[2] != sig[3]:
            return 'violation', dict(det, expected='identical online outputs', observed={'lhs': sig[2], 'rhs': sig[3]})
        if len(sig) == 6 and sig[4] != sig[5]:
            ctx = ' %s eventually[0,%d](xa >= 0)' % (c['ctx'][1], c['ctx'][0])
            return 'violation', dict(det, lhs='out = (' + fml.to_text(c['f']) + ')' + ctx, rhs='out = (' + fml.to_text(c['g']) + ')' + ctx,
                                     expected='identical outputs of the pastified online monitor', observed={'lhs': sig[4], 'rhs': sig[5]})
        if len(sig) >= 4 and sig[2] != lhs:
            return 'violation', dict(det, expected='online = offline', observed={'online': sig[2], 'offline': lhs})
        r1 = json.loads(json.dumps(expect_vals([fml.parse_val(x) for x in m1['RHO']])))
        r2 = json.loads(json.dumps(expect_vals([fml.parse_val(x) for x in m2['RHO']])))
        if r1 != lhs or r2 != rhs:
            return 'violation', dict(det, expected={'rho_lhs': r1, 'rho_rhs': r2}, observed={'lhs': lhs, 'rhs': rhs}, note='implementation differs from rho')
        if r1 != r2:
            return 'model-vs-spec', det
        return 'ok', None

    def features(self, c):
        return [c['law']] + sorted(fml.ops(c['p'])) + (['beside_a_future_operand_pastified'] if c.get('ctx') else [])

    def nontrivial(self, c):
        return fml.size(c['p']) >= 2

    def key(self, c):
        return json.dumps([c['law'], fml.to_sx(c['f']), c['cols'], c.get('ctx')])

    def describe(self, c):
        return {'law': c['law'], 'lhs': 'out = ' + fml.to_text(c['f']), 'rhs': 'out = ' + fml.to_text(c['g']), 'data': c['cols']}

    SHRINK = False

    def still_fails(self, model, c, shape=None):
        return False, None   # both sides are tied: report unshrunk


def main(tier, seed, replay=None):
    from harness import densex
    return densex.extend(C18, densex.D18())().main(tier, seed, replay)
