# harness/explainergen_check.py [--n N] [--seed S] OUT.v
# Differential check of the GENERATED explainer (coq/theories/ExplainGen.v, written by tools/py2coq_explainer.py) against the Python classes
# STLExplainer / LTLExplainer.  One seeded PRNG makes structured random specifications (Boolean, bounded and unbounded temporal, past,
# next / prev, rise / fall, arithmetic, predicates, a few since / until which the explainer rejects, unit spellings, sampling periods, bounds
# that are not multiples of the period) and integer-valued data; rtamt parses, evaluates and explains; the root of the last assertion is dumped
# together with the SIGNS of the robustness lists rtamt stored for every node (self.spec.results: all the explainer looks at is
# op_signal[i] >= 0 and len(op_signal)) and the dict self.explanations in insertion order (str keys; the Constant-object keys are left out).
# The generated gen_stl_explain / gen_ltl_explain run on the same tree and signs inside Coq: `failing = []` is checked by vm_compute.
# run: PYTHONDONTWRITEBYTECODE=1 PYTHONPATH=/repo /venv/bin/python harness/explainergen_check.py build/ExplainGenCases.v
import sys, random, logging, math, os
from fractions import Fraction
sys.path.insert(0, os.path.dirname(os.path.dirname(os.path.abspath(__file__))))
sys.setrecursionlimit(20000)
logging.disable(logging.CRITICAL)
import rtamt
from rtamt.semantics.enumerations.comp_op import StlComparisonOperator as Op


def opt(k, d):
    return sys.argv[sys.argv.index(k) + 1] if k in sys.argv else d


N, SEED = int(opt('--n', '3000')), int(opt('--seed', '20260926'))
OUT = [a for a in sys.argv[1:] if a.endswith('.v')][0]

UN = {'Neg': 'u_not', 'Once': 'u_once', 'Historically': 'u_hist', 'Eventually': 'u_ev', 'Always': 'u_alw', 'Previous': 'u_prev',
      'StrongPrevious': 'u_sprev', 'Next': 'u_next', 'StrongNext': 'u_snext', 'Rise': 'u_rise', 'Fall': 'u_fall', 'Abs': 'u_abs',
      'Sqrt': 'u_sqrt', 'Exp': 'u_exp', 'Ln': 'u_ln', 'Negate': 'u_negate'}
TUN = {'TimedOnce': 't_once', 'TimedHistorically': 't_hist', 'TimedEventually': 't_ev', 'TimedAlways': 't_alw'}
FN2 = {'Pow': 'f_pow', 'Log': 'f_log'}
BIN = {'Conjunction': 'b_and', 'Disjunction': 'b_or', 'Implies': 'b_implies', 'Iff': 'b_iff', 'Xor': 'b_xor', 'Since': 'b_since',
       'Until': 'b_until', 'Addition': 'b_add', 'Subtraction': 'b_sub', 'Multiplication': 'b_mul', 'Division': 'b_div'}
TBIN = {'TimedSince': 'tb_since', 'TimedUntil': 'tb_until', 'TimedPrecedes': 'tb_precedes'}
CMP = {Op.LEQ: 'CLeq', Op.LESS: 'CLt', Op.GEQ: 'CGeq', Op.GREATER: 'CGt', Op.EQUAL: 'CEq', Op.NEQ: 'CNeq'}
UNIT = {'': 'None', 's': '(Some US)', 'ms': '(Some UMS)', 'us': '(Some UUS)', 'ns': '(Some UNS)'}
TU = {'s': 'US', 'ms': 'UMS', 'us': 'UUS', 'ns': 'UNS'}


def cstr(s):
    assert '"' not in s
    return '"%s"' % s


def bound(v, u):
    f = Fraction(v)
    assert f >= 0
    return '(mkb %d %d %s)' % (f.numerator, f.denominator, UNIT[u])


def dump(n):
    k = type(n).__name__
    if k == 'Variable':
        return '(NVar %s %s)' % (cstr(n.var), cstr(n.field if n.field else ''))
    if k == 'Constant':
        return '(NConst %s)' % cstr(str(n.val))
    kids = [dump(c) for c in n.children]
    if k == 'Predicate':
        return '(NBin (b_pred %s) %s %s)' % (CMP[n.operator], kids[0], kids[1])
    if k in TUN:
        return '(NTUn %s %s %s %s)' % (TUN[k], bound(n.begin, n.begin_unit), bound(n.end, n.end_unit), kids[0])
    if k in TBIN:
        return '(NTBin %s %s %s %s %s)' % (TBIN[k], bound(n.begin, n.begin_unit), bound(n.end, n.end_unit), kids[0], kids[1])
    if k in UN:
        return '(NUn %s %s)' % (UN[k], kids[0])
    if k in FN2:
        return '(NFn2 %s %s %s)' % (FN2[k], kids[0], kids[1])
    if k in BIN:
        return '(NBin %s %s %s)' % (BIN[k], kids[0], kids[1])
    raise ValueError('unknown node class ' + k)


def subnodes(n):
    yield n
    for c in n.children:
        yield from subnodes(c)


# ---------------------------------------------------------------- random specification texts
def rand_interval(rng, period_ms):
    """bounds: mostly whole numbers of periods, in varying unit spellings; sometimes not a multiple (bounds() raises)"""
    b = rng.randint(0, 3)
    e = b + rng.randint(0, 3)
    if rng.random() < 0.03:
        return '[%dms,%dms]' % (b * period_ms + 1, e * period_ms + 1)
    def one(k):
        ms = k * period_ms
        st = rng.choice(['ms', 'ms', 'us', 's'])
        if st == 's' and ms % 1000 == 0:
            return '%ds' % (ms // 1000)
        if st == 'us':
            return '%dus' % (ms * 1000)
        return '%dms' % ms
    return '[%s%s%s]' % (one(b), rng.choice([',', ':']), one(e))


def rand_expr(rng, depth, stl, pm, wild):
    if depth <= 0 or rng.random() < 0.12:
        r = rng.random()
        if r < 0.45:
            return '(%s %s %d)' % (rng.choice('xyz'), rng.choice(['>=', '<=', '<', '>']), rng.randint(-2, 2))
        if r < 0.85:
            return rng.choice('xyz')
        return str(rng.randint(-2, 2)) if rng.random() < 0.5 else '(0 - %d)' % rng.randint(0, 2)
    sub = lambda: rand_expr(rng, depth - 1, stl, pm, wild)   # noqa: E731
    r = rng.random()
    if r < 0.30:
        o = rng.choice(['always', 'eventually', 'once', 'historically', 'G', 'F', 'O', 'H'])
        if stl and rng.random() < 0.7:
            return '%s%s (%s)' % (o, rand_interval(rng, pm), sub())
        return '%s (%s)' % (o, sub())
    if r < 0.40:
        return '%s (%s)' % (rng.choice(['next', 'X', 's_next', 'prev', 'Y', 's_prev']), sub())
    if r < 0.50:
        return '%s (%s)' % (rng.choice(['not', '!']), sub())
    if r < 0.57:
        return '%s(%s)' % (rng.choice(['rise', 'fall', 'abs', 'abs']), sub())
    if r < 0.57 + wild:
        o = rng.choice(['until', 'since'])
        iv = rand_interval(rng, pm) if stl and rng.random() < 0.5 else ''
        return '(%s) %s%s (%s)' % (sub(), o, iv, sub())
    if r < 0.60 + wild:
        return '%s(%s)' % (rng.choice(['exp', '-']), sub()) if rng.random() < 0.7 else 'pow(%s, %s)' % (sub(), rng.choice(['1', '2']))
    o = rng.choice(['and', 'and', 'or', 'or', 'implies', '->', 'iff', 'xor', '+', '-', '*', '<=', '>='])
    a, b = sub(), sub()
    if rng.random() < 0.2:
        b = a
    return '(%s) %s (%s)' % (a, o, b)


def new_spec(kind, text, unit, period):
    if kind == 'ltl':
        from rtamt.syntax.ast.parser.ltl.specification_parser import LtlAst
        from rtamt.spec.abstract_specification import AbstractOfflineSpecification
        from rtamt.semantics.stl.discrete_time.offline.interpreter import StlDiscreteTimeOfflineInterpreter
        from rtamt.explanation.ltl.discrete_time.explainer import LTLExplainer
        spec = AbstractOfflineSpecification(LtlAst(), StlDiscreteTimeOfflineInterpreter(), explainer=LTLExplainer())
    else:
        spec = rtamt.StlDiscreteTimeOfflineSpecification()
    for v in 'xyz':
        spec.declare_var(v, 'float')
    if kind != 'ltl':
        spec.unit = unit
    spec.set_sampling_period(period[0], period[1], 0.1)
    spec.spec = text
    spec.parse()
    return spec


def sign(v):
    assert not (isinstance(v, float) and math.isnan(v))
    return 1 if v > 0 else (0 if v == 0 else -1)


def coq_ivs(l):
    return '[%s]' % '; '.join('(%d, %d)%%nat' % (b, e) for b, e in l)


def main():
    rng = random.Random(SEED)
    cases = []
    stats = {'stl': 0, 'ltl': 0, 'rejected_by_parser': 0, 'evaluate_failed': 0, 'satisfied': 0, 'violated': 0, 'raises': 0, 'other_exception': 0,
             'max_nodes': 0, 'max_len': 0}
    while len(cases) < N:
        kind = rng.choice(['stl'] * 8 + ['ltl', 'ltl'])
        pm = rng.choice([1000, 500, 2000, 250, 1])
        period = (pm, 'ms') if kind != 'ltl' else (1, 's')
        unit = rng.choice(['s', 'ms', 'us'])
        wild = 0.0 if rng.random() < 0.85 else 0.08
        lines, subs = [], []
        depth = rng.randint(1, 5)
        text = 'out = %s;' % rand_expr(rng, depth, kind != 'ltl', pm, wild)
        if rng.random() < 0.15:
            text = 'first = %s;\n' % rand_expr(rng, 2, kind != 'ltl', pm, 0.0) + text
        n = rng.choice([1, 1, 2, 3, 4, 5, 6, 8, 12])
        # force a violated top more often: the interesting runs
        try:
            spec = new_spec(kind, text, unit, period)
        except rtamt.RTAMTException:
            stats['rejected_by_parser'] += 1
            continue
        step = Fraction(period[0]) * {'s': 1, 'ms': Fraction(1, 1000)}[period[1]]
        data = {'time': [float(i * step) for i in range(n)]}
        for v in 'xyz':
            data[v] = [float(rng.randint(-3, 3)) for _ in range(n)]
        try:
            spec.evaluate(data)
        except Exception:  # noqa
            stats['evaluate_failed'] += 1
            continue
        ast = spec.ast
        root = ast.specs[-1]
        try:
            table = {}
            for nd in subnodes(root):
                sig = [sign(v) for v in ast.results[nd]]
                if nd.name in table:
                    assert table[nd.name] == sig
                table[nd.name] = sig
        except (AssertionError, KeyError, TypeError):
            stats['evaluate_failed'] += 1
            continue
        try:
            spec.explain()
            ex = spec.explainer.explanations
            exp = [(k, [list(x) for x in v]) for k, v in ex.items() if isinstance(k, str)]
            if exp:
                stats['violated'] += 1
            else:
                if rng.random() < 0.8:
                    continue          # most satisfied runs are dropped: nothing is explained
                stats['satisfied'] += 1
        except rtamt.RTAMTException:
            exp = None
            stats['raises'] += 1
        except Exception as e:  # noqa
            exp = None
            stats['other_exception'] += 1
            sys.stderr.write('explain() raised %r on %s\n' % (e, text))
        if kind == 'ltl':
            du, per, pu = 's', 1, 's'
        else:
            du, per, pu = ast.unit, int(Fraction(str(ast.sampling_period))), ast.sampling_period_unit
        stats[kind] += 1
        stats['max_nodes'] = max(stats['max_nodes'], len(table))
        stats['max_len'] = max(stats['max_len'], n)
        cases.append((kind, du, per, pu, dump(root), table, exp, text))
    with open(OUT, 'w') as f:
        f.write('(* GENERATED by harness/explainergen_check.py: %d cases (seed %d): %s *)\n' % (len(cases), SEED, stats))
        f.write('From Coq Require Import List Bool ZArith QArith String.\n'
                'From RV Require Import Val Syntax PySem Units NodeName Explain PyExplain ExtZ ExplainGen.\n'
                'Import ListNotations.\nLocal Open Scope string_scope.\n\n'
                'Definition mkb (n : N) (d : positive) (u : option tunit) : bound := {| bnum := n; bden := d; bunit := u |}.\n'
                'Definition sg (z : Z) : @V ExtZVal := Fin z.\n'
                'Fixpoint lookup (t : list (string * list Z)) (s : string) : list (@V ExtZVal) :=\n'
                '  match t with [] => [] | (k, v) :: r => if String.eqb k s then map sg v else lookup r s end.\n'
                'Definition ivl_eqb (a b : ivl) : bool := Nat.eqb (fst a) (fst b) && Nat.eqb (snd a) (snd b).\n'
                'Fixpoint list_eqb {A} (eq : A -> A -> bool) (a b : list A) : bool :=\n'
                '  match a, b with [] , [] => true | x :: r, y :: s => eq x y && list_eqb eq r s | _, _ => false end.\n'
                'Definition names_only (d : edict) : list (string * list ivl) :=\n'
                '  flat_map (fun kv => match fst kv with KName s => [(s, snd kv)] | KO _ => [] end) d.\n'
                'Definition entry_eqb (a b : string * list ivl) : bool := String.eqb (fst a) (fst b) && list_eqb ivl_eqb (snd a) (snd b).\n'
                'Definition check (kind : nat) (du : tunit) (p : Z) (pu : tunit) (n : node) (t : list (string * list Z))\n'
                '                 (e : option (list (string * list ivl))) : bool :=\n'
                '  let res := fun nd => lookup t (nname nd) in\n'
                '  let got := match kind with 0%nat => gen_stl_explain ExtZArith res du p pu [n] | _ => gen_ltl_explain ExtZArith res [n] end in\n'
                '  match option_map names_only got, e with\n'
                '  | Some a, Some b => list_eqb entry_eqb a b | None, None => true | _, _ => false end.\n\n')
        for k, (kind, du, per, pu, root, table, exp, text) in enumerate(cases):
            tt = '[%s]' % '; '.join('(%s, [%s]%%Z)' % (cstr(nm), '; '.join(str(z) if z >= 0 else '(%d)' % z for z in sg)) for nm, sg in table.items())
            ee = 'None' if exp is None else '(Some [%s])' % '; '.join('(%s, %s)' % (cstr(nm), coq_ivs(iv)) for nm, iv in exp)
            f.write('Definition c%d : bool := check %d %s %d %s\n  %s\n  %s\n  %s.\n' % (k, 0 if kind == 'stl' else 1, TU[du], per, TU[pu], root, tt, ee))
        f.write('\nDefinition results : list (nat * bool) := [%s].\n' % '; '.join('(%d%%nat, c%d)' % (k, k) for k in range(len(cases))))
        f.write('Definition failing : list nat := map fst (filter (fun r => negb (snd r)) results).\n'
                'Lemma explainergen_cases_agree : failing = []. Proof. vm_compute. reflexivity. Qed.\n')
    print('explainergen_check: %d cases written to %s: %s' % (len(cases), OUT, stats))
    with open(OUT + '.txt', 'w') as f:
        for k, c in enumerate(cases):
            f.write('c%d %s du=%s period=%s%s\n%s\n' % (k, c[0], c[1], c[2], c[3], c[7]))


if __name__ == '__main__':
    main()
