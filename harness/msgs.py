# msgs.py — a user-defined message type (the ROS-message style rtamt supports: variables that are objects, read and written through fields,
# also nested ones); __slots__ as generated message classes have them: an attribute that is not a field cannot be created
class Inner(object):
    __slots__ = ('v',)

    def __init__(self, v=0.0):
        self.v = v


class Msg(object):
    __slots__ = ('value', 'other', 'inner')

    def __init__(self, value=0.0, other=0.0):
        self.value = value
        self.other = other
        self.inner = Inner(value)

    def __eq__(self, o):
        return isinstance(o, Msg) and (self.value, self.other, self.inner.v) == (o.value, o.other, o.inner.v)

    def __repr__(self):
        return 'Msg(%r)' % (self.value,)
