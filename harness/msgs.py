# msgs.py — a user-defined message type (the ROS-message style rtamt supports: variables that are objects, read and written through fields)
class Msg(object):
    def __init__(self, value=0.0, other=0.0):
        self.value = value
        self.other = other

    def __eq__(self, o):
        return isinstance(o, Msg) and (self.value, self.other) == (o.value, o.other)

    def __repr__(self):
        return 'Msg(%r)' % (self.value,)
