#!/usr/bin/env python3
# harness/denseonlinegen_check.py [--n N] [--seed S] [--gen DenseOnlineGen.v] [--class-file REL=PATH] OUT.v
# Class-level differential check of the GENERATED definitions (DenseOnlineGen.v) against the Python classes they were generated from.
# For every translated class: a fresh object, a sequence of 1..4 update() calls on structured random batches from one seeded PRNG
# (increasing stamps that continue from batch to batch, a batch that repeats the last stamp already sent, empty batches, now and then
# a batch with equal / decreasing stamps, a final stamp inf; values small ints and +-inf where the arithmetic stays exact).
# Expected: the list every call returns and the attributes of __init__ after the last call, or None when a call raises.
# They go into OUT.v as Booleans decided by vm_compute on the instance ExtZ / stamps tz (Z + inf).
# run: PYTHONDONTWRITEBYTECODE=1 PYTHONPATH=/repo /venv/bin/python harness/denseonlinegen_check.py build/DenseOnlineGenCases.v
import copy, importlib, importlib.util, random, re, sys

argv = [a for a in sys.argv[1:] if a != '--class-only']
def opt(name, default):
    if name in argv:
        i = argv.index(name); v = argv[i + 1]; del argv[i:i + 2]; return v
    return default
N, SEED, GEN = int(opt('--n', '150')), int(opt('--seed', '20260926')), opt('--gen', 'coq/theories/DenseOnlineGen.v')
ONLY = opt('--only', None)             # X,Y: only these classes (e.g. OnceTimed,HistoricallyTimed)
CLASSFILE = opt('--class-file', None)      # REL=PATH: a (scratch, modified) copy instead of the installed module REL
OUT = argv[0]
rnd = random.Random(SEED)
INF = float('inf')
gen_text = open(GEN).read()

EXTRA, INITP, FIELDS = {}, {}, {}
classes = []     # (X, rel path, class name, fields [(name, type)], arity)
for m in re.finditer(r'\(\* -+ (\S+) : class (\w+) -+ \*\)\n(.*?)(?=\n\(\* -+ |\nDefinition gen_online_class_count)', gen_text, re.S):
    rel, cname, body = m.group(1), m.group(2), m.group(3)
    X = re.search(r'Definition (\w+)_init ', body).group(1)
    rec = re.search(r'Record %s_state .*?\{ (.*?) \}\.' % X, body)
    fields = [tuple(x.strip().split(' : ')) for x in rec.group(1).split(';')] if rec else []
    fields = [(f[len(X) + 1:], ty) for f, ty in fields]
    upm = re.search(r'Definition gen_%s_update (.*?)\(st : %s_state T\)(.*?) : option' % (X, X), body)
    up = upm.group(2)
    EXTRA[X] = ''.join(a for q, a in (('(tadd :', ' tz_add'), ('(tzero :', ' (T 0)'), ('(tinf :', ' TInf')) if q in upm.group(1))
    INITP[X] = re.findall(r'\(\w+ : ([^()]+)\)', re.search(r'Definition %s_init \{VS : Val\} \(T : Type\)(.*?) : %s_state T' % (X, X), body).group(1))
    FIELDS[X] = fields
    classes.append((X, rel, cname, fields, up.count('psig T')))

def load(rel, cname):
    if CLASSFILE and CLASSFILE.split('=')[0] == rel:
        spec = importlib.util.spec_from_file_location('scratch_' + cname, CLASSFILE.split('=')[1])
        mod = importlib.util.module_from_spec(spec); spec.loader.exec_module(mod)
    else:
        mod = importlib.import_module(rel[:-3].replace('/', '.'))
    return getattr(mod, cname)

def cz(x):
    if x == INF: return 'PosInf'
    if x == -INF: return 'NegInf'
    if isinstance(x, bool): raise ValueError
    if isinstance(x, float):
        if x != x or not x.is_integer(): raise ValueError
        x = int(x)
    return 'Fin (%d)' % x
def ct(t): return 'TInf' if t == INF else 'T (%d)' % t
def cs(s): return '(%s, %s)' % (ct(s[0]), cz(s[1]))
def csig(l): return '[' + '; '.join(cs(s) for s in l) + ']'

FIN = {'Iff', 'Xor', 'Addition', 'Subtraction', 'Multiplication', 'Abs', 'Negate', 'Predicate', 'IAPredicate'}
CMPS = ['CLt', 'CLeq', 'CEq', 'CNeq', 'CGt', 'CGeq']                                              # by StlComparisonOperator.value
SEMS = ['Standard', 'OutputRobustness', 'InputVacuity', 'InputRobustness', 'OutputVacuity']      # in the order of the members of Semantics
def values(X, side, n):
    if X == 'Division': return [2 * rnd.randint(-4, 4) for _ in range(n)] if side == 0 else [rnd.choice([1, -1, 2, -2]) for _ in range(n)]
    if X == 'Pow': return [rnd.randint(-3, 3) for _ in range(n)] if side == 0 else [rnd.randint(0, 3) for _ in range(n)]
    if X == 'Log': return [1] * n if side == 0 else [rnd.randint(2, 5) for _ in range(n)]
    if X == 'Sqrt': return [rnd.choice([0, 1, 4, 9, 16, INF, 1, 4, -1]) for _ in range(n)]
    if X == 'Exp': return [rnd.choice([0, INF, -INF]) for _ in range(n)]
    if X == 'Ln': return [rnd.choice([1, INF, 1, 1, 1, 0, -2, -INF]) for _ in range(n)]
    def v():
        x = rnd.random()
        if X in FIN and not (X in ('Abs', 'Negate') and x < 0.1): return rnd.randint(-6, 6)
        return INF if x < 0.08 else -INF if x < 0.16 else rnd.randint(-4, 4)
    return [v() for _ in range(n)]

def batches(X, side, k):
    """k batches of one operand: stamps continue; sometimes the first stamp repeats the last one sent"""
    out, t, sent = [], rnd.choice([0, 0, 0, 1, 3]), False
    for _ in range(k):
        x = rnd.random()
        n = 0 if x < 0.15 else 1 if x < 0.35 else rnd.randint(2, 5)
        st = []
        for q in range(n):
            if sent and not (q == 0 and rnd.random() < 0.3):        # (otherwise: the first stamp of the batch repeats the last one sent)
                y = rnd.random()
                t += 0 if y < 0.04 else -1 if (y < 0.06 and t > 0) else rnd.randint(1, 3)
            st.append(t)
            sent = True
        if st and rnd.random() < 0.04: st[-1] = INF; t = 10 ** 6
        out.append([[a, b] for a, b in zip(st, values(X, side, n))])
    return out

cases, none_count, dropped, per = [], 0, 0, {}
for X, rel, cname, fields, arity in classes:
    if ONLY and X not in ONLY.split(','): continue
    if CLASSFILE and '--class-only' in sys.argv and rel != CLASSFILE.split('=')[0]: continue
    C = load(rel, cname)
    for _ in range(N):
        k = rnd.randint(1, 4)
        ins = [batches(X, s, k) for s in range(arity)]
        iargs = []
        if INITP[X] == ['Z', 'Z']:        # (begin, end) of a bounded operation
            b0 = rnd.choice([0, 0, 1, 2, 3]); iargs = [b0, b0 + rnd.choice([0, 1, 2, 4])]
        elif INITP[X] == ['V']: iargs = [rnd.choice([INF, -INF, 0, 3, -2])]
        elif INITP[X][:1] == ['cmp']:
            from rtamt.semantics.enumerations.comp_oper import StlComparisonOperator
            from rtamt.semantics.enumerations.options import Semantics
            iargs = [rnd.choice(list(StlComparisonOperator))]
            if INITP[X] == ['cmp', 'semantics', 'list nat', 'list nat']: iargs += [rnd.choice(list(Semantics)), rnd.choice([[], ['x'], []]), rnd.choice([[], ['y', 'z']])]
            elif INITP[X] != ['cmp']: raise SystemExit('unknown __init__ parameters of ' + cname)
        elif INITP[X]: raise SystemExit('unknown __init__ parameters of ' + cname)
        obj, outs, bad = C(*iargs), [], False
        def carg(q, ty):
            if ty == 'Z': return '%d' % q
            if ty == 'V': return cz(q)
            if ty == 'cmp': return CMPS[q.value]
            if ty == 'semantics': return SEMS[list(type(q)).index(q)]
            if ty == 'list nat': return '[%s]' % '; '.join('%d%%nat' % k_ for k_ in range(len(q)))
            raise SystemExit(ty)
        for c in range(k):
            args = [copy.deepcopy(ins[s][c]) for s in range(arity)]
            try:
                r = obj.update(*args)
            except Exception:
                bad = True; break
            if args != [ins[s][c] for s in range(arity)]: raise SystemExit('%s.update modified its argument' % cname)
            outs.append(copy.deepcopy(r))
        try:
            if bad: exp = 'None'
            else:
                st = []
                def walk(o, fl):
                    for f, ty in fl:
                        if f == 'base' and ty.endswith('_state T'): yield from walk(o, FIELDS[ty[:-8]])       # the attributes of the base class
                        elif ty.endswith('_state T'): yield from walk(getattr(o, f), FIELDS[ty[:-8]])
                        else: yield getattr(o, f), ty
                for x, ty in walk(obj, fields):
                    if ty == 'list (ppiece T)': st += ['[' + '; '.join('(%s, %s)' % (ct(q[k_]), cz(q[2])) for q in x) + ']' for k_ in (0, 1)]
                    elif ty == 'xstamp T': st.append('[(T 0, NegInf)]' if x == -INF else '[(%s, Fin 0)]' % ct(x))
                    elif ty in ('Z', 'bool'): st.append('[(T (%d), Fin 0)]' % int(x))
                    elif ty == 'V': st.append('[(T 0, %s)]' % cz(x))
                    elif ty == 'cmp': st.append('[(T (%d), Fin 0)]' % x.value)
                    elif ty == 'semantics': st.append('[(T (%d), Fin 0)]' % list(type(x)).index(x))
                    elif ty == 'list nat': st.append('[(T (%d), Fin 0)]' % len(x))
                    else: st.append(csig(x) if ty == 'psig T' else ('[' + (cs(x) if x else '') + ']') if ty.startswith('option') else '[(T 0, %s)]' % cz(x))
                exp = 'Some ([%s], [%s])' % ('; '.join(csig(o) for o in outs), '; '.join(st))
        except ValueError:
            dropped += 1; continue
        none_count += bad
        per[X] = per.get(X, 0) + 1
        bs = '[%s]' % '; '.join('(%s)' % ', '.join(csig(ins[s][c]) for s in range(arity)) for c in range(k))
        if arity == 0: bs = '[%s]' % '; '.join(['tt'] * k)
        cases.append((X, 'run_%s %s%s' % (X, ''.join('(%s) ' % carg(q, ty_) for q, ty_ in zip(iargs, INITP[X])), bs), exp))

with open(OUT, 'w') as f:
    f.write('(* GENERATED by harness/denseonlinegen_check.py: %d cases (seed %d), %d expect None, %d dropped (NaN / inexact) *)\n'
            % (len(cases), SEED, none_count, dropped))
    f.write('From Coq Require Import List Bool ZArith.\nFrom RV Require Import Val Syntax IA PySem PyDense ExtZ Dense DenseMerge DenseOnlineGen.\nImport ListNotations.\n'
            'Local Open Scope Z_scope.\n'
            'Definition ez_eqb (a b : extz) : bool := match a, b with NegInf, NegInf | PosInf, PosInf => true | Fin x, Fin y => x =? y | _, _ => false end.\n'
            'Definition tz_eqb (a b : tz) : bool := match a, b with TInf, TInf => true | T x, T y => x =? y | _, _ => false end.\n'
            'Definition s_eqb (a b : tz * extz) : bool := tz_eqb (fst a) (fst b) && ez_eqb (snd a) (snd b).\n'
            'Fixpoint l_eqb {A} (e : A -> A -> bool) (a b : list A) : bool := match a, b with [], [] => true | x :: a, y :: b => e x y && l_eqb e a b | _, _ => false end.\n'
            'Definition E := list (tz * extz).\n'
            'Definition r_eqb (a b : option (list E * list E)) : bool := match a, b with None, None => true\n'
            '  | Some (x, u), Some (y, v) => l_eqb (l_eqb s_eqb) x y && l_eqb (l_eqb s_eqb) u v | _, _ => false end.\n'
            'Definition osig (o : option (tz * extz)) : E := match o with Some s => [s] | None => [] end.\n'
            'Fixpoint runs {St B} (upd : St -> B -> option (St * E)) (st : St) (bs : list B) : option (St * list E) :=\n'
            '  match bs with [] => Some (st, []) | b :: r => match upd st b with None => None | Some (st1, o) =>\n'
            '    match runs upd st1 r with None => None | Some (st2, os) => Some (st2, o :: os) end end end.\n')
    f.write('Definition cmp_enc (c : cmp) : Z := match c with CLt => 0 | CLeq => 1 | CEq => 2 | CNeq => 3 | CGt => 4 | CGeq => 5 end.\n'
            'Definition sem_enc (c : semantics) : Z := match c with Standard => 0 | OutputRobustness => 1 | InputVacuity => 2 | InputRobustness => 3 | OutputVacuity => 4 end.\n')
    f.write('Definition tz_add (t : tz) (z : Z) : tz := match t with T x => T (x + z) | TInf => TInf end.\n'
            'Definition xs_enc (x : xstamp tz) : E := match x with XNeg => [(T 0, NegInf)] | XFin t => [(t, Fin 0)] | XPos => [(TInf, Fin 0)] end.\n'
            'Definition pcs_lo (l : list (@ppiece ExtZVal tz)) : E := map (fun p => (pp_lo p, pp_v p)) l.\n'
            'Definition pcs_hi (l : list (@ppiece ExtZVal tz)) : E := map (fun p => (pp_hi p, pp_v p)) l.\n')
    def enc(X, fn, ty, s_='s'):
        a = '%s_%s %s' % (X, fn, s_)
        if ty.endswith('_state T'): return '; '.join(enc(ty[:-8], f2, t2, '(%s)' % a) for f2, t2 in FIELDS[ty[:-8]])
        if ty == 'psig T': return a
        if ty.startswith('option'): return 'osig (%s)' % a
        if ty == 'list (ppiece T)': return 'pcs_lo (%s); pcs_hi (%s)' % (a, a)
        if ty == 'xstamp T': return 'xs_enc (%s)' % a
        if ty == 'Z': return '[(T (%s), Fin 0)]' % a
        if ty == 'cmp': return '[(T (cmp_enc (%s)), Fin 0)]' % a
        if ty == 'semantics': return '[(T (sem_enc (%s)), Fin 0)]' % a
        if ty == 'list nat': return '[(T (Z.of_nat (length (%s))), Fin 0)]' % a
        if ty == 'bool': return '[(T (if %s then 1 else 0), Fin 0)]' % a
        return '[(T 0, %s)]' % a
    for X, rel, cname, fields, arity in classes:
        st = '; '.join(enc(X, fn, ty) for fn, ty in fields)
        upd = ('fun s (b : unit) => @gen_%s_update ExtZVal ExtZArith tz tlt teq%s s' % (X, EXTRA[X])) if arity == 0 else \
              ('fun s b => @gen_%s_update ExtZVal ExtZArith tz tlt teq%s s b' % (X, EXTRA[X])) if arity == 1 else \
              ('fun s (b : E * E) => @gen_%s_update ExtZVal ExtZArith tz tlt teq%s s (fst b) (snd b)' % (X, EXTRA[X]))
        ip = ' '.join('p%d' % q for q in range(len(INITP[X])))
        f.write('Definition run_%s %s bs : option (list E * list E) := match runs (%s) (@%s_init ExtZVal tz %s) bs with None => None | Some (s, os) => Some (os, [%s]) end.\n'
                % (X, ip, upd, X, ip, st))
    CH = 60
    nch = (len(cases) + CH - 1) // CH
    for c in range(nch):
        part = list(enumerate(cases))[c * CH:(c + 1) * CH]
        f.write('Definition checks%d : list (nat * bool) := [\n' % c)
        f.write(';\n'.join('  (%d%%nat, r_eqb (%s) (%s))' % (k, cs_[1], cs_[2]) for k, cs_ in part))
        f.write('\n].\n')
    f.write('Definition failing : list nat := map fst (filter (fun c => negb (snd c)) (%s)).\n' % ' ++ '.join('checks%d' % c for c in range(nch)))
    f.write('Eval vm_compute in failing.\n'
            'Lemma denseonlinegen_cases_agree : failing = []. Proof. vm_compute. reflexivity. Qed.\n')
with open(OUT + '.index', 'w') as f:
    for k, c in enumerate(cases): f.write('%d\t%s\t%s\n' % (k, c[1], c[2]))
print('cases %d none %d dropped %d per-class min %d' % (len(cases), none_count, dropped, min(per.values())))
