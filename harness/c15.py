# c15.py — C15: spelling variants (aliases, separators, parenthesisation,
# omitted ';' / assertion head, LTL front end) and 'unless' sugar denote the
# same monitor; binary operators group according to the grammar's precedence.
import json
from fractions import Fraction
from harness import fml, text
from harness.common import parse_fields
from harness.runner import Check, need_vars, expect_vals


def hexs(s):
    return 'x' + s.encode().hex()


add_unless = fml.add_unless
desugar = fml.desugar


class C15(Check):
    PID = 'C15'
    SHRINK = False
    RULE = ('seeded random formulas (incl. unless / unless[a,b]) rendered in >= 8 spellings each: keyword aliases, "," / ":" separators, minimal, full and '
            'redundant parenthesisation, random white space and comments, omitted final ";" or assertion head, and the LTL front end for untimed formulas; '
            'every spelling must parse (model and implementation) to the AST of the formula (grouping by the precedence table read from StlParser.py), and '
            'all spellings must evaluate to the same offline signal, equal to rho of the desugared formula; a precedence sweep over ordered pairs of binary operators (logical/temporal and arithmetic, grouped left and right); non-trivial = >= 2 binary/prefix operators; '
            'distinct by (formula, spellings)')

    def gen_cases(self, rng, tier):
        text.load_levels()
        cases = []
        nrand = 150 if tier == 'quick' else 2500
        P = ('pred', 'geq', ('var', 0), ('const', 1))
        Q = ('pred', 'leq', ('var', 1), ('const', 2))
        base = [('unless', P, Q), ('unlesst', 1, 2, P, Q), ('and', ('or', P, Q), P), ('or', P, ('and', Q, P)), ('implies', P, ('implies', Q, P)),
                ('implies', ('implies', P, Q), P), ('not', ('and', P, Q)), ('and', ('not', P), Q), ('until', ('since', P, Q), P), ('since', P, ('until', Q, P)),
                ('pred', 'geq', ('a2', 'sub', ('a2', 'sub', ('var', 0), ('var', 1)), ('const', 1)), ('const', 0)),
                ('pred', 'geq', ('a2', 'sub', ('var', 0), ('a2', 'sub', ('var', 1), ('const', 1))), ('const', 0)),
                ('pred', 'geq', ('a2', 'mul', ('a1', 'neg', ('var', 0)), ('var', 1)), ('const', 0)),
                ('pred', 'geq', ('a1', 'neg', ('a2', 'mul', ('var', 0), ('var', 1))), ('const', 0)),
                ('alw', ('and', P, Q)), ('and', ('alw', P), Q), ('xor', ('iff', P, Q), P), ('iff', P, ('xor', Q, P)), ('not', ('not', ('alwt', 0, 1, P))),
                ('evt', 0, 1, ('evt', 1, 2, P)), ('prev', ('next', P)), ('sprev', ('snext', ('once', P)))]
        items = [(f, 2) for f in base]
        # precedence sweep: every ordered pair of binary operators, grouped to the left and to the right; the minimal spelling (no
        # parentheses where the precedence table needs none) reaches the STL front end and, when untimed, the LTL front end
        R = ('pred', 'geq', ('var', 2), ('const', 0))
        logic = ['and', 'or', 'implies', 'iff', 'xor', 'until', 'since', 'unless']
        pairs = [(o1, o2) for o1 in logic for o2 in logic]
        for (o1, o2) in pairs:
            items.append(((o1, P, (o2, Q, R)), 3))
            items.append(((o1, (o2, P, Q), R), 3))
        arith = ['add', 'sub', 'mul', 'div']
        for o1 in arith:
            for o2 in arith:
                if tier != 'quick' or rng.random() < 0.4:
                    # constant divisors only (5 o 2 is never 0): a division by zero is outside the property
                    items.append((('pred', 'geq', ('a2', o1, ('var', 0), ('a2', o2, ('const', 5), ('const', 2))), ('var', 1)), 2))
                    items.append((('pred', 'geq', ('a2', o1, ('a2', o2, ('var', 0), ('const', 5)), ('const', 2)), ('var', 1)), 2))
        for i in range(nrand):
            nv = rng.choice([1, 2, 2, 3])
            g = fml.Gen(rng, nvars=nv, maxb=2, fancy_arith=False, raw_leaf=0.05)
            f = add_unless(rng, g.formula(rng.choice([2, 2, 3, 3, 4])))
            if fml.size(f) > 30:
                continue
            items.append((f, nv))
        for (f, nv) in items:
            nv = need_vars(f, nv)
            n = rng.choice([1, 2, 4, 7])
            untimed = not (fml.ops(f) & (fml.TUN | fml.TBIN))
            variants = []
            for j in range(8):
                style = ['min', 'full', 'extra', 'min', 'extra', 'min', 'min', 'extra'][j]
                r = text.Renderer(rng, style=style, aliases=(j != 0), seps=True, spaces=(j not in (0, 1)), units=(j in (3, 4, 7)))
                head, semi = (j != 5), (j != 6)
                variants.append({'text': r.text(f, head=head, semi=semi), 'fe': 'stl', 'style': style})
            if untimed:
                r = text.Renderer(rng, style='min')
                variants.append({'text': r.text(f), 'fe': 'ltl', 'style': 'min'})
            cases.append({'f': f, 'n': n, 'nv': nv, 'cols': fml.gen_trace(rng, nv, n), 'times': list(range(n)), 'variants': variants})
        return cases

    def load_case(self, c):
        from harness import shrink
        c = dict(c)
        c['f'] = shrink.detuple(c['f'])
        return c

    def model_lines(self, c):
        lines = ['(parse %s s () %s)' % (v['fe'], hexs(v['text'])) for v in c['variants']]
        d = desugar(c['f'])
        lines.append('(off std %s %d %s)' % (fml.to_sx(d), c['n'], fml.trace_sx(c['cols'])))
        return lines

    def impl_cases(self, c):
        data = {'time': c['times']}
        for i in range(c['nv']):
            data[fml.VARS[i]] = list(c['cols'][i])
        out = []
        for v in c['variants']:
            mon = 'discrete-offline' if v['fe'] == 'stl' else 'ltl-discrete'
            out.append({'monitor': mon, 'vars': fml.VARS[:c['nv']], 'spec': v['text'], 'calls': [['ast'], ['evaluate', data]]})
        return out

    def judge(self, c, mlines, ires):
        exp = text.expected(c['f'])
        off = parse_fields(mlines[-1])
        if 'ERROR' in off:
            return 'model-error', mlines[-1]
        rho = json.loads(json.dumps(expect_vals([fml.parse_val(x) for x in off['RHO']]))) if off['EXACT'] == ['1'] else None
        sig0 = None
        for v, ml, i in zip(c['variants'], mlines, ires):
            det = {'text': v['text'], 'front_end': v['fe'], 'style': v['style'], 'expected_ast': json.dumps(exp, default=str)}
            if not ml.startswith('OK '):
                return 'model-vs-spec', dict(det, model=ml[:200], note='the model parser rejects a spelling the renderer produced')
            mast = text.parse_dump(ml[3:].split(' ; ')[-1])
            if mast != exp:
                return 'model-vs-spec', dict(det, model=ml[:300], note='the model parser groups differently from the precedence table')
            if i['setup']['status'] == 'rtamt' and 'Ambiguity ERROR' in i['setup'].get('msg', ''):
                # the ANTLR listener of rtamt rejects some derivable, unparenthesised texts as ambiguous: no result to compare (see DESIGN)
                c['_ambig'] = c.get('_ambig', 0) + 1
                continue
            if i['setup']['status'] != 'ok':
                return 'violation', dict(det, expected='parses', observed=i['setup'])
            a = i['calls'][0]
            if a['status'] != 'ok':
                return 'violation', dict(det, expected='parses', observed=a)
            iast = text.parse_dump(a['value'][-1])
            if iast != exp:
                return 'violation', dict(det, expected='the AST of the formula (grouping by precedence, aliases, sugar)', observed=a['value'][-1])
            e = i['calls'][1]
            if e['status'] != 'ok':
                return 'violation', dict(det, expected='evaluates', observed=e)
            sig = [p[1] for p in e['value']]
            if sig0 is None:
                sig0 = sig
            elif sig != sig0:
                return 'violation', dict(det, expected={'first spelling': sig0}, observed=sig)
            if rho is not None and sig != rho:
                return 'violation', dict(det, expected={'rho of the desugared formula': rho}, observed=sig)
        return 'ok', None

    def nontrivial(self, c):
        return fml.size(c['f']) >= 4

    def features(self, c):
        return sorted(fml.ops(c['f'])) + sorted({v['style'] for v in c['variants']} | {v['fe'] for v in c['variants']})

    def key(self, c):
        return json.dumps([v['text'] for v in c['variants']])

    def describe(self, c):
        return {'spellings': [v['text'] for v in c['variants']][:9], 'data': c['cols']}

    def signature(self, c, detail):
        return {'ops': sorted(fml.ops(c['f'])), 'style': detail.get('style') if isinstance(detail, dict) else None, 'fe': detail.get('front_end') if isinstance(detail, dict) else None}


def main(tier, seed, replay=None):
    return C15().main(tier, seed, replay)
