# c15.py — C15: spelling variants (aliases, separators, parenthesisation,
# omitted ';' / assertion head, LTL front end) and 'unless' sugar denote the
# same monitor; binary operators group according to the grammar's precedence.
import json
from fractions import Fraction
import os
from harness import fml, text, c15_min
from harness.common import parse_fields, Model, DRIVER
from harness.runner import Check, need_vars, expect_vals


def hexs(s):
    return 'x' + s.encode().hex()


add_unless = fml.add_unless
desugar = fml.desugar


class C15(Check):
    PID = 'C15'
    SHRINK = False

    def __init__(self):
        self.min_stats = {k: 0 for k in ('cases', 'with_extra_pairs', 'stl_equal', 'stl_ambiguity_error', 'ltl_equal', 'ltl_ambiguity_error', 'one_pair_removed',
                                         'removed_equal_to_model', 'removed_both_reject', 'removed_ambiguity_error')}
    RULE = ('seeded random formulas (incl. unless / unless[a,b]) rendered in >= 8 spellings each: keyword aliases, "," / ":" separators, minimal, full and '
            'redundant parenthesisation, random white space and comments, omitted final ";" or assertion head, and the LTL front end for untimed formulas; '
            'every spelling must parse (model and implementation) to the AST of the formula (grouping by the precedence table read from StlParser.py), and '
            'all spellings must evaluate to the same offline signal, equal to rho of the desugared formula; a precedence sweep over ordered pairs of binary operators (logical/temporal and arithmetic, grouped left and right); non-trivial = >= 2 binary/prefix operators; '
            'distinct by (formula, spellings); stream "min" (ParserMin.v): seeded random untyped ASTs of the parser model (18 binary / 10 prefix operators anywhere, functions, intervals; '
            'a third with extra pairs at random nodes) rendered by the model with the needed parentheses only (driver command rmin); the text must parse (model; rtamt STL and, '
            'interval-free, LTL class) to the AST it was rendered from; every text with ONE needed pair removed must not parse to that AST in the model, and what rtamt '
            'parses it to must be what the model parses it to; "Ambiguity ERROR" rejections are counted')

    def gen_cases(self, rng, tier):
        text.load_levels()
        cases = []
        nrand = 150 if tier == 'quick' else 2500
        P = ('pred', 'geq', ('var', 0), ('const', 1))
        Q = ('pred', 'leq', ('var', 1), ('const', 2))
        base = [('unless', P, Q), ('unlesst', 1, 2, P, Q), ('and', ('or', P, Q), P), ('or', P, ('and', Q, P)), ('implies', P, ('implies', Q, P)),
                ('implies', ('implies', P, Q), P), ('not', ('and', P, Q)), ('and', ('not', P), Q), ('until', ('since', P, Q), P), ('since', P, ('until', Q, P)),
                ('pred', 'geq', ('a2', 'sub', ('a2', 'sub', ('var', 0), ('var', 1)), ('const', 1)), ('const', 0)),
                ('pred', 'geq', ('a2', 'sub', ('var', 0), ('a2', 'sub', ('var', 1), ('const', 1))), ('const', 0)),
                ('pred', 'geq', ('a2', 'mul', ('a1', 'neg', ('var', 0)), ('var', 1)), ('const', 0)),
                ('pred', 'geq', ('a1', 'neg', ('a2', 'mul', ('var', 0), ('var', 1))), ('const', 0)),
                ('alw', ('and', P, Q)), ('and', ('alw', P), Q), ('xor', ('iff', P, Q), P), ('iff', P, ('xor', Q, P)), ('not', ('not', ('alwt', 0, 1, P))),
                ('evt', 0, 1, ('evt', 1, 2, P)), ('prev', ('next', P)), ('sprev', ('snext', ('once', P)))]
        items = [(f, 2) for f in base]
        # precedence sweep: every ordered pair of binary operators, grouped to the left and to the right; the minimal spelling (no
        # parentheses where the precedence table needs none) reaches the STL front end and, when untimed, the LTL front end
        R = ('pred', 'geq', ('var', 2), ('const', 0))
        logic = ['and', 'or', 'implies', 'iff', 'xor', 'until', 'since', 'unless']
        pairs = [(o1, o2) for o1 in logic for o2 in logic]
        for (o1, o2) in pairs:
            items.append(((o1, P, (o2, Q, R)), 3))
            items.append(((o1, (o2, P, Q), R), 3))
        arith = ['add', 'sub', 'mul', 'div']
        for o1 in arith:
            for o2 in arith:
                if tier != 'quick' or rng.random() < 0.4:
                    # constant divisors only (5 o 2 is never 0): a division by zero is outside the property
                    items.append((('pred', 'geq', ('a2', o1, ('var', 0), ('a2', o2, ('const', 5), ('const', 2))), ('var', 1)), 2))
                    items.append((('pred', 'geq', ('a2', o1, ('a2', o2, ('var', 0), ('const', 5)), ('const', 2)), ('var', 1)), 2))
        for i in range(nrand):
            nv = rng.choice([1, 2, 2, 3])
            g = fml.Gen(rng, nvars=nv, maxb=2, fancy_arith=False, raw_leaf=0.05)
            f = add_unless(rng, g.formula(rng.choice([2, 2, 3, 3, 4])))
            if fml.size(f) > 30:
                continue
            items.append((f, nv))
        for (f, nv) in items:
            nv = need_vars(f, nv)
            n = rng.choice([1, 2, 4, 7])
            untimed = not (fml.ops(f) & (fml.TUN | fml.TBIN))
            variants = []
            for j in range(8):
                style = ['min', 'full', 'extra', 'min', 'extra', 'min', 'min', 'extra'][j]
                r = text.Renderer(rng, style=style, aliases=(j != 0), seps=True, spaces=(j not in (0, 1)), units=(j in (3, 4, 7)))
                head, semi = (j != 5), (j != 6)
                variants.append({'text': r.text(f, head=head, semi=semi), 'fe': 'stl', 'style': style})
            if untimed:
                r = text.Renderer(rng, style='min')
                variants.append({'text': r.text(f), 'fe': 'ltl', 'style': 'min'})
            cases.append({'f': f, 'n': n, 'nv': nv, 'cols': fml.gen_trace(rng, nv, n), 'times': list(range(n)), 'variants': variants})
        return cases + self.gen_min(rng, 300 if tier == 'quick' else 5000)

    # ---- stream "min": the model renders, rtamt and the model parse ----
    def gen_min(self, rng, n):
        if not os.path.exists(DRIVER):
            return []
        raw = []
        for i in range(n):
            sx = c15_min.gen(rng, rng.choice([2, 3, 3, 4, 4, 5]))
            ex = []
            if i % 3 == 2:
                ps = c15_min.paths_of(sx)
                ex = [rng.choice(ps) for _ in range(rng.randint(1, 3))]
            raw.append((sx, ex))
        outs = Model().batch([self.rmin_line(sx, ex) for (sx, ex) in raw])
        cases = []
        for (sx, ex), o in zip(raw, outs):
            f = self.rmin_fields(o)
            if 'TEXT' not in f:
                continue
            cases.append({'stream': 'min', 'sx': sx, 'ex': ex, 'text': c15_min.unhex(f['TEXT']),
                          'drops': [c15_min.unhex(d) for d in f.get('DROPS', '').split()]})
        return cases

    @staticmethod
    def rmin_line(sx, ex):
        return '(rmin (%s) %s)' % (' '.join('(' + ' '.join(map(str, p)) + ')' for p in ex), sx)

    @staticmethod
    def rmin_fields(line):
        return dict((p.split(' ', 1) + [''])[:2] for p in line.split(' | '))

    def min_model_lines(self, c):
        lines = [self.rmin_line(c['sx'], c['ex'])]
        if '[' not in c['text']:
            lines.append('(parse ltl s () %s)' % hexs(c['text'] + ';'))
        return lines + ['(parse stl s () %s)' % hexs(d + ';') for d in c['drops']]

    def min_impl_cases(self, c):
        mk = lambda mon, t: {'monitor': mon, 'vars': list(c15_min.IDS), 'spec': t + ';', 'calls': [['ast']]}
        out = [mk('discrete-offline', c['text'])]
        if '[' not in c['text']:
            out.append(mk('ltl-discrete', c['text']))
        return out + [mk('discrete-offline', d) for d in c['drops']]

    def impl_ast(self, i):
        """('ambig' | 'reject' | 'ok', AST or message) of an implementation result with the single call ast"""
        if i['setup']['status'] == 'rtamt' and 'Ambiguity ERROR' in i['setup'].get('msg', ''):
            return 'ambig', None
        if i['setup']['status'] != 'ok':
            return 'reject', i['setup']
        a = i['calls'][0]
        if a['status'] != 'ok':
            return 'reject', a
        return 'ok', text.parse_dump(a['value'][-1])

    def min_judge(self, c, mlines, ires):
        st = self.min_stats
        f = self.rmin_fields(mlines[0])
        det = {'stream': 'min', 'ast': c['sx'], 'extra_pairs': c['ex'], 'text': c['text']}
        if 'TEXT' not in f or c15_min.unhex(f['TEXT']) != c['text'] or [c15_min.unhex(d) for d in f.get('DROPS', '').split()] != c['drops']:
            return 'model-vs-spec', dict(det, model=mlines[0][:300], note='the stored rendering is not what the model renders now')
        if f.get('WF') != '1' or f.get('AST') in (None, 'NONE'):
            return 'model-vs-spec', dict(det, model=mlines[0][:300], note='generator: the AST is not well formed')
        want = text.parse_dump(f['AST'])
        det['expected_ast'] = f['AST']
        if not f['MODEL'].startswith('OK ') or text.parse_dump(f['MODEL'][3:]) != want:
            return 'model-vs-spec', dict(det, model=f['MODEL'][:300], note='the model does not parse its own rendering back to the AST (C15_roundtrip_min / C15_roundtrip_gen)')
        st['cases'] += 1
        st['with_extra_pairs'] += bool(c['ex'])
        k = 1
        fes = [('stl', ires[0], None)]
        if '[' not in c['text']:
            fes.append(('ltl', ires[1], mlines[1]))
            k = 2
        for fe, i, ml in fes:
            if ml is not None and not (ml.startswith('OK ') and text.parse_dump(ml[3:]) == want):
                return 'model-vs-spec', dict(det, front_end=fe, model=ml[:300], note='the LTL grammar of the model parses the rendering differently')
            kind, v = self.impl_ast(i)
            if kind == 'ambig':
                st[fe + '_ambiguity_error'] += 1
            elif kind == 'reject':
                return 'violation', dict(det, front_end=fe, expected='parses', observed=v)
            elif v != want:
                return 'violation', dict(det, front_end=fe, expected='the AST the text was rendered from', observed=i['calls'][0]['value'][-1])
            else:
                st[fe + '_equal'] += 1
        for d, ml, i in zip(c['drops'], mlines[k:], ires[k:]):
            st['one_pair_removed'] += 1
            mast = text.parse_dump(ml[3:]) if ml.startswith('OK ') else None
            dd = dict(det, one_needed_pair_removed=d)
            if mast == want:
                return 'model-vs-spec', dict(dd, note='the pair was not needed: the model parses the text without it to the same AST')
            kind, v = self.impl_ast(i)
            if kind == 'ambig':
                st['removed_ambiguity_error'] += 1
            elif kind == 'reject':
                if mast is not None:
                    return 'violation', dict(dd, expected={'parses to (model)': ml[:300]}, observed=v)
                st['removed_both_reject'] += 1
            elif v != mast:
                return 'violation', dict(dd, expected={'the parse of the model': ml[:300]}, observed=i['calls'][0]['value'][-1])
            else:
                st['removed_equal_to_model'] += 1
        return 'ok', None

    def min_ops(self, c):
        t = c15_min.tree_of(c['sx'])
        out = set()

        def walk(n):
            if n[0] in ('un', 'bin', 'f1', 'f2'):
                out.add('ast:' + n[1] + ('_t' if n[0] in ('un', 'bin') and n[2] != '-' else ''))
                for x in n[2:]:
                    if isinstance(x, list) and x and x[0] in ('id', 'lit', 'un', 'bin', 'f1', 'f2'):
                        walk(x)
        walk(t)
        return sorted(out)

    def extra_evidence(self):
        return {'stream_min': dict(self.min_stats)}

    def load_case(self, c):
        from harness import shrink
        c = dict(c)
        if c.get('stream') == 'min':
            return c
        c['f'] = shrink.detuple(c['f'])
        return c

    def model_lines(self, c):
        if c.get('stream') == 'min':
            return self.min_model_lines(c)
        lines = ['(parse %s s () %s)' % (v['fe'], hexs(v['text'])) for v in c['variants']]
        d = desugar(c['f'])
        lines.append('(off std %s %d %s)' % (fml.to_sx(d), c['n'], fml.trace_sx(c['cols'])))
        return lines

    def impl_cases(self, c):
        if c.get('stream') == 'min':
            return self.min_impl_cases(c)
        data = {'time': c['times']}
        for i in range(c['nv']):
            data[fml.VARS[i]] = list(c['cols'][i])
        out = []
        for v in c['variants']:
            mon = 'discrete-offline' if v['fe'] == 'stl' else 'ltl-discrete'
            out.append({'monitor': mon, 'vars': fml.VARS[:c['nv']], 'spec': v['text'], 'calls': [['ast'], ['evaluate', data]]})
        return out

    def judge(self, c, mlines, ires):
        if c.get('stream') == 'min':
            return self.min_judge(c, mlines, ires)
        exp = text.expected(c['f'])
        off = parse_fields(mlines[-1])
        if 'ERROR' in off:
            return 'model-error', mlines[-1]
        rho = json.loads(json.dumps(expect_vals([fml.parse_val(x) for x in off['RHO']]))) if off['EXACT'] == ['1'] else None
        sig0 = None
        for v, ml, i in zip(c['variants'], mlines, ires):
            det = {'text': v['text'], 'front_end': v['fe'], 'style': v['style'], 'expected_ast': json.dumps(exp, default=str)}
            if not ml.startswith('OK '):
                return 'model-vs-spec', dict(det, model=ml[:200], note='the model parser rejects a spelling the renderer produced')
            mast = text.parse_dump(ml[3:].split(' ; ')[-1])
            if mast != exp:
                return 'model-vs-spec', dict(det, model=ml[:300], note='the model parser groups differently from the precedence table')
            if i['setup']['status'] == 'rtamt' and 'Ambiguity ERROR' in i['setup'].get('msg', ''):
                # the ANTLR listener of rtamt rejects some derivable, unparenthesised texts as ambiguous: no result to compare (see DESIGN)
                c['_ambig'] = c.get('_ambig', 0) + 1
                continue
            if i['setup']['status'] != 'ok':
                return 'violation', dict(det, expected='parses', observed=i['setup'])
            a = i['calls'][0]
            if a['status'] != 'ok':
                return 'violation', dict(det, expected='parses', observed=a)
            iast = text.parse_dump(a['value'][-1])
            if iast != exp:
                return 'violation', dict(det, expected='the AST of the formula (grouping by precedence, aliases, sugar)', observed=a['value'][-1])
            e = i['calls'][1]
            if e['status'] != 'ok':
                return 'violation', dict(det, expected='evaluates', observed=e)
            sig = [p[1] for p in e['value']]
            if sig0 is None:
                sig0 = sig
            elif sig != sig0:
                return 'violation', dict(det, expected={'first spelling': sig0}, observed=sig)
            # (what the signal must BE is C01's subject: a monitor that evaluates every spelling alike, rightly or wrongly, respects the syntax equivalences)
        return 'ok', None

    def nontrivial(self, c):
        if c.get('stream') == 'min':
            return len(c['text'].split()) >= 4
        return fml.size(c['f']) >= 4

    def features(self, c):
        if c.get('stream') == 'min':
            return self.min_ops(c) + ['stream-min'] + (['min-ltl'] if '[' not in c['text'] else [])
        return sorted(fml.ops(c['f'])) + sorted({v['style'] for v in c['variants']} | {v['fe'] for v in c['variants']})

    def key(self, c):
        if c.get('stream') == 'min':
            return json.dumps([c['text'], c['drops']])
        return json.dumps([v['text'] for v in c['variants']])

    def describe(self, c):
        if c.get('stream') == 'min':
            return {'stream': 'min', 'text': c['text'], 'one_needed_pair_removed': c['drops'][:4]}
        return {'spellings': [v['text'] for v in c['variants']][:9], 'data': c['cols']}

    def signature(self, c, detail):
        if c.get('stream') == 'min':
            return {'ops': self.min_ops(c), 'style': 'min-stream', 'fe': detail.get('front_end') if isinstance(detail, dict) else None}
        return {'ops': sorted(fml.ops(c['f'])), 'style': detail.get('style') if isinstance(detail, dict) else None, 'fe': detail.get('front_end') if isinstance(detail, dict) else None}


def main(tier, seed, replay=None):
    return C15().main(tier, seed, replay)
