# harness/denseonlinevisitorgen_check.py [--n N] [--seed S] OUT.v
# Differential check of the GENERATED dense-time online visitors (coq/theories/DenseOnlineVisitorGen.v, written by
# tools/py2coq_denseonlinevisitor.py) against the Python classes they were translated from.  One seeded PRNG makes structured random
# specifications (past temporal operators with and without integer bounds, Boolean, predicates, exact arithmetic, constants as operands,
# repeated sub-formulas and repeated constants, named sub-specifications; some with future / sample operators, which set_ast must reject)
# and integer piecewise-constant data in K batches per variable (some batches empty).  For every case: set_ast (rejection = None), the
# class of the operation object under every node name, K updates (the list returned by each; an exception inside an update = None from
# that update on); the same through gen_dset_ast / gen_drun over ExtZ, compared by vm_compute (`failing = []`).  nan cases are dropped.
# run: PYTHONDONTWRITEBYTECODE=1 PYTHONPATH=/repo /venv/bin/python harness/denseonlinevisitorgen_check.py build/DenseOnlineVisitorGenCases.v
import sys, os, random, re, logging
sys.path.insert(0, os.path.dirname(os.path.abspath(__file__)))
sys.path.insert(0, os.path.dirname(os.path.dirname(os.path.abspath(__file__))))
logging.disable(logging.CRITICAL)
import rtamt
_argv = sys.argv
sys.argv = [a for a in sys.argv if not a.endswith('.v')] + ['/dev/null.v']
from pastifiergen_check import dump, opt
sys.argv = _argv

N, SEED = int(opt('--n', '2000')), int(opt('--seed', '20260926'))
OUT = [a for a in sys.argv[1:] if a.endswith('.v')][0]
GEN = os.path.join(os.path.dirname(os.path.dirname(os.path.abspath(__file__))), 'coq/theories/DenseOnlineVisitorGen.v')

def arith(rng, d):
    if d <= 0 or rng.random() < 0.3:
        return rng.choice(['x', 'y', 'z', 'x', 'y', '1', '2', '3', '0', '7'])
    r = rng.random()
    if r < 0.2: return 'abs(%s)' % arith(rng, d - 1)
    if r < 0.3: return '-(%s)' % arith(rng, d - 1)
    return '(%s) %s (%s)' % (arith(rng, d - 1), rng.choice('+-*'), arith(rng, d - 1))

def itv(rng):
    b = rng.randint(0, 4)
    return '[%d,%d]' % (b, b + rng.randint(0, 4))

def expr(rng, d, subs, fut):
    if d <= 0 or rng.random() < 0.1:
        r = rng.random()
        if r < 0.55: return '(%s) %s (%s)' % (arith(rng, 1), rng.choice(['<=', '<', '>=', '>', '==', '!==']), arith(rng, 1))
        if r < 0.8 or not subs: return arith(rng, 2)
        return rng.choice(subs)
    sub = lambda: expr(rng, d - 1, subs, fut)
    r = rng.random()
    if r < fut:
        o = rng.choice(['always', 'eventually', 'next', 'until', 'always[0,2]', 'eventually[1,2]', 'until[0,3]', 'prev', 'rise', 'fall', 'precedes[1,2]'])
        if o.startswith('until') or o.startswith('precedes'): return '(%s) %s (%s)' % (sub(), o, sub())
        return '%s (%s)' % (o, sub())
    if r < 0.35:
        return '%s%s (%s)' % (rng.choice(['once', 'historically']), itv(rng) if rng.random() < 0.6 else '', sub())
    if r < 0.45:
        return 'not (%s)' % sub()
    if r < 0.62:
        a, b = sub(), sub()
        if rng.random() < 0.2: b = a
        return '(%s) since%s (%s)' % (a, itv(rng) if rng.random() < 0.6 else '', b)
    o = rng.choice(['and', 'or', 'implies', 'iff', 'xor'])
    a, b = sub(), sub()
    if rng.random() < 0.35: b = a            # the same sub-formula twice: the `visited` memo
    return '(%s) %s (%s)' % (a, o, b)

def make_text(rng):
    fut = rng.choice([0, 0, 0, 0, 0.04])
    subs, lines = [], []
    for i in range(rng.choice([0, 0, 1, 2])):
        lines.append('sub%d = %s;' % (i, expr(rng, rng.randint(1, 3), subs, fut)))
        subs.append('sub%d' % i)
    lines.append('out = %s;' % expr(rng, rng.randint(1, 4), subs, fut))
    return '\n'.join(lines)

def new_spec(text):
    spec = rtamt.StlDenseTimeSpecification()
    for v in 'xyz': spec.declare_var(v, 'float')
    spec.unit = 's'
    spec.spec = text
    spec.parse()
    return spec

def val(v):
    if isinstance(v, bool): raise ValueError('bool')
    if v == float('inf'): return 'PosInf'
    if v == -float('inf'): return 'NegInf'
    if v != v: raise ArithmeticError('nan')
    if float(v) != int(v): raise ValueError('not an integer: %r' % v)
    return '(Fin (%d))' % int(v)
def stamp(t):
    if t == float('inf'): return 'TInf'
    if t != t or t == -float('inf') or float(t) != int(t): raise ArithmeticError('stamp %r' % t)
    return '(T (%d))' % int(t)
def sig(l): return '[%s]' % '; '.join('(%s, %s)' % (stamp(s[0]), val(s[1])) for s in l)

def subnodes(n):
    yield n
    for c in n.children:
        for x in subnodes(c): yield x

def batches(rng, K):
    """per variable: K batches of samples with strictly increasing integer stamps, the first at 0; some batches are empty"""
    out = []
    for v in 'xyz':
        t, bs = 0, []
        for k in range(K):
            n = rng.choice([0, 1, 1, 2, 3]) if k else rng.choice([1, 1, 2, 3])
            b = []
            for _ in range(n):
                b.append([t, rng.randint(-5, 5)])
                t += rng.randint(1, 3)
            bs.append(b)
        out.append(bs)
    return out

def main():
    rng = random.Random(SEED)
    gops = re.findall(r'^\| Op_(\w+)( \()?', open(GEN).read(), re.M)
    cases, stats = [], {'rejected_by_parser': 0, 'set_ast_raises': 0, 'nan_dropped': 0, 'updates': 0, 'update_raises': 0, 'memo_hits': 0, 'timed': 0, 'roots': 0, 'nonempty_outputs': 0}
    K = 5
    while len(cases) < N:
        text = make_text(rng)
        try: spec = new_spec(text)
        except rtamt.RTAMTException:
            stats['rejected_by_parser'] += 1; continue
        ast, it = spec.ast, spec.online_interpreter
        roots = [dump(s) for s in ast.specs]
        consts = sorted({str(n.val) for s in ast.specs for n in subnodes(s) if type(n).__name__ == 'Constant'})
        data = batches(rng, K)
        try:
            it.set_ast(ast)
            built = True
        except rtamt.RTAMTException:
            built = False
            stats['set_ast_raises'] += 1
        classes, outs, raised = [], [], False
        if built:
            try:
                names = sorted({n.name for s in ast.specs for n in subnodes(s)})
                classes = [(nm, type(it.online_operator_dict[nm]).__name__ if nm in it.online_operator_dict else '') for nm in names]
                for k in range(K):
                    try:
                        r = it.update([[v, [list(s) for s in data[i][k]]] for i, v in enumerate('xyz')])
                    except ArithmeticError: raise
                    except Exception:
                        raised = True; stats['update_raises'] += 1; break
                    for x in it.updateVisitor.results.values(): sig(x)
                    outs.append(sig(r))
                    stats['nonempty_outputs'] += bool(r)
                    stats['memo_hits'] += len(it.updateVisitor.results) - len(it.updateVisitor.visited)
            except ArithmeticError:
                stats['nan_dropped'] += 1; continue
            stats['updates'] += len(outs)
        stats['timed'] += 'NT' in ''.join(roots)
        stats['roots'] += len(roots)
        cases.append((roots, consts, data, built, classes, outs, raised, text))
    with open(OUT, 'w') as f:
        f.write('(* GENERATED by harness/denseonlinevisitorgen_check.py: %d cases (seed %d): %s *)\n' % (len(cases), SEED, stats))
        f.write('From Coq Require Import List Bool ZArith QArith String.\nFrom RV Require Import Val Syntax Offline ExtZ Units NodeName Dense DenseMerge DenseOnlineGen DenseOnlineVisitorGen.\n'
                'Import ListNotations.\nLocal Open Scope string_scope.\n\n'
                'Definition mkb (n : N) (d : positive) (u : option tunit) : bound := {| bnum := n; bden := d; bunit := u |}.\n'
                '(* DenseTimeInterpreter.time_unit_transformer on integer bounds in the default unit *)\n'
                'Definition tut (b e : bound) : option (Z * Z) := Some (Z.of_N (bnum b), Z.of_N (bnum e)).\n'
                'Definition dgop_name (o : @dgop ExtZVal) : string :=\n  match o with\n%s  end.\n' % ''.join(
                    '  | Op_%s%s => "%s"\n' % (c, ' _' if st else '', c) for c, st in gops))
        f.write('Definition ez_eqb (a b : extz) : bool := ez_leb a b && ez_leb b a.\n'
                'Definition tz_eqb (a b : tz) : bool := match a, b with T x, T y => Z.eqb x y | TInf, TInf => true | _, _ => false end.\n'
                'Fixpoint sig_eqb (a b : list (tz * extz)) : bool := match a, b with [] , [] => true | x :: a, y :: b => tz_eqb (fst x) (fst y) && ez_eqb (snd x) (snd y) && sig_eqb a b | _, _ => false end.\n'
                'Fixpoint sigs_eqb (a b : list (list (tz * extz))) : bool := match a, b with [] , [] => true | x :: a, y :: b => sig_eqb x y && sigs_eqb a b | _, _ => false end.\n'
                'Definition cvals (tbl : list (string * extz)) (t : string) : extz := match find (fun p => String.eqb (fst p) t) tbl with Some p => snd p | None => Fin 0 end.\n'
                '(* var_object_dict[node.var] in the k-th update: data = per variable, per update, the batch; a field is not modelled *)\n'
                'Definition vobjs (data : list (list (list (tz * extz)))) (k : nat) (v f : string) : option (list (tz * extz)) :=\n'
                '  if negb (String.eqb f "") then None else\n'
                '  match nth_error data (if String.eqb v "x" then 0 else if String.eqb v "y" then 1 else if String.eqb v "z" then 2 else 99)%nat with None => None | Some bs => nth_error bs k end.\n'
                'Definition names_ok (d : sdict dgop) (cl : list (string * string)) : bool :=\n'
                '  forallb (fun p => String.eqb (match d (fst p) with Some o => dgop_name o | None => "" end) (snd p)) cl.\n'
                '(* set_ast; the classes; the updates that return; the update that raises (if any) *)\n'
                'Definition check (F : list node) (ct : list (string * extz)) (data : list (list (list (tz * extz))))\n'
                '    (built : bool) (cl : list (string * string)) (outs : list (list (tz * extz))) (raised : bool) : bool :=\n'
                '  match gen_dset_ast tut (cvals ct) F with\n  | None => negb built\n  | Some d0 => built && names_ok d0 cl &&\n'
                '      match gen_drun ExtZArith (vobjs data) F d0 0 (List.length outs) with\n      | None => false\n      | Some (_, o1) => sigs_eqb o1 outs\n      end &&\n'
                '      (if raised then match gen_drun ExtZArith (vobjs data) F d0 0 (S (List.length outs)) with None => true | Some _ => false end else true)\n  end.\n\n')
        for k, (roots, consts, data, built, classes, outs, raised, text) in enumerate(cases):
            f.write('Definition c%d : bool := check\n  [%s]\n  [%s]\n  [%s] %s\n  [%s]\n  [%s] %s.\n' % (
                k, ';\n   '.join(roots), '; '.join('("%s", %s)' % (c, val(float(c))) for c in consts),
                '; '.join('[%s]' % '; '.join(sig(b) for b in bs) for bs in data), 'true' if built else 'false',
                '; '.join('("%s", "%s")' % p for p in classes), '; '.join(outs), 'true' if raised else 'false'))
        f.write('\nDefinition results : list (nat * bool) := [%s].\n' % '; '.join('(%d%%nat, c%d)' % (k, k) for k in range(len(cases))))
        f.write('Definition failing : list nat := map fst (filter (fun r => negb (snd r)) results).\n'
                'Lemma denseonlinevisitorgen_cases_agree : failing = []. Proof. vm_compute. reflexivity. Qed.\n')
    print('denseonlinevisitorgen_check: %d cases written to %s: %s' % (len(cases), OUT, stats))
    with open(OUT + '.txt', 'w') as f:
        for k, c in enumerate(cases): f.write('c%d built=%s raised=%s\n%s\n' % (k, c[3], c[6], c[7]))

if __name__ == '__main__':
    main()
