# units_lift_check.py — correspondence check of UnitsLift.v against rtamt.
#
# Seeded random specifications whose temporal bounds are spelled in random unit notations (literals with / without
# units, one-sided units, declared constants, huge bounds, off-grid bounds, inverted intervals, undeclared constants),
# random default unit and sampling period (integer or float text, any unit).  For each case
#   rtamt : parse(), then one evaluate()/update() of the discrete offline, discrete online, dense offline, dense online
#           monitor with time_unit_transformer wrapped by a logger (the sequence of bounds it returns, or the class of
#           the first exception it raises); for specifications with future operators also pastify() followed by one
#           update() of the discrete online monitor (bounds of the pastified operators, then check_pastified_bounds);
#   model : parse_bounds, normalize_log, normalize_dense of UnitsLift.v and the bounds of pastify (normalize ...),
#           computed by vm_compute in generated .v files (build/units_lift/).
# The two are compared exactly: stage and class of the failure, the order and the values of all converted bounds
# (dense: float(model Fraction) == the float rtamt returns).
#
# usage: PYTHONPATH=/repo python harness/units_lift_check.py [N] [SEED]
import os
import random
import subprocess
import sys
import re
import logging
from fractions import Fraction

logging.disable(logging.CRITICAL)
HERE = os.path.dirname(os.path.abspath(__file__))
ROOT = os.path.dirname(HERE)
U = {'s': 10**9, 'ms': 10**6, 'us': 10**3, 'ns': 1}
CU = {'s': 'US', 'ms': 'UMS', 'us': 'UUS', 'ns': 'UNS'}
MAXSIZE = sys.maxsize
FOVER = 2**1024 - 2**970


def dec(q):
    """exact decimal literal of a non-negative Fraction with a power-of-ten denominator"""
    q = Fraction(q)
    if q.denominator == 1:
        return str(q.numerator)
    k = 0
    while (q * 10**k).denominator != 1:
        k += 1
        assert k < 40
    s = str(int(q * 10**k)).rjust(k + 1, '0')
    return s[:-k] + '.' + s[-k:]


def coq_q(q):
    q = Fraction(q)
    return '(%d # %d)' % (q.numerator, q.denominator)


class Gen(object):
    def __init__(self, rng):
        self.rng = rng

    def settings(self):
        rng = self.rng
        du = rng.choice(list(U))
        pns = rng.choice([10**9, 5 * 10**8, 25 * 10**7, 2 * 10**9, 10**5, 20, 10**6, 333 * 10**5, 166 * 10**5, 41 * 10**8, 67 * 10**6, 1, 3, 7 * 10**3])
        alts = [(pns // U[u], u) for u in U if pns % U[u] == 0]
        for u in U:
            if pns % U[u]:
                x = pns / U[u]
                if Fraction(repr(x)) * U[u] == pns:
                    alts.append((x, u))
        p, pu = rng.choice(alts)
        return du, p, pu, pns

    def spell(self, ns, unit):
        """literal text of ns nanoseconds in the unit (exact), sometimes with an exponent or a trailing zero"""
        q = Fraction(ns, U[unit])
        r = self.rng.random()
        if r < 0.08 and q != 0:
            k = self.rng.choice([1, 2, 3])
            return dec(q / 10**k) + 'e%s%d' % (self.rng.choice(['', '+']), k)
        if r < 0.14:
            k = self.rng.choice([1, 2])
            return dec(q * 10**k) + ('.0' if '.' not in dec(q * 10**k) else '') + 'e-%d' % k
        if r < 0.2 and q.denominator == 1:
            return dec(q) + '.0'
        return dec(q)

    def bound(self, du, pns, ctx):
        """returns (text, coq term of the ubound, coq term with begin 0 for unless)"""
        rng = self.rng
        r = rng.random()
        bk = rng.choice([0, 0, 1, 1, 2, 3])
        ek = bk + rng.choice([0, 0, 1, 2, 3])
        b_ns, e_ns = bk * pns, ek * pns
        if r < 0.12 and pns > 1:                 # off the grid
            d = rng.choice([1, pns // 2, pns - 1])
            w = rng.random()
            if w < 0.35:
                e_ns += d
            elif w < 0.7:
                b_ns += d
                e_ns += d
            else:
                b_ns += d
                e_ns += pns
        elif r < 0.16:                           # inverted interval
            b_ns, e_ns = e_ns + rng.choice([1, pns]), b_ns
        elif r < 0.40 and ctx['big']:            # around sys.maxsize sampling periods / around the float range
            if rng.random() < 0.5:
                e_ns = (MAXSIZE + rng.choice([-2, -1, 0, 1])) * pns
            else:
                e_ns = (FOVER + rng.choice([-1, 0, 1, -2**970])) * U[du]
                if rng.random() < 0.5:
                    b_ns = e_ns
        style = rng.choice(['both', 'both', 'end', 'begin', 'none', 'none'])
        if style == 'none':
            ub = ue = None
            rb = re_ = du
        elif style == 'both':
            ub, ue = rng.choice(list(U)), rng.choice(list(U))
            rb, re_ = ub, ue
        elif style == 'end':
            ub, ue = None, rng.choice(list(U))
            rb = re_ = ue
        else:
            ub, ue = rng.choice(list(U)), None
            rb = re_ = ub
        ends = []
        for (ns, ru, uu) in ((b_ns, rb, ub), (e_ns, re_, ue)):
            q = Fraction(ns, U[ru])
            c = rng.random()
            if c < 0.2:
                if c < 0.015:
                    nm = 'undecl%d' % len(ctx['consts'])
                elif c < 0.03:
                    nm = 'k%d' % len(ctx['consts'])
                    ctx['consts'].append((nm, rng.choice(['inf', 'abc', 'nan', '1e2000']), None))
                elif c < 0.045:
                    nm = 'k%d' % len(ctx['consts'])
                    q = -q - rng.choice([0, 1])
                    ctx['consts'].append((nm, '-' + dec(-q), q))
                else:
                    nm = 'k%d' % len(ctx['consts'])
                    ctx['consts'].append((nm, self.spell(ns, ru), q))
                txt = nm + (' ' + uu if uu else '')
                coq = 'UId "%s"' % nm
            else:
                txt = self.spell(ns, ru) + (uu if uu else '')
                coq = 'ULit %s' % coq_q(q)
            ends.append((txt, coq))
        sep = rng.choice([',', ':'])
        text = '[%s%s%s]' % (ends[0][0], sep, ends[1][0])
        cu = lambda x: 'Some %s' % CU[x] if x else 'None'
        coq = '{| u_b := %s; u_bu := %s; u_e := %s; u_eu := %s |}' % (ends[0][1], cu(ub), ends[1][1], cu(ue))
        return text, coq

    def leaf(self, ctx):
        rng = self.rng
        v = rng.choice([0, 1])
        ctx['used'].add(v)
        c = rng.choice([0, 1, 2, 3])
        op, cop = rng.choice([('>=', 'CGeq'), ('<=', 'CLeq'), ('>', 'CGt'), ('<', 'CLt')])
        return '(%s %s %d)' % ('ab'[v], op, c), '(BBin (OPred %s) (BVar %d) (BConst (Fin %d)))' % (cop, v, c)

    def formula(self, depth, du, pns, ctx):
        rng = self.rng
        if depth == 0 or rng.random() < 0.15:
            return self.leaf(ctx)
        past_t1 = [('once', 'TOnce'), ('historically', 'THist')]
        fut_t1 = [('eventually', 'TEv'), ('always', 'TAlw')]
        r = rng.random()
        if r < 0.35:
            ops = past_t1 + ([] if ctx['past'] else fut_t1)
            t, c = rng.choice(ops)
            ft, fc = self.formula(depth - 1, du, pns, ctx)
            bt, bc = self.bound(du, pns, ctx)
            return '(%s%s %s)' % (t, bt, ft), '(BUnT %s %s %s)' % (c, bc, fc)
        if r < 0.55:
            ops = [('since', 'TSince')] + ([] if ctx['past'] else [('until', 'TUntil'), ('unless', None)])
            t, c = rng.choice(ops)
            ft, fc = self.formula(depth - 1, du, pns, ctx)
            gt, gc = self.formula(depth - 1, du, pns, ctx)
            bt, bc = self.bound(du, pns, ctx)
            if c is None:
                return '(%s unless%s %s)' % (ft, bt, gt), '(unless_t %s %s %s)' % (bc, fc, gc)
            return '(%s %s%s %s)' % (ft, t, bt, gt), '(BBinT %s %s %s %s)' % (c, bc, fc, gc)
        if r < 0.75:
            ops = [('not', 'ONot'), ('once', 'OOnce'), ('historically', 'OHist'), ('prev', 'OPrev'), ('rise', 'ORise')]
            if not ctx['past']:
                ops += [('next', 'ONext')]
            t, c = rng.choice(ops)
            if t in ('prev', 'rise', 'next'):
                ctx['nodense'] = True
            ft, fc = self.formula(depth - 1, du, pns, ctx)
            if t == 'rise':
                return '(rise(%s))' % ft, '(BUn %s %s)' % (c, fc)
            return '(%s %s)' % (t, ft), '(BUn %s %s)' % (c, fc)
        ops = [('and', 'OAnd'), ('or', 'OOr'), ('since', 'OSince'), ('implies', 'OImplies')]
        t, c = rng.choice(ops)
        ft, fc = self.formula(depth - 1, du, pns, ctx)
        gt, gc = self.formula(depth - 1, du, pns, ctx)
        return '(%s %s %s)' % (ft, t, gt), '(BBin %s %s %s)' % (c, fc, gc)

    def case(self):
        rng = self.rng
        du, p, pu, pns = self.settings()
        ctx = {'consts': [], 'used': set(), 'past': rng.random() < 0.6, 'big': rng.random() < 0.25}
        while True:
            ctx['consts'], ctx['used'], ctx['nodense'] = [], set(), False
            text, coq = self.formula(rng.choice([1, 2, 2, 3]), du, pns, ctx)
            if '[' in text:
                break
        return {'du': du, 'p': p, 'pu': pu, 'pns': pns, 'text': text, 'coq': coq, 'consts': ctx['consts'],
                'used': sorted(ctx['used']), 'past': ctx['past'], 'big': ctx['big'], 'nodense': ctx['nodense']}


# ---------------------------------------------------------------- rtamt side

def klass(exc):
    from rtamt.exception.exception import RTAMTException
    return 'rtamt' if isinstance(exc, RTAMTException) else 'crash:' + type(exc).__name__


def post_order_nodes(node, out):
    from rtamt.syntax.node.binary_node import BinaryNode
    n = 2 if isinstance(node, BinaryNode) else (0 if type(node).__name__ in ('Variable', 'Constant') else 1)
    for c in node.children[:n]:
        post_order_nodes(c, out)
    if type(node).__name__.startswith('Timed'):
        out.append(node)


def run_rtamt(c, kind):
    """-> {'parse': 'ok'|class, 'log': [(b, e)...], 'fail': None|class, 'complete': bool}"""
    import rtamt
    spec = {'doff': rtamt.StlDiscreteTimeOfflineSpecification, 'don': rtamt.StlDiscreteTimeOnlineSpecification,
            'eoff': rtamt.StlDenseTimeOfflineSpecification, 'eon': rtamt.StlDenseTimeOnlineSpecification,
            'dpast': rtamt.StlDiscreteTimeOnlineSpecification}[kind]()
    out = {'parse': 'ok', 'log': [], 'fail': None, 'complete': True}
    try:
        spec.unit = c['du']
        if kind[0] == 'd':
            spec.set_sampling_period(c['p'], c['pu'], 0.1)
        spec.declare_var('a', 'float')
        spec.declare_var('b', 'float')
        for (n, t, _) in c['consts']:
            spec.declare_const(n, 'float', t)
        spec.spec = 'out = ' + c['text']
        spec.parse()
    except Exception as exc:  # noqa
        out['parse'] = klass(exc)
        return out
    interp = spec.offline_interpreter if hasattr(spec, 'offline_interpreter') else spec.online_interpreter
    orig = interp.time_unit_transformer
    state = {'fail': None}

    def wrap(node):
        try:
            r = orig(node)
        except Exception as exc:  # noqa
            if state['fail'] is None:
                state['fail'] = klass(exc)
            raise
        if state['fail'] is None:
            out['log'].append(r)
        return r
    if c['big']:
        # bounds of ~2^63 samples: the operators would allocate their windows; call the method on the nodes in visiting order
        nodes = []
        interp.ast = spec.ast
        post_order_nodes(spec.ast.specs[0], nodes)
        try:
            for n in nodes:
                wrap(n)
        except Exception:  # noqa
            pass
        out['fail'] = state['fail']
        return out
    interp.time_unit_transformer = wrap
    names = ['a', 'b']
    try:
        if kind == 'dpast':
            spec.pastify()
        if kind == 'doff':
            data = {'time': [0, 1, 2]}
            for v in (0, 1):
                data[names[v]] = [1.0, 2.0, 0.0]
            spec.evaluate(data)
        elif kind in ('don', 'dpast'):
            spec.update(0, [(names[v], 1.0) for v in c['used']])
        elif kind == 'eoff':
            spec.evaluate(*[[names[v], [[0, 1.0], [1, 2.0], [2, 0.0]]] for v in c['used']])
        else:
            spec.update(*[[names[v], [[0, 1.0], [1, 2.0], [2, 0.0]]] for v in c['used']])
    except Exception as exc:  # noqa
        if state['fail'] is None:
            out['complete'] = False
            out['other'] = klass(exc) + ' ' + str(exc)[:80]
    out['fail'] = state['fail']
    return out


# ---------------------------------------------------------------- model side

PRELUDE = '''From Coq Require Import ZArith QArith List String.
From RV Require Import Val Syntax Offline Pastify Units UnitsLift ExtZ.
Import ListNotations.
Local Open Scope string_scope.
Definition enc_parse (o : outcome (@bformula ExtZVal interval)) : list Z := match o with Ok _ => [0%Z] | Rtamt => [1%Z] | Crash => [2%Z] end.
Definition enc_disc (o : outcome (list (Z * Z))) : list Z :=
  match o with Ok l => 0%Z :: flat_map (fun be => [fst be; snd be]) l | Rtamt => [1%Z] | Crash => [2%Z] end.
Definition enc_dense (o : outcome (@bformula ExtZVal (Q * Q))) : list Z :=
  match o with Ok u => 0%Z :: flat_map (fun be => [Qnum (fst be); Zpos (Qden (fst be)); Qnum (snd be); Zpos (Qden (snd be))]) (bounds u)
             | Rtamt => [1%Z] | Crash => [2%Z] end.
Definition nbounds (p : @formula ExtZVal) : list (Z * Z) := map (fun be => (Z.of_nat (fst be), Z.of_nat (snd be))) (bounds (of_formula p)).
(* after pastify(): the operators of the pastified specification are built, then check_pastified_bounds converts the written bounds *)
Definition past_log (big : bool) (st : settings) (ce : cenv) (u : @uformula ExtZVal) : outcome (list (Z * Z)) :=
  if big then Ok [] else rmap (fun p => nbounds (pastify DelayOnce p (hor p)) ++ nbounds p)%list (normalize st ce u).
Definition run (big : bool) (st : settings) (ce : cenv) (u : @uformula ExtZVal) : list (list Z) :=
  [enc_parse (parse_bounds (s_du st) ce u); enc_disc (normalize_log st ce u); enc_dense (normalize_dense (s_du st) ce u);
   enc_disc (past_log big st ce u)].
'''


def coq_case(c):
    ce = '[' + '; '.join('("%s", %s)' % (n, 'Some %s' % coq_q(q) if q is not None else 'None') for (n, _, q) in c['consts']) + ']'
    st = '{| s_du := %s; s_p := %s; s_pu := %s |}' % (CU[c['du']], coq_q(Fraction(str(c['p']))), CU[c['pu']])
    return 'run %s %s %s %s' % ('true' if c['big'] or c['past'] else 'false', st, ce, c['coq'])


def run_model(cases, tag):
    d = os.path.join(ROOT, 'build', 'units_lift')
    os.makedirs(d, exist_ok=True)
    res = []
    B = 250
    procs = []
    for k in range(0, len(cases), B):
        fn = os.path.join(d, 'cases_%s_%d.v' % (tag, k // B))
        with open(fn, 'w') as f:
            f.write(PRELUDE)
            f.write('Local Open Scope Z_scope.\n')
            for c in cases[k:k + B]:
                f.write('Eval vm_compute in (%s).\n' % coq_case(c))
        procs.append(subprocess.Popen(['timeout', '900', 'coqc', '-Q', os.path.join(ROOT, 'coq', 'theories'), 'RV', fn],
                                      stdout=subprocess.PIPE, stderr=subprocess.STDOUT, text=True, cwd=d))
    for p in procs:
        txt = p.communicate()[0]
        if p.returncode != 0:
            raise RuntimeError('coqc failed: ' + txt[-2000:])
        for chunk in txt.split('     = ')[1:]:
            body = chunk.split('     : ')[0]
            lists = re.findall(r'\[([^\[\]]*)\]', body)
            res.append([[int(x) for x in l.replace('\n', ' ').split(';') if x.strip()] for l in lists])
    assert len(res) == len(cases), (len(res), len(cases))
    return res


def expect(m, kind):
    """what the model says rtamt does for this monitor kind: same record as run_rtamt"""
    parse, disc, dense, past = m
    if kind == 'dpast':
        disc = past
    if parse[0] != 0:
        return {'parse': 'rtamt' if parse[0] == 1 else 'crash', 'log': None, 'fail': None}
    r = disc if kind[0] == 'd' else dense
    if r[0] != 0:
        return {'parse': 'ok', 'log': None, 'fail': 'rtamt' if r[0] == 1 else 'crash'}
    v = r[1:]
    if kind[0] == 'd':
        log = [(v[i], v[i + 1]) for i in range(0, len(v), 2)]
    else:
        log = [(Fraction(v[i], v[i + 1]), Fraction(v[i + 2], v[i + 3])) for i in range(0, len(v), 4)]
    return {'parse': 'ok', 'log': log, 'fail': None}


def main():
    n = int(sys.argv[1]) if len(sys.argv) > 1 else 3000
    seed = int(sys.argv[2]) if len(sys.argv) > 2 else 20260926
    rng = random.Random(seed)
    g = Gen(rng)
    cases = [g.case() for _ in range(n)]
    model = run_model(cases, str(seed))
    stats = {'cases': n, 'compared': 0, 'parse_reject': 0, 'disc_reject': 0, 'dense_reject': 0, 'ok_logs': 0, 'incomplete': 0, 'bounds': 0}
    bad = []
    for c, m in zip(cases, model):
        kinds = ['doff', 'eoff'] + (['don', 'eon'] if c['past'] else [])
        if not c['past'] and not c['big']:
            kinds.append('dpast')
        if c['nodense'] and not c['big']:
            kinds = [k for k in kinds if k[0] == 'd']       # the dense monitors have no prev / next / rise
        for kind in kinds:
            r = run_rtamt(c, kind)
            e = expect(m, kind)
            stats['compared'] += 1
            if r['parse'] != 'ok' or e['parse'] != 'ok':
                stats['parse_reject'] += (kind == 'doff' and r['parse'] != 'ok')
                if r['parse'] != e['parse']:
                    bad.append((kind, c, 'parse', r, e))
                continue
            if r['fail'] is not None or e['fail'] is not None:
                stats['disc_reject' if kind[0] == 'd' else 'dense_reject'] += 1
                stats['reject:' + kind] = stats.get('reject:' + kind, 0) + 1
                if (r['fail'] or 'none').split(':')[0] != (e['fail'] or 'none'):
                    bad.append((kind, c, 'fail', r, e))
                continue
            if not r['complete']:
                stats['incomplete'] += 1
                stats.setdefault('inc:' + kind + ':' + r.get('other', '')[:60], 0)
                stats['inc:' + kind + ':' + r.get('other', '')[:60]] += 1
                if r['log'] != [(float(x), float(y)) if kind[0] == 'e' else (x, y) for x, y in e['log'][:len(r['log'])]]:
                    bad.append((kind, c, 'prefix', r, e))
                continue
            if kind[0] == 'd':
                same = r['log'] == e['log'] and all(type(x) is int and type(y) is int for x, y in r['log'])
            else:
                same = len(r['log']) == len(e['log']) and all(type(a) is float and type(b) is float and a == float(x) and b == float(y)
                                                              for (a, b), (x, y) in zip(r['log'], e['log']))
            stats['ok_logs'] += 1
            stats['ok:' + kind] = stats.get('ok:' + kind, 0) + 1
            stats['bounds:' + kind] = stats.get('bounds:' + kind, 0) + len(r['log'])
            stats['bounds'] += len(r['log'])
            if not same:
                bad.append((kind, c, 'log', r, e))
    print('seed', seed, stats)
    print('disagreements', len(bad))
    for (kind, c, what, r, e) in bad[:10]:
        print('---', kind, what)
        print('  unit', c['du'], 'period', c['p'], c['pu'], 'consts', [(a, b) for a, b, _ in c['consts']])
        print('  spec', c['text'])
        print('  rtamt', r)
        print('  model', e)
    return 1 if bad else 0


if __name__ == '__main__':
    sys.exit(main())
